#!/usr/bin/env python3
"""mkvariant.py <out.diff> <relfile> <old> <new> [<relfile> <old> <new> ...]
Creates a unified diff (git apply -p1 compatible) against /repo's working tree by textual replacement
in a temporary copy of the file(s). Exits non-zero if an <old> string is not found exactly once."""
import sys,subprocess,tempfile,os,shutil
out=sys.argv[1]; args=sys.argv[2:]
assert len(args)%3==0 and args
tmp=tempfile.mkdtemp(prefix='mkv-')
try:
    diffs=[]
    files={}
    for i in range(0,len(args),3):
        rel,old,new=args[i:i+3]
        old=old.encode().decode('unicode_escape'); new=new.encode().decode('unicode_escape')
        s=files.get(rel) or open('/repo/'+rel).read()
        if s.count(old)!=1:
            sys.exit("%s: pattern occurs %d times: %r"%(rel,s.count(old),old))
        files[rel]=s.replace(old,new)
    for rel,s in files.items():
        a=os.path.join(tmp,'a',rel); b=os.path.join(tmp,'b',rel)
        os.makedirs(os.path.dirname(a),exist_ok=True); os.makedirs(os.path.dirname(b),exist_ok=True)
        shutil.copy('/repo/'+rel,a); open(b,'w').write(s)
        p=subprocess.run(['diff','-u','a/'+rel,'b/'+rel],cwd=tmp,capture_output=True,text=True)
        diffs.append(p.stdout)
    open(out,'w').write(''.join(diffs))
finally:
    shutil.rmtree(tmp)
