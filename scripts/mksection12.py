#!/usr/bin/env python3
"""mksection12.py: rewrites the generated part of DESIGN.md §12 (between the markers) from corpus/INDEX.json,
seeded/*/meta.json and scripts/mktable.py's table."""
import json,os,re,subprocess,collections
V=os.path.dirname(os.path.dirname(os.path.abspath(__file__)))
idx=json.load(open(V+'/corpus/INDEX.json'))
kinds=collections.Counter(e['kind'] for e in idx)
table=subprocess.run(['python3',V+'/scripts/mktable.py'],capture_output=True,text=True).stdout
seeds=[e for e in idx if e['kind']=='seeded']
own=[e for e in seeds if e['file'].split('/')[1][:3] in e['fires']]
cross=[e for e in seeds if e['fires'] and e['file'].split('/')[1][:3] not in e['fires']]
missed=[e for e in seeds if not e['fires']]
hand_benign=len([e for e in idx if e['kind']=='benign' and 'agent' not in e['file']])
agent_benign=kinds['benign']-hand_benign
head=subprocess.run(['git','-C','/repo','rev-parse','--short','HEAD'],capture_output=True,text=True).stdout.strip()
txt='''<!-- BEGIN GENERATED §12 (scripts/mksection12.py) -->
`corpus/MATRIX.md` has one row per variant (%d). Summary, as observed with `scripts/matrix.sh`
(= `dverif scan` on a scratch copy with the variant applied) on /repo HEAD %s and recorded in
`corpus/INDEX.json`, which the thorough tier replays (§11.4): %d hand-written breaking variants,
%d reversed fixes, %d sub-agent seeds, %d behaviour-preserving variants that are silent under all
twenty checks (%d hand-written, %d by sub-agents) and %d behaviour-preserving variants on which
some check still raises a false alarm (§13.2).

%s
Reading the table:

* every hand-written breaking variant trips the check of its own property, by the rule in its
  file name; every reversed fix trips the check(s) named in §11.3;
* %d of the %d seeds trip the check of the property the agent was given; %d more are caught, but
  only by the check of the property whose mechanism they actually break (%s);
  %d pass all twenty checks%s;
* no benign variant trips any check (%d × 20 silent); the %d unresolved ones trip only the checks
  listed for them in `corpus/MATRIX.md`.
<!-- END GENERATED §12 -->
'''%(len(idx),head,kinds['breaking'],kinds['regress'],kinds['seeded'],kinds['benign'],hand_benign,agent_benign,kinds['unresolved'],
     table,len(own),len(seeds),len(cross),', '.join('%s → %s'%(e['file'].split('/')[1],'+'.join(e['fires'])) for e in cross),
     len(missed),(' ('+', '.join(e['file'].split('/')[1] for e in missed)+')') if missed else '',kinds['benign'],kinds['unresolved'])
p=V+'/DESIGN.md'; s=open(p).read()
if '<!-- BEGIN GENERATED §12' in s:
    s=re.sub(r'<!-- BEGIN GENERATED §12.*?<!-- END GENERATED §12 -->\n',lambda m:txt,s,flags=re.S)
else:
    i=s.index('`corpus/MATRIX.md` has one row per variant')
    j=s.index('What this table is not: a detection *rate*.')
    s=s[:i]+txt+'\n'+s[j:]
open(p,'w').write(s)
print('section 12 regenerated:',dict(kinds),'own',len(own),'cross',len(cross),'missed',len(missed))
