#!/usr/bin/env python3
"""mkindex.py --matrix <file>... [--hist <file>:<corpus-prefix> ...]
Builds corpus/INDEX.json (read by the thorough-tier corpus stage) from the observed variant x check matrix
(scripts/matrix.sh output; later files override earlier ones) and the intent encoded in the variant names:
  corpus/Cnn-*.diff        breaking: fires = Cnn plus every other check observed firing (cross detection)
  corpus/regress-Dk-*      reverse of a fix: fires = REGRESS[Dk] plus observed
  corpus/benign-*          behaviour preserving: silent = all twenty checks (sub-agents' variants: the property they were
                           written for plus every check they once made alarm; the full cross product is in MATRIX.md)
  corpus/unresolved-*      behaviour preserving, known false alarms: fires = the checks observed firing, silent = the rest
  seeded/Cnn-vk/patch.diff sub-agent change: fires = what was observed
It also refreshes checks_fired in seeded/*/meta.json. Prints what contradicts the intent; never edits checks."""
import sys,json,re,os,glob
V=os.path.dirname(os.path.dirname(os.path.abspath(__file__)))
REGRESS={'D1':['C03','C04'],'D2':['C03','C05'],'D3':['C03'],'D4':['C04'],'D5':['C06'],'D6':['C16'],'D7':['C12'],'D8':['C14'],'D9':['C17'],'D10':['C03'],'D11':['C18'],'K1':['C03'],'D12':['C13'],'D13':['C08'],'D15':['C06'],'D16':['C18']}
def read(mf):
    o={}
    for l in open(mf):
        l=l.strip()
        if not l: continue
        name,_,rest=l.partition(' ')
        o[name]=rest[6:].split() if rest.startswith('FIRED:') else rest
    return o
ALL=['C%02d'%i for i in range(1,21)]
obs={}; hist={}
args=sys.argv[1:]; mode=None
for a in args:
    if a in('--matrix','--hist'): mode=a; continue
    if mode=='--matrix':
        for k,v in read(a).items():
            if k.endswith('/patch.diff') and not k.startswith('seeded/'): k='seeded/'+k
            obs[k]=v
    elif mode=='--hist':
        f,_,prefix=a.partition(':')
        for k,v in read(f).items():
            m=re.match(r'(C\d\d)/(v\d)/patch.diff',k)
            if m and isinstance(v,list):
                hist.setdefault('corpus/%s-%s-%s.diff'%(prefix,m.group(1),m.group(2)),set()).update(v)
idx=[]; problems=[]
try: BMETA=json.load(open(V+'/corpus/benign-agent-meta.json'))
except Exception: BMETA={}
def entry(file,kind,fires,silent): idx.append({'file':file,'kind':kind,'fires':sorted(set(fires)),'silent':sorted(set(silent))})
for f in sorted(glob.glob(V+'/corpus/*.diff')):
    b=os.path.basename(f); key='corpus/'+b; o=obs.get(key)
    if isinstance(o,str): problems.append('%s: %s'%(key,o)); continue
    if o is None: problems.append('%s: not in matrix'%key); o=[]
    if b.startswith('unresolved-'):
        # behaviour preserving, but some checks still raise a false alarm on it (DESIGN §13.2): those are listed
        # under fires (kind "unresolved"), every other check must stay silent
        if not o: problems.append('%s: no longer alarms (rename to benign-)'%key)
        m=re.search(r'(C\d\d)',b)
        entry(key,'unresolved',o,[p for p in ([m.group(1)] if m else []) if p not in o])
    elif b.startswith('benign-'):
        if o: problems.append('%s: ALARM from %s'%(key,o))
        m=re.search(r'(C\d\d)',b)
        # every check must stay quiet on every behaviour-preserving variant: scripts/matrix.sh shows that for the
        # whole cross product (corpus/MATRIX.md). The thorough tier replays, per property, the hand-written ones
        # and of the sub-agents' ones those written for that property or that once made its check alarm.
        silent=ALL
        if b.startswith('benign-agent'):
            meta=BMETA.get(key,{})
            silent=set([m.group(1)] if m else [])|set(meta.get('alarmed_on_arrival') or [])|set(meta.get('false_alarms') or [])|hist.get(key,set())
            if meta.get('property'): silent.add(meta['property'])
        entry(key,'benign',[],silent)
    elif b.startswith('regress-'):
        d=b.split('-')[1]; want=REGRESS[d]
        for w in want:
            if w not in o: problems.append('%s: %s MISSED'%(key,w))
        entry(key,'regress',set(want)|set(o),[])
    else:
        own=b[:3]
        if own not in o: problems.append('%s: %s MISSED (fired: %s)'%(key,own,o))
        entry(key,'breaking',set([own])|set(o),[])
for f in sorted(glob.glob(V+'/seeded/*/patch.diff')):
    name=os.path.basename(os.path.dirname(f)); key='seeded/%s/patch.diff'%name; o=obs.get(key)
    mp=os.path.join(os.path.dirname(f),'meta.json')
    if isinstance(o,str):
        problems.append('%s: %s'%(key,o))
        try:
            m=json.load(open(mp)); m['applies_to_current_tree']=False
            m.setdefault('stale_note','made for an earlier /repo HEAD; the code it patches was rewritten by a later fix: commit (see DESIGN.md §12), so it no longer applies; checks_fired records what fired when it was confirmed')
            json.dump(m,open(mp,'w'),indent=1)
        except Exception as e: problems.append('%s: meta.json: %s'%(key,e))
        entry(key,'seeded',[],[]); continue
    if o is None: problems.append('%s: not in matrix'%key); o=[]
    own=name[:3]
    if own not in o: problems.append('%s: %s silent (fired: %s)'%(key,own,o))
    entry(key,'seeded',o,[])
    try:
        m=json.load(open(mp))
        if m.get('checks_fired')!=o:
            m['checks_fired']=o
            if own in o: m.pop('verifier_note',None)
        m['applies_to_current_tree']=True
        json.dump(m,open(mp,'w'),indent=1)
    except Exception as e: problems.append('%s: meta.json: %s'%(key,e))
json.dump(idx,open(V+'/corpus/INDEX.json','w'),indent=1)
print(len(idx),'entries'); print('\n'.join(problems))
