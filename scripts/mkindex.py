#!/usr/bin/env python3
"""mkindex.py <matrix.txt>... : build corpus/INDEX.json from the observed variant x check matrix (scripts/matrix.sh)
and the intent encoded in the variant names. Later matrix files override earlier ones per variant.
  corpus/Cnn-*.diff      breaking: expected to fire Cnn, plus every other check observed firing (cross detection)
  corpus/regress-Dk-*    reverse of a fix: expected to fire the properties of REGRESS, plus observed
  corpus/benign-*        behaviour preserving: expected silent for the properties in BENIGN (default: all that name it)
  seeded/Cnn-vk/patch.diff  sub-agent change: expected to fire what was observed (own property first)
Prints anything that contradicts the intent (a miss or an alarm on a benign variant); never edits checks."""
import sys,json,re,os,glob
V=os.path.dirname(os.path.dirname(os.path.abspath(__file__)))
REGRESS={'D1':['C03','C04'],'D2':['C03','C05'],'D3':['C03'],'D4':['C04'],'D5':['C06'],'D6':['C16'],'D7':['C12'],'D8':['C14'],'D9':['C17'],'D10':['C03'],'D11':['C18'],'K1':['C03'],'D12':['C13'],'D13':['C08']}
ALL=['C%02d'%i for i in range(1,21)]
obs={}
for mf in sys.argv[1:]:
    for l in open(mf):
        l=l.strip()
        if not l: continue
        name,_,rest=l.partition(' ')
        if name.endswith('/patch.diff') and not name.startswith('seeded/'): name='seeded/'+name
        if rest.startswith('FIRED:'): obs[name]=rest[6:].split()
        else: obs[name]=rest  # NOAPPLY / NOBUILD
idx=[]; problems=[]
def entry(file,kind,fires,silent): idx.append({'file':file,'kind':kind,'fires':sorted(set(fires)),'silent':sorted(set(silent))})
for f in sorted(glob.glob(V+'/corpus/*.diff')):
    b=os.path.basename(f); key='corpus/'+b; o=obs.get(key)
    if isinstance(o,str): problems.append('%s: %s'%(key,o)); continue
    if o is None: problems.append('%s: not in matrix'%key); o=[]
    if b.startswith('benign-'):
        if o: problems.append('%s: ALARM from %s'%(key,o))
        entry(key,'benign',[],ALL)
    elif b.startswith('regress-'):
        d=b.split('-')[1]; want=REGRESS[d]
        for w in want:
            if w not in o: problems.append('%s: %s MISSED'%(key,w))
        entry(key,'regress',set(want)|set(o),[])
    else:
        own=b[:3]
        if own not in o: problems.append('%s: %s MISSED (fired: %s)'%(key,own,o))
        entry(key,'breaking',set([own])|set(o),[])
for f in sorted(glob.glob(V+'/seeded/*/patch.diff')):
    name=os.path.basename(os.path.dirname(f)); key='seeded/%s/patch.diff'%name; o=obs.get(key)
    if isinstance(o,str): problems.append('%s: %s'%(key,o)); continue
    if o is None: problems.append('%s: not in matrix'%key); o=[]
    own=name[:3]
    if own not in o: problems.append('%s: %s MISSED (fired: %s)'%(key,own,o))
    entry(key,'seeded',o,[])
    mp=os.path.join(os.path.dirname(f),'meta.json')
    try:
        m=json.load(open(mp))
        if key in obs and m.get('checks_fired')!=o:
            m['checks_fired']=o
            if own in o: m.pop('verifier_note',None)
            json.dump(m,open(mp,'w'),indent=1)
    except Exception as e: problems.append('%s: meta.json: %s'%(key,e))
json.dump(idx,open(V+'/corpus/INDEX.json','w'),indent=1)
print(len(idx),'entries'); print('\n'.join(problems))
