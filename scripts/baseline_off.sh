#!/bin/bash
# Runs the repository's pinned baseline (guard off: no verif hooks exist in /repo) and compares
# the set of passing tests with /root/.vp/BASELINE.json stable_pass. Exit 0 iff every stable test passes.
export GOFLAGS=-mod=mod GOPROXY=off GOSUMDB=off GOTOOLCHAIN=local GOWORK=off
REPO=${1:-/repo}
OUT=$(mktemp)
(cd "$REPO" && go test -json -vet=off -count=1 -timeout ${BASELINE_TIMEOUT:-25m} ./... > "$OUT" 2>/dev/null)
python3 - "$OUT" <<'PY'
import json,sys
base=json.load(open('/root/.vp/BASELINE.json'))
want=set(base['stable_pass'])
got=set()
for l in open(sys.argv[1]):
    try: e=json.loads(l)
    except Exception: continue
    if e.get('Action')=='pass' and e.get('Test'):
        got.add(e['Package']+'::'+e['Test'])
missing=sorted(want-got)
print("baseline: %d/%d stable tests pass"%(len(want&got),len(want)))
for m in missing: print("MISSING",m)
sys.exit(1 if missing else 0)
PY
rc=$?
rm -f "$OUT"
exit $rc
