#!/bin/bash
# try_variant.sh <diff> <ID> [<ID>...]: applies the diff to a scratch copy of /repo (outside /repo and /verif),
# checks that it builds, runs the named checks against it, prints FIRED/SILENT per check, removes the copy.
# Options: TESTS=1 also runs the pinned baseline against the variant.
export GOFLAGS=-mod=mod GOPROXY=off GOSUMDB=off GOTOOLCHAIN=local GOWORK=off
D=$(readlink -f "$1"); shift
V=$(cd "$(dirname "$0")/.." && pwd)
S=$(mktemp -d /tmp/dv-XXXXXX) || { echo "NOSCRATCH"; exit 5; }
[ -n "$S" ] && [ -d "$S" ] || { echo "NOSCRATCH"; exit 5; }
trap 'rm -rf "$S"' EXIT
rsync -a --exclude .git /repo/ "$S/repo/"
if ! (cd "$S/repo" && patch -p1 -s --no-backup-if-mismatch < "$D"); then echo "NOAPPLY $D"; exit 3; fi
if ! (cd "$S/repo" && go build -trimpath ./... 2>"$S/build.err"); then echo "NOBUILD $D"; head -5 "$S/build.err"; exit 4; fi
if [ -n "$TESTS" ]; then timeout 240 "$V/scripts/baseline_off.sh" "$S/repo" | tail -3; [ ${PIPESTATUS[0]} -eq 124 ] && echo "baseline: TIMEOUT (tests hang)"; fi
rc=0
for id in "$@"; do
  out=$("${DVERIF:-$V/bin/dverif}" check "$id" --repo "$S/repo" --out "$S/ev" -q ${TIER:+--tier $TIER} 2>&1)
  if echo "$out" | grep -q '^VIOLATION'; then
    echo "FIRED  $id $(basename $D): $(echo "$out" | grep '^VIOLATION' | sed -e 's/replay=[^ ]* //' -e "s#$S/repo/##g" | head -${SHOW:-2} | cut -c1-${CUT:-300})"
  else
    echo "SILENT $id $(basename $D) $(echo "$out" | grep -v '^KNOWN' | head -2)"; rc=1
  fi
done
exit $rc
