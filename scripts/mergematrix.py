#!/usr/bin/env python3
"""mergematrix.py <base> <delta> <ids,comma-separated>: rows of <base> (scripts/matrix.sh output) with the verdicts of
the named checks replaced by those of <delta> (a matrix.sh run with DVERIF_SCAN_ONLY=<ids>); rows only in <delta> that
were scanned in full are added by passing them in a third file to mkindex instead. Prints the merged matrix."""
import sys
def read(f):
    o={}
    for l in open(f):
        l=l.rstrip('\n')
        if not l: continue
        name,_,rest=l.partition(' ')
        o[name]=rest
    return o
base,delta,ids=read(sys.argv[1]),read(sys.argv[2]),set(sys.argv[3].split(','))
for name in sorted(base):
    b=base[name]; d=delta.get(name)
    if not b.startswith('FIRED:') or d is None or not d.startswith('FIRED:'):
        print(name,b); continue
    fb=[x for x in b[6:].split() if x not in ids]; fd=[x for x in d[6:].split() if x in ids]
    print(name,'FIRED:'+''.join(' '+x for x in sorted(fb+fd)))
