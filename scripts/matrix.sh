#!/bin/bash
# matrix.sh <out-file> <diff>... : for each variant diff, one scratch copy, all registered checks; prints "<variant> <fired ids...>"
export GOFLAGS=-mod=mod GOPROXY=off GOSUMDB=off GOTOOLCHAIN=local GOWORK=off
V=$(cd "$(dirname "$0")/.." && pwd)
one() {
  D=$(readlink -f "$1"); name=$(basename "$(dirname "$(dirname "$D")")")/$(basename "$(dirname "$D")")/$(basename "$D"); case "$D" in */corpus/*|*/seeded/*) name=$(basename "$(dirname "$D")")/$(basename "$D");; esac
  S=$(mktemp -d /tmp/dvm-XXXXXX)
  rsync -a --exclude .git /repo/ "$S/repo/"
  if ! (cd "$S/repo" && patch -p1 -s --no-backup-if-mismatch < "$D" >/dev/null 2>&1); then echo "$name NOAPPLY"; rm -rf "$S"; return; fi
  if ! (cd "$S/repo" && go build ./... >/dev/null 2>&1); then echo "$name NOBUILD"; rm -rf "$S"; return; fi
  fired=$("${DVERIF:-$V/bin/dverif}" scan --repo "$S/repo" 2>/dev/null | awk '$2=="FIRED"{printf " %s",$1}')
  echo "$name FIRED:$fired"
  rm -rf "$S"
}
export -f one; export V
OUT=$1; shift
printf '%s\n' "$@" | xargs -P ${JOBS:-6} -I{} bash -c 'one {}' > "$OUT"
sort -o "$OUT" "$OUT"
