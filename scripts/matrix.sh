#!/bin/bash
# matrix.sh <out-file> <diff>... : for each variant diff, one scratch copy, all registered checks; prints "<variant> <fired ids...>"
export GOFLAGS=-mod=mod GOPROXY=off GOSUMDB=off GOTOOLCHAIN=local GOWORK=off
V=$(cd "$(dirname "$0")/.." && pwd)
one() {
  D=$(readlink -f "$1"); name=$(basename "$(dirname "$(dirname "$D")")")/$(basename "$(dirname "$D")")/$(basename "$D"); case "$D" in */corpus/*|*/seeded/*) name=$(basename "$(dirname "$D")")/$(basename "$D");; esac
  S=$(mktemp -d /tmp/dvm-XXXXXX) || { echo "$name NOSCRATCH"; return; }
  [ -n "$S" ] && [ -d "$S" ] || { echo "$name NOSCRATCH"; return; }
  rsync -a --exclude .git /repo/ "$S/repo/"
  if ! (cd "$S/repo" && patch -p1 -s --no-backup-if-mismatch < "$D" >/dev/null 2>&1); then echo "$name NOAPPLY"; rm -rf "$S"; return; fi
  if ! (cd "$S/repo" && go build -trimpath ./... >/dev/null 2>&1); then echo "$name NOBUILD"; rm -rf "$S"; return; fi
  scan=$("${DVERIF:-$V/bin/dverif}" scan --repo "$S/repo" 2>/dev/null)
  fired=$(echo "$scan" | awk '$2=="FIRED"{printf " %s",$1}')
  # a check that "fired" because the checker itself panicked is a defect of the checker: listed beside the matrix
  echo "$scan" | awk -v n="$name" '$2=="FIRED" && $3=="panic"{print n, $1}' >> "$PANICS"
  echo "$name FIRED:$fired"
  rm -rf "$S"
}
export -f one; export V
OUT=$1; shift
export PANICS="$OUT.panics"; : > "$PANICS"
# every scratch copy lives in its own directory: -trimpath lets their builds share the Go build cache; should the
# cache have grown large all the same (sub-agents' test binaries), empty it before adding to it
if [ "$(du -sm "$(go env GOCACHE)" 2>/dev/null | cut -f1)" -gt 40000 ] 2>/dev/null; then go clean -cache; fi
printf '%s\n' "$@" | xargs -P ${JOBS:-6} -I{} bash -c 'one {}' > "$OUT"
sort -o "$OUT" "$OUT"
