#!/bin/bash
# recheck.sh <ID>...: for each property, every corpus/<ID>-*.diff and seeded/<ID>-v*/patch.diff must fire <ID>;
# every corpus/benign-*.diff must stay silent. Prints only deviations (MISSED / ALARM) and a count.
V=$(cd "$(dirname "$0")/.." && pwd)
for id in "$@"; do
  n=0; bad=0
  for d in "$V"/corpus/$id-*.diff "$V"/seeded/$id-v*/patch.diff; do
    [ -f "$d" ] || continue; n=$((n+1))
    out=$("$V/scripts/try_variant.sh" "$d" $id 2>&1 | head -1)
    case "$out" in FIRED*) ;; *) echo "MISSED $id ${d#$V/}: $out" | cut -c1-200; bad=$((bad+1));; esac
  done
  for d in "$V"/corpus/benign-*.diff ${BENIGN_EXTRA}; do
    [ -f "$d" ] || continue; n=$((n+1))
    out=$("$V/scripts/try_variant.sh" "$d" $id 2>&1 | head -1)
    case "$out" in SILENT*|NOAPPLY*|NOBUILD*) ;; *) echo "ALARM $id ${d#$V/}: $out" | cut -c1-400; bad=$((bad+1));; esac
  done
  echo "$id: $n variants, $bad deviations"
done
