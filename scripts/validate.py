#!/opt/veriftools/pyvenv/bin/python
import json,sys,glob,jsonschema
jsonschema.validate(json.load(open('/verif/MANIFEST.json')),json.load(open('/root/.vp/MANIFEST.schema.json')))
es=json.load(open('/root/.vp/EVIDENCE.schema.json'))
n=0
for f in sorted(glob.glob('/verif/evidence/*.json')):
    jsonschema.validate(json.load(open(f)),es); n+=1
print("MANIFEST valid; %d evidence files valid"%n)
