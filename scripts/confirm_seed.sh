#!/bin/bash
# confirm_seed.sh <seed-dir> <name> [check ids...]
# Confirms a sub-agent's seeded change in a fresh scratch worktree of /repo (outside /repo and /verif):
#   demo passes on the unchanged tree; with the patch: builds, pinned baseline 140/140, demo fails.
# Then runs the given checks (default: all registered) against the patched tree and records which fire.
# Keeps the seed under /verif/seeded/<name>/ when confirmed. The worktree is removed afterwards.
export GOFLAGS=-mod=mod GOPROXY=off GOSUMDB=off GOTOOLCHAIN=local GOWORK=off
SD=$(readlink -f "$1"); NAME=$2; shift 2
V=$(cd "$(dirname "$0")/.." && pwd)
IDS="$@"; [ -z "$IDS" ] && IDS=$("${DVERIF:-$V/bin/dverif}" list | cut -d' ' -f1)
WT=$(mktemp -d /tmp/cs-XXXXXX) || exit 9; [ -n "$WT" ] || exit 9; rmdir "$WT"
git -C /repo worktree add -q --detach "$WT" HEAD || exit 9
cleanup() { git -C /repo worktree remove --force "$WT" 2>/dev/null; rm -rf "$WT" "$WT.ev"; }
trap cleanup EXIT
LOG="$V/seeded/.log-$NAME.txt"; mkdir -p "$V/seeded"; : > "$LOG"
timeout 600 bash "$SD/demo/run.sh" "$WT" >>"$LOG" 2>&1; rc_clean=$?
(cd "$WT" && git checkout -q -- . && git clean -fdq)
if ! git -C "$WT" apply "$SD/patch.diff" 2>>"$LOG"; then echo "$NAME: PATCH-NOAPPLY"; exit 3; fi
if ! (cd "$WT" && go build -trimpath ./... >>"$LOG" 2>&1); then echo "$NAME: NOBUILD"; exit 4; fi
base=$(timeout 600 "$V/scripts/baseline_off.sh" "$WT" | head -1)
timeout 600 bash "$SD/demo/run.sh" "$WT" >>"$LOG" 2>&1; rc_patched=$?
(cd "$WT" && git clean -fdq -- '*_test.go' '*zz_*' >/dev/null 2>&1; true)
fired=""; silent=""
for id in $IDS; do
  out=$("${DVERIF:-$V/bin/dverif}" check "$id" --repo "$WT" --out "$WT.ev" -q 2>&1)
  if echo "$out" | grep -q '^VIOLATION'; then
    fired="$fired $id"; echo "== $id ==" >>"$LOG"; echo "$out" | grep '^VIOLATION' | sed -e 's/replay=[^ ]* //' | cut -c1-400 >>"$LOG"
  else silent="$silent $id"; fi
done
ok=no
if [ $rc_clean -eq 0 ] && [ $rc_patched -ne 0 ] && echo "$base" | grep -q "140/140"; then ok=yes; fi
echo "$NAME: confirmed=$ok demo_clean_rc=$rc_clean demo_patched_rc=$rc_patched [$base] fired:[$fired ]"
if [ $ok = yes ]; then
  D="$V/seeded/$NAME"; rm -rf "$D"; mkdir -p "$D"; cp -r "$SD/patch.diff" "$SD/demo" "$D/"
  python3 - "$SD/meta.json" "$D/meta.json" "$rc_clean" "$rc_patched" "$base" "$fired" <<'PY'
import json,sys
try: m=json.load(open(sys.argv[1]))
except Exception as e: m={"meta_error":str(e)}
m["confirmed_by_verifier"]={"what_was_run":"fresh scratch worktree of /repo HEAD: demo/run.sh on the unchanged tree; git apply patch.diff; go build ./...; pinned baseline; demo/run.sh again; then the dverif checks against the patched tree",
  "demo_rc_unchanged":int(sys.argv[3]),"demo_rc_with_change":int(sys.argv[4]),"baseline_with_change":sys.argv[5]}
m["checks_fired"]=sys.argv[6].split()
json.dump(m,open(sys.argv[2],"w"),indent=1)
PY
  mv "$LOG" "$D/verifier-log.txt"
fi
