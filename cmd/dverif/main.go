package main

import (
	"fmt"
	"golang.org/x/tools/go/packages"
	"golang.org/x/tools/go/ssa"
	"golang.org/x/tools/go/ssa/ssautil"
	"golang.org/x/tools/go/callgraph/vta"
	"golang.org/x/tools/go/callgraph/cha"
	"golang.org/x/tools/go/cfg"
)

var _ = packages.Load
var _ ssa.Value
var _ = ssautil.AllPackages
var _ = vta.CallGraph
var _ = cha.CallGraph
var _ = cfg.New

func main() { fmt.Println("ok") }
