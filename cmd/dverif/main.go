// dverif: static decision of the C01–C20 properties of fiorix/go-diameter (see /verif/DESIGN.md).
//
//	dverif check <ID> [--tier quick|thorough] [--repo DIR] [--out DIR]
//	dverif explain <replay file>
//	dverif list
package main

import (
	"encoding/json"
	"flag"
	"fmt"
	"os"
	"os/exec"
	"path/filepath"
	"runtime"
	"runtime/debug"
	"sort"
	"strconv"
	"strings"
	"syscall"
	"time"

	"verif/internal/core"
	"verif/internal/prog"
	"verif/internal/rules"
)

var thoroughConfigs = []prog.Config{
	{GOOS: "linux", GOARCH: "amd64"},
	{GOOS: "linux", GOARCH: "386"},
	{GOOS: "linux", GOARCH: "arm64"},
	{GOOS: "darwin", GOARCH: "arm64"},
	{GOOS: "windows", GOARCH: "amd64"},
}

func main() {
	if len(os.Args) < 2 {
		usage()
	}
	switch os.Args[1] {
	case "check":
		os.Exit(cmdCheck(os.Args[2:]))
	case "scan":
		os.Exit(cmdScan(os.Args[2:]))
	case "explain":
		os.Exit(cmdExplain(os.Args[2:]))
	case "manifest":
		os.Exit(cmdManifest())
	case "list":
		for _, id := range rules.All() {
			fmt.Println(id, rules.Get(id).Title)
		}
	default:
		usage()
	}
}

func usage() {
	fmt.Fprintln(os.Stderr, "usage: dverif check <ID> [--tier quick|thorough] [--repo DIR] [--out DIR] | explain <replay> | list")
	os.Exit(2)
}

func verifDir() string {
	if d := os.Getenv("VERIF_DIR"); d != "" {
		return d
	}
	exe, err := os.Executable()
	if err == nil {
		d := filepath.Dir(filepath.Dir(exe))
		if _, err := os.Stat(filepath.Join(d, "MANIFEST.json")); err == nil {
			return d
		}
	}
	wd, _ := os.Getwd()
	return wd
}

func cmdCheck(args []string) int {
	fs := flag.NewFlagSet("check", flag.ExitOnError)
	tier := fs.String("tier", "", "quick|thorough (default $VERIF_TIER or quick)")
	repo := fs.String("repo", "/repo", "repository working tree to analyse")
	out := fs.String("out", "", "evidence directory (default <verif>/evidence)")
	findings := fs.String("findings", "", "known findings file (default <verif>/known_findings.txt)")
	quiet := fs.Bool("q", false, "less output")
	var id string
	if len(args) > 0 && !strings.HasPrefix(args[0], "-") {
		id = args[0]
		args = args[1:]
	}
	fs.Parse(args)
	if id == "" && fs.NArg() > 0 {
		id = fs.Arg(0)
	}
	if *tier == "" {
		*tier = os.Getenv("VERIF_TIER")
	}
	if *tier != "thorough" {
		*tier = "quick"
	}
	vd := verifDir()
	if *out == "" {
		*out = filepath.Join(vd, "evidence")
	}
	if *findings == "" {
		*findings = filepath.Join(vd, "known_findings.txt")
	}
	rs := rules.Get(id)
	if rs == nil {
		fmt.Fprintf(os.Stderr, "unknown property %q\n", id)
		return 2
	}
	seed, _ := strconv.Atoi(os.Getenv("VERIF_SEED"))
	start := time.Now()

	configs := []prog.Config{{GOOS: "linux", GOARCH: "amd64"}}
	depth := 4
	if *tier == "thorough" {
		configs = thoroughConfigs
		depth = 6
	}

	known, err := core.LoadFindings(*findings)
	if err != nil {
		fmt.Printf("VIOLATION property=%s replay=- kind=unanalysable %v\n", id, err)
		return 1
	}

	var all []core.Obligation
	var notes []string
	roles := map[string]string{}
	analysed := []map[string]any{}
	fatal := []string{}
	for _, cfg := range configs {
		res, info, err := runOne(rs, *repo, cfg, *tier, depth)
		if err != nil {
			fatal = append(fatal, fmt.Sprintf("%s: %v", cfg, err))
			continue
		}
		analysed = append(analysed, info)
		all = append(all, res.Obls...)
		for _, n := range res.Notes {
			notes = append(notes, cfg.String()+": "+n)
		}
		for k, v := range res.Roles {
			roles[k] = v
		}
		// vacuity guard
		for rule, min := range rs.MinInstances {
			if res.Counts[rule] < min {
				all = append(all, core.Obligation{Rule: rule, Construct: "rule-instances", At: "-", Status: core.Undecided,
					How:    fmt.Sprintf("rule matched %d constructs, fewer than the %d needed for a non-vacuous verdict (anchor unresolved?)", res.Counts[rule], min),
					Config: cfg.String(), Nontrivial: true})
			}
		}
		runtime.GC()
		debug.FreeOSMemory()
	}
	core.SortObls(all)

	// thorough: replay the seeded-variant corpus against scratch copies (recorded, never part of the verdict)
	var corpus []map[string]any
	if *tier == "thorough" && os.Getenv("VERIF_NO_CORPUS") == "" {
		corpus = runCorpus(vd, *repo, id)
	}

	// verdicts
	violations := 0
	knownHit := 0
	discharged := 0
	distinct := map[string]bool{}
	printed := map[string]bool{}
	if olds, _ := filepath.Glob(filepath.Join(*out, "replay", id+"-*")); olds != nil {
		for _, o := range olds {
			os.Remove(o)
		}
	}
	for _, f := range fatal {
		violations++
		fmt.Printf("VIOLATION property=%s replay=- kind=unanalysable %s\n", id, f)
	}
	for _, o := range all {
		if o.Status == core.Discharged {
			discharged++
			if o.Nontrivial {
				distinct[o.Rule+"|"+o.Construct] = true
			}
			continue
		}
		isKnown := false
		for _, k := range known {
			if k.Property == id && k.Rule == o.Rule && k.Construct == o.Construct {
				isKnown = true
				key := "K|" + k.Rule + "|" + k.Construct
				if !printed[key] {
					printed[key] = true
					fmt.Printf("KNOWN-FINDING: property=%s %s (rule=%s construct=%s at=%s)\n", id, k.Text, o.Rule, o.Construct, o.At)
				}
			}
		}
		if isKnown {
			knownHit++
			continue
		}
		violations++
		rp := core.ReplayPath(*out, id, o)
		core.WriteReplay(rp, id, rs.Rules[o.Rule], o)
		key := "V|" + o.Rule + "|" + o.Construct
		if !printed[key] {
			printed[key] = true
			fmt.Printf("VIOLATION property=%s replay=%s rule=%s construct=%s at=%s status=%s config=%s: %s\n", id, rp, o.Rule, o.Construct, o.At, o.Status, o.Config, o.How)
		}
	}

	// evidence
	samples := sampleObls(all, 14)
	ruleCounts := map[string]int{}
	for _, o := range all {
		ruleCounts[o.Rule]++
	}
	// every distinct (rule, construct) obligation of this run, with the argument that discharged it
	var oblList []map[string]any
	oblIdx := map[string]int{}
	for _, o := range all {
		k := o.Rule + "|" + o.Construct
		if i, ok := oblIdx[k]; ok {
			oblList[i]["configs"] = oblList[i]["configs"].(int) + 1
			if o.Status != core.Discharged {
				oblList[i]["status"] = o.Status
			}
			continue
		}
		how := o.How
		if len(how) > 240 {
			how = how[:240] + "…"
		}
		oblIdx[k] = len(oblList)
		oblList = append(oblList, map[string]any{"rule": o.Rule, "construct": o.Construct, "at": o.At, "status": o.Status, "how": how, "configs": 1})
	}
	var ruleList []string
	for k := range rs.Rules {
		ruleList = append(ruleList, k+": "+rs.Rules[k])
	}
	sort.Strings(ruleList)
	sort.Strings(notes)
	ev := &core.Evidence{
		PropertyID: id, Tier: *tier, Seed: seed, Level: "other",
		Coverage: map[string]any{
			"explanation":         rs.Explanation,
			"obligations":         len(all),
			"discharged":          discharged,
			"evaluations":         len(all),
			"distinct_nontrivial": len(distinct),
			"rule": "an obligation is one (rule, construct, build configuration) instance extracted from the type-checked SSA of /repo's working tree; " +
				"distinct = distinct (rule, construct) pairs; non-trivial = the discharge needed a dominance, path, provenance, lock-set or table argument rather than a constant fact",
			"samples":              samples,
			"obligation_list":      oblList,
			"rules":                ruleList,
			"instances_per_rule":   ruleCounts,
			"known_findings_hit":   knownHit,
			"analysed":             analysed,
			"roles":                roles,
			"notes":                notes,
			"exhaustive":           false,
			"checker_cmd":          "bin/dverif check " + id + " --tier " + *tier,
			"technique":            rs.Technique,
			"undecided_is_failure": true,
			"corpus":               corpus,
		},
		Assumptions: append([]string{
			"go/types, go/ssa and the VTA call graph of golang.org/x/tools v0.29.0 are a faithful model of the source",
			"reflection and fmt-driven String() dispatch are invisible to the call graph; such targets are added to entry sets explicitly",
		}, rs.Assumptions...),
		WallS:      time.Since(start).Seconds(),
		Violations: violations,
	}
	if err := core.WriteEvidence(filepath.Join(*out, id+".json"), ev); err != nil {
		fmt.Printf("VIOLATION property=%s replay=- kind=unanalysable cannot write evidence: %v\n", id, err)
		return 1
	}
	if !*quiet {
		fmt.Printf("%s [%s] %d obligations, %d discharged, %d distinct non-trivial, %d known findings, %d violations, %.1fs\n",
			id, *tier, len(all), discharged, len(distinct), knownHit, violations, time.Since(start).Seconds())
	}
	if violations > 0 {
		return 1
	}
	return 0
}

func runOne(rs *rules.RuleSet, repo string, cfg prog.Config, tier string, depth int) (res *core.Result, info map[string]any, err error) {
	defer func() {
		if r := recover(); r != nil {
			err = fmt.Errorf("checker panic: %v\n%s", r, debug.Stack())
		}
	}()
	p, err := prog.Load(repo, cfg)
	if err != nil {
		return nil, nil, err
	}
	res = core.NewResult(rs.Property, cfg.String())
	ctx := &rules.Ctx{P: p, R: res, Tier: tier, Depth: depth}
	rs.Run(ctx)
	info = map[string]any{
		"config":           cfg.String(),
		"module_packages":  len(p.Pkgs),
		"functions_total":  p.NFuncs,
		"module_functions": len(p.ModuleFuncs()),
	}
	return res, info, nil
}

// runCorpus applies every corpus / seeded variant that concerns property id to a scratch copy of
// the analysed tree (under the system temp dir, removed immediately) and runs this binary's quick
// check on it in a separate process. Result: what fired, compared with the expectation in
// corpus/INDEX.json. A variant that no longer applies is recorded as skipped.
func runCorpus(vd, repo, id string) []map[string]any {
	data, err := os.ReadFile(filepath.Join(vd, "corpus", "INDEX.json"))
	if err != nil {
		return []map[string]any{{"error": "corpus/INDEX.json: " + err.Error()}}
	}
	var idx []struct {
		File   string   `json:"file"`
		Kind   string   `json:"kind"`
		Fires  []string `json:"fires"`
		Silent []string `json:"silent"`
	}
	if err := json.Unmarshal(data, &idx); err != nil {
		return []map[string]any{{"error": "corpus/INDEX.json: " + err.Error()}}
	}
	exe, _ := os.Executable()
	type job struct {
		file, kind string
		wantFire   bool
	}
	var jobs []job
	for _, e := range idx {
		for _, f := range e.Fires {
			if f == id {
				jobs = append(jobs, job{e.File, e.Kind, true})
			}
		}
		for _, f := range e.Silent {
			if f == id {
				jobs = append(jobs, job{e.File, e.Kind, false})
			}
		}
	}
	results := make([]map[string]any, len(jobs))
	sem := make(chan struct{}, 10)
	done := make(chan int)
	for i, j := range jobs {
		go func(i int, j job) {
			sem <- struct{}{}
			release := acquireSlot()
			defer func() { release(); <-sem; done <- i }()
			res := map[string]any{"variant": j.file, "kind": j.kind, "expected": map[bool]string{true: "fires", false: "silent"}[j.wantFire]}
			results[i] = res
			tmp, err := os.MkdirTemp("", "dverif-corpus-")
			if err != nil {
				res["outcome"] = "error: " + err.Error()
				return
			}
			defer os.RemoveAll(tmp)
			scratch := filepath.Join(tmp, "repo")
			if out, err := exec.Command("rsync", "-a", "--exclude", ".git", repo+"/", scratch+"/").CombinedOutput(); err != nil {
				res["outcome"] = "error: copy: " + string(out)
				return
			}
			patch := exec.Command("patch", "-p1", "-s", "--no-backup-if-mismatch", "-i", filepath.Join(vd, j.file))
			patch.Dir = scratch
			if err := patch.Run(); err != nil {
				res["outcome"] = "skipped: no longer applies"
				return
			}
			// the analysis of the copy runs in a child process; on a loaded machine the child can be killed or its
			// package load can fail for lack of memory: an analysis that did not print its summary line, or could
			// not load the copy, is repeated once before anything is concluded from it (a completed analysis has
			// written its evidence file)
			var out []byte
			completed := false
			for attempt := 0; attempt < 2; attempt++ {
				cmd := exec.Command(exe, "check", id, "--tier", "quick", "--repo", scratch, "--out", filepath.Join(tmp, "ev"), "-q")
				cmd.Env = append(os.Environ(), "VERIF_DIR="+vd, "VERIF_TIER=quick")
				evFile := filepath.Join(tmp, "ev", id+".json")
				os.Remove(evFile)
				out, _ = cmd.CombinedOutput()
				if _, err := os.Stat(evFile); err == nil {
					completed = true
					break
				}
			}
			if !completed && !strings.Contains(string(out), "kind=unanalysable") {
				res["outcome"] = "error: the analysis of the copy did not complete"
				return
			}
			var rules []string
			seen := map[string]bool{}
			for _, l := range strings.Split(string(out), "\n") {
				if !strings.HasPrefix(l, "VIOLATION") {
					continue
				}
				for _, f := range strings.Fields(l) {
					if strings.HasPrefix(f, "rule=") && !seen[f] {
						seen[f] = true
						rules = append(rules, strings.TrimPrefix(f, "rule="))
					}
				}
			}
			if strings.Contains(string(out), "kind=unanalysable") {
				res["outcome"] = "skipped: variant no longer builds on this tree"
				return
			}
			fired := len(rules) > 0
			res["fired_rules"] = rules
			if j.kind == "unresolved" && j.wantFire {
				// a behaviour-preserving variant on which this check is known to raise a false alarm (DESIGN §13.2)
				if fired {
					res["outcome"] = "known false alarm: still fires"
				} else {
					res["outcome"] = "known false alarm no longer fires"
				}
				return
			}
			switch {
			case fired == j.wantFire:
				res["outcome"] = "as expected"
			case fired:
				res["outcome"] = "UNEXPECTED ALARM"
			default:
				res["outcome"] = "MISSED"
			}
		}(i, j)
	}
	for range jobs {
		<-done
	}
	return results
}

// acquireSlot bounds the number of variant analyses running at the same time on the machine, across all dverif
// processes (thorough checks of several properties may be started side by side; each analysis holds ≈ 0.8 GB):
// one of twelve lock files under the system temp dir is flock'ed for the duration. Without a usable temp dir
// the per-process bound alone applies.
func acquireSlot() func() {
	dir := filepath.Join(os.TempDir(), "dverif-slots")
	if err := os.MkdirAll(dir, 0o777); err != nil {
		return func() {}
	}
	for {
		opened := false
		for i := 0; i < 12; i++ {
			f, err := os.OpenFile(filepath.Join(dir, strconv.Itoa(i)), os.O_CREATE|os.O_RDWR, 0o666)
			if err != nil {
				continue
			}
			opened = true
			if syscall.Flock(int(f.Fd()), syscall.LOCK_EX|syscall.LOCK_NB) == nil {
				return func() { syscall.Flock(int(f.Fd()), syscall.LOCK_UN); f.Close() }
			}
			f.Close()
		}
		if !opened {
			return func() {}
		}
		time.Sleep(50 * time.Millisecond)
	}
}

func sampleObls(all []core.Obligation, n int) []any {
	// one sample per rule first, then fill
	var out []any
	seen := map[string]bool{}
	add := func(o core.Obligation) {
		out = append(out, map[string]any{"rule": o.Rule, "construct": o.Construct, "at": o.At, "status": o.Status, "how": o.How, "config": o.Config})
	}
	for _, o := range all {
		if !seen[o.Rule] && len(out) < n {
			seen[o.Rule] = true
			add(o)
		}
	}
	for _, o := range all {
		if len(out) >= n {
			break
		}
		if o.Status != core.Discharged {
			add(o)
		}
	}
	if len(out) == 0 {
		out = append(out, "no obligations")
	}
	return out
}

func cmdManifest() int {
	vd := verifDir()
	data, err := os.ReadFile(filepath.Join(vd, "properties.jsonl"))
	if err != nil {
		fmt.Fprintln(os.Stderr, err)
		return 2
	}
	env := "GOFLAGS=-mod=mod GOPROXY=off GOSUMDB=off GOTOOLCHAIN=local GOWORK=off"
	m := map[string]any{
		"version":   1,
		"setup_cmd": env + " go build -o bin/dverif ./cmd/dverif",
		"hooks": map[string]any{
			"guard":            "verif",
			"enable":           "no hooks: every check is a static analysis of /repo's working tree (go/packages + go/ssa); nothing in /repo is instrumented, so the guard is unused",
			"baseline_off_cmd": "./scripts/baseline_off.sh",
			"source_commits":   []string{},
			"add_only":         true,
		},
		"engines": []any{map[string]any{
			"name": "dverif", "path": "cmd/dverif", "serves_properties": rules.All(),
			"kind_free_text": "repository-specific static analyser: go/packages type-checked load of /repo, go/ssa, dominance/path/lock-set/provenance/table rules per property (internal/rules/cNN.go)",
		}},
		"notes": "Static analysis only. Every check rebuilds the SSA program from /repo's current working tree on each run; undecided obligations fail. See DESIGN.md.",
	}
	var checks []any
	var na []any
	for _, line := range strings.Split(string(data), "\n") {
		if strings.TrimSpace(line) == "" {
			continue
		}
		i := strings.Index(line, `"id": "`)
		if i < 0 {
			i = strings.Index(line, `"id":"`)
		}
		rest := line[i:]
		rest = rest[strings.Index(rest, ":")+1:]
		rest = strings.TrimLeft(rest, " \"")
		id := rest[:strings.IndexAny(rest, "\"")]
		rs := rules.Get(id)
		if rs == nil {
			reason := naReasons[id]
			if reason == "" {
				reason = "rule set not built yet (see DESIGN.md §7c implementation order)"
			}
			na = append(na, map[string]any{"property_id": id, "reason": reason})
			continue
		}
		checks = append(checks, map[string]any{
			"property_id":         id,
			"quick_cmd":           "./bin/dverif check " + id + " --tier quick",
			"thorough_cmd":        "./bin/dverif check " + id + " --tier thorough",
			"evidence_file":       "evidence/" + id + ".json",
			"replay_cmd_template": "./bin/dverif explain {path}",
			"engine":              "dverif",
			"level_claimed": map[string]any{
				"category":   "other",
				"text":       rs.Explanation,
				"design_ref": "DESIGN.md §5 " + id,
			},
			"level_note": "Trusted base: go/types + go/ssa (x/tools v0.29.0) model of the source; Go language semantics of defer/recover/go/select; documented contracts of the standard library calls named in the rules. " + strings.Join(rs.Assumptions, "; "),
			"technique":  "static analysis: " + rs.Technique,
		})
	}
	m["checks"] = checks
	if na == nil {
		na = []any{}
	}
	m["not_applicable"] = na
	out, _ := json.MarshalIndent(m, "", " ")
	if err := os.WriteFile(filepath.Join(vd, "MANIFEST.json"), append(out, '\n'), 0o644); err != nil {
		fmt.Fprintln(os.Stderr, err)
		return 2
	}
	fmt.Printf("MANIFEST.json: %d checks, %d not applicable\n", len(checks), len(na))
	return 0
}

// naReasons: properties (or whole rule sets) withdrawn, with the reason.
var naReasons = map[string]string{}

func cmdExplain(args []string) int {
	if len(args) != 1 {
		usage()
	}
	data, err := os.ReadFile(args[0])
	if err != nil {
		fmt.Fprintln(os.Stderr, err)
		return 2
	}
	fmt.Print(string(data))
	// re-run the property's check and show whether the obligation is still reported
	var propID, rule, construct string
	for _, l := range strings.Split(string(data), "\n") {
		switch {
		case strings.HasPrefix(l, "property: "):
			propID = strings.TrimPrefix(l, "property: ")
		case strings.HasPrefix(l, "rule: "):
			rule = strings.TrimPrefix(l, "rule: ")
		case strings.HasPrefix(l, "construct: "):
			construct = strings.TrimPrefix(l, "construct: ")
		}
	}
	rs := rules.Get(propID)
	if rs == nil {
		return 2
	}
	res, _, err := runOne(rs, "/repo", prog.Config{GOOS: "linux", GOARCH: "amd64"}, "quick", 4)
	if err != nil {
		fmt.Println("re-run failed:", err)
		return 1
	}
	for _, o := range res.Obls {
		if o.Rule == rule && o.Construct == construct {
			fmt.Printf("current status on /repo: %s — %s (at %s)\n", o.Status, o.How, o.At)
			if o.Status != core.Discharged {
				return 1
			}
			return 0
		}
	}
	fmt.Println("current status on /repo: obligation no longer exists")
	return 0
}

// cmdScan: development aid — loads the tree once (linux/amd64) and runs every rule set on it, printing one line
// per property: "<ID> ok" or "<ID> FIRED <rules…>". Writes no evidence; exit status 0. Used by scripts/matrix.sh.
func cmdScan(args []string) int {
	fs := flag.NewFlagSet("scan", flag.ExitOnError)
	repo := fs.String("repo", "/repo", "repository working tree to analyse")
	fs.Parse(args)
	cfg := prog.Config{GOOS: "linux", GOARCH: "amd64"}
	p, err := prog.Load(*repo, cfg)
	if err != nil {
		fmt.Printf("ALL UNANALYSABLE %v\n", err)
		return 0
	}
	known, _ := core.LoadFindings(filepath.Join(verifDir(), "known_findings.txt"))
	isKnown := func(id string, o core.Obligation) bool {
		for _, k := range known {
			if k.Property == id && k.Rule == o.Rule && k.Construct == o.Construct {
				return true
			}
		}
		return false
	}
	only := map[string]bool{}
	for _, id := range strings.Split(os.Getenv("DVERIF_SCAN_ONLY"), ",") {
		if id != "" {
			only[id] = true
		}
	}
	for _, id := range rules.All() {
		if len(only) > 0 && !only[id] {
			continue
		}
		rs := rules.Get(id)
		func() {
			defer func() {
				if r := recover(); r != nil {
					fmt.Printf("%s FIRED panic\n", id)
				}
			}()
			res := core.NewResult(rs.Property, cfg.String())
			ctx := &rules.Ctx{P: p, R: res, Tier: "quick", Depth: 4}
			rs.Run(ctx)
			fired := map[string]bool{}
			for _, o := range res.Obls {
				if o.Status != core.Discharged && !isKnown(id, o) {
					fired[o.Rule] = true
				}
			}
			for rule, min := range rs.MinInstances {
				if res.Counts[rule] < min {
					fired[rule+"(vacuous)"] = true
				}
			}
			if len(fired) == 0 {
				fmt.Printf("%s ok\n", id)
				return
			}
			var fl []string
			for k := range fired {
				fl = append(fl, k)
			}
			sort.Strings(fl)
			fmt.Printf("%s FIRED %s\n", id, strings.Join(fl, " "))
		}()
	}
	return 0
}
