package rules

import (
	"fmt"
	"go/token"
	"go/types"
	"os"

	"golang.org/x/tools/go/ssa"

	"verif/internal/cong"
	"verif/internal/flow"
)

// nonNeg is the G-nonneg analysis of DESIGN.md: a sufficient syntactic/inductive argument that
// an integer SSA value is >= 0 on every execution. Function results and struct fields are
// handled by module-wide invariants (every return value / every store is non-negative),
// assumed coinductively on recursion.
type nonNeg struct {
	parMemo map[*ssa.Parameter]int
	c       *Ctx
	fnMemo  map[*ssa.Function]int // 1 yes 2 no 3 in progress
	fldMemo map[string]int        // type.field
	impls   []*ssa.Function       // datatype.Type implementors' methods
	idxMemo map[[2]interface{}]int
}

func (c *Ctx) newNonNeg() *nonNeg {
	_, ms := c.datatypeImplementors()
	return &nonNeg{parMemo: map[*ssa.Parameter]int{}, c: c, fnMemo: map[*ssa.Function]int{}, fldMemo: map[string]int{}, impls: ms}
}

func isUnsigned(t types.Type) bool {
	b, ok := t.Underlying().(*types.Basic)
	return ok && b.Info()&types.IsUnsigned != 0
}

func (n *nonNeg) val(v ssa.Value, depth int) bool {
	if depth > 12 {
		return false
	}
	if isUnsigned(v.Type()) {
		return true
	}
	switch x := v.(type) {
	case *ssa.Const:
		if x.Value == nil {
			return false
		}
		return x.Int64() >= 0
	case *ssa.Convert:
		if isUnsigned(x.X.Type()) {
			return true // assumption: lengths < 2^31 (recorded)
		}
		return n.val(x.X, depth+1)
	case *ssa.ChangeType:
		return n.val(x.X, depth+1)
	case *ssa.Phi:
		for _, e := range x.Edges {
			if e == ssa.Value(x) {
				continue
			}
			// loop-carried: n = phi(0, n + k): assume the phi itself non-negative while checking the edge
			if !n.valAssume(e, x, depth+1) {
				return false
			}
		}
		return true
	case *ssa.BinOp:
		switch x.Op {
		case token.ADD, token.MUL:
			return n.val(x.X, depth+1) && n.val(x.Y, depth+1)
		case token.AND:
			return n.val(x.X, depth+1) || n.val(x.Y, depth+1)
		case token.OR, token.XOR:
			return n.val(x.X, depth+1) && n.val(x.Y, depth+1)
		case token.SHL:
			// a byte (or another value below 2^8) moved up by less than three octets stays below 2^31
			if k, ok := flow.ConstInt(x.Y); ok && k >= 0 && k <= 16 {
				if cv, isConv := x.X.(*ssa.Convert); isConv {
					if bt, isB := cv.X.Type().Underlying().(*types.Basic); isB && (bt.Kind() == types.Uint8 || bt.Kind() == types.Byte) {
						return true
					}
				}
			}
			return false
		case token.REM, token.QUO, token.SHR:
			return n.val(x.X, depth+1) && n.val(x.Y, depth+1)
		case token.SUB:
			// P(x) - x with P a round-up: decide in the congruence domain with x symbolic
			env := &cong.Env{MaxDepth: 3,
				IsSym: func(s ssa.Value) bool { return s == x.Y || sameLenCall(s, x.Y) },
				Callee: func(call *ssa.Call) *ssa.Function {
					g := flow.StaticCallee(call)
					if g == nil || g.Signature.Recv() != nil {
						return nil
					}
					return g
				}}
			if cv, err := env.Eval(x); err == nil && cv.K == 0 && !cv.Div4 {
				for _, t := range cv.T {
					if t < 0 {
						return false
					}
				}
				return n.val(x.Y, depth+1) // the symbolic input itself must be >= 0 for the domain to apply
			}
			return false
		}
		return false
	case *ssa.Call:
		if b, ok := x.Call.Value.(*ssa.Builtin); ok {
			return b.Name() == "len" || b.Name() == "cap" || b.Name() == "copy"
		}
		if x.Call.IsInvoke() {
			// interface method on datatype.Type: all implementors
			if flow.TypeIs(x.Call.Value.Type(), pkgDatatype, "Type") {
				ok := false
				for _, m := range n.impls {
					if m.Name() == x.Call.Method.Name() {
						ok = true
						if !n.fn(m) {
							return false
						}
					}
				}
				return ok
			}
			return false
		}
		if g := flow.StaticCallee(x); g != nil {
			if n.fn(g) {
				return true
			}
			// helper of one integer argument that the congruence domain shows to map non-negative
			// inputs to non-negative outputs (any form of round-up / padding arithmetic)
			if g.Signature.Recv() == nil && len(g.Params) == 1 && len(x.Call.Args) == 1 && n.congNonNeg(g) {
				return n.val(x.Call.Args[0], depth+1)
			}
		}
		return false
	case *ssa.Parameter:
		return n.param(x)
	case *ssa.Extract:
		// (n int, err error) of io reads etc.
		if call, ok := x.Tuple.(*ssa.Call); ok && x.Index > 0 {
			if g := flow.StaticCallee(call); g != nil && g.Blocks != nil && n.c.P.IsLibrary(g) && n.fnIdx(g, x.Index) {
				return true
			}
		}
		if call, ok := x.Tuple.(*ssa.Call); ok && x.Index == 0 {
			o := flow.CalleeObj(call)
			if o != nil && o.Pkg() != nil && (o.Pkg().Path() == "io" || o.Pkg().Path() == "bytes" || o.Pkg().Path() == "net") {
				return true // counts returned by standard readers/writers are >= 0 (contract)
			}
			if g := flow.StaticCallee(call); g != nil && g.Blocks != nil && n.c.P.IsLibrary(g) && n.fnIdx(g, x.Index) {
				return true
			}
			if call.Call.IsInvoke() && (call.Call.Method.Name() == "Read" || call.Call.Method.Name() == "Write" || call.Call.Method.Name() == "ReadAtLeast" || call.Call.Method.Name() == "WriteStream") {
				return true
			}
		}
		return false
	case *ssa.UnOp:
		if x.Op == token.MUL {
			if tn, fld, _, ok := flow.FieldOf(x); ok {
				return n.field(tn, fld)
			}
		}
		return false
	}
	return false
}

func (n *nonNeg) valAssume(v ssa.Value, assumed *ssa.Phi, depth int) bool {
	// evaluate v treating `assumed` as non-negative
	if v == ssa.Value(assumed) {
		return true
	}
	if bo, ok := v.(*ssa.BinOp); ok && bo.Op == token.ADD {
		return n.valAssume(bo.X, assumed, depth+1) && n.valAssume(bo.Y, assumed, depth+1)
	}
	return n.val(v, depth)
}

// fn: every int result (result 0) of g is non-negative.
func (n *nonNeg) fn(g *ssa.Function) bool {
	switch n.fnMemo[g] {
	case 1, 3:
		return true // 3: coinductive assumption on recursion
	case 2:
		return false
	}
	if g.Blocks == nil {
		return false
	}
	n.fnMemo[g] = 3
	ok := true
	for _, rv := range flow.ReturnValues(g, 0) {
		if !n.val(rv, 0) {
			ok = false
			if os.Getenv("DVERIF_DEBUG") != "" {
				fmt.Fprintln(os.Stderr, "nonneg fn", g, rv)
			}
		}
	}
	if ok {
		n.fnMemo[g] = 1
	} else {
		n.fnMemo[g] = 2
	}
	return ok
}

// fnIdx: every value returned as result idx of g is non-negative.
func (n *nonNeg) fnIdx(g *ssa.Function, idx int) bool {
	if idx == 0 {
		return n.fn(g)
	}
	if n.idxMemo == nil {
		n.idxMemo = map[[2]interface{}]int{}
	}
	key := [2]interface{}{g, idx}
	switch n.idxMemo[key] {
	case 1, 3:
		return true
	case 2:
		return false
	}
	if g.Blocks == nil || idx >= g.Signature.Results().Len() {
		return false
	}
	n.idxMemo[key] = 3
	ok := true
	rvs := flow.ReturnValues(g, idx)
	if len(rvs) == 0 {
		ok = false
	}
	for _, rv := range rvs {
		if !n.val(rv, 0) {
			ok = false
		}
	}
	if ok {
		n.idxMemo[key] = 1
	} else {
		n.idxMemo[key] = 2
	}
	return ok
}

// field: every store to T.f in the library stores a non-negative value.
func (n *nonNeg) field(tn, fld string) bool {
	key := tn + "." + fld
	switch n.fldMemo[key] {
	case 1, 3:
		return true
	case 2:
		return false
	}
	n.fldMemo[key] = 3
	ok := true
	stores := 0
	for _, f := range n.c.P.LibraryFuncs() {
		flow.Instrs(f, func(in ssa.Instruction) {
			st, isSt := in.(*ssa.Store)
			if !isSt {
				return
			}
			t2, f2, _, isF := flow.FieldOf(st.Addr)
			if !isF || t2 != tn || f2 != fld {
				return
			}
			stores++
			if !n.val(st.Val, 0) {
				ok = false
				if os.Getenv("DVERIF_DEBUG") != "" {
					fmt.Fprintln(os.Stderr, "nonneg field", key, "store in", f, st.Val)
				}
			}
		})
	}
	if ok {
		n.fldMemo[key] = 1
	} else {
		n.fldMemo[key] = 2
	}
	return ok
}

// param: every library call site passes a non-negative argument (unexported functions only;
// exported functions can be called with anything).
func (n *nonNeg) param(p *ssa.Parameter) bool {
	switch n.parMemo[p] {
	case 1, 3:
		return true
	case 2:
		return false
	}
	f := p.Parent()
	if f.Object() != nil && f.Object().Exported() && f.Signature.Recv() == nil {
		n.parMemo[p] = 2
		return false
	}
	n.parMemo[p] = 3
	idx := -1
	for i, q := range f.Params {
		if q == p {
			idx = i
		}
	}
	ok, sites := true, 0
	for _, caller := range n.c.P.LibraryFuncs() {
		for _, ci := range flow.CallInstrs(caller) {
			if flow.StaticCallee(ci) != f || idx >= len(ci.Common().Args) {
				continue
			}
			sites++
			if !n.val(ci.Common().Args[idx], 0) {
				ok = false
			}
		}
	}
	if sites == 0 {
		ok = false
	}
	if ok {
		n.parMemo[p] = 1
	} else {
		n.parMemo[p] = 2
	}
	return ok
}

// congNonNeg: g(L) = K*L + T[L mod 4] with K >= 0 and K*r + T[r] >= 0 for every residue r.
func (n *nonNeg) congNonNeg(g *ssa.Function) bool {
	if g.Blocks == nil {
		return false
	}
	env := &cong.Env{MaxDepth: 2, IsSym: func(s ssa.Value) bool { return s == ssa.Value(g.Params[0]) },
		Callee: func(call *ssa.Call) *ssa.Function {
			h := flow.StaticCallee(call)
			if h == nil || h.Signature.Recv() != nil {
				return nil
			}
			return h
		}}
	rvs := flow.ReturnValues(g, 0)
	if len(rvs) == 0 {
		return false
	}
	for _, rv := range rvs {
		cv, err := env.Eval(rv)
		if err != nil || cv.Div4 || cv.K < 0 {
			return false
		}
		for r := 0; r < 4; r++ {
			if cv.K*int64(r)+cv.T[r] < 0 {
				return false
			}
		}
	}
	return true
}
