package rules

import (
	"fmt"
	"go/token"
	"go/types"
	"strings"

	"golang.org/x/tools/go/ssa"

	"verif/internal/flow"
)

func init() {
	register(&RuleSet{
		Property:  "C16",
		Title:     "Answers mirror the request they answer",
		Run:       runC16,
		Technique: "must-equal value provenance through fresh-object summaries (symbolic field state of the built answer), bit-transformer evaluation of the flag byte, parameter pass-through along the write chain",
		Explanation: "Decides on the current source: R1 for the object returned by (*Message).Answer and for every answer the state machine builds from it (functions of package sm that call Answer and write the result): CommandCode, ApplicationID, HopByHopID and EndToEndID are, at the point of return / write, must-equal copies of the request's fields (single origin, no arithmetic, no alternative source such as a random value), CommandFlags is a bit transformer of the request's flags with bit 7 cleared and bit 6 unchanged, stream is a copy of the request's stream, and a Result-Code AVP (code 268, Unsigned32 of the argument) is added exactly on the resultCode != 0 edge; " +
			"R2 along the write chain (WriteTo → WriteToStream → WriteToStreamWithRetry → writeStreamRetry → MultistreamWriter.WriteStream implementations) every callee parameter named stream receives the caller's own stream value unchanged (m.stream at the roots); " +
			"R3 ReadMessage stores into the message the stream reported by the header read. " +
			"Not decided: the dictionary lookup of Result-Code, transports' treatment of the stream number.",
		Rules: map[string]string{
			"R1": "answer header fields = request's (must-equal), R bit cleared, P bit kept, stream copied, Result-Code on resultCode != 0",
			"R2": "stream value passed unchanged along the write chain",
			"R3": "ReadMessage records the header read's stream in the message",
		},
		MinInstances: map[string]int{"R1": 8, "R2": 4, "R3": 1},
		Assumptions:  []string{"the request's header is not modified between the loads and the answer's construction (no kill analysis across calls)"},
	})
}

// checkMirror evaluates the mirror obligations on a summary `sum` whose expressions are in terms
// of function f with the request being parameter index reqIdx (or a free variable name).
func (c *Ctx) checkMirror(sum objSummary, req string, key, at string, needStream bool) {
	c.checkMirrorRule("R1", sum, req, key, at, needStream, true)
}

func (c *Ctx) checkMirrorRule(rule string, sum objSummary, req string, key, at string, needStream, needFlags bool) {
	r := c.R
	for _, fld := range []string{"CommandCode", "ApplicationID", "HopByHopID", "EndToEndID"} {
		got := sum["Header."+fld]
		want := "path:" + req + ":Header." + fld
		k := key + ":Header." + fld
		if got == nil {
			r.Fail(rule, k, at, "the answer's "+fld+" is never set")
			continue
		}
		if got.String() == want {
			r.Ok(rule, k, at, "must-equal copy of the request's "+fld)
		} else {
			why := fmt.Sprintf("the answer's %s is %s, not a verbatim copy of the request's %s", fld, short(got.String(), 120), fld)
			if strings.Contains(got.String(), "rand") {
				why += " (a random value replaces the id when the request's id is 0: the peer cannot match the answer)"
			}
			r.Fail(rule, k, at, why)
		}
	}
	if !needFlags {
		return
	}
	// flags
	k := key + ":Header.CommandFlags"
	got := sum["Header.CommandFlags"]
	if got == nil {
		r.Fail(rule, k, at, "the answer's CommandFlags is never set")
	} else {
		bits, ok := bitXfer(got, "path:"+req+":Header.CommandFlags")
		switch {
		case !ok:
			r.Fail(rule, k, at, "the answer's flags are not a bit function of the request's flags: "+short(got.String(), 100))
		case bits[7] != 'z':
			r.Fail(rule, k, at, "the request bit is not cleared in the answer on every path (bit 7 is '"+string(bits[7])+"'; z=zero o=one s=same ?=path-dependent); flags = "+short(got.String(), 160))
		case bits[6] != 's':
			r.Fail(rule, k, at, "the proxiable bit of the request is not preserved in the answer on every path (bit 6 is '"+string(bits[6])+"'; z=zero o=one s=same ?=path-dependent); flags = "+short(got.String(), 160))
		default:
			r.Ok(rule, k, at, fmt.Sprintf("flags transformer bits7..0 = %s: R cleared, P unchanged", reverse(bits)))
		}
	}
	if needStream {
		k := key + ":stream"
		got := sum["stream"]
		want := "path:" + req + ":stream"
		if got != nil && got.String() == want {
			r.Ok(rule, k, at, "stream is a copy of the request's stream")
		} else {
			r.Fail(rule, k, at, fmt.Sprintf("the answer's stream is %v, not the request's stream: the reply leaves on another transport stream", got))
		}
	}
}

func reverse(b [8]byte) string {
	var o []byte
	for i := 7; i >= 0; i-- {
		o = append(o, b[i])
	}
	return string(o)
}

func runC16(c *Ctx) {
	r := c.R
	c.c16CurrentStreamLifetime()
	ans := c.P.Method("diam", "Message", "Answer")
	if ans == nil {
		r.Undecided("R1", "role:Message.Answer", "-", "(*Message).Answer not found")
		return
	}
	sum, ok := c.summarizeConstructor(ans, c.Depth)
	if !ok {
		r.Undecided("R1", fname(ans)+":summary", c.fpos(ans), "cannot summarise the object returned by Answer (not a freshly built message)")
	} else {
		c.checkMirror(sum, "0", fname(ans), c.fpos(ans), true)
	}
	// Result-Code AVP
	{
		key := fname(ans) + ":result-code-avp"
		var site *ssa.Call
		for _, ci := range flow.CallInstrs(ans) {
			if call, ok := ci.(*ssa.Call); ok && flow.IsCallTo(call, pkgDiam, "Message", "NewAVP") {
				site = call
			}
		}
		if site == nil {
			r.Fail("R1", key, c.fpos(ans), "Answer never adds a Result-Code AVP")
		} else {
			good, why := true, ""
			code, okc := flow.ConstInt(site.Call.Args[1])
			if !okc || code != 268 {
				good, why = false, "the AVP added is not Result-Code (268)"
			}
			// data = Unsigned32(resultCode)
			var d ssa.Value = site.Call.Args[4]
			if mi, isMI := d.(*ssa.MakeInterface); isMI {
				d = mi.X
			}
			if p, isP := flow.Peel(d).(*ssa.Parameter); !isP || paramIndex(ans, p) != 1 || !flow.TypeIs(d.Type(), pkgDatatype, "Unsigned32") {
				good, why = false, "the Result-Code value is not Unsigned32(resultCode)"
			}
			// receiver is the answer
			rv := flow.ReturnValues(ans, 0)
			if len(rv) != 1 || flow.Peel(site.Call.Args[0]) != flow.Peel(rv[0]) {
				good, why = false, "the Result-Code AVP is not added to the returned answer"
			}
			// guards: exactly resultCode != 0
			gs := flow.Guards(site)
			if good {
				if len(gs) != 1 {
					good, why = false, fmt.Sprintf("the Result-Code AVP is added under %d conditions, expected exactly resultCode != 0", len(gs))
				} else {
					rl, okr := condRel(gs[0].If.Cond, gs[0].Taken)
					p, isP := rl.a.(*ssa.Parameter)
					k0, isK := flow.ConstInt(rl.b)
					if !okr || !isP || paramIndex(ans, p) != 1 || !isK || k0 != 0 || rl.op != token.NEQ {
						good, why = false, "the Result-Code AVP is not added exactly on the resultCode != 0 edge"
					}
				}
			}
			r.Check(good, "R1", key, c.pos(site), "NewAVP(268, …, Unsigned32(resultCode)) on the answer, exactly on the resultCode != 0 edge", why)
		}
	}

	// answers built in package sm: every function with a request parameter (*diam.Message) that writes a
	// message object it built itself (through Answer, NewMessage or a helper)
	nb := 0
	for _, f := range c.P.LibraryFuncs() {
		if pkgOf(f).Path() != pkgSM {
			continue
		}
		var reqP *ssa.Parameter
		for _, p := range f.Params {
			if isMsgPtr(p.Type()) {
				reqP = p
			}
		}
		if reqP == nil {
			continue
		}
		for _, cj := range flow.CallInstrs(f) {
			if !isMessageWrite(cj) {
				continue
			}
			obj := flow.Peel(cj.Common().Args[0])
			if _, isParam := obj.(*ssa.Parameter); isParam {
				continue // forwarding a message it was given
			}
			nb++
			key := fname(f) + ":answer-written"
			se := c.newSymEval(f, c.Depth)
			st, ok := se.objectState(obj, cj, c.Depth)
			if !ok {
				r.Undecided("R1", key, c.pos(cj), "cannot summarise the answer object written here (not built by Answer / NewMessage / a module helper)")
				continue
			}
			c.checkMirror(st, fmt.Sprint(paramIndex(f, reqP)), key, c.pos(cj), true)
		}
	}
	if nb == 0 {
		r.Undecided("R1", "role:sm-answer-builders", "-", "no function in package sm writes an answer it built from a request")
	}

	// ---- R2 ----
	c.streamChain("R2")

	// ---- R3 ----
	okR3 := false
	at := "-"
	var hstreams []ssa.Value
	if hs, _ := c.streamReadSites(c.readPath()); len(hs) > 0 {
		for _, h := range hs {
			if v := h.reportedStream(); v != nil {
				hstreams = append(hstreams, v)
			}
		}
	}
	isHdrStream := func(v ssa.Value) bool {
		for _, h := range hstreams {
			if v == h {
				return true
			}
		}
		return false
	}
	for f := range c.readPath() {
		flow.Instrs(f, func(in ssa.Instruction) {
			st, ok := in.(*ssa.Store)
			if !ok {
				return
			}
			tn, fld, _, ok := flow.FieldOf(st.Addr)
			if !ok || tn != "Message" || fld != "stream" {
				return
			}
			at = c.pos(st)
			if ok, saw := c.derivesOnlyFrom(st.Val, isHdrStream, 0, map[ssa.Value]bool{}); ok && saw {
				okR3 = true
			}
		})
	}
	r.Check(okR3, "R3", "diam.ReadMessage:store-stream", at, "m.stream receives the stream number reported by the header's ReadAtLeast", "ReadMessage does not record the stream the header was read from: answers cannot be sent on the request's stream")
}

func derivesFromAnswer(v ssa.Value, call *ssa.Call) bool {
	v = flow.Peel(v)
	if v == ssa.Value(call) {
		return true
	}
	if ph, ok := v.(*ssa.Phi); ok {
		for _, e := range ph.Edges {
			if flow.Peel(e) == ssa.Value(call) {
				return true
			}
		}
	}
	return false
}

// streamChain: the stream number travels unchanged with the bytes along the write chain. Shared
// clause of C16 (R2) and C19 (R4).
func (c *Ctx) streamChain(rule string) {
	r := c.R
	n := 0
	for _, f := range c.P.LibraryFuncs() {
		if pkgOf(f).Path() != pkgDiam {
			continue
		}
		// own stream value
		own := -1
		si := streamParam(f.Signature)
		isRoot := false
		if si >= 0 {
			own = si
			if f.Signature.Recv() != nil {
				own = si + 1
			}
		} else if f.Signature.Recv() != nil && flow.RecvTypeName(f.Signature) == "Message" && strings.HasPrefix(f.Name(), "WriteTo") {
			isRoot = true
		} else {
			continue
		}
		// only functions on the write side
		if !strings.Contains(strings.ToLower(f.Name()), "write") {
			continue
		}
		for _, ci := range flow.CallInstrs(f) {
			var sig *types.Signature
			if o := flow.CalleeObj(ci); o != nil {
				sig = o.Type().(*types.Signature)
			}
			if sig == nil {
				continue
			}
			cs := streamParam(sig)
			if cs < 0 {
				continue
			}
			args := ci.Common().Args
			ai := cs
			if !ci.Common().IsInvoke() && sig.Recv() != nil {
				ai = cs + 1
			}
			if ai >= len(args) {
				continue
			}
			n++
			key := fmt.Sprintf("%s:stream-to-%s", fname(f), calleeLabel(ci))
			a := flow.Peel(args[ai])
			good := false
			if isRoot {
				if tn, fld, base, ok := flow.FieldOf(a); ok && tn == "Message" && fld == "stream" && flow.Peel(base) == ssa.Value(f.Params[0]) {
					good = true
				}
			} else if p, ok := a.(*ssa.Parameter); ok && paramIndex(f, p) == own {
				good = true
			}
			r.Check(good, rule, key, c.pos(ci), "the callee's stream parameter receives the caller's stream value unchanged", "the stream number is not passed through unchanged ("+short(args[ai].String(), 50)+"): the message is written to another stream than the one requested")
		}
		// bytes and stream travel together: a call that hands the message bytes on without the stream
		// is only allowed on the edge where the transport is not multistream
		if own >= 0 {
			var bp *ssa.Parameter
			for _, p := range f.Params {
				if isByteSlice(p.Type()) {
					bp = p
				}
			}
			if bp != nil || f.Signature.Recv() != nil {
				for _, ci := range flow.CallInstrs(f) {
					carries := false
					for _, a := range ci.Common().Args {
						if bp != nil && derivesFromSliceParam(a, bp) {
							carries = true
						}
						// a function that serialises the message itself: the bytes it hands to a writer
						if bp == nil && isByteSlice(a.Type()) {
							if g := flow.StaticCallee(ci); g != nil && c.P.IsLibrary(g) && len(c.writeLoopFns(g, 0)) > 0 {
								carries = true
							}
						}
					}
					if !carries {
						continue
					}
					if _, isB := ci.Common().Value.(*ssa.Builtin); isB {
						continue
					}
					var sig *types.Signature
					if o := flow.CalleeObj(ci); o != nil {
						sig = o.Type().(*types.Signature)
					}
					if sig != nil && streamParam(sig) >= 0 {
						continue // checked above
					}
					// the stream travels inside an info object passed in the same call (SCTP send info)
					inObj := false
					for _, a := range ci.Common().Args {
						al, ok := a.(*ssa.Alloc)
						if !ok {
							continue
						}
						for _, ref := range flow.Referrers(al) {
							fa, ok := ref.(*ssa.FieldAddr)
							if !ok {
								continue
							}
							for _, r2 := range flow.Referrers(fa) {
								if st, ok := r2.(*ssa.Store); ok {
									if p, isP := flow.Peel(st.Val).(*ssa.Parameter); isP && paramIndex(f, p) == own {
										inObj = true
									}
								}
							}
						}
					}
					// … or inside an info object a helper builds from the requested stream: the helper is given the
					// stream and every store it makes into a send-info Stream field stores that parameter (converted)
					for _, a := range ci.Common().Args {
						hc, ok := a.(*ssa.Call)
						if !ok {
							continue
						}
						h := flow.StaticCallee(hc)
						if h == nil || h.Blocks == nil || !c.P.IsLibrary(h) {
							continue
						}
						for j, ha := range hc.Call.Args {
							p, isP := flow.Peel(ha).(*ssa.Parameter)
							if !isP || paramIndex(f, p) != own || j >= len(h.Params) {
								continue
							}
							stores, good := 0, true
							flow.Instrs(h, func(in ssa.Instruction) {
								st, ok := in.(*ssa.Store)
								if !ok {
									return
								}
								tn, fld, _, ok := flow.FieldOf(st.Addr)
								if !ok || tn != "SndRcvInfo" || fld != "Stream" {
									return
								}
								stores++
								if hp, isHP := flow.Peel(st.Val).(*ssa.Parameter); !isHP || hp != h.Params[j] {
									good = false
								}
							})
							if stores > 0 && good {
								inObj = true
							}
						}
					}
					// … or inside an adapter value passed in the same call (the io.Writer view of one stream): the
					// adapter is built here with the requested stream in one field, and every method of its type hands
					// exactly that field of its receiver to the stream-taking writes it makes
					for _, a := range ci.Common().Args {
						if c.c16AdapterCarries(f, a, own) {
							inObj = true
						}
					}
					// … or inside a closure passed in the same call, which hands it unchanged to a stream-taking write
					for _, a := range ci.Common().Args {
						mc, ok := a.(*ssa.MakeClosure)
						if !ok {
							continue
						}
						cf, _ := mc.Fn.(*ssa.Function)
						if cf == nil {
							continue
						}
						for bi, bnd := range mc.Bindings {
							isOwn := false
							if p, isP := flow.Peel(bnd).(*ssa.Parameter); isP && paramIndex(f, p) == own {
								isOwn = true
							}
							if al, isAl := bnd.(*ssa.Alloc); isAl {
								// the parameter spilled for capture by reference: exactly one store, of the parameter
								stores, fromParam := 0, false
								for _, ref := range flow.Referrers(al) {
									if st, isSt := ref.(*ssa.Store); isSt && st.Addr == ssa.Value(al) {
										stores++
										if p, isP := flow.Peel(st.Val).(*ssa.Parameter); isP && paramIndex(f, p) == own {
											fromParam = true
										}
									}
								}
								isOwn = stores == 1 && fromParam
							}
							if !isOwn || bi >= len(cf.FreeVars) {
								continue
							}
							fv := cf.FreeVars[bi]
							for _, cj := range flow.CallInstrs(cf) {
								o := flow.CalleeObj(cj)
								if o == nil {
									continue
								}
								csig, _ := o.Type().(*types.Signature)
								if csig == nil {
									continue
								}
								if sp := streamParam(csig); sp >= 0 {
									cargs := cj.Common().Args
									if !cj.Common().IsInvoke() && csig.Recv() != nil {
										sp++
									}
									if sp < len(cargs) {
										av := flow.Peel(cargs[sp])
										if ld, isLd := av.(*ssa.UnOp); isLd && ld.Op == token.MUL {
											av = ld.X
										}
										if av == ssa.Value(fv) {
											inObj = true
										}
									}
								}
							}
						}
					}
					if inObj {
						continue
					}
					n++
					key := fmt.Sprintf("%s:bytes-without-stream-to-%s", fname(f), calleeLabel(ci))
					notMulti := false
					for _, g := range flow.Guards(ci) {
						cond, neg := flow.Cond(g.If.Cond, g.Taken)
						if ex, ok := cond.(*ssa.Extract); ok && ex.Index == 1 && neg {
							isMultiTest := func(t ssa.Value) bool {
								ta, ok := t.(*ssa.TypeAssert)
								if !ok {
									return false
								}
								nt := flow.NamedOf(ta.AssertedType)
								return nt != nil && strings.HasPrefix(nt.Obj().Name(), "Multistream")
							}
							if isMultiTest(ex.Tuple) {
								notMulti = true
							}
							// the type test may be wrapped in a helper returning (conn, ok)
							if hc, ok := ex.Tuple.(*ssa.Call); ok {
								if g := flow.StaticCallee(hc); g != nil && g.Blocks != nil && c.P.IsLibrary(g) {
									rvs := flow.ReturnValues(g, 1)
									all := len(rvs) > 0
									for _, rv := range rvs {
										e2, ok := rv.(*ssa.Extract)
										if !ok || e2.Index != 1 || !isMultiTest(e2.Tuple) {
											all = false
										}
									}
									if all {
										notMulti = true
									}
								}
							}
						}
					}
					r.Check(notMulti, rule, key, c.pos(ci), "bytes are handed on without a stream only on the edge where the transport is not multistream", "on a multistream transport the message bytes are handed to "+calleeLabel(ci)+" without the requested stream (the stream is selected through shared connection state instead): concurrent answers can leave on each other's stream")
				}
			}
		}
		// SCTP sink: store into SndRcvInfo.Stream
		flow.Instrs(f, func(in ssa.Instruction) {
			st, ok := in.(*ssa.Store)
			if !ok || own < 0 {
				return
			}
			tn, fld, _, ok := flow.FieldOf(st.Addr)
			if !ok || tn != "SndRcvInfo" || fld != "Stream" {
				return
			}
			n++
			p, isP := flow.Peel(st.Val).(*ssa.Parameter)
			r.Check(isP && paramIndex(f, p) == own, rule, fname(f)+":SndRcvInfo.Stream", c.pos(st), "the SCTP send info carries the requested stream (conversion only)", "the SCTP send info's stream is not the requested stream")
		})
	}
	if n == 0 {
		r.Undecided(rule, "role:stream-chain", "-", "no stream-carrying call found on the write path")
	}
}

func derivesFromSliceParam(v ssa.Value, p *ssa.Parameter) bool {
	for i := 0; i < 8; i++ {
		switch x := v.(type) {
		case *ssa.Parameter:
			return x == p
		case *ssa.Slice:
			v = x.X
		case *ssa.ChangeType:
			v = x.X
		case *ssa.Phi:
			for _, e := range x.Edges {
				if e != ssa.Value(x) && derivesFromSliceParam(e, p) {
					return true
				}
			}
			return false
		default:
			return false
		}
	}
	return false
}

// c16CurrentStreamLifetime: R2 — on a multi-stream connection the stream a request arrived on stays the
// connection's current stream while its handler runs (the Write adaptor of the transport answers on it). A
// function that reads messages may therefore clear the current stream only on the way into the next read: a
// ResetCurrentStream that is deferred, or that follows the read, has already forgotten the request's stream when
// the answer is written through a plain io.Writer view of the connection.
func (c *Ctx) c16CurrentStreamLifetime() {
	r := c.R
	rm := c.P.Func("diam", "ReadMessage")
	n := 0
	for _, f := range c.P.LibraryFuncs() {
		if pkgOf(f).Path() != pkgDiam {
			continue
		}
		var reads []ssa.CallInstruction
		var resets []ssa.CallInstruction
		for _, ci := range flow.CallInstrs(f) {
			if rm != nil && flow.StaticCallee(ci) == rm {
				reads = append(reads, ci)
			}
			if com := ci.Common(); com.IsInvoke() && com.Method.Name() == "ResetCurrentStream" {
				resets = append(resets, ci)
			}
		}
		if len(reads) == 0 || len(resets) == 0 {
			continue
		}
		for i, rs := range resets {
			n++
			key := fmt.Sprintf("%s:current-stream-cleared-only-before-read#%d", fname(f), i+1)
			if _, isDefer := rs.(*ssa.Defer); isDefer {
				r.Fail("R2", key, c.pos(rs), "the connection's current stream is cleared by a deferred call, i.e. right after the message was read: while the handler runs the transport no longer knows the stream the request arrived on, and an answer written through the connection's Write adaptor leaves on the default stream")
				continue
			}
			// leads into the read: from the reset every way out of the function passes a read, and no read comes
			// before it
			isRead := func(in ssa.Instruction) bool {
				for _, rd := range reads {
					if ssa.Instruction(rd) == in {
						return true
					}
				}
				return false
			}
			before := flow.PathAvoiding(f, rs, flow.IsExit, isRead) == nil
			for _, rd := range reads {
				if flow.PathAvoiding(f, rd, func(in ssa.Instruction) bool { return in == ssa.Instruction(rs) }, nil) != nil {
					before = false
				}
			}
			r.Check(before, "R2", key, c.pos(rs), "the current stream is cleared on the way into the next read", "the connection's current stream is cleared at a point that does not lead into the next read (after the read / on another path): the request's stream is forgotten while its handler may still answer through the Write adaptor")
		}
	}
	if n == 0 {
		r.Trivial("R2", "current-stream-lifetime:no-site", "-", "no function both reads messages and clears a connection's current stream")
	}
}

// c16AdapterCarries: a is a struct value (possibly boxed into an interface) built in f from a composite literal
// that stores f's parameter own into field k, and the struct type's methods pass field k of their receiver, and
// nothing else, as the stream of every stream-taking call they make (at least one such call exists).
func (c *Ctx) c16AdapterCarries(f *ssa.Function, a ssa.Value, own int) bool {
	if mi, ok := a.(*ssa.MakeInterface); ok {
		a = mi.X
	}
	var al *ssa.Alloc
	switch y := a.(type) {
	case *ssa.UnOp:
		if y.Op == token.MUL {
			al, _ = y.X.(*ssa.Alloc)
		}
	case *ssa.Alloc:
		al = y
	}
	if al == nil {
		return false
	}
	named, _ := deref(al.Type()).(*types.Named)
	if named == nil {
		return false
	}
	if _, isSt := named.Underlying().(*types.Struct); !isSt {
		return false
	}
	k := -1
	for _, ref := range flow.Referrers(al) {
		fa, ok := ref.(*ssa.FieldAddr)
		if !ok {
			continue
		}
		for _, r2 := range flow.Referrers(fa) {
			if st, ok := r2.(*ssa.Store); ok && st.Addr == ssa.Value(fa) {
				if p, isP := flow.Peel(st.Val).(*ssa.Parameter); isP && paramIndex(f, p) == own {
					if k >= 0 && k != fa.Field {
						return false
					}
					k = fa.Field
				} else if fa.Field == k {
					return false
				}
			}
		}
	}
	if k < 0 {
		return false
	}
	// a second store into field k anywhere in f (after the literal) would change the stream: refuse
	stores := 0
	for _, ref := range flow.Referrers(al) {
		if fa, ok := ref.(*ssa.FieldAddr); ok && fa.Field == k {
			for _, r2 := range flow.Referrers(fa) {
				if st, ok := r2.(*ssa.Store); ok && st.Addr == ssa.Value(fa) {
					stores++
				}
			}
		}
	}
	if stores != 1 {
		return false
	}
	uses, good := 0, true
	for _, T := range []types.Type{named, types.NewPointer(named)} {
		ms := c.P.SSA.MethodSets.MethodSet(T)
		for i := 0; i < ms.Len(); i++ {
			m := c.P.SSA.MethodValue(ms.At(i))
			if m == nil || m.Blocks == nil || m.Synthetic != "" || len(m.Params) == 0 {
				continue
			}
			recv := m.Params[0]
			for _, cj := range flow.CallInstrs(m) {
				o := flow.CalleeObj(cj)
				if o == nil {
					continue
				}
				csig, _ := o.Type().(*types.Signature)
				if csig == nil {
					continue
				}
				sp := streamParam(csig)
				if sp < 0 {
					continue
				}
				cargs := cj.Common().Args
				if !cj.Common().IsInvoke() && csig.Recv() != nil {
					sp++
				}
				if sp >= len(cargs) {
					good = false
					continue
				}
				av := flow.Peel(cargs[sp])
				isField := false
				switch y := av.(type) {
				case *ssa.Field:
					isField = y.Field == k && (y.X == ssa.Value(recv) || spilledParam(y.X) == recv)
				case *ssa.UnOp:
					if fa, ok := y.X.(*ssa.FieldAddr); ok && y.Op == token.MUL && fa.Field == k {
						if fa.X == ssa.Value(recv) {
							isField = true
						} else if cell, ok := fa.X.(*ssa.Alloc); ok {
							for _, ref := range flow.Referrers(cell) {
								if st, ok := ref.(*ssa.Store); ok && st.Addr == ssa.Value(cell) && st.Val == ssa.Value(recv) {
									isField = true
								}
							}
						}
					}
				}
				if isField {
					uses++
				} else {
					good = false
				}
			}
			// the method must not assign the field either
			flow.Instrs(m, func(in ssa.Instruction) {
				if st, ok := in.(*ssa.Store); ok {
					if fa, ok := st.Addr.(*ssa.FieldAddr); ok && fa.Field == k && types.Identical(deref(fa.X.Type()), named) {
						good = false
					}
				}
			})
		}
	}
	return uses > 0 && good
}

func streamParam(sig *types.Signature) int {
	for i := 0; i < sig.Params().Len(); i++ {
		p := sig.Params().At(i)
		if p.Name() == "stream" {
			if b, ok := p.Type().Underlying().(*types.Basic); ok && b.Kind() == types.Uint {
				return i
			}
		}
	}
	return -1
}

func deref(t types.Type) types.Type {
	if p, ok := t.Underlying().(*types.Pointer); ok {
		return p.Elem()
	}
	return t
}
