package rules

import (
	"fmt"
	"go/token"
	"go/types"

	"golang.org/x/tools/go/ssa"

	"verif/internal/flow"
)

// Symbolic view of the AVP decoder, shared by C04 (R2/R3) and — through vbitEdge — by C01/C02.
//
// Integers are affine in two symbols, L (the wire Length of the AVP being decoded) and N (len of the bytes
// handed to the decoder); byte slices are [lo, hi) windows of those bytes with affine bounds. Values that
// differ between the vendor and the non-vendor form of the header carry a tag ("V" / "noV") taken from the
// V-flag predicate on the edges that produce them, so "header is 12 bytes exactly under V" is a statement
// about tagged alternatives and not about where in the source the constant 12 is written. Helper functions
// of the decoder are followed through parameter bindings and return values, and guards placed in a helper
// count for the caller on the helper's nil-error edge.

type lin struct {
	l, n int   // coefficients of L and N
	k    int64 // constant
}

func (a lin) add(b lin) lin { return lin{a.l + b.l, a.n + b.n, a.k + b.k} }
func (a lin) sub(b lin) lin { return lin{a.l - b.l, a.n - b.n, a.k - b.k} }
func (a lin) String() string {
	s := ""
	if a.l != 0 {
		s += fmt.Sprintf("%d·L", a.l)
	}
	if a.n != 0 {
		s += fmt.Sprintf("%+d·N", a.n)
	}
	if a.k != 0 || s == "" {
		s += fmt.Sprintf("%+d", a.k)
	}
	return s
}

type ialt struct {
	tag string
	v   lin
}

type salt struct {
	tag    string
	lo, hi lin
}

func tagJoin(a, b string) (string, bool) {
	switch {
	case a == "":
		return b, true
	case b == "" || a == b:
		return a, true
	}
	return "", false
}

type avpSym struct {
	c     *Ctx
	top   *ssa.Function  // the decoder
	data  *ssa.Parameter // its input bytes
	wire  ssa.Value      // the value stored into AVP.Length from the wire
	depth int
	busy  map[ssa.Value]bool
	unk   []string // values that could not be interpreted (diagnostics)
	sites map[*ssa.Function][]ssa.CallInstruction
}

func (c *Ctx) newAVPSym(top *ssa.Function, data *ssa.Parameter, wire ssa.Value) *avpSym {
	return &avpSym{c: c, top: top, data: data, wire: wire, busy: map[ssa.Value]bool{}, sites: map[*ssa.Function][]ssa.CallInstruction{}}
}

// callSites of a helper within the decoder family (library functions of package diam).
func (e *avpSym) callSites(h *ssa.Function) []ssa.CallInstruction {
	if s, ok := e.sites[h]; ok {
		return s
	}
	var out []ssa.CallInstruction
	for _, f := range e.c.P.LibraryFuncs() {
		if pkgOf(f) == nil || pkgOf(f).Path() != pkgDiam {
			continue
		}
		for _, ci := range flow.CallInstrs(f) {
			if flow.StaticCallee(ci) == h {
				out = append(out, ci)
			}
		}
	}
	e.sites[h] = out
	return out
}

// isFlagsLoad: a load of AVP.Flags (or the byte stored there).
func isFlagsLoad(v ssa.Value) bool {
	v = flow.Peel(v)
	if _, fld, _, ok := flow.FieldOf(v); ok && fld == "Flags" {
		return true
	}
	return false
}

// flagsValue: v is the AVP's flags octet — loaded from the Flags field, or a parameter of an unexported helper
// that receives the flags octet at every library call site (avpHeaderLen(a.Flags)).
func (e *avpSym) flagsValue(v ssa.Value, d int) bool {
	if isFlagsLoad(v) {
		return true
	}
	p, ok := flow.Peel(v).(*ssa.Parameter)
	if !ok || d > 2 || e == nil || e.c == nil {
		return false
	}
	f := p.Parent()
	if f.Object() != nil && f.Object().Exported() {
		// a constructor's flags argument: the value it stores (possibly with a bit OR-ed in) into AVP.Flags
		stored := false
		flow.Instrs(f, func(in ssa.Instruction) {
			st, ok := in.(*ssa.Store)
			if !ok {
				return
			}
			if tn, fld, _, ok := flow.FieldOf(st.Addr); !ok || tn != "AVP" || fld != "Flags" {
				return
			}
			var from func(v ssa.Value, k int) bool
			from = func(v ssa.Value, k int) bool {
				if k > 4 {
					return false
				}
				switch x := flow.Peel(v).(type) {
				case *ssa.Parameter:
					return x == p
				case *ssa.Phi:
					for _, ed := range x.Edges {
						if from(ed, k+1) {
							return true
						}
					}
				case *ssa.BinOp:
					return x.Op == token.OR && (from(x.X, k+1) || from(x.Y, k+1))
				}
				return false
			}
			if from(st.Val, 0) {
				stored = true
			}
		})
		return stored
	}
	idx := paramIndex(f, p)
	css := e.c.librarySites(f)
	if len(css) == 0 {
		return false
	}
	for _, cs := range css {
		if idx >= len(cs.Common().Args) || !e.flagsValue(cs.Common().Args[idx], d+1) {
			return false
		}
	}
	return true
}

// vPred: the branch condition cond (on its taken/not-taken edge) decides the V flag: "V", "noV" or "".
func (e *avpSym) vPred(cond ssa.Value, taken bool, depth int) string {
	v, neg := flow.Cond(cond, taken)
	pol := func(isV bool) string {
		if isV != neg {
			return "V"
		}
		return "noV"
	}
	switch x := v.(type) {
	case *ssa.BinOp:
		switch x.Op {
		case token.EQL, token.NEQ, token.LSS, token.LEQ, token.GTR, token.GEQ:
		default:
			return ""
		}
		// Flags & 0x80 ==/!= 0x80 | 0
		for _, pr := range [][2]ssa.Value{{x.X, x.Y}, {x.Y, x.X}} {
			and, ok := flow.Peel(pr[0]).(*ssa.BinOp)
			if !ok || and.Op != token.AND || (x.Op != token.EQL && x.Op != token.NEQ) {
				continue
			}
			m1, ok1 := flow.ConstInt(and.Y)
			fl := and.X
			if !ok1 {
				m1, ok1 = flow.ConstInt(and.X)
				fl = and.Y
			}
			k, ok2 := flow.ConstInt(pr[1])
			if !ok1 || !ok2 || m1 != 0x80 || !e.flagsValue(fl, 0) || (k != 0x80 && k != 0) {
				continue
			}
			isV := (k == 0x80) == (x.Op == token.EQL)
			return pol(isV)
		}
		// a comparison of a V-dependent integer (header length) with a constant
		if e != nil && depth < 3 {
			as, bs := e.ints(x.X, depth+1), e.ints(x.Y, depth+1)
			sat := map[string]bool{}
			all := map[string]bool{}
			for _, a := range as {
				for _, b := range bs {
					t, ok := tagJoin(a.tag, b.tag)
					if !ok || t == "" {
						continue
					}
					d := a.v.sub(b.v)
					if d.l != 0 || d.n != 0 {
						return ""
					}
					all[t] = true
					holds := false
					switch x.Op {
					case token.EQL:
						holds = d.k == 0
					case token.NEQ:
						holds = d.k != 0
					case token.LSS:
						holds = d.k < 0
					case token.LEQ:
						holds = d.k <= 0
					case token.GTR:
						holds = d.k > 0
					case token.GEQ:
						holds = d.k >= 0
					}
					if holds != neg {
						sat[t] = true
					}
				}
			}
			if len(all) == 2 && len(sat) == 1 {
				for t := range sat {
					return t
				}
			}
		}
	case *ssa.Call:
		// a boolean helper of the decoder: decided by its single returned expression
		g := flow.StaticCallee(x)
		if g == nil || g.Blocks == nil || depth > 2 || (e != nil && !e.c.P.IsLibrary(g)) {
			return ""
		}
		rvs := flow.ReturnValues(g, 0)
		if len(rvs) != 1 {
			return ""
		}
		return e.vPred(rvs[0], !neg, depth+1)
	}
	return ""
}

// tagOf: the V tag under which instruction in executes (dominating guards; for a helper, also its call site).
func (e *avpSym) tagOf(in ssa.Instruction, depth int) string {
	tag := ""
	for _, g := range flow.Guards(in) {
		if t := e.vPred(g.If.Cond, g.Taken, 0); t != "" {
			tag, _ = tagJoin(tag, t)
		}
	}
	if f := in.Parent(); e != nil && f != e.top && depth < 3 {
		cs := e.callSites(f)
		if len(cs) == 1 {
			t := e.tagOf(cs[0], depth+1)
			tag, _ = tagJoin(tag, t)
		}
	}
	return tag
}

// edgeTag: tag of the control-flow edge pred -> blk.
func (e *avpSym) edgeTag(pred, blk *ssa.BasicBlock) string {
	last := pred.Instrs[len(pred.Instrs)-1]
	tag := e.tagOf(last, 0)
	if ifi, ok := last.(*ssa.If); ok && pred.Succs[0] != pred.Succs[1] {
		if t := e.vPred(ifi.Cond, pred.Succs[0] == blk, 0); t != "" {
			tag, _ = tagJoin(tag, t)
		}
	}
	return tag
}

// vbitEdge: "V" / "noV" / "" according to the V-flag predicate guarding in (used by the layout rules).
func (c *Ctx) vbitEdge(in ssa.Instruction) string {
	f := in.Parent()
	e := c.newAVPSym(f, byteParam(f), nil)
	return e.tagOf(in, 0)
}

func (e *avpSym) isL(v ssa.Value) bool {
	p := flow.Peel(v)
	if e.wire != nil && (p == flow.Peel(e.wire) || v == e.wire) {
		return true
	}
	if u, ok := p.(*ssa.UnOp); ok && u.Op == token.MUL {
		if tn, fld, _, ok := flow.FieldOf(u); ok && tn == "AVP" && fld == "Length" {
			return true
		}
	}
	return false
}

func (e *avpSym) note(v ssa.Value, why string) {
	if len(e.unk) < 8 {
		e.unk = append(e.unk, why+": "+short(v.String(), 50))
	}
}

// bound: the caller-side values a helper parameter receives.
func (e *avpSym) bound(p *ssa.Parameter) []ssa.Value {
	f := p.Parent()
	idx := paramIndex(f, p)
	var out []ssa.Value
	for _, cs := range e.callSites(f) {
		if idx < len(cs.Common().Args) {
			out = append(out, cs.Common().Args[idx])
		}
	}
	return out
}

// ints evaluates an integer value into tagged affine alternatives (nil = not interpretable).
func (e *avpSym) ints(v ssa.Value, depth int) []ialt {
	if depth > 12 || e == nil {
		return nil
	}
	if k, ok := flow.ConstInt(v); ok {
		return []ialt{{"", lin{k: k}}}
	}
	if e.isL(v) {
		return []ialt{{"", lin{l: 1}}}
	}
	if e.busy[v] {
		return nil
	}
	e.busy[v] = true
	defer delete(e.busy, v)
	switch x := v.(type) {
	case *ssa.Convert:
		return e.ints(x.X, depth+1)
	case *ssa.ChangeType:
		return e.ints(x.X, depth+1)
	case *ssa.Parameter:
		var out []ialt
		for _, a := range e.bound(x) {
			out = append(out, e.ints(a, depth+1)...)
		}
		return out
	case *ssa.Phi:
		var out []ialt
		for i, ed := range x.Edges {
			et := e.edgeTag(x.Block().Preds[i], x.Block())
			as := e.ints(ed, depth+1)
			if as == nil {
				return nil
			}
			for _, a := range as {
				if t, ok := tagJoin(a.tag, et); ok {
					out = append(out, ialt{t, a.v})
				}
			}
		}
		return out
	case *ssa.BinOp:
		if x.Op != token.ADD && x.Op != token.SUB {
			return nil
		}
		as, bs := e.ints(x.X, depth+1), e.ints(x.Y, depth+1)
		if as == nil || bs == nil {
			return nil
		}
		var out []ialt
		for _, a := range as {
			for _, b := range bs {
				if t, ok := tagJoin(a.tag, b.tag); ok {
					if x.Op == token.ADD {
						out = append(out, ialt{t, a.v.add(b.v)})
					} else {
						out = append(out, ialt{t, a.v.sub(b.v)})
					}
				}
			}
		}
		return out
	case *ssa.Call:
		if b, ok := x.Call.Value.(*ssa.Builtin); ok && b.Name() == "len" {
			ss := e.slices(x.Call.Args[0], depth+1)
			if ss == nil {
				return nil
			}
			var out []ialt
			for _, s := range ss {
				out = append(out, ialt{s.tag, s.hi.sub(s.lo)})
			}
			return out
		}
		return e.results(x, 0, depth, true)
	case *ssa.Extract:
		if call, ok := x.Tuple.(*ssa.Call); ok {
			return e.results(call, x.Index, depth, true)
		}
	case *ssa.UnOp:
		if x.Op == token.MUL {
			if a, ok := x.X.(*ssa.Alloc); ok {
				var out []ialt
				for _, ref := range flow.Referrers(a) {
					if st, ok := ref.(*ssa.Store); ok && st.Addr == ssa.Value(a) {
						as := e.ints(st.Val, depth+1)
						if as == nil {
							return nil
						}
						st := st
						for _, al := range as {
							if t, ok := tagJoin(al.tag, e.tagOf(st, 0)); ok {
								out = append(out, ialt{t, al.v})
							}
						}
					}
				}
				return out
			}
		}
	}
	return nil
}

// results: alternatives of result #idx of a call to a decoder helper, one per return statement, tagged by
// the V predicate guarding that return.
func (e *avpSym) results(call *ssa.Call, idx, depth int, asInt bool) []ialt {
	g := flow.StaticCallee(call)
	if g == nil || g.Blocks == nil || !e.c.P.IsLibrary(g) || pkgOf(g).Path() != pkgDiam {
		return nil
	}
	var out []ialt
	bad := false
	flow.Instrs(g, func(in ssa.Instruction) {
		ret, ok := in.(*ssa.Return)
		if !ok || idx >= len(ret.Results) || bad {
			return
		}
		if len(ret.Results) > 1 && isErrorType(ret.Results[len(ret.Results)-1].Type()) && !mayReturnNilError(ret) {
			return // error return: the other results are not used
		}
		rt := e.tagOf(ret, 0)
		for _, src := range flow.SpillSources(ret.Results[idx]) {
			as := e.ints(src, depth+1)
			if as == nil {
				bad = true
				return
			}
			for _, a := range as {
				if t, ok := tagJoin(a.tag, rt); ok {
					out = append(out, ialt{t, a.v})
				}
			}
		}
	})
	if bad {
		return nil
	}
	return out
}

// slices evaluates a []byte value into tagged windows of the decoder's input (nil = not interpretable).
func (e *avpSym) slices(v ssa.Value, depth int) []salt {
	if depth > 12 {
		return nil
	}
	if v == ssa.Value(e.data) {
		return []salt{{"", lin{}, lin{n: 1}}}
	}
	if e.busy[v] {
		return nil
	}
	e.busy[v] = true
	defer delete(e.busy, v)
	switch x := v.(type) {
	case *ssa.ChangeType:
		return e.slices(x.X, depth+1)
	case *ssa.Parameter:
		if x.Parent() == e.top {
			return nil
		}
		var out []salt
		for _, a := range e.bound(x) {
			ss := e.slices(a, depth+1)
			if ss == nil {
				return nil
			}
			out = append(out, ss...)
		}
		return out
	case *ssa.Slice:
		xs := e.slices(x.X, depth+1)
		if xs == nil {
			return nil
		}
		lows := []ialt{{"", lin{}}}
		if x.Low != nil {
			if lows = e.ints(x.Low, depth+1); lows == nil {
				e.note(x.Low, "slice bound")
				return nil
			}
		}
		var highs []ialt
		if x.High != nil {
			if highs = e.ints(x.High, depth+1); highs == nil {
				e.note(x.High, "slice bound")
				return nil
			}
		}
		st := e.tagOf(x, 0)
		var out []salt
		for _, s := range xs {
			for _, lo := range lows {
				t, ok := tagJoin(s.tag, lo.tag)
				if !ok {
					continue
				}
				if t, ok = tagJoin(t, st); !ok {
					continue
				}
				if highs == nil {
					out = append(out, salt{t, s.lo.add(lo.v), s.hi})
					continue
				}
				for _, hi := range highs {
					if t2, ok := tagJoin(t, hi.tag); ok {
						out = append(out, salt{t2, s.lo.add(lo.v), s.lo.add(hi.v)})
					}
				}
			}
		}
		return out
	case *ssa.Phi:
		var out []salt
		for i, ed := range x.Edges {
			if flow.IsNilConst(ed) {
				continue
			}
			et := e.edgeTag(x.Block().Preds[i], x.Block())
			ss := e.slices(ed, depth+1)
			if ss == nil {
				return nil
			}
			for _, s := range ss {
				if t, ok := tagJoin(s.tag, et); ok {
					out = append(out, salt{t, s.lo, s.hi})
				}
			}
		}
		return out
	case *ssa.Extract:
		if call, ok := x.Tuple.(*ssa.Call); ok {
			return e.sliceResults(call, x.Index, depth)
		}
	case *ssa.Call:
		return e.sliceResults(x, 0, depth)
	case *ssa.UnOp:
		if x.Op == token.MUL {
			if a, ok := x.X.(*ssa.Alloc); ok {
				var out []salt
				for _, ref := range flow.Referrers(a) {
					if st, ok := ref.(*ssa.Store); ok && st.Addr == ssa.Value(a) {
						if flow.IsNilConst(st.Val) {
							continue
						}
						ss := e.slices(st.Val, depth+1)
						if ss == nil {
							return nil
						}
						for _, s := range ss {
							if t, ok := tagJoin(s.tag, e.tagOf(st, 0)); ok {
								out = append(out, salt{t, s.lo, s.hi})
							}
						}
					}
				}
				return out
			}
		}
	}
	e.note(v, "byte slice")
	return nil
}

func (e *avpSym) sliceResults(call *ssa.Call, idx, depth int) []salt {
	g := flow.StaticCallee(call)
	if g == nil || g.Blocks == nil || !e.c.P.IsLibrary(g) || pkgOf(g).Path() != pkgDiam {
		return nil
	}
	var out []salt
	bad := false
	flow.Instrs(g, func(in ssa.Instruction) {
		ret, ok := in.(*ssa.Return)
		if !ok || idx >= len(ret.Results) || bad {
			return
		}
		if len(ret.Results) > 1 && isErrorType(ret.Results[len(ret.Results)-1].Type()) && !mayReturnNilError(ret) {
			return
		}
		rt := e.tagOf(ret, 0)
		for _, src := range flow.SpillSources(ret.Results[idx]) {
			if flow.IsNilConst(src) {
				continue
			}
			ss := e.slices(src, depth+1)
			if ss == nil {
				bad = true
				return
			}
			for _, s := range ss {
				if t, ok := tagJoin(s.tag, rt); ok {
					out = append(out, salt{t, s.lo, s.hi})
				}
			}
		}
	})
	if bad {
		return nil
	}
	return out
}

// fact: e ≥ 0 holds (under tag) because the violating edge of a guard returns an error.
type avpFact struct {
	tag  string
	e    lin
	desc string
}

// guardFacts: the inequalities established, on every path to in that is consistent with tag, by guards whose
// failing edge returns a non-nil error. A guard counts when in cannot be reached from the function entry
// without taking the guard's passing edge once the edges that contradict tag are removed (so a check made
// inside the vendor branch counts for the vendor form although it does not dominate the join).
func (e *avpSym) guardFacts(in ssa.Instruction, tag string) []avpFact {
	fn := in.Parent()
	opposite := map[string]string{"V": "noV", "noV": "V"}[tag]
	edgeOK := func(p *ssa.BasicBlock, si int) bool {
		if opposite == "" {
			return true
		}
		if ifi, ok := p.Instrs[len(p.Instrs)-1].(*ssa.If); ok && p.Succs[0] != p.Succs[1] {
			if e.vPred(ifi.Cond, si == 0, 0) == opposite {
				return false
			}
		}
		return true
	}
	// reach: can in's block be reached from the entry without the edge (ab -> its succ #ai)?
	reach := func(ab *ssa.BasicBlock, ai int) bool {
		seen := map[*ssa.BasicBlock]bool{fn.Blocks[0]: true}
		work := []*ssa.BasicBlock{fn.Blocks[0]}
		for len(work) > 0 {
			b := work[0]
			work = work[1:]
			if b == in.Block() {
				return true
			}
			for si, sc := range b.Succs {
				if (b == ab && si == ai) || !edgeOK(b, si) || seen[sc] {
					continue
				}
				seen[sc] = true
				work = append(work, sc)
			}
		}
		return false
	}
	var out []avpFact
	for _, b := range fn.Blocks {
		ifi, ok := b.Instrs[len(b.Instrs)-1].(*ssa.If)
		if !ok || b.Succs[0] == b.Succs[1] || b == in.Block() && flow.Index(ifi) < flow.Index(in) {
			continue
		}
		for passIdx := 0; passIdx < 2; passIdx++ {
			rl, ok := condRel(ifi.Cond, passIdx == 0)
			if !ok {
				continue
			}
			if !returnsNonNilError(b.Succs[1-passIdx]) {
				continue
			}
			if reach(b, passIdx) {
				continue // some consistent path to in avoids the passing edge
			}
			as, bs := e.ints(rl.a, 0), e.ints(rl.b, 0)
			for _, a := range as {
				for _, bb := range bs {
					t, ok := tagJoin(a.tag, bb.tag)
					if !ok {
						continue
					}
					d := a.v.sub(bb.v) // a - b
					desc := short(ifi.Cond.String(), 40)
					switch rl.op {
					case token.GEQ: // a >= b
						out = append(out, avpFact{t, d, desc})
					case token.GTR: // a > b
						out = append(out, avpFact{t, d.sub(lin{k: 1}), desc})
					case token.LEQ: // a <= b
						out = append(out, avpFact{t, lin{}.sub(d), desc})
					case token.LSS:
						out = append(out, avpFact{t, lin{}.sub(d).sub(lin{k: 1}), desc})
					case token.EQL:
						out = append(out, avpFact{t, d, desc}, avpFact{t, lin{}.sub(d), desc})
					}
				}
			}
		}
	}
	return out
}

// holdsAt: req ≥ 0 is established, under tag, on every path reaching in — by guards dominating in (in this
// function or, for a helper, at its call site), or by a helper called before in whose every nil-error return
// establishes it.
func (e *avpSym) holdsAt(in ssa.Instruction, req lin, tag string, depth int) (bool, string) {
	if depth > 4 {
		return false, ""
	}
	for _, f := range e.guardFacts(in, tag) {
		if f.tag != "" && f.tag != tag {
			continue
		}
		d := req.sub(f.e)
		if d.l == 0 && d.n == 0 && d.k >= 0 {
			return true, f.desc
		}
	}
	fn := in.Parent()
	// helper calls that dominate in, with in on their nil-error edge
	for _, ci := range flow.CallInstrs(fn) {
		call, ok := ci.(*ssa.Call)
		if !ok || call == in || !flow.Dominates(call, in) {
			continue
		}
		h := flow.StaticCallee(call)
		if h == nil || h.Blocks == nil || h == fn || !e.c.P.IsLibrary(h) || pkgOf(h).Path() != pkgDiam || errorResult(call) == nil {
			continue
		}
		if errorEdgeBlocks(call)[in.Block()] || pathFromErrEdge(fn, call, in) != nil {
			continue
		}
		all, any, desc := true, false, ""
		flow.Instrs(h, func(x ssa.Instruction) {
			ret, ok := x.(*ssa.Return)
			if !ok || !mayReturnNilError(ret) {
				return
			}
			if rt := e.tagOf(ret, 0); rt != "" && rt != tag {
				return
			}
			any = true
			if ok, d := e.holdsAt(ret, req, tag, depth+1); ok {
				desc = d
			} else {
				all = false
			}
		})
		if any && all {
			return true, desc + " (in " + h.Name() + ")"
		}
	}
	// in a helper: the guards at its call site
	if fn != e.top {
		cs := e.callSites(fn)
		if len(cs) > 0 {
			all, desc := true, ""
			for _, s := range cs {
				if ok, d := e.holdsAt(s, req, tag, depth+1); ok {
					desc = d
				} else {
					all = false
				}
			}
			if all {
				return true, desc
			}
		}
	}
	return false, ""
}

var _ = types.Identical
