package rules

import (
	"fmt"
	"go/token"
	"go/types"
	"sort"
	"strings"

	"golang.org/x/tools/go/ssa"

	"verif/internal/flow"
	"verif/internal/lanes"
)

// Address is the one data type whose decoder drops part of the wire form (the two family bytes) for some
// inputs and keeps it for others, while its encoder has to regenerate it from the value alone. Whether
// decode-then-encode reproduces the bytes is therefore decided per *class of decoded value*:
//
//   - every accepting exit of the decoder is classified as STRIP(k) (the value is b[k:]) or WHOLE (the value is
//     b), with the family constant and the total length its dominating guards establish;
//   - for each class the encoder (Serialize) and Len are evaluated along the one path the class selects: the
//     predicates net.IP.To4(x) != nil and To16(x) != nil are functions of len(x) and of "x is an IPv4-mapped
//     IPv6 address" (their documented contract), len tests are functions of the class's length;
//   - a STRIP class of family F and payload length L must come back as a buffer of L+2 bytes with the family
//     bytes F followed by the value; a WHOLE class must come back as a copy of the value; Len must agree.
//
// The value space is partitioned completely: family ∈ {each constant the decoder tests, any other} × length
// ∈ {4, 16, any other} × mapped ∈ {yes, no where it matters}.

type addrExit struct {
	whole   bool
	strip   int64
	famEq   int64 // -1: not fixed
	famNe   map[int64]bool
	totalEq int64 // len(b) fixed by a guard, -1 otherwise
	totalNe map[int64]bool
	at      ssa.Instruction
}

type addrClass struct {
	whole  bool
	fam    int64 // -1: any family the decoder does not single out
	l      int64 // length of the decoded value; -1: a length that is neither 4 nor 16
	mapped bool
}

func (k addrClass) label() string {
	var sb strings.Builder
	if k.fam >= 0 {
		fmt.Fprintf(&sb, "family=%d", k.fam)
	} else {
		sb.WriteString("family=other")
	}
	name := "len"
	if k.whole {
		name = "total-len"
	}
	if k.l >= 0 {
		fmt.Fprintf(&sb, ",%s=%d", name, k.l)
	} else {
		fmt.Fprintf(&sb, ",%s=other", name)
	}
	if k.mapped {
		sb.WriteString(",v4-mapped")
	}
	return sb.String()
}

// concrete length used when evaluating a class whose length is "other"
func (k addrClass) evalLen() int64 {
	if k.l >= 0 {
		return k.l
	}
	return 7
}

func (c *Ctx) addressRoundTrip(tf *typeFacts) {
	r := c.R
	d := tf.Decoder
	ser := c.methodOf(tf.T, "Serialize")
	lenF := c.methodOf(tf.T, "Len")
	if d == nil || ser == nil || lenF == nil || len(d.Params) != 1 {
		r.Undecided("R5", "Address:read-then-write", "-", "Address decoder / Serialize / Len not found")
		return
	}
	exits, why := c.addrExits(d)
	if why != "" {
		r.Undecided("R5", "Address:read-then-write", c.fpos(d), "cannot classify an accepting exit of the Address decoder: "+why)
		return
	}
	var classes []addrClass
	seen := map[addrClass]bool{}
	add := func(k addrClass) {
		if !seen[k] {
			seen[k] = true
			classes = append(classes, k)
		}
	}
	for _, e := range exits {
		if !e.whole && e.famEq < 0 {
			r.Undecided("R5", "Address:read-then-write", c.pos(e.at), "an exit of the Address decoder strips a prefix without fixing the family it drops")
			return
		}
		// lengths of the decoded value this exit admits: the one its guards fix, else 4, 16 and "any other"
		lens := []int64{4, 16, -1}
		if e.totalEq >= 0 {
			lens = []int64{e.totalEq - e.strip}
		}
		for _, l := range lens {
			if l >= 0 && e.totalNe[l+e.strip] {
				continue
			}
			add(addrClass{whole: e.whole, fam: e.famEq, l: l})
			if l != 16 {
				continue
			}
			// IPv4-mapped content: any stripped 16-byte payload may be; the whole input only when its first
			// bytes — the family — may be zero
			if !e.whole || e.famEq == 0 || e.famEq < 0 && !e.famNe[0] {
				add(addrClass{whole: e.whole, fam: e.famEq, l: l, mapped: true})
			}
		}
	}
	sort.Slice(classes, func(i, j int) bool { return classes[i].label() < classes[j].label() })
	for _, k := range classes {
		key := "Address:read-then-write:" + k.label()
		out := c.addrEncode(ser, k)
		if !out.ok {
			r.Undecided("R5", key, c.fpos(ser), "cannot follow Address.Serialize for this class of decoded value: "+out.why)
			continue
		}
		ln, okLen := c.addrLen(lenF, k)
		if !okLen {
			r.Undecided("R5", key, c.fpos(lenF), "cannot follow Address.Len for this class of decoded value")
			continue
		}
		L := k.evalLen()
		var want string
		good := false
		if k.whole {
			want = "the value's own bytes"
			good = out.raw && ln == L
		} else {
			want = fmt.Sprintf("family %d followed by the %d value bytes (%d bytes)", k.fam, L, L+2)
			good = !out.raw && out.fam == k.fam && out.size == L+2 && out.payload && ln == L+2
		}
		got := out.String()
		if good {
			r.Ok("R5", key, c.fpos(ser), "decoded as "+map[bool]string{true: "the whole input", false: "the input less its family bytes"}[k.whole]+"; written back as "+got+fmt.Sprintf(", Len() = %d", ln))
		} else {
			r.Fail("R5", key, c.fpos(ser), fmt.Sprintf("an Address read from the wire as %s is written back as %s (Len() = %d) instead of %s: reading and re-serialising a message with such an Address changes its bytes", k.label(), got, ln, want))
		}
	}
}

// addrExits: the accepting exits of the decoder with what the path to them establishes. The decoder is
// executed symbolically, path by path (it has no loops): slices of the input are "the input from offset k",
// the family is the big-endian uint16 of its first two bytes, lengths are len(input) − k; a branch on the
// family or on a length against a constant forks the path with the fact recorded, any other branch forks it
// without one. A tail call of a helper (return helper(args)) is executed in the helper.
type addrAbs struct {
	kind byte // 's' input[off:], 'p' input[off:off+n], 'f' family, 'l' len(input)-off, 'k' constant, 0 unknown
	off  int64
	n    int64
}

type addrState struct {
	famEq   int64
	famNe   map[int64]bool
	totalEq int64
	totalNe map[int64]bool
}

func (s addrState) clone() addrState {
	t := addrState{famEq: s.famEq, totalEq: s.totalEq, famNe: map[int64]bool{}, totalNe: map[int64]bool{}}
	for k := range s.famNe {
		t.famNe[k] = true
	}
	for k := range s.totalNe {
		t.totalNe[k] = true
	}
	return t
}

type addrExec struct {
	c     *Ctx
	top   *ssa.Function
	rd    *lanes.Reader
	exits []addrExit
	why   string
	paths int
}

func (c *Ctx) addrExits(d *ssa.Function) ([]addrExit, string) {
	b := d.Params[0]
	x := &addrExec{c: c, top: d, rd: &lanes.Reader{IsBase: func(v ssa.Value) bool { return v == ssa.Value(b) }, MaxDepth: 2}}
	env := map[ssa.Value]addrAbs{b: {kind: 's'}}
	x.run(d, env, addrState{famEq: -1, totalEq: -1, famNe: map[int64]bool{}, totalNe: map[int64]bool{}}, 0)
	if x.why != "" {
		return nil, x.why
	}
	if len(x.exits) == 0 {
		return nil, "no accepting exit found"
	}
	return x.exits, ""
}

func (x *addrExec) eval(f *ssa.Function, v ssa.Value, env map[ssa.Value]addrAbs, path []*ssa.BasicBlock) addrAbs {
	if a, ok := env[v]; ok {
		return a
	}
	if k, ok := flow.ConstInt(v); ok {
		return addrAbs{kind: 'k', n: k}
	}
	switch t := v.(type) {
	case *ssa.ChangeType:
		return x.eval(f, t.X, env, path)
	case *ssa.Convert:
		return x.eval(f, t.X, env, path)
	case *ssa.MakeInterface:
		return x.eval(f, t.X, env, path)
	case *ssa.Phi:
		return x.eval(f, resolveOnPath(t, path), env, path)
	case *ssa.Slice:
		base := x.eval(f, t.X, env, path)
		if base.kind != 's' || t.Max != nil {
			return addrAbs{}
		}
		lo := int64(0)
		if t.Low != nil {
			k := x.eval(f, t.Low, env, path)
			if k.kind != 'k' {
				return addrAbs{}
			}
			lo = k.n
		}
		if t.High == nil {
			return addrAbs{kind: 's', off: base.off + lo}
		}
		h := x.eval(f, t.High, env, path)
		if h.kind != 'k' {
			return addrAbs{}
		}
		return addrAbs{kind: 'p', off: base.off + lo, n: h.n - lo}
	case *ssa.Call:
		if arg, ok := builtinOf(t, "len"); ok {
			a := x.eval(f, arg, env, path)
			switch a.kind {
			case 's':
				return addrAbs{kind: 'l', off: a.off}
			case 'p':
				return addrAbs{kind: 'k', n: a.n}
			}
			return addrAbs{}
		}
		if co := flow.CalleeObj(t); co != nil && co.Name() == "Uint16" && co.Pkg() != nil && co.Pkg().Path() == "encoding/binary" && len(t.Call.Args) == 2 {
			a := x.eval(f, t.Call.Args[1], env, path)
			if (a.kind == 'p' && a.n == 2 || a.kind == 's') && a.off == 0 {
				return addrAbs{kind: 'f'}
			}
		}
	}
	if f == x.top {
		if bt, ok := v.Type().Underlying().(*types.Basic); ok && bt.Info()&types.IsInteger != 0 {
			if x.rd.Eval(v).IsBigEndianOf(0, 2) {
				return addrAbs{kind: 'f'}
			}
		}
	}
	return addrAbs{}
}

func (x *addrExec) run(f *ssa.Function, env map[ssa.Value]addrAbs, st addrState, depth int) {
	if depth > 3 || len(f.Blocks) == 0 {
		x.why = "helper nesting too deep"
		return
	}
	var walk func(blk *ssa.BasicBlock, path []*ssa.BasicBlock, st addrState)
	walk = func(blk *ssa.BasicBlock, path []*ssa.BasicBlock, st addrState) {
		if x.why != "" {
			return
		}
		x.paths++
		if x.paths > 4096 {
			x.why = "too many paths"
			return
		}
		for _, p := range path {
			if p == blk {
				x.why = "the decoder has a loop"
				return
			}
		}
		path = append(path[:len(path):len(path)], blk)
		switch t := blk.Instrs[len(blk.Instrs)-1].(type) {
		case *ssa.Jump:
			walk(blk.Succs[0], path, st)
		case *ssa.If:
			for _, taken := range []bool{true, false} {
				s2 := st.clone()
				feasible := true
				if rl, ok := condRel(t.Cond, taken); ok {
					a, b := x.eval(f, rl.a, env, path), x.eval(f, rl.b, env, path)
					op := rl.op
					if a.kind == 'k' && b.kind != 'k' {
						a, b = b, a
						switch op {
						case token.LSS:
							op = token.GTR
						case token.GTR:
							op = token.LSS
						case token.LEQ:
							op = token.GEQ
						case token.GEQ:
							op = token.LEQ
						}
					}
					if b.kind == 'k' {
						switch a.kind {
						case 'f':
							switch op {
							case token.EQL:
								if s2.famEq >= 0 && s2.famEq != b.n || s2.famNe[b.n] {
									feasible = false
								}
								s2.famEq = b.n
							case token.NEQ:
								if s2.famEq == b.n {
									feasible = false
								}
								s2.famNe[b.n] = true
							}
						case 'l':
							tot := b.n + a.off
							switch op {
							case token.EQL:
								if s2.totalEq >= 0 && s2.totalEq != tot || s2.totalNe[tot] {
									feasible = false
								}
								s2.totalEq = tot
							case token.NEQ:
								if s2.totalEq == tot {
									feasible = false
								}
								s2.totalNe[tot] = true
							}
						case 'k':
							var truth bool
							switch op {
							case token.EQL:
								truth = a.n == b.n
							case token.NEQ:
								truth = a.n != b.n
							case token.LSS:
								truth = a.n < b.n
							case token.LEQ:
								truth = a.n <= b.n
							case token.GTR:
								truth = a.n > b.n
							case token.GEQ:
								truth = a.n >= b.n
							}
							feasible = truth
						}
					}
				}
				if !feasible {
					continue
				}
				if taken {
					walk(blk.Succs[0], path, s2)
				} else {
					walk(blk.Succs[1], path, s2)
				}
			}
		case *ssa.Return:
			if len(t.Results) != 2 {
				x.why = "unexpected result count in " + f.Name()
				return
			}
			r0, r1 := resolveOnPath(t.Results[0], path), resolveOnPath(t.Results[1], path)
			// tail call of a helper
			if e0, ok := r0.(*ssa.Extract); ok {
				if call, ok := e0.Tuple.(*ssa.Call); ok {
					g := flow.StaticCallee(call)
					e1, ok1 := r1.(*ssa.Extract)
					if g != nil && g.Blocks != nil && x.c.P.IsLibrary(g) && ok1 && e1.Tuple == e0.Tuple && e0.Index == 0 && e1.Index == 1 {
						env2 := map[ssa.Value]addrAbs{}
						for i, p := range g.Params {
							if i < len(call.Call.Args) {
								env2[p] = x.eval(f, call.Call.Args[i], env, path)
							}
						}
						x.run(g, env2, st, depth+1)
						return
					}
				}
				x.why = "a result comes from a call this rule does not follow: " + r0.String()
				return
			}
			if k, ok := r0.(*ssa.Const); ok && k.Value == nil {
				return // (nil, err)
			}
			if k, ok := r1.(*ssa.Const); !ok || k.Value != nil {
				return // a value returned together with an error is not an accepting exit
			}
			a := x.eval(f, r0, env, path)
			if a.kind != 's' {
				x.why = "an accepted value is neither the input nor a suffix of it: " + r0.String()
				return
			}
			fe := st.famEq
			x.exits = append(x.exits, addrExit{whole: a.off == 0, strip: a.off, famEq: fe, famNe: st.famNe, totalEq: st.totalEq, totalNe: st.totalNe, at: t})
		default:
			x.why = "unexpected terminator"
		}
	}
	walk(f.Blocks[0], nil, st)
}

type addrOut struct {
	ok      bool
	why     string
	raw     bool  // a copy of the value itself, as long as the value
	size    int64 // bytes produced
	fam     int64 // family written in front (-1: none)
	payload bool  // the value's bytes follow the family bytes, all of them
}

func (o addrOut) String() string {
	if o.raw {
		return "the value's own bytes"
	}
	if o.fam >= 0 {
		return fmt.Sprintf("family %d in a %d-byte encoding", o.fam, o.size)
	}
	return fmt.Sprintf("a %d-byte encoding without family bytes", o.size)
}

// addrLenOf: the length of a receiver-derived value for the class, and whether it is nil.
// net.IP.To4(x): x itself when len(x) == 4, the last four bytes when x is an IPv4-mapped 16-byte address, nil
// otherwise. net.IP.To16(x): the mapped form of a 4-byte x, x itself when len(x) == 16, nil otherwise.
func addrLenOf(kind string, k addrClass, L int64) (n int64, isNil bool, ok bool) {
	switch kind {
	case "addr":
		return L, false, true
	case "to4":
		if L == 4 || L == 16 && k.mapped {
			return 4, false, true
		}
		return 0, true, true
	case "to16":
		if L == 4 || L == 16 {
			return 16, false, true
		}
		return 0, true, true
	}
	return 0, false, false
}

// resolveOnPath: a phi is replaced by the operand of the edge the path took.
func resolveOnPath(v ssa.Value, path []*ssa.BasicBlock) ssa.Value {
	for i := 0; i < 8; i++ {
		p, ok := v.(*ssa.Phi)
		if !ok {
			return v
		}
		idx := -1
		for j, b := range path {
			if b == p.Block() && j > 0 {
				idx = j
			}
		}
		if idx < 0 {
			return v
		}
		prev := path[idx-1]
		found := false
		for e, pb := range p.Block().Preds {
			if pb == prev {
				v = p.Edges[e]
				found = true
				break
			}
		}
		if !found {
			return v
		}
	}
	return v
}

// ---- the encoder side: a small concrete interpreter ------------------------------------------------------
//
// For one class the receiver is an abstract byte string of known length and kind; net.IP.To4 / To16 of it are
// nil or byte strings of known length (their documented contract); everything else Serialize and Len do —
// helper calls, buffers, constant stores, copies, appends, integer arithmetic, branches — is then concrete and
// is simply executed on the SSA, helpers of the module included. An instruction outside this subset makes the
// class undecided.

type abuf struct {
	size   int64
	bytes  map[int64]int64 // constant stores (-1: a non-constant byte)
	copies []acopy
}

type acopy struct {
	off int64
	src string // "addr", "to4", "to16", "" (something else)
	n   int64
}

type aval struct {
	kind  byte // 'i' integer/bool, 'a' receiver-derived bytes, 's' slice of a buffer, 'p' pointer into a buffer, 'n' nil, 't' tuple, 0 unknown
	i     int64
	src   string
	isNil bool
	buf   *abuf
	off   int64
	tup   []aval
}

type addrInterp struct {
	c     *Ctx
	k     addrClass
	L     int64
	steps int
	why   string
}

func (x *addrInterp) fail(why string) aval {
	if x.why == "" {
		x.why = why
	}
	return aval{}
}

func (x *addrInterp) lenOf(v aval) (int64, bool) {
	switch v.kind {
	case 'a':
		if v.isNil {
			return 0, true
		}
		n, _, ok := addrLenOf(v.src, x.k, x.L)
		return n, ok
	case 's':
		return v.buf.size - v.off, true
	case 'n':
		return 0, true
	}
	return 0, false
}

func (x *addrInterp) call(f *ssa.Function, args []aval, depth int) aval {
	if depth > 4 || len(f.Blocks) == 0 {
		return x.fail("helper nesting too deep in " + f.Name())
	}
	env := map[ssa.Value]aval{}
	for i, p := range f.Params {
		if i < len(args) {
			env[p] = args[i]
		}
	}
	var get func(v ssa.Value) aval
	get = func(v ssa.Value) aval {
		if a, ok := env[v]; ok {
			return a
		}
		if kc, ok := v.(*ssa.Const); ok {
			if kc.Value == nil {
				if _, isB := kc.Type().Underlying().(*types.Basic); !isB {
					return aval{kind: 'n'}
				}
				return aval{kind: 'i'}
			}
			if n, ok := flow.ConstInt(v); ok {
				return aval{kind: 'i', i: n}
			}
			if bt, ok := kc.Type().Underlying().(*types.Basic); ok && bt.Info()&types.IsBoolean != 0 {
				if kc.Value.String() == "true" {
					return aval{kind: 'i', i: 1}
				}
				return aval{kind: 'i'}
			}
		}
		return aval{}
	}
	blk := f.Blocks[0]
	var prev *ssa.BasicBlock
	for {
		for _, in := range blk.Instrs {
			x.steps++
			if x.steps > 4000 {
				return x.fail("too many steps")
			}
			switch t := in.(type) {
			case *ssa.DebugRef:
			case *ssa.Phi:
				for e, pb := range blk.Preds {
					if pb == prev {
						env[t] = get(t.Edges[e])
					}
				}
			case *ssa.ChangeType:
				env[t] = get(t.X)
			case *ssa.Convert:
				env[t] = get(t.X)
			case *ssa.MakeInterface:
				env[t] = get(t.X)
			case *ssa.Extract:
				tv := get(t.Tuple)
				if tv.kind == 't' && t.Index < len(tv.tup) {
					env[t] = tv.tup[t.Index]
				}
			case *ssa.Alloc:
				var n int64
				if _, err := fmt.Sscanf(t.Type().String(), "*[%d]byte", &n); err == nil {
					env[t] = aval{kind: 'p', buf: &abuf{size: n, bytes: map[int64]int64{}}, off: -1}
				} else {
					// a local spilled to memory: modelled as a one-cell box
					env[t] = aval{kind: 'p', buf: &abuf{size: -1, bytes: map[int64]int64{}}, off: -2, tup: []aval{{}}}
				}
			case *ssa.MakeSlice:
				n := get(t.Len)
				if n.kind != 'i' {
					return x.fail("a buffer of unknown size is made")
				}
				env[t] = aval{kind: 's', buf: &abuf{size: n.i, bytes: map[int64]int64{}}}
			case *ssa.Slice:
				b := get(t.X)
				lo, hi := int64(0), int64(-1)
				if t.Low != nil {
					l := get(t.Low)
					if l.kind != 'i' {
						return x.fail("slice bound unknown")
					}
					lo = l.i
				}
				if t.High != nil {
					h := get(t.High)
					if h.kind != 'i' {
						return x.fail("slice bound unknown")
					}
					hi = h.i
				}
				switch {
				case b.kind == 'p' && b.off == -1: // whole array
					if hi >= 0 && hi != b.buf.size {
						b.buf.size = hi // a shorter view of a fresh array: the rest is never seen
					}
					env[t] = aval{kind: 's', buf: b.buf, off: lo}
				case b.kind == 's':
					if hi >= 0 && hi != b.buf.size-b.off {
						return x.fail("a buffer is cut short")
					}
					env[t] = aval{kind: 's', buf: b.buf, off: b.off + lo}
				case b.kind == 'a':
					n, ok := x.lenOf(b)
					if !ok || lo != 0 || hi >= 0 && hi != n {
						return x.fail("the value is re-sliced")
					}
					env[t] = b
				default:
					return x.fail("slice of something this rule does not model: " + t.String())
				}
			case *ssa.IndexAddr:
				b, i := get(t.X), get(t.Index)
				if i.kind != 'i' || b.kind != 's' && !(b.kind == 'p' && b.off == -1) {
					env[t] = aval{}
					continue
				}
				base := b.off
				if b.kind == 'p' {
					base = 0
				}
				env[t] = aval{kind: 'p', buf: b.buf, off: base + i.i}
			case *ssa.Store:
				p, v := get(t.Addr), get(t.Val)
				if p.kind != 'p' {
					return x.fail("a store this rule does not model: " + t.String())
				}
				if p.off == -2 {
					env[t.Addr] = aval{kind: 'p', buf: p.buf, off: -2, tup: []aval{v}}
					continue
				}
				if v.kind == 'i' {
					p.buf.bytes[p.off] = v.i & 0xff
				} else {
					p.buf.bytes[p.off] = -1
				}
			case *ssa.UnOp:
				v := get(t.X)
				switch t.Op {
				case token.NOT:
					if v.kind == 'i' {
						env[t] = aval{kind: 'i', i: 1 - v.i}
					}
				case token.MUL:
					if v.kind == 'p' && v.off == -2 && len(v.tup) == 1 {
						env[t] = v.tup[0]
					}
				}
			case *ssa.BinOp:
				a, b := get(t.X), get(t.Y)
				if a.kind == 'i' && b.kind == 'i' {
					var r int64
					ok := true
					bo := func(c bool) int64 {
						if c {
							return 1
						}
						return 0
					}
					switch t.Op {
					case token.ADD:
						r = a.i + b.i
					case token.SUB:
						r = a.i - b.i
					case token.MUL:
						r = a.i * b.i
					case token.AND:
						r = a.i & b.i
					case token.OR:
						r = a.i | b.i
					case token.SHL:
						r = a.i << uint(b.i&63)
					case token.SHR:
						r = a.i >> uint(b.i&63)
					case token.EQL:
						r = bo(a.i == b.i)
					case token.NEQ:
						r = bo(a.i != b.i)
					case token.LSS:
						r = bo(a.i < b.i)
					case token.LEQ:
						r = bo(a.i <= b.i)
					case token.GTR:
						r = bo(a.i > b.i)
					case token.GEQ:
						r = bo(a.i >= b.i)
					default:
						ok = false
					}
					if ok {
						env[t] = aval{kind: 'i', i: r}
					}
					continue
				}
				// comparison with nil
				if (t.Op == token.EQL || t.Op == token.NEQ) && (a.kind == 'n' || b.kind == 'n') {
					o := a
					if a.kind == 'n' {
						o = b
					}
					var isNil, ok bool
					switch o.kind {
					case 'a':
						isNil, ok = o.isNil, true
					case 'n':
						isNil, ok = true, true
					case 's':
						isNil, ok = false, true
					}
					if ok {
						r := int64(0)
						if isNil == (t.Op == token.EQL) {
							r = 1
						}
						env[t] = aval{kind: 'i', i: r}
					}
				}
			case *ssa.Call:
				if bi, ok := t.Call.Value.(*ssa.Builtin); ok {
					switch bi.Name() {
					case "len", "cap":
						if n, ok := x.lenOf(get(t.Call.Args[0])); ok {
							env[t] = aval{kind: 'i', i: n}
						}
					case "copy":
						d, sv := get(t.Call.Args[0]), get(t.Call.Args[1])
						if d.kind != 's' {
							return x.fail("copy into something that is not a fresh buffer")
						}
						n, ok := x.lenOf(sv)
						if !ok {
							return x.fail("copy from something this rule does not model")
						}
						if room := d.buf.size - d.off; n > room {
							n = room
						}
						src := ""
						if sv.kind == 'a' {
							src = sv.src
						}
						d.buf.copies = append(d.buf.copies, acopy{off: d.off, src: src, n: n})
						env[t] = aval{kind: 'i', i: n}
					case "append":
						base, sv := get(t.Call.Args[0]), get(t.Call.Args[1])
						n, ok := x.lenOf(sv)
						if !ok || sv.kind != 'a' && sv.kind != 'n' {
							return x.fail("append of something this rule does not model")
						}
						nb := &abuf{bytes: map[int64]int64{}}
						switch base.kind {
						case 'n':
						case 's':
							if base.off != 0 {
								return x.fail("append to a sub-slice")
							}
							nb.size = base.buf.size
							for i, v := range base.buf.bytes {
								nb.bytes[i] = v
							}
							nb.copies = append(nb.copies, base.buf.copies...)
						default:
							return x.fail("append to something this rule does not model")
						}
						if sv.kind == 'a' && !sv.isNil {
							nb.copies = append(nb.copies, acopy{off: nb.size, src: sv.src, n: n})
						}
						nb.size += n
						env[t] = aval{kind: 's', buf: nb}
					}
					continue
				}
				if flow.IsCallTo(t, "net", "IP", "To4") || flow.IsCallTo(t, "net", "IP", "To16") {
					r := get(t.Call.Args[0])
					if r.kind != 'a' || r.src != "addr" {
						return x.fail("To4/To16 of something other than the value")
					}
					src := "to4"
					if flow.IsCallTo(t, "net", "IP", "To16") {
						src = "to16"
					}
					_, isNil, _ := addrLenOf(src, x.k, x.L)
					env[t] = aval{kind: 'a', src: src, isNil: isNil}
					continue
				}
				g := flow.StaticCallee(t)
				if g == nil || g.Blocks == nil || !x.c.P.IsLibrary(g) {
					env[t] = aval{} // opaque: only matters if the result is used
					continue
				}
				var args []aval
				for _, a := range t.Call.Args {
					args = append(args, get(a))
				}
				env[t] = x.call(g, args, depth+1)
				if x.why != "" {
					return aval{}
				}
			case *ssa.If:
				cv := get(t.Cond)
				if cv.kind != 'i' {
					return x.fail("a branch does not depend on the value's length and kind alone: " + t.Cond.String())
				}
				prev = blk
				if cv.i != 0 {
					blk = blk.Succs[0]
				} else {
					blk = blk.Succs[1]
				}
			case *ssa.Jump:
				prev = blk
				blk = blk.Succs[0]
			case *ssa.Return:
				if len(t.Results) == 1 {
					return get(t.Results[0])
				}
				var tup []aval
				for _, r := range t.Results {
					tup = append(tup, get(r))
				}
				return aval{kind: 't', tup: tup}
			default:
				if v, ok := in.(ssa.Value); ok {
					env[v] = aval{}
				}
			}
		}
		if x.why != "" {
			return aval{}
		}
	}
}

func (c *Ctx) addrLen(f *ssa.Function, k addrClass) (int64, bool) {
	x := &addrInterp{c: c, k: k, L: k.evalLen()}
	r := x.call(f, []aval{{kind: 'a', src: "addr"}}, 0)
	return r.i, x.why == "" && r.kind == 'i'
}

// addrEncode: what Serialize produces for the class.
func (c *Ctx) addrEncode(f *ssa.Function, k addrClass) addrOut {
	x := &addrInterp{c: c, k: k, L: k.evalLen()}
	L := x.L
	r := x.call(f, []aval{{kind: 'a', src: "addr"}}, 0)
	if x.why != "" {
		return addrOut{why: x.why}
	}
	sameBytes := func(src string, n int64) bool {
		// the copied bytes are the value's own, all of them
		return n == L && (src == "addr" || src == "to4" && L == 4 || src == "to16" && L == 16)
	}
	switch r.kind {
	case 'a':
		if r.src == "addr" && !r.isNil {
			return addrOut{ok: true, raw: true, size: L, fam: -1}
		}
		return addrOut{why: "the result is a derived address value"}
	case 's':
		if r.off != 0 {
			return addrOut{why: "the result is a sub-slice of a buffer"}
		}
		b := r.buf
		out := addrOut{ok: true, size: b.size, fam: -1}
		if len(b.copies) != 1 {
			return addrOut{why: fmt.Sprintf("the result buffer receives %d copies", len(b.copies))}
		}
		cp := b.copies[0]
		if cp.off == 0 {
			for _, v := range b.bytes {
				_ = v
				return addrOut{why: "bytes are stored over the copied value"}
			}
			out.raw = sameBytes(cp.src, cp.n) && b.size == L
			return out
		}
		var fam int64
		for i := int64(0); i < cp.off; i++ {
			v, ok := b.bytes[i]
			if ok && v < 0 {
				fam = -1
				break
			}
			fam = fam<<8 | v
		}
		for i := range b.bytes {
			if i >= cp.off {
				return addrOut{why: "bytes are stored over the copied value"}
			}
		}
		out.fam = fam
		out.payload = cp.off == 2 && cp.off+cp.n == b.size && sameBytes(cp.src, cp.n)
		return out
	}
	return addrOut{why: "the result is not a fresh buffer or the value itself"}
}
