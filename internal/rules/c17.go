package rules

import (
	"encoding/xml"
	"fmt"
	"go/ast"
	"go/constant"
	"go/token"
	"go/types"
	"regexp"
	"sort"
	"strings"

	"golang.org/x/tools/go/ssa"

	"verif/internal/flow"
)

func init() {
	register(&RuleSet{
		Property:  "C17",
		Title:     "Dictionary lookups resolve through the application, its parents, then base",
		Run:       runC17,
		Technique: "table agreement (map literals, constants, embedded XML string constants parsed by the checker), provenance of the lookup key's application id, who-may-delete census",
		Explanation: "Decides on the current source: R1 the values of datatype.Available, the keys of datatype.Decoder (minus UnknownType) and the TypeID constants are the same set, and each Decoder[K] returns a concrete type whose Type() method returns the constant K (so every type name a dictionary may declare can be decoded and, having Serialize/Len/Padding, encoded); " +
			"R2 for every AVP, command and application in the XML string literals of package dict (mangled as autogen.sh does), a same-named exported constant in avp / diam, when present, has the same value; " +
			"R3 in FindAVPWithVendor the application id used in the index lookups is a loop-carried value whose sources are exactly the caller's id, parentAppIds[previous] and 0, the not-found exit for uint32 codes returns MakeUnknownAVP(original app, code, vendor) whose type is UnknownType, parentAppIds is acyclic, and FindCommand retries with application 0 on the miss edge; " +
			"R4 Load inserts each AVP into both indexes under its own vendor id and under the wildcard vendor, unconditionally, updates the application indexes unconditionally, and nothing in package dict deletes from a Parser map. " +
			"R1 also: datatype.Decode dispatches through the Decoder table. R3 is decided by abstract interpretation of FindAVPWithVendor over 120 scenarios (code given as uint32 / int / string / other × parent chain of length 0–2 or none × every set of chain levels at which the AVP is defined): the result is the definition at the first level that has one, else the base application's, else the placeholder / error. R4 also: the index maps are created only by the once-initialiser. " +
			"R4 also: every nil-error return of Load is dominated by the decoding of its input — no already-seen shortcut, so a dictionary loaded again wins over what was loaded in between. " +
			"Not decided: precedence over loading histories beyond last-write-wins/nothing-deleted, typed App() after re-definition, generated dictionaries.",
		Rules: map[string]string{
			"R1": "Available values = Decoder keys \\ {Unknown} = TypeID constants; Decoder[K] returns a type with Type()==K",
			"R2": "exported code constants equal the embedded XML",
			"R3": "fallback chain shape: app → parent → 0; MakeUnknownAVP placeholder; parent map acyclic; FindCommand base fallback",
			"R4": "Load: exact + wildcard vendor inserts, unconditional; no deletes",
		},
		MinInstances: map[string]int{"R1": 18, "R2": 3, "R3": 4, "R4": 4},
		Assumptions:  []string{"the XML string literals of dict/default.go are what init loads (checked: they are the only string literals assigned to the *XML variables)"},
	})
}

type xmlFile struct {
	App []struct {
		ID      uint32 `xml:"id,attr"`
		Type    string `xml:"type,attr"`
		Name    string `xml:"name,attr"`
		Command []struct {
			Code  uint32 `xml:"code,attr"`
			Name  string `xml:"name,attr"`
			Short string `xml:"short,attr"`
		} `xml:"command"`
		AVP []struct {
			Name     string `xml:"name,attr"`
			Code     uint32 `xml:"code,attr"`
			VendorID uint32 `xml:"vendor-id,attr"`
			Data     struct {
				TypeName string `xml:"type,attr"`
			} `xml:"data"`
		} `xml:"avp"`
	} `xml:"application"`
}

// dictXML parses the XML string literals assigned to package-level variables of package dict.
func (c *Ctx) dictXML() (map[string]*xmlFile, []string) {
	out := map[string]*xmlFile{}
	var errs []string
	for _, pkg := range c.P.Pkgs {
		if pkg.PkgPath != pkgDict {
			continue
		}
		for _, file := range pkg.Syntax {
			for _, d := range file.Decls {
				gd, ok := d.(*ast.GenDecl)
				if !ok || gd.Tok != token.VAR {
					continue
				}
				for _, sp := range gd.Specs {
					vs := sp.(*ast.ValueSpec)
					for i, n := range vs.Names {
						if i >= len(vs.Values) {
							continue
						}
						tv, ok := pkg.TypesInfo.Types[vs.Values[i]]
						if !ok || tv.Value == nil || tv.Value.Kind() != constant.String {
							continue
						}
						s := constant.StringVal(tv.Value)
						if !strings.Contains(s, "<diameter") {
							continue
						}
						xf := &xmlFile{}
						if err := xml.Unmarshal([]byte(s), xf); err != nil {
							errs = append(errs, n.Name+": "+err.Error())
							continue
						}
						out[n.Name] = xf
					}
				}
			}
		}
	}
	return out, errs
}

var reID = regexp.MustCompile(`-Id([-"s])`)

func mangleAVP(name string) string {
	s := reID.ReplaceAllString(name+`"`, "-ID$1")
	s = strings.TrimSuffix(s, `"`)
	return strings.ReplaceAll(s, "-", "")
}

func (c *Ctx) pkgIntConsts(rel string) map[string]int64 {
	out := map[string]int64{}
	pk := c.P.Pkg(rel)
	if pk == nil {
		return out
	}
	for name, m := range pk.Members {
		nc, ok := m.(*ssa.NamedConst)
		if !ok || nc.Value.Value == nil || nc.Value.Value.Kind() != constant.Int {
			continue
		}
		if v, ok := constant.Int64Val(nc.Value.Value); ok {
			out[name] = v
		}
	}
	return out
}

func runC17(c *Ctx) {
	r := c.R
	// ---- R1 ----
	avail, ok1 := c.globalMapLiteral("diam/datatype", "Available")
	dec, ok2 := c.globalMapLiteral("diam/datatype", "Decoder")
	if !ok1 || !ok2 {
		r.Undecided("R1", "role:datatype-tables", "-", "cannot extract datatype.Available / datatype.Decoder map literals")
	} else {
		ids := c.constsOfType("diam/datatype", "TypeID")
		idName := map[string]string{}
		for n, v := range ids {
			idName[v.ExactString()] = n
		}
		unknown := ids["UnknownType"]
		availVals := map[string]string{}
		for _, e := range avail {
			k := flow.PeelNoConvert(e.Value).(*ssa.Const)
			availVals[k.Value.ExactString()] = constant.StringVal(e.Key)
		}
		decKeys := map[string]*ssa.Function{}
		for _, e := range dec {
			if e.Key != nil {
				decKeys[e.Key.ExactString()] = funcOfValue(e.Value)
			}
		}
		// every Available value has a decoder
		var names []string
		for v := range availVals {
			names = append(names, v)
		}
		sort.Strings(names)
		for _, v := range names {
			tn := availVals[v]
			key := "datatype:" + tn
			f, has := decKeys[v]
			if !has {
				r.Fail("R1", key, c.posEntry(avail, tn), fmt.Sprintf("data type %q (%s) can be declared by a dictionary (datatype.Available) but datatype.Decoder has no entry for it: such AVPs cannot be decoded", tn, idName[v]))
				continue
			}
			// the decoder returns a type with Type()==K and encodable
			good, why := c.decoderReturnsType(f, v)
			r.Check(good, "R1", key, c.fpos(f), fmt.Sprintf("Decoder[%s]=%s returns a type whose Type() is %s", idName[v], f.Name(), idName[v]), why)
		}
		// decoder keys not in Available (besides Unknown)
		for k, f := range decKeys {
			if _, has := availVals[k]; !has && (unknown == nil || k != unknown.ExactString()) {
				r.Fail("R1", "datatype.Decoder["+idName[k]+"]:not-available", c.fpos(f), "Decoder has an entry for a type id that no dictionary type name maps to")
			}
		}
		if unknown != nil {
			_, has := decKeys[unknown.ExactString()]
			r.Check(has, "R1", "datatype.Decoder[UnknownType]", "-", "opaque placeholder type is decodable", "Decoder lacks UnknownType: undefined AVP codes cannot be carried as opaque data")
		}
		// every TypeID constant appears in Available or is Unknown
		for n, v := range ids {
			if n == "UnknownType" {
				continue
			}
			if _, has := availVals[v.ExactString()]; !has {
				r.Fail("R1", "datatype.TypeID:"+n, "-", "TypeID constant "+n+" has no type name in datatype.Available: dictionaries cannot declare it")
			}
		}
	}

	// Decode dispatches through the Decoder table for every type id
	if df := c.P.Func("diam/datatype", "Decode"); df != nil {
		key := "datatype.Decode:dispatch-through-Decoder"
		good, why := false, "datatype.Decode does not select the decoder by a lookup of its type-id argument in datatype.Decoder: a type present in the exported tables can still be undecodable"
		flow.Instrs(df, func(in ssa.Instruction) {
			call, ok := in.(*ssa.Call)
			if !ok || call.Call.IsInvoke() || flow.StaticCallee(call) != nil {
				return
			}
			ex, ok := call.Call.Value.(*ssa.Extract)
			if !ok || ex.Index != 0 {
				return
			}
			lk, ok := ex.Tuple.(*ssa.Lookup)
			if !ok || !lk.CommaOk {
				return
			}
			gl := loadedGlobal(lk.X)
			if gl == nil || gl.Name() != "Decoder" || flow.Peel(lk.Index) != ssa.Value(df.Params[0]) {
				return
			}
			if len(call.Call.Args) != 1 || call.Call.Args[0] != ssa.Value(df.Params[1]) {
				why = "datatype.Decode does not hand its input bytes unchanged to the selected decoder"
				return
			}
			// guarded only by the lookup's ok
			gs := flow.Guards(call)
			if len(gs) != 1 {
				why = "the decoder call in datatype.Decode is guarded by more than the table lookup's ok"
				return
			}
			cond, neg := flow.Cond(gs[0].If.Cond, gs[0].Taken)
			if e2, ok := cond.(*ssa.Extract); !ok || e2.Tuple != ssa.Value(lk) || e2.Index != 1 || neg {
				why = "the decoder call in datatype.Decode is not on the lookup's ok edge"
				return
			}
			good = true
		})
		r.Check(good, "R1", key, c.fpos(df), "Decode(t, b) = Decoder[t](b) on the ok edge of the map lookup", why)
	} else {
		r.Undecided("R1", "role:datatype.Decode", "-", "datatype.Decode not found")
	}

	// ---- R2 ----
	xmls, errs := c.dictXML()
	for _, e := range errs {
		r.Undecided("R2", "dict-xml:"+e, "-", "embedded dictionary does not parse: "+e)
	}
	if len(xmls) == 0 {
		r.Undecided("R2", "role:embedded-xml", "-", "no XML string literal found in package dict")
	} else {
		avpC := c.pkgIntConsts("diam/avp")
		diamC := c.pkgIntConsts("diam")
		avpCodes := map[string]map[int64]bool{}
		cmdCodes := map[string]map[int64]bool{}
		appIDs := map[string]map[int64]bool{}
		add := func(m map[string]map[int64]bool, k string, v int64) {
			if m[k] == nil {
				m[k] = map[int64]bool{}
			}
			m[k][v] = true
		}
		for _, xf := range xmls {
			for _, app := range xf.App {
				add(appIDs, strings.ToUpper(strings.ReplaceAll(app.Name, " ", "_"))+"_APP_ID", int64(app.ID))
				for _, cmd := range app.Command {
					add(cmdCodes, strings.ReplaceAll(cmd.Name, "-", ""), int64(cmd.Code))
				}
				for _, a := range app.AVP {
					add(avpCodes, mangleAVP(a.Name), int64(a.Code))
				}
			}
		}
		check := func(kind string, table map[string]map[int64]bool, consts map[string]int64, pkg string) {
			matched, bad := 0, 0
			var names []string
			for n := range table {
				names = append(names, n)
			}
			sort.Strings(names)
			for _, n := range names {
				cv, has := consts[n]
				if !has {
					continue
				}
				if table[n][cv] {
					matched++
				} else {
					bad++
					var codes []string
					for k := range table[n] {
						codes = append(codes, fmt.Sprint(k))
					}
					r.Fail("R2", pkg+"."+n, "-", fmt.Sprintf("exported constant %s.%s = %d but the embedded dictionaries define it with code %s", pkg, n, cv, strings.Join(codes, "/")))
				}
			}
			if matched == 0 && bad == 0 {
				r.Undecided("R2", kind+"-constants", "-", "no "+kind+" constant matches a dictionary entry (name mangling no longer applies?)")
			} else if bad == 0 {
				r.Ok("R2", kind+"-constants", "-", fmt.Sprintf("%d %s constants agree with the embedded XML (%d dictionary names)", matched, kind, len(table)))
			}
			r.Note("%s constants matched: %d", kind, matched)
		}
		check("avp", avpCodes, avpC, "avp")
		check("command", cmdCodes, diamC, "diam")
		check("application", appIDs, diamC, "diam")
		// type names used by the embedded dictionaries are all Available
		if ok1 {
			availNames := map[string]bool{}
			for _, e := range avail {
				availNames[constant.StringVal(e.Key)] = true
			}
			missing := map[string]bool{}
			for _, xf := range xmls {
				for _, app := range xf.App {
					for _, a := range app.AVP {
						if !availNames[a.Data.TypeName] {
							missing[a.Data.TypeName] = true
						}
					}
				}
			}
			r.Check(len(missing) == 0, "R2", "embedded-xml:type-names-available", "-", "every data type name used by the embedded dictionaries is in datatype.Available", fmt.Sprintf("embedded dictionaries use type names missing from datatype.Available: %v", keys(missing)))
		}
	}

	// ---- R3 ----
	c.c17Fallback()
	// ---- R4 ----
	c.c17Load()
}

func (c *Ctx) posEntry(entries []mapEntry, name string) string {
	for _, e := range entries {
		if e.Key != nil && e.Key.Kind() == constant.String && constant.StringVal(e.Key) == name {
			return c.pos(e.At)
		}
	}
	return "-"
}

// decoderReturnsType: every non-nil value f returns (result 0) is a concrete type T with
// T.Type() == const k and T implements Serialize/Len/Padding.
func (c *Ctx) decoderReturnsType(f *ssa.Function, k string) (bool, string) {
	if f == nil {
		return false, "decoder entry is not a function"
	}
	seen := map[*ssa.Function]bool{}
	var concrete []types.Type
	var collect func(g *ssa.Function, d int) bool
	collect = func(g *ssa.Function, d int) bool {
		if seen[g] || d > 3 {
			return true
		}
		seen[g] = true
		for _, rv := range flow.ReturnValues(g, 0) {
			if flow.IsNilConst(rv) {
				continue
			}
			switch x := rv.(type) {
			case *ssa.MakeInterface:
				concrete = append(concrete, x.X.Type())
			case *ssa.Extract:
				if call, ok := x.Tuple.(*ssa.Call); ok {
					if h := flow.StaticCallee(call); h != nil {
						if !collect(h, d+1) {
							return false
						}
						continue
					}
				}
				return false
			default:
				return false
			}
		}
		return true
	}
	if !collect(f, 0) {
		return false, "cannot determine the concrete type " + f.Name() + " returns"
	}
	if len(concrete) == 0 {
		return false, f.Name() + " returns no value"
	}
	for _, T := range concrete {
		v, ok := c.methodConstResult(T, "Type")
		if !ok {
			return false, fmt.Sprintf("%s returns %s whose Type() is not a single constant", f.Name(), T)
		}
		if v.ExactString() != k {
			return false, fmt.Sprintf("%s returns %s whose Type() is %s, not the key it is registered under (%s): consumers switching on Type() mis-handle the value", f.Name(), T, v, k)
		}
		for _, m := range []string{"Serialize", "Len", "Padding"} {
			if c.P.SSA.MethodSets.MethodSet(T).Lookup(nil, m) == nil {
				return false, fmt.Sprintf("%s lacks %s: not encodable", T, m)
			}
		}
	}
	return true, ""
}

func (c *Ctx) c17Fallback() {
	r := c.R
	f := c.P.Method("diam/dict", "Parser", "FindAVPWithVendor")
	if f == nil {
		r.Undecided("R3", "role:FindAVPWithVendor", "-", "dict.(*Parser).FindAVPWithVendor not found")
		return
	}
	c.c17Chain("R3", false)
	if mk := c.P.Func("diam/dict", "MakeUnknownAVP"); mk != nil {
		okT := false
		flow.Instrs(mk, func(in ssa.Instruction) {
			if st, ok := in.(*ssa.Store); ok {
				if tn, fld, _, ok := flow.FieldOf(st.Addr); ok && tn == "Data" && fld == "Type" && isZeroConst(st.Val) {
					okT = true
				}
			}
		})
		r.Check(okT, "R3", "dict.MakeUnknownAVP:type-unknown", c.fpos(mk), "placeholder has Data.Type = UnknownType", "the placeholder AVP's data type is not UnknownType")
	}
	// parent map acyclic
	if ents, ok := c.globalMapLiteral("diam/dict", "parentAppIds"); ok {
		m := map[int64]int64{}
		for _, e := range ents {
			k, _ := constant.Int64Val(e.Key)
			if v, ok := flow.ConstInt(e.Value); ok {
				m[k] = v
			}
		}
		cyc := ""
		for k := range m {
			x := k
			for i := 0; i <= len(m); i++ {
				nx, ok := m[x]
				if !ok {
					break
				}
				x = nx
				if i == len(m) {
					cyc = fmt.Sprint(k)
				}
			}
		}
		r.Check(cyc == "", "R3", "dict.parentAppIds:acyclic", "-", fmt.Sprintf("%d parent links, every chain leaves the key set", len(m)), "parentAppIds has a cycle through application "+cyc+": the `goto retry` fallback loop never terminates for an AVP missing from those applications")
	} else if m, name := c.c17ParentFunc(f); m != nil {
		cyc := ""
		for k := range m {
			x := k
			for i := 0; i <= len(m); i++ {
				nx, ok := m[x]
				if !ok {
					break
				}
				x = nx
				if i == len(m) {
					cyc = fmt.Sprint(k)
				}
			}
		}
		r.Check(cyc == "", "R3", "dict.parentAppIds:acyclic", "-", fmt.Sprintf("%d parent links in %s, every chain leaves the key set", len(m), name), name+" has a cycle through application "+cyc+": the fallback loop never terminates for an AVP missing from those applications")
	} else {
		r.Undecided("R3", "dict.parentAppIds:acyclic", "-", "cannot read parentAppIds")
	}
	// FindCommand base fallback
	if fc := c.P.Method("diam/dict", "Parser", "FindCommand"); fc != nil {
		key := fname(fc) + ":base-fallback"
		var looks []*ssa.Lookup
		flow.Instrs(fc, func(in ssa.Instruction) {
			if lk, ok := in.(*ssa.Lookup); ok && lk.CommaOk {
				looks = append(looks, lk)
			}
		})
		good := false
		why := "FindCommand does not retry with application 0 after missing the command under the given application"
		if len(looks) >= 2 {
			f1 := structLitFields(looks[0].Index)
			f2 := structLitFields(looks[1].Index)
			if f1 != nil && f2 != nil && flow.Peel(f1["appID"]) == ssa.Value(fc.Params[1]) && isZeroConst(flow.Peel(f2["appID"])) &&
				flow.Peel(f1["code"]) == ssa.Value(fc.Params[2]) && flow.Peel(f2["code"]) == ssa.Value(fc.Params[2]) {
				// second on the miss edge of the first
				for _, g := range flow.Guards(looks[1]) {
					cond, neg := flow.Cond(g.If.Cond, g.Taken)
					if ex, ok := cond.(*ssa.Extract); ok && ex.Tuple == ssa.Value(looks[0]) && ex.Index == 1 && neg {
						good = true
					}
				}
			}
		}
		r.Check(good, "R3", key, c.fpos(fc), "second lookup with application 0 on the miss edge of the first, same code", why)
	}
}

// dictLookupKeys checks every comma-ok lookup of FindAVPWithVendor on the AVP indexes: keyed by
// (loop-carried application id, the caller's code/name, the caller's vendor id). Shared clause of
// C17 (R3) and C01 (R6). Returns the application-id phis found.
// dictLookupKeys: the part of the resolution that C01 relies on — an AVP the dictionary does not define (for
// the caller's code and vendor, at no level of the chain) resolves to the opaque placeholder for numeric codes
// and to an error otherwise, in every chain situation (no vendor-blind or code-only fallback).
func (c *Ctx) dictLookupKeys(rule string) { c.c17Chain(rule, true) }

func isZeroConst(v ssa.Value) bool {
	k, ok := flow.ConstInt(v)
	return ok && k == 0
}

// structLitFields: for a value that is the load of a local struct literal, the values stored
// into its fields.
func structLitFields(v ssa.Value) map[string]ssa.Value {
	// a key built by a constructor function (avpCodeKey(app, code, vendor)): the literal it returns, with its
	// parameters replaced by the arguments
	if call, ok := v.(*ssa.Call); ok {
		g := flow.StaticCallee(call)
		if g == nil || g.Blocks == nil {
			return nil
		}
		rvs := flow.ReturnValues(g, 0)
		if len(rvs) != 1 {
			return nil
		}
		inner := structLitFields(rvs[0])
		if inner == nil {
			return nil
		}
		out := map[string]ssa.Value{}
		for k, val := range inner {
			out[k] = val
			if p, isP := flow.Peel(val).(*ssa.Parameter); isP && p.Parent() == g {
				if i := paramIndex(g, p); i < len(call.Call.Args) {
					out[k] = call.Call.Args[i]
				}
			}
		}
		return out
	}
	u, ok := v.(*ssa.UnOp)
	if !ok || u.Op != token.MUL {
		return nil
	}
	a, ok := u.X.(*ssa.Alloc)
	if !ok {
		return nil
	}
	out := map[string]ssa.Value{}
	for _, ref := range flow.Referrers(a) {
		fa, ok := ref.(*ssa.FieldAddr)
		if !ok {
			continue
		}
		_, fld, _, _ := flow.FieldOf(fa)
		for _, r2 := range flow.Referrers(fa) {
			if st, ok := r2.(*ssa.Store); ok && st.Addr == ssa.Value(fa) {
				out[fld] = st.Val
			}
		}
	}
	return out
}

func (c *Ctx) c17Load() {
	r := c.R
	ld := c.P.Method("diam/dict", "Parser", "Load")
	if ld == nil {
		r.Undecided("R4", "role:Parser.Load", "-", "dict.(*Parser).Load not found")
		return
	}
	type upd struct {
		mu     *ssa.MapUpdate
		fld    string
		vendor string
		chain  []ssa.Instruction // the update and the calls leading to it from Load
	}
	var ups []upd
	// the load family: Load and the package-local helpers it (transitively) calls
	type famEntry struct {
		f     *ssa.Function
		chain []ssa.Instruction
	}
	fam := []famEntry{{ld, nil}}
	seenF := map[*ssa.Function]bool{ld: true}
	for i := 0; i < len(fam) && i < 16; i++ {
		for _, ci := range flow.CallInstrs(fam[i].f) {
			h := flow.StaticCallee(ci)
			if h == nil || h.Blocks == nil || seenF[h] || pkgOf(h) == nil || pkgOf(h).Path() != pkgDict {
				continue
			}
			seenF[h] = true
			fam = append(fam, famEntry{h, append(append([]ssa.Instruction{}, fam[i].chain...), ci)})
		}
	}
	for _, fe := range fam {
		fe := fe
		flow.Instrs(fe.f, func(in ssa.Instruction) {
			mu, ok := in.(*ssa.MapUpdate)
			if !ok {
				return
			}
			_, fld, _, ok := flow.FieldOf(mu.Map)
			if !ok {
				return
			}
			u := upd{mu: mu, fld: fld}
			classify := func(v ssa.Value) string {
				if k, isK := flow.ConstInt(v); isK && k == 4294967295 {
					return "wildcard"
				}
				if tn, f2, _, ok := flow.FieldOf(flow.Peel(v)); ok && tn == "AVP" && f2 == "VendorID" {
					return "own"
				}
				return "other"
			}
			var vendors []string
			if fs := structLitFields(mu.Key); fs != nil {
				if v, ok := fs["vendorID"]; ok {
					vendors = []string{classify(v)}
					// the vendor ranged over a small local array ([...]uint32{avp.VendorID, UndefinedVendorID}): one
					// update per element
					var arr *ssa.Alloc
					if ld, isLd := flow.Peel(v).(*ssa.UnOp); isLd && ld.Op == token.MUL {
						if ia, isIA := ld.X.(*ssa.IndexAddr); isIA {
							arr, _ = ia.X.(*ssa.Alloc)
						}
					}
					if ix, isIx := flow.Peel(v).(*ssa.Index); isIx {
						// range over an array value: the array is loaded once, then indexed
						if ld, isLd := ix.X.(*ssa.UnOp); isLd && ld.Op == token.MUL {
							arr, _ = ld.X.(*ssa.Alloc)
						}
					}
					if arr != nil {
						{
							if al := arr; al != nil {
								var elems []string
								for _, ref := range flow.Referrers(al) {
									ea, isEA := ref.(*ssa.IndexAddr)
									if !isEA {
										continue
									}
									if _, isK := flow.ConstInt(ea.Index); !isK {
										continue
									}
									for _, r2 := range flow.Referrers(ea) {
										if st, isSt := r2.(*ssa.Store); isSt && st.Addr == ssa.Value(ea) {
											elems = append(elems, classify(st.Val))
										}
									}
								}
								if len(elems) > 0 {
									vendors = elems
								}
							}
						}
					}
				}
			}
			if len(vendors) == 0 {
				vendors = []string{""}
			}
			for _, vd := range vendors {
				u2 := u
				u2.vendor = vd
				u2.chain = append(append([]ssa.Instruction{}, fe.chain...), mu)
				ups = append(ups, u2)
			}
		})
	}
	// conditional: inside a loop of its function the update (or a call on the way to it) is guarded by a
	// test other than the loop condition
	cond := func(u upd) string {
		for _, at := range u.chain {
			loops := flow.Loops(at.Parent())
			l := flow.InnermostLoop(loops, at)
			for _, g := range flow.Guards(at) {
				if l != nil && l.Blocks[g.If.Block()] && g.If.Block() != l.Head {
					// a test whose other edge abandons the load with an error is not a condition on the insert
					other := 0
					if g.Taken {
						other = 1
					}
					if returnsNonNilError(g.If.Block().Succs[other]) {
						continue
					}
					return short(g.If.Cond.String(), 40)
				}
				if l == nil && at.Parent() != ld {
					// in a helper called per element: any guard whose other edge does not return an error
					other := 0
					if g.Taken {
						other = 1
					}
					if !returnsNonNilError(g.If.Block().Succs[other]) {
						return short(g.If.Cond.String(), 40)
					}
				}
			}
		}
		return ""
	}
	for _, idx := range []string{"avpname", "avpcode"} {
		for _, want := range []string{"own", "wildcard"} {
			key := fmt.Sprintf("%s:insert-%s-%s-vendor", fname(ld), idx, want)
			var hit *upd
			for i := range ups {
				if ups[i].fld == idx && ups[i].vendor == want {
					hit = &ups[i]
				}
			}
			if hit == nil {
				why := "Load does not index AVPs under their own vendor id in " + idx
				if want == "wildcard" {
					why = "Load does not index AVPs under the any-vendor wildcard in " + idx + ": lookups without a vendor filter no longer resolve"
				}
				r.Fail("R4", key, c.fpos(ld), why)
				continue
			}
			if cd := cond(*hit); cd != "" {
				r.Fail("R4", key, c.pos(hit.mu), "the insert is conditional on "+cd+": a later definition may not shadow / an AVP may not be indexed")
				continue
			}
			r.Ok("R4", key, c.pos(hit.mu), "unconditional insert per AVP")
		}
	}
	for _, idx := range []string{"appcode", "apptype"} {
		key := fmt.Sprintf("%s:insert-%s", fname(ld), idx)
		var hit *upd
		for i := range ups {
			if ups[i].fld == idx {
				hit = &ups[i]
			}
		}
		if hit == nil {
			r.Fail("R4", key, c.fpos(ld), "Load does not update the application index "+idx)
		} else if cd := cond(*hit); cd != "" {
			r.Fail("R4", key, c.pos(hit.mu), "the application index update is conditional on "+cd)
		} else {
			r.Ok("R4", key, c.pos(hit.mu), "unconditional update per application")
		}
	}
	// Load never reports success without having loaded: every nil-error return follows the decoding of the input
	// (a "seen before, nothing to do" shortcut makes the most recently loaded definition lose to an older one:
	// load A, B, A again)
	{
		var dec ssa.Instruction
		for _, ci := range flow.CallInstrs(ld) {
			if o := flow.CalleeObj(ci); o != nil && o.Pkg() != nil && o.Pkg().Path() == "encoding/xml" && (o.Name() == "Decode" || o.Name() == "Unmarshal") {
				dec = ci
			}
		}
		key := fname(ld) + ":success-only-after-loading"
		if dec == nil {
			r.Undecided("R4", key, c.fpos(ld), "no XML decoding call found in Load")
		} else {
			var early ssa.Instruction
			flow.Instrs(ld, func(in ssa.Instruction) {
				ret, ok := in.(*ssa.Return)
				if !ok || len(ret.Results) == 0 || early != nil || ret.Block() == ld.Recover {
					return
				}
				isNil := false
				for _, src := range flow.SpillSources(ret.Results[len(ret.Results)-1]) {
					if flow.IsNilConst(src) {
						isNil = true
					}
				}
				if isNil && !flow.Dominates(dec, ret) {
					early = ret
				}
			})
			if early != nil {
				r.Fail("R4", key, c.pos(early), "Load can return success without decoding and indexing its input (an already-seen shortcut): definitions loaded again do not win over the ones loaded in between")
			} else {
				r.Ok("R4", key, c.pos(dec), "every nil-error return of Load is dominated by the decoding of the input")
			}
		}
	}
	// no deletes anywhere in package dict
	nDel := 0
	for _, f := range c.P.LibraryFuncs() {
		if pkgOf(f).Path() != pkgDict {
			continue
		}
		flow.Instrs(f, func(in ssa.Instruction) {
			if isBuiltinCall(in, "delete") {
				nDel++
				r.Fail("R4", fname(f)+":delete", c.pos(in), "package dict deletes from a map: loading can make a previously resolvable entry unresolvable")
			}
			// re-making the index maps outside the once-initialiser
			if st, ok := in.(*ssa.Store); ok {
				if tn, fld, _, ok := flow.FieldOf(st.Addr); ok && tn == "Parser" {
					if _, isMk := st.Val.(*ssa.MakeMap); isMk && f.Parent() == nil && !c.onlyViaOnce(f) && !madeWhenNil(f, st) {
						nDel++
						r.Fail("R4", fname(f)+":remake-"+fld, c.pos(st), "a Parser index map is re-created outside the once-initialiser: earlier definitions are dropped")
					}
				}
			}
		})
	}
	if nDel == 0 {
		r.Ok("R4", "dict:no-deletes", "-", "no delete() and no index re-creation in package dict")
	}
}

// onlyViaOnce: f is never called directly in the library; its only uses are as the function handed to
// sync.Once.Do (method value or closure).
func (c *Ctx) onlyViaOnce(f *ssa.Function) bool {
	uses := 0
	for _, g := range c.P.LibraryFuncs() {
		for _, ci := range flow.CallInstrs(g) {
			if flow.StaticCallee(ci) == f {
				return false
			}
			if flow.IsCallTo(ci, "sync", "Once", "Do") && len(ci.Common().Args) == 2 {
				if mc, ok := ci.Common().Args[1].(*ssa.MakeClosure); ok && flow.Unwrap(mc.Fn.(*ssa.Function)) == f {
					uses++
				}
			}
		}
	}
	return uses > 0
}

// c17ParentFunc: the parent relation written as a constant-table function called (through library helpers) from the
// lookup with one integer argument; nil when there is none or more than one.
func (c *Ctx) c17ParentFunc(f *ssa.Function) (map[int64]int64, string) {
	var tabs []map[int64]int64
	var names []string
	seen := map[*ssa.Function]bool{}
	var walk func(g *ssa.Function, d int)
	walk = func(g *ssa.Function, d int) {
		if g == nil || seen[g] || d > 4 || g.Blocks == nil || !c.P.IsLibrary(g) {
			return
		}
		seen[g] = true
		flow.Instrs(g, func(in ssa.Instruction) {
			call, ok := in.(ssa.CallInstruction)
			if !ok {
				return
			}
			h := flow.StaticCallee(call)
			if h == nil || pkgOf(h) == nil || pkgOf(h).Path() != pkgDict {
				return
			}
			if tab, _, _, ok := constTable(h); ok {
				if !seen[h] {
					seen[h] = true
					tabs = append(tabs, tab)
					names = append(names, h.Name())
				}
				return
			}
			walk(h, d+1)
		})
		for _, an := range g.AnonFuncs {
			walk(an, d+1)
		}
	}
	walk(f, 0)
	if len(tabs) != 1 {
		return nil, ""
	}
	return tabs[0], names[0]
}

// madeWhenNil: the store of a fresh map into a Parser field happens only on the edge where an index field of the
// Parser is still nil, and that tested field is itself (re)made under the same test — the indexes are allocated
// together, once, and an allocated index is never replaced.
func madeWhenNil(f *ssa.Function, st *ssa.Store) bool {
	for _, g := range flow.Guards(st) {
		rl, ok := condRel(g.If.Cond, g.Taken)
		if !ok || rl.op != token.EQL || !flow.IsNilConst(rl.b) {
			continue
		}
		tn, tested, _, ok := flow.FieldOf(flow.Peel(rl.a))
		if !ok || tn != "Parser" {
			continue
		}
		// the tested field is made under the same test
		same := false
		flow.Instrs(f, func(in ssa.Instruction) {
			s2, ok := in.(*ssa.Store)
			if !ok {
				return
			}
			if _, isMk := s2.Val.(*ssa.MakeMap); !isMk {
				return
			}
			if t2, f2, _, ok := flow.FieldOf(s2.Addr); ok && t2 == "Parser" && f2 == tested {
				for _, g2 := range flow.Guards(s2) {
					if g2.If == g.If && g2.Taken == g.Taken {
						same = true
					}
				}
			}
		})
		if same {
			return true
		}
	}
	return false
}
