package rules

import (
	"fmt"
	"go/types"
	"sort"
	"strings"

	"golang.org/x/tools/go/ssa"

	"verif/internal/flow"
	"verif/internal/prog"
)

const (
	pkgDiam     = prog.ModPath + "/diam"
	pkgSM       = prog.ModPath + "/diam/sm"
	pkgSMPeer   = prog.ModPath + "/diam/sm/smpeer"
	pkgSMParser = prog.ModPath + "/diam/sm/smparser"
	pkgDatatype = prog.ModPath + "/diam/datatype"
	pkgDict     = prog.ModPath + "/diam/dict"
	pkgAVP      = prog.ModPath + "/diam/avp"
)

func fname(f *ssa.Function) string { return prog.FuncName(f) }

func (c *Ctx) pos(in ssa.Instruction) string {
	if in == nil {
		return "-"
	}
	p := in.Pos()
	if !p.IsValid() {
		// fall back to any positioned instruction of the block, then the function
		for _, x := range in.Block().Instrs {
			if x.Pos().IsValid() {
				p = x.Pos()
				break
			}
		}
		if !p.IsValid() {
			p = in.Parent().Pos()
		}
	}
	return c.P.Position(p)
}

func (c *Ctx) fpos(f *ssa.Function) string {
	if f == nil {
		return "-"
	}
	return c.P.Position(f.Pos())
}

// witness renders a path of instructions as file:line + SSA text.
func (c *Ctx) witness(path []ssa.Instruction) []string {
	var out []string
	last := ""
	for _, in := range path {
		pos := "-"
		if in.Pos().IsValid() {
			pos = c.P.Position(in.Pos())
		}
		line := fmt.Sprintf("%s  b%d  %s", pos, in.Block().Index, flow.Describe(in))
		if line != last {
			out = append(out, line)
		}
		last = line
	}
	if len(out) > 40 {
		out = append(out[:20], append([]string{"..."}, out[len(out)-19:]...)...)
	}
	return out
}

// ---- handler plumbing ----

// isHandlerSig reports whether sig is func(diam.Conn, *diam.Message).
func isHandlerSig(sig *types.Signature) bool {
	if sig == nil || sig.Params().Len() != 2 || sig.Results().Len() != 0 {
		return false
	}
	return flow.TypeIs(sig.Params().At(0).Type(), pkgDiam, "Conn") && isMsgPtr(sig.Params().At(1).Type())
}

func isMsgPtr(t types.Type) bool {
	p, ok := t.(*types.Pointer)
	return ok && flow.TypeIs(p.Elem(), pkgDiam, "Message")
}

// isHandlerInvocation: an interface invoke of ServeDIAM(Conn,*Message), or a dynamic call of a
// func value with the handler signature.
func isHandlerInvocation(ci ssa.CallInstruction) bool {
	com := ci.Common()
	if com.IsInvoke() {
		return com.Method.Name() == "ServeDIAM" && isHandlerSig(com.Method.Type().(*types.Signature))
	}
	if flow.StaticCallee(ci) != nil {
		return false
	}
	if _, isB := com.Value.(*ssa.Builtin); isB {
		return false
	}
	sig, _ := com.Value.Type().Underlying().(*types.Signature)
	return isHandlerSig(sig)
}

// handlerImpls lists the library implementations of diam.Handler (functions named ServeDIAM with
// the handler signature).
func (c *Ctx) handlerImpls() []*ssa.Function {
	var out []*ssa.Function
	for _, f := range c.P.LibraryFuncs() {
		if f.Name() != "ServeDIAM" || f.Signature.Recv() == nil || f.Synthetic != "" {
			continue
		}
		if isHandlerSig(types.NewSignatureType(nil, nil, nil, f.Signature.Params(), f.Signature.Results(), false)) {
			out = append(out, f)
		}
	}
	return out
}

// reach computes the set of module functions reachable from roots through static plain calls
// (and, when viaGo, also through go statements), adding the library Handler implementations
// whenever a handler invocation through the interface is met (when viaIface).
func (c *Ctx) reach(roots []*ssa.Function, viaGo, viaIface, viaDefer bool) map[*ssa.Function]bool {
	seen := map[*ssa.Function]bool{}
	var impls []*ssa.Function
	if viaIface {
		impls = c.handlerImpls()
	}
	var visit func(f *ssa.Function)
	visit = func(f *ssa.Function) {
		if f == nil || seen[f] || f.Blocks == nil {
			return
		}
		if !c.P.InModule(pkgOf(f)) {
			return
		}
		seen[f] = true
		for _, ci := range flow.CallInstrs(f) {
			switch ci.(type) {
			case *ssa.Go:
				if !viaGo {
					continue
				}
			case *ssa.Defer:
				if !viaDefer {
					continue
				}
			}
			if g := flow.StaticCallee(ci); g != nil {
				visit(g)
			} else if viaIface && isHandlerInvocation(ci) && ci.Common().IsInvoke() {
				for _, im := range impls {
					visit(im)
				}
			}
		}
	}
	for _, r := range roots {
		visit(r)
	}
	return seen
}

func pkgOf(f *ssa.Function) *types.Package {
	for f.Parent() != nil {
		f = f.Parent()
	}
	if f.Pkg != nil {
		return f.Pkg.Pkg
	}
	if o := f.Object(); o != nil {
		return o.Pkg()
	}
	return nil
}

// reachesHandler: f invokes an application handler through plain calls (memoised).
func (c *Ctx) reachesHandler(f *ssa.Function, viaGo bool, memo map[*ssa.Function]int) bool {
	if f == nil || f.Blocks == nil {
		return false
	}
	switch memo[f] {
	case 1:
		return true
	case 2, 3:
		return false
	}
	memo[f] = 3 // in progress
	res := false
	for _, ci := range flow.CallInstrs(f) {
		if _, isGo := ci.(*ssa.Go); isGo && !viaGo {
			continue
		}
		if isHandlerInvocation(ci) {
			res = true
			break
		}
		if g := flow.StaticCallee(ci); g != nil && c.P.InModule(pkgOf(g)) {
			if c.reachesHandler(g, viaGo, memo) {
				res = true
				break
			}
		}
	}
	if res {
		memo[f] = 1
	} else {
		memo[f] = 2
	}
	return res
}

// callsFunc reports whether f transitively (static plain calls within the module) calls target.
func (c *Ctx) reachesFunc(f, target *ssa.Function, seen map[*ssa.Function]bool) bool {
	if f == nil || f.Blocks == nil || seen[f] {
		return false
	}
	seen[f] = true
	for _, ci := range flow.CallInstrs(f) {
		if _, isGo := ci.(*ssa.Go); isGo {
			continue
		}
		g := flow.StaticCallee(ci)
		if g == nil {
			continue
		}
		if g == target {
			return true
		}
		if c.P.InModule(pkgOf(g)) && c.reachesFunc(g, target, seen) {
			return true
		}
	}
	return false
}

// connLoop resolves the per-connection reader loop by role: the target of the `go` statement in
// (*Server).Serve from which diam.ReadMessage is reachable.
func (c *Ctx) connLoop() *ssa.Function {
	serve := c.P.Method("diam", "Server", "Serve")
	rm := c.P.Func("diam", "ReadMessage")
	if serve == nil || rm == nil {
		return nil
	}
	for _, ci := range flow.CallInstrs(serve) {
		if _, ok := ci.(*ssa.Go); !ok {
			continue
		}
		if g := flow.StaticCallee(ci); g != nil && c.reachesFunc(g, rm, map[*ssa.Function]bool{}) {
			return g
		}
	}
	// the `go` may sit in a helper of the accept loop (start-the-connection helper)
	for _, ci := range flow.CallInstrs(serve) {
		if _, ok := ci.(*ssa.Call); !ok {
			continue
		}
		h := flow.StaticCallee(ci)
		if h == nil || h.Blocks == nil || !c.P.IsLibrary(h) {
			continue
		}
		for _, cj := range flow.CallInstrs(h) {
			if _, ok := cj.(*ssa.Go); !ok {
				continue
			}
			if g := flow.StaticCallee(cj); g != nil && c.reachesFunc(g, rm, map[*ssa.Function]bool{}) {
				return g
			}
		}
	}
	// fallback: a synchronous call (reported by the rules that require `go`)
	for _, ci := range flow.CallInstrs(serve) {
		if _, ok := ci.(*ssa.Call); !ok {
			continue
		}
		if g := flow.StaticCallee(ci); g != nil && c.P.IsLibrary(g) && c.reachesFunc(g, rm, map[*ssa.Function]bool{}) {
			return g
		}
	}
	return nil
}

// connReadLoop: the function that holds the per-connection read loop — the goroutine's entry function itself,
// or (when the loop was extracted) the library function it plain-calls, at most two levels down, that contains
// a loop around a call reaching diam.ReadMessage. Returns that function and the call in entry leading to it.
func (c *Ctx) connReadLoop(entry *ssa.Function) (*ssa.Function, ssa.CallInstruction) {
	rm := c.P.Func("diam", "ReadMessage")
	if entry == nil || rm == nil {
		return entry, nil
	}
	hasLoop := func(f *ssa.Function) bool {
		loops := flow.Loops(f)
		if len(loops) == 0 {
			return false
		}
		for _, ci := range flow.CallInstrs(f) {
			if _, ok := ci.(*ssa.Call); !ok {
				continue
			}
			g := flow.StaticCallee(ci)
			if g == nil || !(g == rm || c.reachesFunc(g, rm, map[*ssa.Function]bool{})) {
				continue
			}
			if flow.InnermostLoop(loops, ci) != nil {
				return true
			}
		}
		return false
	}
	if hasLoop(entry) {
		return entry, nil
	}
	var find func(f *ssa.Function, depth int) *ssa.Function
	find = func(f *ssa.Function, depth int) *ssa.Function {
		for _, ci := range flow.CallInstrs(f) {
			if _, ok := ci.(*ssa.Call); !ok {
				continue
			}
			g := flow.StaticCallee(ci)
			if g == nil || g.Blocks == nil || !c.P.IsLibrary(g) || g == rm {
				continue
			}
			if hasLoop(g) {
				return g
			}
			if depth < 1 {
				if h := find(g, depth+1); h != nil {
					return h
				}
			}
		}
		return nil
	}
	for _, ci := range flow.CallInstrs(entry) {
		if _, ok := ci.(*ssa.Call); !ok {
			continue
		}
		g := flow.StaticCallee(ci)
		if g == nil || g.Blocks == nil || !c.P.IsLibrary(g) || g == rm {
			continue
		}
		if hasLoop(g) {
			return g, ci
		}
		if h := find(g, 1); h != nil {
			return h, ci
		}
	}
	return entry, nil
}

func sortedFuncNames(m map[*ssa.Function]bool) []string {
	var out []string
	for f := range m {
		out = append(out, fname(f))
	}
	sort.Strings(out)
	return out
}

// ---- locks ----

type lockOp struct {
	in        ssa.CallInstruction
	path      string
	exclusive bool // Lock vs RLock
	acquire   bool
	deferred  bool
}

// lockOps lists sync.Mutex / sync.RWMutex operations of f.
func lockOps(f *ssa.Function) []lockOp {
	var out []lockOp
	for _, ci := range flow.CallInstrs(f) {
		o := flow.CalleeObj(ci)
		if o == nil || o.Pkg() == nil || o.Pkg().Path() != "sync" {
			continue
		}
		sig := o.Type().(*types.Signature)
		rn := flow.RecvTypeName(sig)
		if rn != "Mutex" && rn != "RWMutex" {
			continue
		}
		var op lockOp
		switch o.Name() {
		case "Lock":
			op = lockOp{exclusive: true, acquire: true}
		case "RLock":
			op = lockOp{acquire: true}
		case "Unlock":
			op = lockOp{exclusive: true}
		case "RUnlock":
			op = lockOp{}
		default:
			continue
		}
		args := ci.Common().Args
		if len(args) == 0 {
			continue
		}
		p, ok := flow.Path(args[0])
		if !ok {
			p = "?" + args[0].Name()
		}
		op.path = p
		op.in = ci
		_, op.deferred = ci.(*ssa.Defer)
		out = append(out, op)
	}
	return out
}

// heldAt returns the locks that MAY be held when `at` executes in its function: those with a
// path from an acquire to `at` that passes no (non-deferred) release of the same path and kind.
func mayHeldAt(f *ssa.Function, at ssa.Instruction) []lockOp {
	ops := lockOps(f)
	var out []lockOp
	for _, a := range ops {
		if !a.acquire || a.deferred {
			continue
		}
		rel := func(in ssa.Instruction) bool {
			for _, r := range ops {
				if !r.acquire && !r.deferred && r.path == a.path && r.exclusive == a.exclusive && r.in == in {
					return true
				}
			}
			return false
		}
		if p := flow.PathAvoiding(f, a.in, func(in ssa.Instruction) bool { return in == at }, rel); p != nil {
			out = append(out, a)
		}
	}
	return out
}

// mustHeldAt reports whether the lock with the given access path is held on every path reaching
// `at`: forward must-analysis of lock sets over the CFG (Lock/RLock add, Unlock/RUnlock remove,
// deferred unlocks release only at exit, intersection at joins).
func mustHeldAt(f *ssa.Function, at ssa.Instruction, path string, exclusive bool) bool {
	key := func(p string, ex bool) string {
		if ex {
			return "X:" + p
		}
		return "R:" + p
	}
	ops := map[ssa.Instruction]lockOp{}
	all := map[string]bool{}
	for _, o := range lockOps(f) {
		if o.deferred {
			continue
		}
		ops[o.in] = o
		all[key(o.path, o.exclusive)] = true
	}
	want := key(path, exclusive)
	if !all[want] {
		return false
	}
	copySet := func(m map[string]bool) map[string]bool {
		n := map[string]bool{}
		for k := range m {
			n[k] = true
		}
		return n
	}
	out := map[*ssa.BasicBlock]map[string]bool{}
	for _, b := range f.Blocks {
		out[b] = copySet(all) // top
	}
	transfer := func(b *ssa.BasicBlock, in map[string]bool, stop ssa.Instruction) (map[string]bool, bool) {
		cur := copySet(in)
		for _, x := range b.Instrs {
			if x == stop {
				return cur, true
			}
			if o, ok := ops[x]; ok {
				if o.acquire {
					cur[key(o.path, o.exclusive)] = true
				} else {
					delete(cur, key(o.path, o.exclusive))
				}
			}
		}
		return cur, false
	}
	inOf := func(b *ssa.BasicBlock) map[string]bool {
		if len(b.Preds) == 0 {
			return map[string]bool{}
		}
		var in map[string]bool
		for _, p := range b.Preds {
			if in == nil {
				in = copySet(out[p])
				continue
			}
			for k := range in {
				if !out[p][k] {
					delete(in, k)
				}
			}
		}
		return in
	}
	for changed, iter := true, 0; changed && iter < 50; iter++ {
		changed = false
		for _, b := range f.Blocks {
			o, _ := transfer(b, inOf(b), nil)
			if len(o) != len(out[b]) {
				changed = true
			} else {
				for k := range o {
					if !out[b][k] {
						changed = true
					}
				}
			}
			out[b] = o
		}
	}
	st, found := transfer(at.Block(), inOf(at.Block()), at)
	return found && st[want]
}

func short(s string, n int) string {
	if len(s) > n {
		return s[:n-3] + "..."
	}
	return s
}

var _ = strings.Join

// heldOnEntry: names of mutex fields that are exclusively held at every library call site of the
// (unexported, statically called) function f — the E3 "held on entry" summary, depth 1.
func (c *Ctx) heldOnEntry(f *ssa.Function) []string { return c.heldOnEntryIn(f, nil) }

// heldOnEntryIn restricts the call sites considered to callers in the given set (nil = all).
func (c *Ctx) heldOnEntryIn(f *ssa.Function, callers map[*ssa.Function]bool) []string {
	return c.heldOnEntryDepth(f, callers, 0)
}

func (c *Ctx) heldOnEntryDepth(f *ssa.Function, callers map[*ssa.Function]bool, depth int) []string {
	if f.Object() != nil && f.Object().Exported() {
		return nil
	}
	var common map[string]bool
	sites := 0
	for _, caller := range c.P.LibraryFuncs() {
		if callers != nil && !callers[caller] {
			continue
		}
		for _, ci := range flow.CallInstrs(caller) {
			if flow.StaticCallee(ci) != f {
				continue
			}
			if _, isGo := ci.(*ssa.Go); isGo {
				return nil
			}
			sites++
			here := map[string]bool{}
			for _, op := range lockOps(caller) {
				if op.acquire && op.exclusive && !op.deferred && mustHeldAt(caller, ci, op.path, true) {
					parts := strings.Split(op.path, ".")
					here[parts[len(parts)-1]] = true
				}
			}
			// locks the caller itself is entered with (a helper of a helper)
			if depth < 2 && caller != f {
				for _, k := range c.heldOnEntryDepth(caller, callers, depth+1) {
					here[k] = true
				}
			}
			if common == nil {
				common = here
			} else {
				for k := range common {
					if !here[k] {
						delete(common, k)
					}
				}
			}
		}
	}
	if sites == 0 {
		return nil
	}
	var out []string
	for k := range common {
		out = append(out, k)
	}
	sort.Strings(out)
	return out
}
