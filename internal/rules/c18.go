package rules

import (
	"fmt"
	"go/constant"
	"go/token"
	"go/types"
	"sort"

	"golang.org/x/tools/go/ssa"

	"verif/internal/flow"
)

func init() {
	register(&RuleSet{
		Property:  "C18",
		Title:     "Struct marshalling and unmarshalling are inverse and dictionary-faithful",
		Run:       runC18,
		Technique: "switch-case census against the datatype tables, provenance of the produced AVP's fields, guard identification for the M/V flag composition",
		Explanation: "Decides on the current source: R1 the switch over the dictionary data type in marshal has a case for every value of datatype.Available, and each scalar case's reflect target type T has T.Type() equal to the case constant (so every type a dictionary can declare can be marshalled, into the type consumers expect); " +
			"R2 the AVP built by marshal takes Code and VendorID from the dictionary AVP found for the tag, and its Flags are composed only of Mbit — on the edge where the dictionary's Must contains \"M\" — and Vbit — on the edge VendorID > 0; " +
			"R3 Marshal replaces m.AVP and then recomputes Header.MessageLength from m.Len(); " +
			"R4 the struct scanner builds its field index from, and recurses into embedded structs with, its own complete AVP list; R5 for pointer and interface fields 'empty' is exactly IsNil(). " +
			"R2 also: exactly one AVP is produced per marshalled value (slices: one per element). R6 no function on the Marshal / Unmarshal path writes package-level state, so concurrent calls and calls in sequence cannot influence one another. " +
			"R2 also: the Data of the produced AVP is a grouped value built in marshal or the field converted through a reflect value of the type the dictionary prescribes, never the field used as it is. R4 also: in the field walkers the recursion into an embedded struct is conditioned on nothing but anonymous field / struct kind / no tag. R7: no reflect.ValueOf on that path is applied to a value that already is a reflect.Value. R6 also: no append on the Marshal path has as its first argument a slice that can be one taken from the caller's struct. " +
			"R4 also: the field walkers flatten a field into its parent (recursion on Value.Field(n)) only under a condition that establishes StructField.Anonymous and an empty tag — directly, through an && value or through a predicate helper; no AVP list on the path is reordered by an unstable sort. R1 reads table entries written reflect.TypeOf(T(zero)) as well as reflect.TypeOf((*T)(nil)).Elem(). " +
			"NOT decided (not applicable to static analysis): that Unmarshal∘Marshal is the identity over field shapes and values — reflection-driven, value-level behaviour that only execution can settle; parseAvpTag's string handling.",
		Rules: map[string]string{
			"R1": "marshal's type switch is exhaustive over datatype.Available and each case targets the type whose Type() is the case constant",
			"R2": "produced AVP: Code/VendorID from the dictionary AVP; Flags = Mbit (Must contains M) | Vbit (VendorID > 0) only",
			"R3": "Marshal: MessageLength = m.Len() after m.AVP is replaced",
			"R4": "Unmarshal scans every struct level (embedded structs included) against the complete AVP list of that level",
			"R5": "omitempty: a pointer / interface field is empty exactly when it is nil",
			"R6": "no package-level state is written on the Marshal / Unmarshal path",
			"R7": "no reflect.ValueOf of a reflect.Value on the Marshal / Unmarshal path (a field handled that way panics)",
		},
		MinInstances: map[string]int{"R1": 18, "R2": 3, "R3": 1, "R4": 1, "R5": 1, "R6": 1, "R7": 1},
		Assumptions:  []string{"reflect.New(t)/Set/Convert produce a value of type t (package reflect contract)"},
	})
}

func runC18(c *Ctx) {
	r := c.R
	// the marshal function: library function in diam with a *dict.AVP parameter that switches on its Data.Type
	var mf *ssa.Function
	var tag ssa.Value
	for _, f := range c.P.LibraryFuncs() {
		if pkgOf(f).Path() != pkgDiam {
			continue
		}
		flow.Instrs(f, func(in ssa.Instruction) {
			bo, ok := in.(*ssa.BinOp)
			if !ok || bo.Op != token.EQL {
				return
			}
			if !flow.TypeIs(bo.X.Type(), pkgDatatype, "TypeID") {
				return
			}
			if tn, fld, _, ok := flow.FieldOf(bo.X); ok && tn == "Data" && fld == "Type" {
				if _, isConst := bo.Y.(*ssa.Const); isConst && (usesReflectTypeOf(f) || c.callsTypeSwitchHelper(f)) {
					mf, tag = f, bo.X
				}
			}
		})
	}
	if mf == nil {
		r.Undecided("R1", "role:marshal", "-", "no function switching on the dictionary AVP's Data.Type with reflect targets found")
		return
	}
	r.Role("MarshalFn", fname(mf))
	// cases
	cases := map[string]types.Type{} // const -> target type (nil if none)
	caseAt := map[string]ssa.Instruction{}
	// the switch may be split: helpers of mf that receive the type id and switch on it contribute their cases
	type swFn struct {
		f   *ssa.Function
		tag ssa.Value
	}
	sws := []swFn{{mf, tag}}
	for _, ci := range flow.CallInstrs(mf) {
		h := flow.StaticCallee(ci)
		if h == nil || h.Blocks == nil || pkgOf(h) == nil || pkgOf(h).Path() != pkgDiam {
			continue
		}
		for i, a := range ci.Common().Args {
			if i < len(h.Params) && flow.TypeIs(a.Type(), pkgDatatype, "TypeID") {
				if tn, fld, _, ok := flow.FieldOf(flow.Peel(a)); ok && tn == "Data" && fld == "Type" {
					sws = append(sws, swFn{h, h.Params[i]})
				}
			}
		}
	}
	for _, sw := range sws {
		mf, tag := sw.f, sw.tag
		for _, b := range mf.Blocks {
			ifi, ok := b.Instrs[len(b.Instrs)-1].(*ssa.If)
			if !ok {
				continue
			}
			bo, ok := ifi.Cond.(*ssa.BinOp)
			if !ok || bo.Op != token.EQL || flow.Peel(bo.X) != flow.Peel(tag) {
				continue
			}
			k, ok := bo.Y.(*ssa.Const)
			if !ok {
				continue
			}
			ks := k.Value.ExactString()
			caseAt[ks] = ifi
			cases[ks] = nil
			// first reflect.TypeOf in the blocks dominated by the true edge
			for _, x := range mf.Blocks {
				if !flow.EdgeDominates(b, 0, x) && x != b.Succs[0] {
					continue
				}
				for _, in := range x.Instrs {
					call, ok := in.(*ssa.Call)
					if !ok || !flow.IsCallTo(call, "reflect", "", "TypeOf") {
						continue
					}
					mi, ok := call.Call.Args[0].(*ssa.MakeInterface)
					if !ok {
						continue
					}
					if p, ok := mi.X.Type().(*types.Pointer); ok && cases[ks] == nil {
						cases[ks] = p.Elem()
					} else if flow.TypePkgIs(mi.X.Type(), pkgDatatype) && cases[ks] == nil {
						// reflect.TypeOf(datatype.T(zero)): the type of the value itself
						cases[ks] = mi.X.Type()
					}
				}
			}
		}
	}
	// the basic types may be held in a package-level table keyed by the type id and consulted with the tag:
	// every entry is a case, its target the T of reflect.TypeOf((*T)(nil)).Elem()
	for _, sw := range sws {
		flow.Instrs(sw.f, func(in ssa.Instruction) {
			lk, ok := in.(*ssa.Lookup)
			if !ok {
				return
			}
			gl := loadedGlobal(lk.X)
			if gl == nil || gl.Pkg == nil || gl.Pkg.Pkg.Path() != pkgDiam || !flow.TypeIs(lk.Index.Type(), pkgDatatype, "TypeID") {
				return
			}
			if tn, fld, _, ok := flow.FieldOf(flow.Peel(lk.Index)); !(ok && tn == "Data" && fld == "Type") && flow.Peel(lk.Index) != flow.Peel(sw.tag) {
				return
			}
			ents, ok := c.globalMapLiteral("diam", gl.Name())
			if !ok {
				return
			}
			for _, e := range ents {
				if e.Key == nil {
					continue
				}
				ks := e.Key.ExactString()
				if _, dup := cases[ks]; dup {
					continue
				}
				caseAt[ks] = lk
				cases[ks] = nil
				// value: Elem() of TypeOf(MakeInterface((*T)(nil)))
				v := e.Value
				viaElem := false
				if call, ok := v.(*ssa.Call); ok && call.Call.IsInvoke() && call.Call.Method.Name() == "Elem" {
					v = call.Call.Value
					viaElem = true
				}
				if call, ok := v.(*ssa.Call); ok && flow.IsCallTo(call, "reflect", "", "TypeOf") {
					if mi, ok := call.Call.Args[0].(*ssa.MakeInterface); ok {
						if p, ok := mi.X.Type().(*types.Pointer); ok && viaElem {
							cases[ks] = p.Elem()
						} else if !viaElem {
							// reflect.TypeOf(datatype.T(zero)): the type of the value itself
							cases[ks] = mi.X.Type()
						}
					}
				}
			}
		})
	}
	avail, ok := c.globalMapLiteral("diam/datatype", "Available")
	if !ok {
		r.Undecided("R1", "role:datatype.Available", "-", "cannot read datatype.Available")
		return
	}
	ids := c.constsOfType("diam/datatype", "TypeID")
	idName := map[string]string{}
	for n, v := range ids {
		idName[v.ExactString()] = n
	}
	var names []string
	byName := map[string]string{}
	for _, e := range avail {
		n := constant.StringVal(e.Key)
		names = append(names, n)
		byName[n] = flow.PeelNoConvert(e.Value).(*ssa.Const).Value.ExactString()
	}
	sort.Strings(names)
	for _, n := range names {
		ks := byName[n]
		key := "marshal-case:" + n
		T, has := cases[ks]
		if !has {
			r.Fail("R1", key, c.fpos(mf), fmt.Sprintf("marshal has no case for data type %q (%s): struct fields mapped to AVPs of that type cannot be marshalled (\"AVP's Data type is unknown\")", n, idName[ks]))
			continue
		}
		if T == nil {
			// grouped: structural case without a scalar target
			r.Ok("R1", key, c.pos(caseAt[ks]), "case present (structural handling)")
			continue
		}
		v, okc := c.methodConstResult(T, "Type")
		if !okc || v.ExactString() != ks {
			r.Fail("R1", key, c.pos(caseAt[ks]), fmt.Sprintf("the case for %s converts the field to %s, whose Type() is %v: the produced AVP carries a value of the wrong data type", idName[ks], T, v))
			continue
		}
		r.Ok("R1", key, c.pos(caseAt[ks]), fmt.Sprintf("case targets %s, whose Type() is %s", T, idName[ks]))
	}

	// ---- R2 ----
	var dictParam *ssa.Parameter
	for _, p := range mf.Params {
		if pt, ok := p.Type().(*types.Pointer); ok && flow.TypeIs(pt.Elem(), pkgDict, "AVP") {
			dictParam = p
		}
	}
	var avpAlloc *ssa.Alloc
	flow.Instrs(mf, func(in ssa.Instruction) {
		if a, ok := in.(*ssa.Alloc); ok && a.Heap && flow.TypeIs(a.Type(), pkgDiam, "AVP") {
			// the one with field stores for Code
			for _, ref := range flow.Referrers(a) {
				if fa, ok := ref.(*ssa.FieldAddr); ok {
					if _, fld, _, _ := flow.FieldOf(fa); fld == "Code" {
						avpAlloc = a
					}
				}
			}
		}
	})
	litFn := mf
	var litCall ssa.CallInstruction
	if dictParam != nil && avpAlloc == nil {
		// the AVP may be built by a helper that is handed the dictionary AVP
		for _, ci := range flow.CallInstrs(mf) {
			h := flow.StaticCallee(ci)
			if h == nil || h.Blocks == nil || pkgOf(h) == nil || pkgOf(h).Path() != pkgDiam {
				continue
			}
			for i, a := range ci.Common().Args {
				if flow.Peel(a) != ssa.Value(dictParam) || i >= len(h.Params) {
					continue
				}
				flow.Instrs(h, func(in ssa.Instruction) {
					if al, ok := in.(*ssa.Alloc); ok && al.Heap && flow.TypeIs(al.Type(), pkgDiam, "AVP") {
						for _, ref := range flow.Referrers(al) {
							if fa, ok := ref.(*ssa.FieldAddr); ok {
								if _, fld, _, _ := flow.FieldOf(fa); fld == "Code" {
									avpAlloc, litFn, dictParam = al, h, h.Params[i]
									litCall = ci
								}
							}
						}
					}
				})
			}
		}
	}
	if dictParam == nil || avpAlloc == nil {
		r.Undecided("R2", fname(mf)+":produced-avp", c.fpos(mf), "cannot find the AVP literal built from the dictionary AVP")
	} else {
		stores := map[string]*ssa.Store{}
		for _, ref := range flow.Referrers(avpAlloc) {
			if fa, ok := ref.(*ssa.FieldAddr); ok {
				_, fld, _, _ := flow.FieldOf(fa)
				for _, r2 := range flow.Referrers(fa) {
					if st, ok := r2.(*ssa.Store); ok {
						stores[fld] = st
					}
				}
			}
		}
		fromDict := func(v ssa.Value, field string) bool {
			tn, fld, base, ok := flow.FieldOf(flow.Peel(v))
			return ok && tn == "AVP" && fld == field && flow.Peel(base) == ssa.Value(dictParam)
		}
		for _, fld := range []string{"Code", "VendorID"} {
			st := stores[fld]
			key := fname(mf) + ":produced-avp." + fld
			if st == nil {
				r.Fail("R2", key, c.pos(avpAlloc), "the produced AVP's "+fld+" is never set")
				continue
			}
			r.Check(fromDict(st.Val, fld), "R2", key, c.pos(st), fld+" is copied from the dictionary AVP found for the tag", "the produced AVP's "+fld+" does not come from the dictionary AVP of the field's tag")
		}
		key := fname(mf) + ":produced-avp.Flags"
		if st := stores["Flags"]; st == nil {
			r.Fail("R2", key, c.pos(avpAlloc), "the produced AVP's Flags are never set")
		} else {
			good, why := c.c18Flags(litFn, st.Val, dictParam)
			r.Check(good, "R2", key, c.pos(st), "Flags = (Mbit if Must contains \"M\") | (Vbit if VendorID > 0), nothing else", why)
		}
		// Data: a grouped value built here, or the field's value after it went through a reflect value of the
		// type the dictionary prescribes (reflect.New(t) … Interface().(datatype.Type)); a field value used as it
		// is (because it happens to implement datatype.Type) carries its own type, not the dictionary's
		key = fname(mf) + ":produced-avp.Data"
		if st := stores["Data"]; st == nil {
			r.Fail("R2", key, c.pos(avpAlloc), "the produced AVP's Data is never set")
		} else {
			bad := ""
			seen := map[ssa.Value]bool{}
			var viaNew func(v ssa.Value, d int) bool
			viaNew = func(v ssa.Value, d int) bool {
				if d > 8 || v == nil {
					return false
				}
				if call, ok := v.(*ssa.Call); ok {
					if o := flow.CalleeObj(call); o != nil && o.Pkg() != nil && o.Pkg().Path() == "reflect" {
						if o.Name() == "New" {
							return true
						}
						for _, a := range call.Call.Args {
							if viaNew(a, d+1) {
								return true
							}
						}
					}
					return false
				}
				if u, ok := v.(*ssa.UnOp); ok {
					// a reflect.Value kept in a local
					if al, isAl := u.X.(*ssa.Alloc); isAl {
						for _, ref := range flow.Referrers(al) {
							if stv, isSt := ref.(*ssa.Store); isSt && stv.Addr == ssa.Value(al) && viaNew(stv.Val, d+1) {
								return true
							}
						}
					}
					return false
				}
				if ph, ok := v.(*ssa.Phi); ok {
					for _, e := range ph.Edges {
						if !viaNew(e, d+1) {
							return false
						}
					}
					return len(ph.Edges) > 0
				}
				return false
			}
			var visit func(v ssa.Value, d int)
			visit = func(v ssa.Value, d int) {
				if seen[v] || d > 10 || bad != "" {
					return
				}
				seen[v] = true
				switch x := v.(type) {
				case *ssa.Const:
				case *ssa.Parameter:
					// the literal is built by a helper that is handed the data: judged at the helper's call
					if litCall != nil && x.Parent() == litFn {
						if i := paramIndex(litFn, x); i < len(litCall.Common().Args) {
							visit(litCall.Common().Args[i], d+1)
							return
						}
					}
					bad = "the AVP's data is a parameter whose origin is not visible"
				case *ssa.Phi:
					for _, e := range x.Edges {
						visit(e, d+1)
					}
				case *ssa.MakeInterface:
					if !flow.TypeIs(x.X.Type(), pkgDiam, "GroupedAVP") {
						if pt, ok := x.X.Type().(*types.Pointer); !ok || !flow.TypeIs(pt.Elem(), pkgDiam, "GroupedAVP") {
							bad = "a value of type " + x.X.Type().String() + " is used as the AVP's data"
						}
					}
				case *ssa.Extract:
					// (data, err) := conversion helper(field, t, …): every value the helper hands back is nil or
					// the datatype.Type asserted out of a reflect value it made with reflect.New(t)
					if hc, isCall := x.Tuple.(*ssa.Call); isCall {
						if h := flow.StaticCallee(hc); h != nil && h.Blocks != nil && c.P.IsLibrary(h) && pkgOf(h).Path() == pkgDiam {
							good, n := true, 0
							for _, rv := range flow.ReturnValues(h, x.Index) {
								if flow.IsNilConst(rv) {
									continue
								}
								n++
								ex2, isEx := rv.(*ssa.Extract)
								if !isEx {
									good = false
									continue
								}
								ta2, isTA := ex2.Tuple.(*ssa.TypeAssert)
								if !isTA || !viaNew(ta2.X, 0) {
									good = false
								}
							}
							if good && n > 0 {
								return
							}
						}
					}
					ta, ok := x.Tuple.(*ssa.TypeAssert)
					if !ok {
						bad = "the AVP's data comes from " + short(x.Tuple.String(), 50)
						return
					}
					if !viaNew(ta.X, 0) {
						bad = "the value asserted to datatype.Type does not come from a reflect value of the dictionary's type (reflect.New(t))"
					}
				case *ssa.TypeAssert:
					if !viaNew(x.X, 0) {
						bad = "the value asserted to datatype.Type does not come from a reflect value of the dictionary's type (reflect.New(t))"
					}
				case *ssa.UnOp:
					if al, ok := x.X.(*ssa.Alloc); ok && x.Op == token.MUL {
						for _, src := range flow.SpillSources(x) {
							visit(src, d+1)
						}
						_ = al
						return
					}
					bad = "the AVP's data is loaded from " + short(x.X.String(), 40)
				default:
					bad = "the AVP's data comes from " + short(v.String(), 60) + ", not from the conversion to the dictionary's data type"
				}
			}
			visit(st.Val, 0)
			r.Check(bad == "", "R2", key, c.pos(st), "Data is a grouped value built here or the field converted to the type the dictionary prescribes", "the produced AVP's Data bypasses the conversion to the dictionary's data type: "+bad+" — the AVP carries a typed value other than the one a caller building it from the dictionary would")
		}
	}

	// one AVP per value: once the value dispatch (slices, pointers) is done and the data type is being
	// switched on, every successful return hands back the list with an AVP appended — a value that produces no
	// AVP (e.g. an empty nested struct dropped instead of an empty Grouped AVP) shifts or loses elements
	{
		key := fname(mf) + ":one-avp-per-value"
		var sw *ssa.BasicBlock
		flow.Instrs(mf, func(in ssa.Instruction) {
			bo, ok := in.(*ssa.BinOp)
			if !ok || bo.Op != token.EQL || flow.Peel(bo.X) != flow.Peel(tag) {
				return
			}
			if _, isK := bo.Y.(*ssa.Const); !isK {
				return
			}
			if sw == nil || bo.Block().Dominates(sw) {
				sw = bo.Block()
			}
		})
		li := -1
		for i := 0; i < mf.Signature.Results().Len(); i++ {
			if isAVPSlice(mf.Signature.Results().At(i).Type()) {
				li = i
			}
		}
		if sw == nil || li < 0 {
			r.Undecided("R2", key, c.fpos(mf), "cannot find the data-type switch / the AVP list result of the marshal function")
		} else {
			var bad ssa.Instruction
			flow.Instrs(mf, func(in ssa.Instruction) {
				ret, ok := in.(*ssa.Return)
				if !ok || bad != nil || !sw.Dominates(ret.Block()) || !mayReturnNilError(ret) {
					return
				}
				// the error may come first or last
				ev := ret.Results[0]
				if !isErrorType(ev.Type()) {
					ev = ret.Results[len(ret.Results)-1]
				}
				if !flow.IsNilConst(ev) {
					definitely := true
					for _, s := range flow.SpillSources(ev) {
						if !flow.IsNilConst(s) {
							definitely = false
						}
					}
					if !definitely {
						return // propagates a callee's verdict
					}
				}
				for _, src := range flow.SpillSources(ret.Results[li]) {
					call, isCall := src.(*ssa.Call)
					if !isCall || !isBuiltinCall(call, "append") {
						bad = ret
					}
				}
			})
			if bad != nil {
				r.Fail("R2", key, c.pos(bad), "after the data type was determined a success return hands back the AVP list without an AVP appended: a value (e.g. a nested struct whose members are all empty) produces no AVP at all")
			} else {
				r.Ok("R2", key, c.pos(sw.Instrs[0]), "every success return behind the data-type switch returns append(list, avp)")
			}
		}
	}

	c.c18Unmarshal()
	c.c18NoSharedState()

	// ---- R3 ----
	if mm := c.P.Method("diam", "Message", "Marshal"); mm != nil {
		var avpStore, lenStore *ssa.Store
		flow.Instrs(mm, func(in ssa.Instruction) {
			if st, ok := in.(*ssa.Store); ok {
				if tn, fld, _, ok := flow.FieldOf(st.Addr); ok {
					if tn == "Message" && fld == "AVP" {
						avpStore = st
					}
					if tn == "Header" && fld == "MessageLength" {
						lenStore = st
					}
				}
			}
		})
		key := fname(mm) + ":length-recomputed"
		good := false
		if avpStore != nil && lenStore != nil && flow.Dominates(avpStore, lenStore) {
			if call, ok := flow.Peel(lenStore.Val).(*ssa.Call); ok && flow.IsCallTo(call, pkgDiam, "Message", "Len") && flow.Dominates(avpStore, call) {
				good = true
			}
		}
		r.Check(good, "R3", key, c.fpos(mm), "MessageLength = uint32(m.Len()) after m.AVP was replaced", "Marshal does not recompute Header.MessageLength from m.Len() after replacing the AVPs: the header length no longer equals the serialised size")
	} else {
		r.Undecided("R3", "role:Message.Marshal", "-", "(*Message).Marshal not found")
	}
}

// c18Unmarshal: structural clauses of the unmarshal direction (R4) and of omitempty (R5).
func (c *Ctx) c18Unmarshal() {
	r := c.R
	// scanStruct by role: the function that builds an index of its []*AVP parameter and scans struct fields
	for _, f := range c.P.LibraryFuncs() {
		if pkgOf(f).Path() != pkgDiam {
			continue
		}
		var avps *ssa.Parameter
		for _, p := range f.Params {
			if sl, ok := p.Type().Underlying().(*types.Slice); ok {
				if pt, ok := sl.Elem().(*types.Pointer); ok && flow.TypeIs(pt.Elem(), pkgDiam, "AVP") {
					avps = p
				}
			}
		}
		if avps == nil {
			continue
		}
		var idxCall *ssa.Call
		var selfCalls []*ssa.Call
		for _, ci := range flow.CallInstrs(f) {
			call, ok := ci.(*ssa.Call)
			if !ok {
				continue
			}
			g := flow.StaticCallee(call)
			if g == nil {
				continue
			}
			if g == f {
				selfCalls = append(selfCalls, call)
			}
			if g.Signature.Results().Len() == 1 {
				if _, ok := g.Signature.Results().At(0).Type().Underlying().(*types.Map); ok {
					idxCall = call
				}
			}
		}
		takesValue := false
		for _, p := range f.Params {
			if flow.TypeIs(p.Type(), "reflect", "Value") {
				takesValue = true
			}
		}
		walksFields := false
		for _, ci := range flow.CallInstrs(f) {
			if o := flow.CalleeObj(ci); o != nil && o.Pkg() != nil && o.Pkg().Path() == "reflect" && o.Name() == "NumField" {
				walksFields = true
			}
		}
		if len(selfCalls) == 0 || !takesValue || (idxCall == nil && !walksFields) {
			continue
		}
		key := fname(f) + ":scans-complete-avp-list"
		if idxCall == nil {
			// the index built in place: a map made here and filled in a loop over the complete list
			var made *ssa.MakeMap
			flow.Instrs(f, func(in ssa.Instruction) {
				if mk, ok := in.(*ssa.MakeMap); ok {
					if mt, ok := mk.Type().Underlying().(*types.Map); ok && isAVPSlice(mt.Elem()) {
						made = mk
					}
				}
			})
			if made != nil {
				fromList, n := true, 0
				flow.Instrs(f, func(in ssa.Instruction) {
					mu, ok := in.(*ssa.MapUpdate)
					if !ok || mu.Map != ssa.Value(made) {
						return
					}
					n++
					// the element appended is an element of the parameter list
					okElem := false
					if call, ok := mu.Value.(*ssa.Call); ok && len(call.Call.Args) >= 2 {
						if b, ok := call.Call.Value.(*ssa.Builtin); ok && b.Name() == "append" {
							el := call.Call.Args[1]
							if sl, ok := el.(*ssa.Slice); ok {
								// append(x, e) lowers the variadic part to a one-element array slice
								if al, ok := sl.X.(*ssa.Alloc); ok {
									for _, ref := range flow.Referrers(al) {
										if ia, ok := ref.(*ssa.IndexAddr); ok {
											for _, r2 := range flow.Referrers(ia) {
												if st, ok := r2.(*ssa.Store); ok {
													el = st.Val
												}
											}
										}
									}
								}
							}
							if ld, ok := el.(*ssa.UnOp); ok && ld.Op == token.MUL {
								if ia, ok := ld.X.(*ssa.IndexAddr); ok && ia.X == ssa.Value(avps) {
									okElem = true
								}
							}
						}
					}
					if !okElem {
						fromList = false
					}
				})
				good := fromList && n > 0
				why := "the field index built in the scanner is not filled from the complete AVP list the function was given"
				ai := paramIndex(f, avps)
				for _, sc := range selfCalls {
					if sc.Call.Args[ai] != ssa.Value(avps) {
						good, why = false, "the recursion into an embedded struct does not receive the complete AVP list of the enclosing level (its fields come back empty when another field was looked up before)"
					}
				}
				r.Check(good, "R4", key, c.fpos(f), "index built in place from, and embedded structs scanned with, the function's own complete AVP list", why)
				continue
			}
		}
		if idxCall == nil {
			// no per-level index: how does a field find its AVPs? not through a search that descends into groups
			why := "the struct scanner builds no index of the AVP list of its level: cannot see how a field finds its AVPs"
			var at ssa.Instruction
			ws := map[*ssa.Function]bool{}
			for _, w := range c.walkers() {
				ws[w.fn] = true
			}
			for _, ci := range flow.CallInstrs(f) {
				if g := flow.StaticCallee(ci); g != nil && ws[g] {
					for _, a := range ci.Common().Args {
						if a == ssa.Value(avps) {
							why = "a field's AVPs are looked up with " + g.Name() + ", which descends into grouped AVPs: an AVP of the same code nested inside a group of this level is taken for the field's own (extra slice elements, a value for a field whose AVP is absent)"
							at = ci
						}
					}
				}
			}
			if at != nil {
				r.Fail("R4", key, c.pos(at), why)
			} else {
				r.Undecided("R4", key, c.fpos(f), why)
			}
			continue
		}
		good := len(idxCall.Call.Args) == 1 && idxCall.Call.Args[0] == ssa.Value(avps)
		why := "the field index is not built from the complete AVP list the function was given"
		ai := paramIndex(f, avps)
		for _, sc := range selfCalls {
			if sc.Call.Args[ai] != ssa.Value(avps) {
				good = false
				why = "the recursion into an embedded struct does not receive the complete AVP list of the enclosing level (its fields come back empty when another field was looked up before)"
			}
		}
		r.Check(good, "R4", key, c.fpos(f), "index built from, and embedded structs scanned with, the function's own complete AVP list", why)
	}
	// every embedded struct is descended into: in the functions that walk struct fields and recurse for embedded
	// structs (marshal and unmarshal side), the recursion is conditioned on nothing but "anonymous field of struct
	// kind without a tag" — any further condition (exportedness of the type's name, a name pattern, a cache)
	// leaves some embedded structs out, their fields unmarshalled as zero and their AVPs not produced
	for _, f := range c.P.LibraryFuncs() {
		if pkgOf(f).Path() != pkgDiam || len(flow.Loops(f)) == 0 {
			continue
		}
		takesValue := false
		for _, p := range f.Params {
			if flow.TypeIs(p.Type(), "reflect", "Value") {
				takesValue = true
			}
		}
		if !takesValue {
			continue
		}
		loops := flow.Loops(f)
		for _, ci := range flow.CallInstrs(f) {
			call, ok := ci.(*ssa.Call)
			if !ok || flow.StaticCallee(call) != f {
				continue
			}
			l := flow.InnermostLoop(loops, call)
			if l == nil {
				continue
			}
			// the converse of the rule below: the recursion that flattens a field into its parent is made only for
			// an anonymous field without a tag (a tagged embedded struct is a grouped AVP of its own)
			fieldArg := false
			for _, a := range call.Call.Args {
				if fc, isCall := flow.Peel(a).(*ssa.Call); isCall && flow.IsCallTo(fc, "reflect", "Value", "Field") {
					fieldArg = true
				}
			}
			for _, p := range f.Params {
				if flow.TypeIs(p.Type(), pkgDict, "AVP") {
					fieldArg = false // the per-field marshaller recursing into a grouped AVP's members, not a flattening
				}
			}
			if fieldArg {
				anon, untagged := false, false
				for _, g := range flow.Guards(call) {
					if !l.Blocks[g.If.Block()] {
						continue
					}
					a, u := c.c18EmbFacts(g.If.Cond, g.Taken, 0)
					anon, untagged = anon || a, untagged || u
				}
				key := fname(f) + ":flattens-only-untagged-anonymous-fields"
				switch {
				case !anon:
					r.Fail("R4", key, c.pos(call), "the field loop recurses into a field's struct without testing StructField.Anonymous: named struct fields are flattened into their parent")
				case !untagged:
					r.Fail("R4", key, c.pos(call), "the recursion that flattens an embedded struct into its parent is not conditioned on the field having no tag: an embedded struct that carries an avp tag is a grouped AVP, but Marshal now emits its members at the outer level and Unmarshal fills it from the outer level")
				default:
					r.Ok("R4", key, c.pos(call), "the flattening recursion is reached only for an anonymous field whose tag is empty")
				}
			}
			// is this the embedded-struct recursion? it is guarded by the Anonymous flag of a StructField
			isEmb := false
			for _, g := range flow.Guards(call) {
				cond, neg := flow.Cond(g.If.Cond, g.Taken)
				if tn, fld, _, ok := flow.FieldOf(cond); ok && tn == "StructField" && fld == "Anonymous" && !neg {
					isEmb = true
				}
			}
			if !isEmb {
				continue
			}
			key := fname(f) + ":embedded-recursion-unconditional"
			bad := ""
			var at ssa.Instruction = call
			for _, g := range flow.Guards(call) {
				if !l.Blocks[g.If.Block()] {
					continue // conditions before the field loop concern the whole value
				}
				if why := c18EmbeddedGuardOK(g.If.Cond); why != "" {
					bad, at = why, g.If
				}
			}
			r.Check(bad == "", "R4", key, c.pos(at), "the recursion into an embedded struct depends only on: anonymous field, struct kind, no tag", "the recursion into an embedded struct is additionally conditioned on "+bad+": embedded structs that fail the extra test are skipped without error — their AVPs are not produced by Marshal and their fields stay zero after Unmarshal")
		}
	}
	// isEmptyValue by role: func(reflect.Value) bool switching on Kind()
	for _, f := range c.P.LibraryFuncs() {
		if pkgOf(f).Path() != pkgDiam || len(f.Params) != 1 || !flow.TypeIs(f.Params[0].Type(), "reflect", "Value") || f.Signature.Results().Len() != 1 {
			continue
		}
		if b, ok := f.Signature.Results().At(0).Type().Underlying().(*types.Basic); !ok || b.Kind() != types.Bool {
			continue
		}
		var kind ssa.Value
		for _, ci := range flow.CallInstrs(f) {
			if flow.IsCallTo(ci, "reflect", "Value", "Kind") {
				kind = ci.Value()
			}
		}
		if kind == nil {
			continue
		}
		key := fname(f) + ":pointer-empty-iff-nil"
		// the block for Kind == Ptr (22) / Interface (20)
		good, found := true, false
		why := ""
		for _, b := range f.Blocks {
			ifi, ok := b.Instrs[len(b.Instrs)-1].(*ssa.If)
			if !ok {
				continue
			}
			bo, ok := ifi.Cond.(*ssa.BinOp)
			if !ok || bo.Op != token.EQL || bo.X != kind {
				continue
			}
			k, ok := flow.ConstInt(bo.Y)
			if !ok || (k != 22 && k != 20) {
				continue
			}
			found = true
			// returns reachable from the case body
			body := b.Succs[0]
			seen := map[*ssa.BasicBlock]bool{}
			var visit func(x *ssa.BasicBlock)
			visit = func(x *ssa.BasicBlock) {
				if seen[x] {
					return
				}
				seen[x] = true
				if ret, ok := x.Instrs[len(x.Instrs)-1].(*ssa.Return); ok {
					call, isCall := ret.Results[0].(*ssa.Call)
					if !isCall || !flow.IsCallTo(call, "reflect", "Value", "IsNil") {
						good = false
						why = "for pointer / interface fields emptiness is not exactly IsNil(): a non-nil pointer to a zero value is dropped by omitempty and comes back as nil"
					}
					return
				}
				for _, s := range x.Succs {
					visit(s)
				}
			}
			visit(body)
		}
		if found {
			r.Check(good, "R5", key, c.fpos(f), "Kind Ptr/Interface: empty iff IsNil()", why)
		}
	}
}

func usesReflectTypeOf(f *ssa.Function) bool {
	for _, ci := range flow.CallInstrs(f) {
		if flow.IsCallTo(ci, "reflect", "", "TypeOf") {
			return true
		}
	}
	return false
}

// c18Flags checks the composition of the produced flags value.
func (c *Ctx) c18Flags(f *ssa.Function, v ssa.Value, dictParam *ssa.Parameter) (bool, string) {
	// walk the expression: phi / OR with constants / constants
	type contrib struct {
		k  int64
		at ssa.Instruction // instruction (or predecessor terminator) whose guards select the contribution
	}
	var cons []contrib
	seen := map[ssa.Value]bool{}
	okShape := true
	var helperFor *ssa.Parameter
	var walk func(v ssa.Value, at ssa.Instruction)
	walk = func(v ssa.Value, at ssa.Instruction) {
		if seen[v] {
			return
		}
		seen[v] = true
		switch x := v.(type) {
		case *ssa.Const:
			cons = append(cons, contrib{x.Int64(), at})
		case *ssa.Phi:
			for i, e := range x.Edges {
				pred := x.Block().Preds[i]
				walk(e, pred.Instrs[len(pred.Instrs)-1])
			}
		case *ssa.BinOp:
			if x.Op != token.OR {
				okShape = false
				return
			}
			walk(x.X, x)
			walk(x.Y, x)
		case *ssa.Convert:
			walk(x.X, at)
		case *ssa.Call:
			// a helper computing the flags from the dictionary AVP: analyse its body with the parameter mapped
			g := flow.StaticCallee(x)
			if g == nil || g.Blocks == nil || helperFor != nil {
				okShape = false
				return
			}
			for i, a := range x.Call.Args {
				if flow.Peel(a) == ssa.Value(dictParam) && i < len(g.Params) {
					helperFor = g.Params[i]
				}
			}
			if helperFor == nil {
				okShape = false
				return
			}
			for _, rv := range flow.ReturnValues(g, 0) {
				var retAt ssa.Instruction
				flow.Instrs(g, func(in ssa.Instruction) {
					if ret, ok := in.(*ssa.Return); ok && len(ret.Results) > 0 && (ret.Results[0] == rv || retAt == nil) {
						retAt = ret
					}
				})
				walk(rv, retAt)
			}
		default:
			okShape = false
		}
	}
	walk(v, nil)
	if helperFor != nil {
		dictParam = helperFor
	}
	if !okShape {
		return false, "the produced AVP's flags are not composed of constants by | and selection only"
	}
	isMustTest := func(cond ssa.Value) bool {
		call, ok := cond.(*ssa.Call)
		if !ok || !flow.IsCallTo(call, "strings", "", "Contains") {
			return false
		}
		tn, fld, base, ok := flow.FieldOf(flow.Peel(call.Call.Args[0]))
		s, oks := flow.ConstString(call.Call.Args[1])
		return ok && tn == "AVP" && fld == "Must" && flow.Peel(base) == ssa.Value(dictParam) && oks && s == "M"
	}
	isVendorTest := func(cond ssa.Value) bool {
		bo, ok := cond.(*ssa.BinOp)
		if !ok || !(bo.Op == token.GTR || bo.Op == token.NEQ) || !isZeroConst(bo.Y) {
			return false
		}
		tn, fld, base, ok := flow.FieldOf(flow.Peel(bo.X))
		return ok && tn == "AVP" && fld == "VendorID" && flow.Peel(base) == ssa.Value(dictParam)
	}
	sawM, sawV := false, false
	for _, k := range cons {
		switch k.k {
		case 0:
		case 64, 128:
			if k.at == nil {
				return false, fmt.Sprintf("flag bit %#x is set unconditionally", k.k)
			}
			okGuard := false
			for _, g := range flow.Guards(k.at) {
				cond, neg := flow.Cond(g.If.Cond, g.Taken)
				if neg {
					continue
				}
				if k.k == 64 && isMustTest(cond) {
					okGuard = true
				}
				if k.k == 128 && isVendorTest(cond) {
					okGuard = true
				}
			}
			if !okGuard {
				if k.k == 64 {
					return false, "the M flag is not set exactly when the dictionary's Must contains \"M\""
				}
				return false, "the V flag is not set exactly when the dictionary AVP has a vendor id"
			}
			if k.k == 64 {
				sawM = true
			} else {
				sawV = true
			}
		default:
			return false, fmt.Sprintf("flag bits %#x are set that the dictionary does not call for", k.k)
		}
	}
	if !sawM {
		return false, "the M flag is never set from the dictionary's Must attribute"
	}
	if !sawV {
		return false, "the V flag is never set for vendor-specific AVPs"
	}
	return true, ""
}

// callsTypeSwitchHelper: f hands a dictionary AVP's Data.Type to a package-local function that maps type ids
// to reflect types.
func (c *Ctx) callsTypeSwitchHelper(f *ssa.Function) bool {
	for _, ci := range flow.CallInstrs(f) {
		h := flow.StaticCallee(ci)
		if h == nil || h.Blocks == nil || pkgOf(h) == nil || pkgOf(h).Path() != pkgDiam || !usesReflectTypeOf(h) {
			continue
		}
		for _, a := range ci.Common().Args {
			if flow.TypeIs(a.Type(), pkgDatatype, "TypeID") {
				return true
			}
		}
	}
	return false
}

// c18NoSharedState: R6 — dictionary faithfulness per message: what Marshal / Unmarshal produce depends on the
// message's own dictionary and the struct only. No function on their path writes package-level state (a cache
// of tag look-ups shared between messages answers for another dictionary).
// c18OwnSlices: R6 — Marshal never appends to a slice it does not own. A slice taken out of the caller's struct
// (reflect Value.Interface().([]*AVP)) and everything that may be it (through phis, returns of helpers,
// parameters, re-slices) must not be the first argument of append: with spare capacity behind it, the append
// writes into the caller's array and the AVPs marshalled from a later field overwrite the caller's data.
func (c *Ctx) c18OwnSlices() {
	r := c.R
	mf := c.P.Method("diam", "Message", "Marshal")
	if mf == nil {
		return
	}
	cl := c.reach([]*ssa.Function{mf}, false, false, true)
	var fns []*ssa.Function
	for f := range cl {
		if c.P.IsLibrary(f) && pkgOf(f).Path() == pkgDiam {
			fns = append(fns, f)
		}
	}
	isAVPSlice := func(t types.Type) bool {
		sl, ok := t.Underlying().(*types.Slice)
		if !ok {
			return false
		}
		pt, ok := sl.Elem().(*types.Pointer)
		return ok && flow.TypeIs(pt.Elem(), pkgDiam, "AVP")
	}
	taintedParam := map[*ssa.Parameter]bool{}
	taintedRet := map[*ssa.Function]bool{}
	var tainted func(v ssa.Value, seen map[ssa.Value]bool) bool
	tainted = func(v ssa.Value, seen map[ssa.Value]bool) bool {
		if v == nil || seen[v] {
			return false
		}
		seen[v] = true
		switch x := v.(type) {
		case *ssa.Parameter:
			return taintedParam[x]
		case *ssa.Phi:
			for _, e := range x.Edges {
				if tainted(e, seen) {
					return true
				}
			}
		case *ssa.Slice:
			return tainted(x.X, seen)
		case *ssa.ChangeType:
			return tainted(x.X, seen)
		case *ssa.Extract:
			if ta, ok := x.Tuple.(*ssa.TypeAssert); ok {
				return isAVPSlice(ta.AssertedType)
			}
			if call, ok := x.Tuple.(*ssa.Call); ok {
				if g := flow.StaticCallee(call); g != nil {
					return taintedRet[g]
				}
			}
		case *ssa.TypeAssert:
			return isAVPSlice(x.AssertedType)
		case *ssa.Call:
			if g := flow.StaticCallee(x); g != nil {
				return taintedRet[g]
			}
		case *ssa.UnOp:
			if x.Op == token.MUL {
				for _, src := range flow.SpillSources(x) {
					if src != ssa.Value(x) && tainted(src, seen) {
						return true
					}
				}
			}
		}
		return false
	}
	for round := 0; round < 8; round++ {
		changed := false
		for _, f := range fns {
			for i := 0; i < f.Signature.Results().Len(); i++ {
				if !isAVPSlice(f.Signature.Results().At(i).Type()) || taintedRet[f] {
					continue
				}
				for _, rv := range flow.ReturnValues(f, i) {
					if tainted(rv, map[ssa.Value]bool{}) {
						taintedRet[f] = true
						changed = true
					}
				}
			}
			for _, ci := range flow.CallInstrs(f) {
				g := flow.StaticCallee(ci)
				if g == nil || !cl[g] {
					continue
				}
				for i, a := range ci.Common().Args {
					if i < len(g.Params) && !taintedParam[g.Params[i]] && isAVPSlice(a.Type()) && tainted(a, map[ssa.Value]bool{}) {
						taintedParam[g.Params[i]] = true
						changed = true
					}
				}
			}
		}
		if !changed {
			break
		}
	}
	n, bad := 0, 0
	for _, f := range fns {
		for _, ci := range flow.CallInstrs(f) {
			if !isBuiltinCall(ci, "append") || len(ci.Common().Args) == 0 || !isAVPSlice(ci.Common().Args[0].Type()) {
				continue
			}
			n++
			if tainted(ci.Common().Args[0], map[ssa.Value]bool{}) {
				bad++
				r.Fail("R6", fname(f)+":append-to-callers-slice", c.pos(ci), "Marshal appends to a slice that may be one taken from the caller's struct: with spare capacity behind it the append overwrites the caller's array (and the AVPs of a later field), so the message no longer carries the struct's values")
			}
		}
	}
	if bad == 0 {
		r.Ok("R6", "marshal-path:appends-to-own-slices", "-", fmt.Sprintf("%d appends of AVP lists on the Marshal path, none onto a slice that can come from the caller's struct", n))
	}
}

func (c *Ctx) c18NoSharedState() {
	r := c.R
	c.c18OwnSlices()
	var roots []*ssa.Function
	for _, n := range []string{"Marshal", "Unmarshal"} {
		if f := c.P.Method("diam", "Message", n); f != nil {
			roots = append(roots, f)
		}
	}
	if len(roots) == 0 {
		r.Undecided("R6", "role:Marshal/Unmarshal", "-", "entry points not found")
		return
	}
	cl := c.reach(roots, false, false, true)
	// R7: reflect values are not wrapped a second time. reflect.ValueOf(v) of something that already is a
	// reflect.Value describes the Value struct itself; the Elem / Set / Interface that follows panics or
	// operates on the wrong object, so the field concerned is never marshalled.
	{
		n, wrapped := 0, 0
		var fs []*ssa.Function
		for f := range cl {
			if c.P.IsLibrary(f) {
				fs = append(fs, f)
			}
		}
		sort.Slice(fs, func(i, j int) bool { return fname(fs[i]) < fname(fs[j]) })
		for _, f := range fs {
			for _, ci := range flow.CallInstrs(f) {
				if !flow.IsCallTo(ci, "reflect", "", "ValueOf") || len(ci.Common().Args) != 1 {
					continue
				}
				n++
				if mi, ok := ci.Common().Args[0].(*ssa.MakeInterface); ok && flow.TypeIs(mi.X.Type(), "reflect", "Value") {
					wrapped++
					r.Fail("R7", fmt.Sprintf("%s:ValueOf-of-a-Value#%d", fname(f), wrapped), c.pos(ci), "reflect.ValueOf is applied to a reflect.Value ("+short(mi.X.String(), 40)+"): the result describes the Value struct, not the field — the Elem()/Set() that follows panics, so a struct with such a field cannot be marshalled at all")
				}
			}
		}
		if wrapped == 0 {
			r.Ok("R7", "marshal-path:reflect-values-wrapped-once", "-", fmt.Sprintf("%d reflect.ValueOf calls on the Marshal / Unmarshal path, none applied to a reflect.Value", n))
		}
		// R4 also: the AVPs of one code reach a slice field in message order — nothing on the path reorders an
		// AVP list with a sort that does not keep equal elements in place
		reordered := 0
		for _, f := range fs {
			for _, ci := range flow.CallInstrs(f) {
				o := flow.CalleeObj(ci)
				if o == nil || o.Pkg() == nil || len(ci.Common().Args) == 0 {
					continue
				}
				unstable := o.Pkg().Path() == "sort" && (o.Name() == "Slice" || o.Name() == "Sort") ||
					o.Pkg().Path() == "slices" && (o.Name() == "Sort" || o.Name() == "SortFunc")
				if !unstable {
					continue
				}
				a := ci.Common().Args[0]
				if mi, ok := a.(*ssa.MakeInterface); ok {
					a = mi.X
				}
				sl, ok := a.Type().Underlying().(*types.Slice)
				if !ok || !flow.TypeIs(sl.Elem(), pkgDiam, "AVP") {
					continue
				}
				reordered++
				r.Fail("R4", fmt.Sprintf("%s:avp-list-sorted-unstably#%d", fname(f), reordered), c.pos(ci), "an AVP list on the Unmarshal path is sorted with "+o.Pkg().Name()+"."+o.Name()+", which does not keep equal elements in their order: repeated AVPs of one code can reach a slice field in another order than they have in the message")
			}
		}
		if reordered == 0 {
			r.Ok("R4", "marshal-path:avp-lists-keep-message-order", "-", "no AVP list on the Marshal / Unmarshal path is reordered by an unstable sort")
		}
	}
	bad := 0
	isGlobalAddr := func(v ssa.Value) *ssa.Global {
		for i := 0; i < 6; i++ {
			switch x := v.(type) {
			case *ssa.Global:
				return x
			case *ssa.FieldAddr:
				v = x.X
			case *ssa.IndexAddr:
				v = x.X
			case *ssa.UnOp:
				v = x.X
			default:
				return nil
			}
		}
		return nil
	}
	for f := range cl {
		if !c.P.IsLibrary(f) || pkgOf(f).Path() != pkgDiam {
			continue
		}
		flow.Instrs(f, func(in ssa.Instruction) {
			switch x := in.(type) {
			case *ssa.Store:
				if g := isGlobalAddr(x.Addr); g != nil {
					bad++
					r.Fail("R6", fname(f)+":store-global-"+g.Name(), c.pos(x), "the marshalling path writes the package-level variable "+g.Name()+": state shared between messages (and dictionaries) influences what is produced")
				}
			case *ssa.MapUpdate:
				if g := isGlobalAddr(x.Map); g != nil {
					bad++
					r.Fail("R6", fname(f)+":update-global-"+g.Name(), c.pos(x), "the marshalling path updates the package-level map "+g.Name()+": results of one message's dictionary look-ups are reused for others")
				}
			case *ssa.Call:
				// mutating methods of a package-level sync.Map / cache object
				o := flow.CalleeObj(x)
				if o == nil || o.Pkg() == nil || o.Pkg().Path() != "sync" || len(x.Call.Args) == 0 {
					return
				}
				if flow.RecvTypeName(o.Type().(*types.Signature)) != "Map" {
					return
				}
				switch o.Name() {
				case "Store", "LoadOrStore", "Swap", "CompareAndSwap", "Delete", "LoadAndDelete":
					if g := isGlobalAddr(x.Call.Args[0]); g != nil {
						bad++
						r.Fail("R6", fname(f)+":update-global-"+g.Name(), c.pos(x), "the marshalling path stores into the package-level sync.Map "+g.Name()+": dictionary look-ups of one message are reused for messages with another dictionary")
					}
				}
			}
		})
	}
	if bad == 0 {
		r.Ok("R6", "marshal-path:no-shared-state", "-", fmt.Sprintf("%d functions on the Marshal/Unmarshal path write no package-level state", len(cl)))
	}
}

// c18EmbeddedGuardOK: cond (a branch condition inside the field loop that dominates the embedded recursion) is one
// of the tests that define an embedded struct — the loop bound, StructField.Anonymous, a Kind() comparison, the
// tag's emptiness — or an error test. Returns a description of the condition otherwise.
func c18EmbeddedGuardOK(cond ssa.Value) string {
	cond, _ = flow.Cond(cond, true)
	if tn, fld, _, ok := flow.FieldOf(cond); ok && tn == "StructField" && fld == "Anonymous" {
		return ""
	}
	bo, ok := cond.(*ssa.BinOp)
	if !ok {
		if call, isCall := cond.(*ssa.Call); isCall {
			return "the result of " + calleeLabel(call)
		}
		return short(cond.String(), 40)
	}
	isKind := func(v ssa.Value) bool {
		call, ok := flow.Peel(v).(*ssa.Call)
		if !ok {
			return false
		}
		if o := flow.CalleeObj(call); o != nil && o.Pkg() != nil && o.Pkg().Path() == "reflect" && o.Name() == "Kind" {
			return true
		}
		return call.Call.IsInvoke() && call.Call.Method.Name() == "Kind"
	}
	isTagLen := func(v ssa.Value) bool {
		x, ok := builtinOf(v, "len")
		if !ok {
			return false
		}
		tn, fld, _, ok := flow.FieldOf(flow.Peel(x))
		return ok && tn == "StructField" && fld == "Tag"
	}
	isTag := func(v ssa.Value) bool {
		tn, fld, _, ok := flow.FieldOf(flow.Peel(v))
		return ok && tn == "StructField" && fld == "Tag"
	}
	isNumField := func(v ssa.Value) bool {
		call, ok := flow.Peel(v).(*ssa.Call)
		if !ok {
			return false
		}
		o := flow.CalleeObj(call)
		return o != nil && o.Pkg() != nil && o.Pkg().Path() == "reflect" && o.Name() == "NumField" || ok && call.Call.IsInvoke() && call.Call.Method.Name() == "NumField"
	}
	for _, pr := range [][2]ssa.Value{{bo.X, bo.Y}, {bo.Y, bo.X}} {
		a, b := pr[0], pr[1]
		if isKind(a) {
			return ""
		}
		if isTagLen(a) && isZeroConst(b) {
			return ""
		}
		if s, isStr := flow.ConstString(b); isTag(a) && isStr && s == "" {
			return ""
		}
		if isNumField(a) {
			return ""
		}
		if isErrorType(a.Type()) && flow.IsNilConst(b) {
			return ""
		}
		if _, isPhi := a.(*ssa.Phi); isPhi {
			if _, isK := flow.ConstInt(b); isK || isNumField(b) {
				return "" // loop counter against a bound
			}
			if bo2, ok := b.(*ssa.Call); ok && bo2 != nil {
				return ""
			}
		}
	}
	return short(cond.String(), 50)
}

// c18EmbFacts: what the branch condition cond, taken or not, establishes about a reflect.StructField: that it is
// anonymous, that its tag is empty. Follows negation, an && evaluated as a value, and a package-local predicate
// helper (what holds at every return that can yield true).
func (c *Ctx) c18EmbFacts(cond ssa.Value, taken bool, depth int) (anon, untagged bool) {
	if depth > 3 {
		return false, false
	}
	v, neg := flow.Cond(cond, taken)
	if tn, fld, _, ok := flow.FieldOf(v); ok && tn == "StructField" && fld == "Anonymous" {
		return !neg, false
	}
	if rl, ok := condRel(cond, taken); ok {
		isTag := func(x ssa.Value) bool {
			x = flow.Peel(x)
			if tn, fld, _, ok := flow.FieldOf(x); ok && tn == "StructField" && fld == "Tag" {
				return true
			}
			// Tag.Get(key) / the value of Tag.Lookup(key)
			if ex, isEx := x.(*ssa.Extract); isEx {
				x = ex.Tuple
			}
			if call, isCall := x.(*ssa.Call); isCall {
				if o := flow.CalleeObj(call); o != nil && o.Pkg() != nil && o.Pkg().Path() == "reflect" && (o.Name() == "Get" || o.Name() == "Lookup") && len(call.Call.Args) > 0 {
					tn, fld, _, ok := flow.FieldOf(flow.Peel(call.Call.Args[0]))
					return ok && tn == "StructField" && fld == "Tag"
				}
			}
			return false
		}
		for _, pr := range [][2]ssa.Value{{rl.a, rl.b}, {rl.b, rl.a}} {
			a, b := pr[0], pr[1]
			if x, isLen := builtinOf(a, "len"); isLen && isTag(x) && isZeroConst(b) && (rl.op == token.EQL || rl.op == token.LEQ && a == rl.a || rl.op == token.GEQ && a == rl.b) {
				return false, true
			}
			if str, isStr := flow.ConstString(b); isStr && str == "" && isTag(a) && rl.op == token.EQL {
				return false, true
			}
		}
		return false, false
	}
	if neg {
		return false, false
	}
	switch y := v.(type) {
	case *ssa.Phi:
		// a && b as a value: true only when the last operand was, under the conditions that led to evaluating it
		var last ssa.Value
		var from *ssa.BasicBlock
		n := 0
		for i, e := range y.Edges {
			if k, isK := e.(*ssa.Const); isK && k.Value != nil && k.Value.String() == "false" {
				continue
			}
			last, from = e, y.Block().Preds[i]
			n++
		}
		if n != 1 {
			return false, false
		}
		anon, untagged = c.c18EmbFacts(last, true, depth+1)
		for _, g := range flow.Guards(from.Instrs[len(from.Instrs)-1]) {
			a, u := c.c18EmbFacts(g.If.Cond, g.Taken, depth+1)
			anon, untagged = anon || a, untagged || u
		}
		return anon, untagged
	case *ssa.Call:
		h := flow.StaticCallee(y)
		if h == nil || h.Blocks == nil || !c.P.IsLibrary(h) || h.Signature.Results().Len() != 1 {
			return false, false
		}
		first := true
		flow.Instrs(h, func(in ssa.Instruction) {
			ret, ok := in.(*ssa.Return)
			if !ok || len(ret.Results) != 1 {
				return
			}
			if k, isK := ret.Results[0].(*ssa.Const); isK && k.Value != nil && k.Value.String() == "false" {
				return
			}
			a, u := false, false
			if _, isK := ret.Results[0].(*ssa.Const); !isK {
				a, u = c.c18EmbFacts(ret.Results[0], true, depth+1)
			}
			for _, g := range flow.Guards(ret) {
				a2, u2 := c.c18EmbFacts(g.If.Cond, g.Taken, depth+1)
				a, u = a || a2, u || u2
			}
			if first {
				anon, untagged, first = a, u, false
			} else {
				anon, untagged = anon && a, untagged && u
			}
		})
		return anon, untagged
	}
	return false, false
}
