package rules

import (
	"fmt"
	"go/constant"
	"go/token"
	"go/types"
	"sort"
	"strings"

	"golang.org/x/tools/go/ssa"

	"verif/internal/cong"
	"verif/internal/flow"
	"verif/internal/lanes"
)

// layout maps a byte offset of the wire image to "Field:lane" (lane 0 = least significant byte).
type layout map[int]string

func (l layout) String() string {
	var ks []int
	for k := range l {
		ks = append(ks, k)
	}
	sort.Ints(ks)
	var parts []string
	for _, k := range ks {
		parts = append(parts, fmt.Sprintf("%d=%s", k, l[k]))
	}
	return strings.Join(parts, " ")
}

func bigEndianField(l layout, name string, off, n int) {
	for i := 0; i < n; i++ {
		l[off+i] = fmt.Sprintf("%s:%d", name, n-1-i)
	}
}

// rfcHeader / rfcAVPHeader: RFC 6733 §3 and §4.1 as a layout table (the independent reference).
func rfcHeader() layout {
	l := layout{}
	bigEndianField(l, "Version", 0, 1)
	bigEndianField(l, "MessageLength", 1, 3)
	bigEndianField(l, "CommandFlags", 4, 1)
	bigEndianField(l, "CommandCode", 5, 3)
	bigEndianField(l, "ApplicationID", 8, 4)
	bigEndianField(l, "HopByHopID", 12, 4)
	bigEndianField(l, "EndToEndID", 16, 4)
	return l
}

func rfcAVPHeader(withVendor bool) layout {
	l := layout{}
	bigEndianField(l, "Code", 0, 4)
	bigEndianField(l, "Flags", 4, 1)
	bigEndianField(l, "Length", 5, 3)
	if withVendor {
		bigEndianField(l, "VendorID", 8, 4)
	}
	return l
}

func (c *Ctx) laneCallee(call *ssa.Call) *ssa.Function {
	g := flow.StaticCallee(call)
	if g == nil || !c.P.InModule(pkgOf(g)) {
		return nil
	}
	return g
}

// byteParam: the []byte parameter of f.
func byteParam(f *ssa.Function) *ssa.Parameter {
	for _, p := range f.Params {
		if isByteSlice(p.Type()) {
			return p
		}
	}
	return nil
}

// readerLayout: offset -> field:lane from the stores to fields of struct `typ` in f, whose values
// are byte-lane functions of f's []byte parameter. guards[field] records whether the store is
// under the V-bit predicate.
func (c *Ctx) readerLayout(f *ssa.Function, typ string) (layout, map[string]string, []string) {
	l := layout{}
	cond := map[string]string{}
	var problems []string
	data := byteParam(f)
	if data == nil {
		return l, cond, []string{"no []byte parameter"}
	}
	isBase := func(v ssa.Value) bool {
		if v == ssa.Value(data) {
			return true
		}
		// data = data[:x] re-slicing keeps offset 0
		if sl, ok := v.(*ssa.Slice); ok && sl.Low == nil {
			return sl.X == ssa.Value(data)
		}
		// data, err = step(data): a helper that hands back a prefix of the bytes it was given (or nil)
		if ex, ok := v.(*ssa.Extract); ok {
			if call, ok := ex.Tuple.(*ssa.Call); ok && prefixOfArg(call, ex.Index) == ssa.Value(data) {
				return true
			}
		}
		if call, ok := v.(*ssa.Call); ok && prefixOfArg(call, 0) == ssa.Value(data) {
			return true
		}
		return false
	}
	rd := &lanes.Reader{IsBase: isBase, MaxDepth: 3, Callee: c.laneCallee}
	flow.Instrs(f, func(in ssa.Instruction) {
		st, ok := in.(*ssa.Store)
		if !ok {
			return
		}
		tn, fld, _, ok := flow.FieldOf(st.Addr)
		if !ok || tn != typ {
			return
		}
		if _, isBasic := st.Val.Type().Underlying().(*types.Basic); !isBasic {
			return
		}
		w := rd.Eval(st.Val)
		any := false
		for lane, ln := range w {
			switch ln.Kind {
			case 'd':
				any = true
				if prev, dup := l[ln.Idx]; dup && prev != fmt.Sprintf("%s:%d", fld, lane) {
					problems = append(problems, fmt.Sprintf("byte %d is read into both %s and %s:%d", ln.Idx, prev, fld, lane))
				}
				l[ln.Idx] = fmt.Sprintf("%s:%d", fld, lane)
			case '?':
				problems = append(problems, fmt.Sprintf("field %s lane %d is not a whole input byte (%s)", fld, lane, w))
			}
		}
		if any {
			cond[fld] = c.vbitEdge(st)
		}
	})
	// fields may be filled in by a helper that receives the same bytes (offset 0)
	for _, ci := range flow.CallInstrs(f) {
		h := flow.StaticCallee(ci)
		if h == nil || h == f || h.Blocks == nil || !c.P.IsLibrary(h) || pkgOf(h) != pkgOf(f) || readerDepth > 2 {
			continue
		}
		hb := byteParam(h)
		if hb == nil {
			continue
		}
		idx := paramIndex(h, hb)
		if idx >= len(ci.Common().Args) || !isBase(ci.Common().Args[idx]) {
			continue
		}
		readerDepth++
		hl, hc, hp := c.readerLayout(h, typ)
		readerDepth--
		ct := c.vbitEdge(ci)
		for off, v := range hl {
			if prev, dup := l[off]; dup && prev != v {
				problems = append(problems, fmt.Sprintf("byte %d is read into both %s and %s", off, prev, v))
			}
			l[off] = v
		}
		for fld, t := range hc {
			if t == "" {
				t = ct
			}
			cond[fld] = t
		}
		problems = append(problems, hp...)
	}
	return l, cond, problems
}

var readerDepth int

// writerLayout: offset -> field:lane for the bytes f stores into its []byte parameter from the
// fields of its receiver.
func (c *Ctx) writerLayout(f *ssa.Function) (layout, map[int]lanes.Fact, []string) {
	l := layout{}
	facts := map[int]lanes.Fact{}
	var problems []string
	b := byteParam(f)
	if b == nil {
		return l, facts, []string{"no []byte parameter"}
	}
	w := &lanes.Writer{
		IsBase: func(v ssa.Value) bool { return v == ssa.Value(b) },
		Describe: func(v ssa.Value) string {
			if _, fld, _, ok := flow.FieldOf(flow.Peel(v)); ok {
				return fld
			}
			if v == nil {
				return "?"
			}
			return short(v.String(), 40)
		},
		Callee: c.laneCallee,
	}
	fs, unk := w.Facts(f)
	for _, u := range unk {
		problems = append(problems, "store with a non-constant offset at "+c.pos(u))
	}
	for _, ft := range fs {
		if ft.Src.Lane < 0 {
			continue
		}
		if prev, dup := l[ft.Off]; dup {
			problems = append(problems, fmt.Sprintf("byte %d is written twice (%s and %s)", ft.Off, prev, ft.Src.String()))
		}
		l[ft.Off] = fmt.Sprintf("%s:%d", ft.Src.Desc, ft.Src.Lane)
		facts[ft.Off] = ft
	}
	return l, facts, problems
}

func diffLayout(a, b layout) string {
	var ks []int
	seen := map[int]bool{}
	for k := range a {
		ks = append(ks, k)
		seen[k] = true
	}
	for k := range b {
		if !seen[k] {
			ks = append(ks, k)
		}
	}
	sort.Ints(ks)
	var d []string
	for _, k := range ks {
		if a[k] != b[k] {
			x, y := a[k], b[k]
			if x == "" {
				x = "—"
			}
			if y == "" {
				y = "—"
			}
			d = append(d, fmt.Sprintf("byte %d: %s vs %s", k, x, y))
		}
	}
	if len(d) > 6 {
		d = append(d[:6], "…")
	}
	return strings.Join(d, "; ")
}

// ---------- datatype facts ----------

type typeFacts struct {
	K            string // TypeID constant value
	Name         string // TypeID constant name
	T            types.Type
	Decoder      *ssa.Function
	LenConst     int64 // -1 = dynamic
	LenDyn       string
	PadConst     int64 // -1 = dynamic
	PadIsRound   bool  // Padding = roundup4(x) − x with x the Len() expression
	PadWhy       string
	SerSize      int64  // make size in Serialize, -1 = dynamic / conversion
	SerEndian    string // big | little | conv | delegate | other
	SerAdd       int64  // constant added before writing (Time)
	DecLen       int64  // payload length the decoder really decodes (guard), -1 = any
	DecEndian    string
	DecAdds      []int64 // constants added/subtracted after reading (Time)
	DecAddNarrow bool    // some of that arithmetic happens in a type narrower than int64 or unsigned
	StringKind   bool
	Problems     []string
}

func (c *Ctx) methodOf(T types.Type, name string) *ssa.Function {
	ms := c.P.SSA.MethodSets.MethodSet(T)
	for i := 0; i < ms.Len(); i++ {
		if ms.At(i).Obj().Name() != name {
			continue
		}
		fn := c.P.SSA.MethodValue(ms.At(i))
		if fn != nil && fn.Synthetic != "" {
			if obj, ok := ms.At(i).Obj().(*types.Func); ok {
				if d := c.P.SSA.FuncValue(obj); d != nil {
					fn = d
				}
			}
		}
		if name == "Len" {
			fn = delegateOf(fn)
		}
		return fn
	}
	return nil
}

// methodOfRaw: like methodOf, without following delegations.
func (c *Ctx) methodOfRaw(T types.Type, name string) *ssa.Function {
	ms := c.P.SSA.MethodSets.MethodSet(T)
	for i := 0; i < ms.Len(); i++ {
		if ms.At(i).Obj().Name() != name {
			continue
		}
		fn := c.P.SSA.MethodValue(ms.At(i))
		if fn != nil && fn.Synthetic != "" {
			if obj, ok := ms.At(i).Obj().(*types.Func); ok {
				if d := c.P.SSA.FuncValue(obj); d != nil {
					fn = d
				}
			}
		}
		return fn
	}
	return nil
}

// delegateOf: when f does nothing but return g(receiver) for another method g of the same receiver, the facts
// about f's result are the facts about g's (Len() { return x.encodedLen() }).
func delegateOf(f *ssa.Function) *ssa.Function {
	for i := 0; i < 2 && f != nil && f.Blocks != nil && len(f.Blocks) == 1 && len(f.Params) == 1; i++ {
		rv := singleReturn(f)
		call, ok := rv.(*ssa.Call)
		if !ok || call.Call.IsInvoke() || len(call.Call.Args) != 1 {
			return f
		}
		g := flow.StaticCallee(call)
		if g == nil || g.Blocks == nil || g.Signature.Recv() == nil || len(g.Params) != 1 {
			return f
		}
		// the argument is the receiver itself (possibly spilled and reloaded)
		a := flow.Peel(call.Call.Args[0])
		if a != ssa.Value(f.Params[0]) {
			if u, isU := a.(*ssa.UnOp); !isU || spilledParam(u) != f.Params[0] {
				return f
			}
		}
		// nothing else happens in f
		for _, in := range f.Blocks[0].Instrs {
			switch in.(type) {
			case *ssa.Call, *ssa.Return, *ssa.Alloc, *ssa.Store, *ssa.UnOp, *ssa.DebugRef:
			default:
				return f
			}
		}
		f = g
	}
	return f
}

// singleReturn: the unique return value (result 0) of g, or nil.
func singleReturn(g *ssa.Function) ssa.Value {
	if g == nil || g.Blocks == nil {
		return nil
	}
	rvs := flow.ReturnValues(g, 0)
	if len(rvs) != 1 {
		return nil
	}
	return rvs[0]
}

// lenExprOf: how a Len()/len-like int value depends on the receiver: "const:k", "len(recv)", or "".
func lenExprOf(v ssa.Value, recv ssa.Value) string {
	if k, ok := flow.ConstInt(v); ok {
		return fmt.Sprintf("const:%d", k)
	}
	if x, ok := builtinOf(v, "len"); ok {
		if flow.Peel(x) == recv {
			return "len(recv)"
		}
	}
	// recv.Len() (or T2(recv).Len()) of a Len method that itself reports the receiver's length
	if call, ok := v.(*ssa.Call); ok {
		if g := flow.StaticCallee(call); g != nil && g.Name() == "Len" && g.Signature.Recv() != nil && len(call.Call.Args) == 1 && len(g.Params) == 1 && flow.Peel(call.Call.Args[0]) == recv {
			g = delegated(g)
			if rv := singleReturn(g); rv != nil {
				if x, isLen := builtinOf(rv, "len"); isLen && flow.Peel(x) == ssa.Value(g.Params[0]) {
					return "len(recv)"
				}
			}
		}
	}
	return ""
}

// delegated: a one-parameter method whose whole body is `return T2(recv).Same()`, T2 with the same underlying
// type, stands for the method it forwards to (followed up to three times).
func delegated(f *ssa.Function) *ssa.Function {
	for i := 0; i < 3; i++ {
		if f == nil || f.Blocks == nil || len(f.Params) != 1 {
			break
		}
		call, ok := singleReturn(f).(*ssa.Call)
		if !ok {
			break
		}
		g := flow.StaticCallee(call)
		if g == nil || g.Blocks == nil || g.Name() != f.Name() || len(call.Call.Args) != 1 || len(g.Params) != 1 || g == f {
			break
		}
		if flow.Peel(call.Call.Args[0]) != ssa.Value(f.Params[0]) || !types.Identical(g.Params[0].Type().Underlying(), f.Params[0].Type().Underlying()) {
			break
		}
		pure := true
		flow.Instrs(f, func(in ssa.Instruction) {
			switch in.(type) {
			case *ssa.Call, *ssa.Return, *ssa.ChangeType, *ssa.Convert, *ssa.DebugRef:
			default:
				pure = false
			}
		})
		if !pure {
			break
		}
		f = g
	}
	return f
}

// sameLenCall: a and b are two calls of the same Len method on the same receiver value.
func sameLenCall(a, b ssa.Value) bool {
	ca, ok1 := a.(*ssa.Call)
	cb, ok2 := b.(*ssa.Call)
	if !ok1 || !ok2 {
		return false
	}
	ga, gb := flow.StaticCallee(ca), flow.StaticCallee(cb)
	if ga == nil || ga != gb || ga.Name() != "Len" || len(ca.Call.Args) != 1 || len(cb.Call.Args) != 1 {
		return false
	}
	if flow.Peel(ca.Call.Args[0]) != flow.Peel(cb.Call.Args[0]) {
		return false
	}
	return lenExprOf(a, flow.Peel(ca.Call.Args[0])) != ""
}

func (c *Ctx) datatypeFacts() []*typeFacts {
	ents, ok := c.globalMapLiteral("diam/datatype", "Decoder")
	if !ok {
		return nil
	}
	ids := c.constsOfType("diam/datatype", "TypeID")
	idName := map[string]string{}
	for n, v := range ids {
		idName[v.ExactString()] = n
	}
	var out []*typeFacts
	for _, e := range ents {
		if e.Key == nil {
			continue
		}
		tf := &typeFacts{K: e.Key.ExactString(), Name: idName[e.Key.ExactString()], Decoder: funcOfValue(e.Value), LenConst: -1, PadConst: -1, SerSize: -1, DecLen: -1}
		out = append(out, tf)
		if tf.Decoder == nil || tf.Decoder.Blocks == nil {
			tf.Problems = append(tf.Problems, "decoder is not a function with a body")
			continue
		}
		// concrete type
		for _, rv := range flow.ReturnValues(tf.Decoder, 0) {
			if mi, ok := rv.(*ssa.MakeInterface); ok {
				t := mi.X.Type()
				if tf.T == nil {
					tf.T = t
				} else if !types.Identical(tf.T, t) {
					tf.Problems = append(tf.Problems, fmt.Sprintf("decoder returns both %s and %s", tf.T, t))
				}
			}
		}
		if tf.T == nil {
			tf.Problems = append(tf.Problems, "cannot determine the decoder's result type")
			continue
		}
		c.fillTypeFacts(tf)
	}
	sort.Slice(out, func(i, j int) bool { return out[i].Name < out[j].Name })
	return out
}

func (c *Ctx) fillTypeFacts(tf *typeFacts) {
	T := tf.T
	lenF, padF, serF := c.methodOf(T, "Len"), c.methodOf(T, "Padding"), c.methodOf(T, "Serialize")
	if lenF == nil || padF == nil || serF == nil {
		tf.Problems = append(tf.Problems, "type lacks Len/Padding/Serialize")
		return
	}
	lenF, padF = delegated(lenF), delegated(padF)
	_, tf.StringKind = T.Underlying().(*types.Basic)
	if b, ok := T.Underlying().(*types.Basic); ok {
		tf.StringKind = b.Kind() == types.String
	}
	// Len
	if rv := singleReturn(lenF); rv != nil {
		switch e := lenExprOf(rv, ssa.Value(lenF.Params[0])); {
		case strings.HasPrefix(e, "const:"):
			fmt.Sscanf(e, "const:%d", &tf.LenConst)
		case e != "":
			tf.LenDyn = e
		default:
			tf.LenDyn = "other"
		}
	} else {
		tf.LenDyn = "multi"
	}
	c.padFacts(tf, padF)
	// Serialize
	c.serializeFacts(tf, serF, 0)
	// decoder
	c.decoderFacts(tf)
}

// padFacts analyses Padding(): a constant, or roundup4(x) − x with x the Len() expression.
func (c *Ctx) padFacts(tf *typeFacts, padF *ssa.Function) {
	// Padding
	if rv := singleReturn(padF); rv != nil {
		if k, ok := flow.ConstInt(rv); ok {
			tf.PadConst = k
		} else if bo, ok := rv.(*ssa.BinOp); ok && bo.Op == token.SUB {
			// P(x) − x
			env := &cong.Env{MaxDepth: 3, IsSym: func(s ssa.Value) bool { return s == bo.Y || sameLenCall(s, bo.Y) },
				Callee: func(call *ssa.Call) *ssa.Function {
					g := flow.StaticCallee(call)
					if g == nil || g.Signature.Recv() != nil {
						return nil
					}
					return g
				}}
			cv, err := env.Eval(bo.X)
			switch {
			case err != nil:
				tf.PadWhy = "padding expression not analysable: " + err.Why
			case !cv.IsRoundUp4():
				tf.PadWhy = fmt.Sprintf("Padding() = (%s) − x, which is not round-up-to-4 of x minus x", cv)
			case lenExprOf(bo.Y, ssa.Value(padF.Params[0])) != "len(recv)" || tf.LenDyn != "len(recv)":
				tf.PadWhy = "Padding() pads a length other than the one Len() reports"
			default:
				tf.PadIsRound = true
			}
		} else if ok, x, why := c.padOfLen(rv, padF); ok {
			// a helper computing the padding of a length: evaluated as a whole, exact for all lengths
			if lenExprOf(x, ssa.Value(padF.Params[0])) != "len(recv)" || tf.LenDyn != "len(recv)" {
				tf.PadWhy = "Padding() pads a length other than the one Len() reports"
			} else {
				tf.PadIsRound = true
			}
		} else if why != "" {
			tf.PadWhy = why
		} else {
			tf.PadWhy = "padding is neither a constant nor roundup4(x) − x"
		}
	} else {
		// multi-return (Address): handled by the caller as dynamic
		tf.PadWhy = "multi"
	}
}

func (c *Ctx) serializeFacts(tf *typeFacts, serF *ssa.Function, depth int) {
	rv := singleReturn(serF)
	if rv == nil {
		tf.SerEndian = "other"
		return
	}
	// make([]byte, K) with constant K is lowered to new [K]byte + slice
	if sl, ok := rv.(*ssa.Slice); ok {
		if al, ok := sl.X.(*ssa.Alloc); ok {
			if arr, ok := al.Type().(*types.Pointer).Elem().Underlying().(*types.Array); ok {
				tf.SerSize = arr.Len()
				c.putUintFacts(tf, sl)
				if tf.SerEndian == "" {
					tf.SerEndian = "other"
				}
				return
			}
		}
	}
	switch x := rv.(type) {
	case *ssa.MakeSlice:
		if k, ok := flow.ConstInt(x.Len); ok {
			tf.SerSize = k
		}
		c.putUintFacts(tf, x)
		if tf.SerEndian == "" {
			tf.SerEndian = "other"
		}
	case *ssa.Convert, *ssa.ChangeType:
		tf.SerEndian = "conv"
	case *ssa.Parameter:
		tf.SerEndian = "conv"
	case *ssa.Call:
		// delegation: T2(n).Serialize()
		if g := flow.StaticCallee(x); g != nil && g.Name() == "Serialize" && depth < 2 {
			sub := &typeFacts{SerSize: -1}
			c.serializeFacts(sub, g, depth+1)
			tf.SerSize, tf.SerEndian, tf.SerAdd = sub.SerSize, sub.SerEndian, sub.SerAdd
			return
		}
		tf.SerEndian = "other"
	default:
		tf.SerEndian = "other"
	}
}

// putUintFacts: the binary.*.PutUintN call writing into buffer value buf.
func (c *Ctx) putUintFacts(tf *typeFacts, buf ssa.Value) {
	{
		for _, ref := range flow.Referrers(buf) {
			call, ok := ref.(*ssa.Call)
			if !ok {
				continue
			}
			o := flow.CalleeObj(call)
			if o == nil || o.Pkg() == nil || o.Pkg().Path() != "encoding/binary" || !strings.HasPrefix(o.Name(), "PutUint") {
				continue
			}
			if strings.Contains(o.Type().(*types.Signature).Recv().Type().String(), "bigEndian") {
				tf.SerEndian = "big"
			} else {
				tf.SerEndian = "little"
			}
			// constant offset added (Time)
			if bo, ok := call.Call.Args[2].(*ssa.BinOp); ok && bo.Op == token.ADD {
				if k, ok := flow.ConstInt(bo.Y); ok {
					tf.SerAdd = k
				}
			}
		}
	}
}

func (c *Ctx) decoderFacts(tf *typeFacts) {
	d := tf.Decoder
	b := d.Params[0]
	// accepted length: guard len(b) != K → fallback return; real decode on the == K edge
	for _, blk := range d.Blocks {
		ifi, ok := blk.Instrs[len(blk.Instrs)-1].(*ssa.If)
		if !ok {
			continue
		}
		rl, ok := condRel(ifi.Cond, true)
		if !ok {
			continue
		}
		if x, isLen := builtinOf(rl.a, "len"); isLen && x == ssa.Value(b) && (rl.op == token.NEQ || rl.op == token.EQL) {
			if k, ok := flow.ConstInt(rl.b); ok {
				tf.DecLen = k
			}
		}
	}
	// endianness / arithmetic of the decoded value
	rd := &lanes.Reader{IsBase: func(v ssa.Value) bool { return v == ssa.Value(b) }, MaxDepth: 3, Callee: c.laneCallee}
	for _, rv := range flow.ReturnValues(d, 0) {
		mi, ok := rv.(*ssa.MakeInterface)
		if !ok {
			continue
		}
		// peel conversions, math.FloatNNfrombits, time.Unix(x+k, 0), additions of constants; a value merged from
		// several branches (secs += k1 / secs -= k2) is followed along every branch
		delegated := false
		var bases []ssa.Value
		bind := map[*ssa.Parameter]ssa.Value{}
		var walk func(v ssa.Value, depth int)
		walk = func(v ssa.Value, depth int) {
			if depth > 12 {
				bases = append(bases, v)
				return
			}
			switch y := v.(type) {
			case *ssa.Convert:
				walk(y.X, depth+1)
				return
			case *ssa.ChangeType:
				walk(y.X, depth+1)
				return
			case *ssa.Phi:
				for _, e := range y.Edges {
					walk(e, depth+1)
				}
				return
			case *ssa.Call:
				if flow.IsCallTo(y, "math", "", "Float32frombits") || flow.IsCallTo(y, "math", "", "Float64frombits") {
					walk(y.Call.Args[0], depth+1)
					return
				}
				if flow.IsCallTo(y, "time", "", "Unix") {
					walk(y.Call.Args[0], depth+1)
					return
				}
				if g := flow.StaticCallee(y); g != nil && g.Pkg != nil && g.Pkg.Pkg.Path() == pkgDatatype && strings.HasPrefix(g.Name(), "Decode") {
					// delegation to another decoder
					tf.DecEndian = "delegate:" + g.Name()
					delegated = true
					return
				}
				// an arithmetic helper of the package applied to the value read (ntpToUnix(secs)): every value it
				// returns, with its parameter standing for the argument
				if g := flow.StaticCallee(y); g != nil && g.Blocks != nil && g.Pkg != nil && g.Pkg.Pkg.Path() == pkgDatatype && len(g.Params) == 1 && len(y.Call.Args) == 1 && len(flow.Loops(g)) == 0 && depth < 8 {
					if _, isBasic := g.Params[0].Type().Underlying().(*types.Basic); isBasic {
						bind[g.Params[0]] = y.Call.Args[0]
						for _, hv := range flow.ReturnValues(g, 0) {
							walk(hv, depth+1)
						}
						return
					}
				}
			case *ssa.Parameter:
				if a, ok := bind[y]; ok {
					walk(a, depth+1)
					return
				}
			case *ssa.Extract:
				if call, ok := y.Tuple.(*ssa.Call); ok {
					if g := flow.StaticCallee(call); g != nil && strings.HasPrefix(g.Name(), "Decode") {
						tf.DecEndian = "delegate:" + g.Name()
						delegated = true
						return
					}
				}
			case *ssa.TypeAssert:
				walk(y.X, depth+1)
				return
			case *ssa.BinOp:
				if y.Op == token.ADD || y.Op == token.SUB {
					if k, ok := flow.ConstInt(y.Y); ok {
						if y.Op == token.SUB {
							k = -k
						}
						tf.DecAdds = append(tf.DecAdds, k)
						if b, ok := y.Type().Underlying().(*types.Basic); !ok || b.Kind() != types.Int64 {
							tf.DecAddNarrow = true
						}
						walk(y.X, depth+1)
						return
					}
				}
			}
			bases = append(bases, v)
		}
		walk(mi.X, 0)
		if delegated || strings.HasPrefix(tf.DecEndian, "delegate:") {
			if g := c.P.Func("diam/datatype", strings.TrimPrefix(tf.DecEndian, "delegate:")); g != nil && g != d {
				sub := &typeFacts{Decoder: g, DecLen: -1}
				c.decoderFacts(sub)
				tf.DecLen, tf.DecEndian, tf.DecAdds, tf.DecAddNarrow = sub.DecLen, sub.DecEndian, sub.DecAdds, sub.DecAddNarrow
			}
			continue
		}
		for _, v := range bases {
			if _, isBasic := v.Type().Underlying().(*types.Basic); !isBasic {
				continue
			}
			w := rd.Eval(v)
			n := width8(v.Type())
			if cv, isConv := v.(*ssa.Convert); isConv {
				n = width8(cv.X.Type())
			}
			switch {
			case w.IsBigEndianOf(0, n):
				if tf.DecEndian == "" || tf.DecEndian == "big" {
					tf.DecEndian = "big"
				}
			case isZeroWord(w):
				// constant fallback value
			default:
				// a widened value (int64(uint32)): judge the lanes of the narrow operand
				ok := false
				for m := 1; m <= 8; m *= 2 {
					if w.IsBigEndianOf(0, m) {
						ok = true
					}
				}
				if ok {
					if tf.DecEndian == "" || tf.DecEndian == "big" {
						tf.DecEndian = "big"
					}
				} else {
					tf.DecEndian = "other:" + w.String()
				}
			}
		}
	}
}

func width8(t types.Type) int {
	b, ok := t.Underlying().(*types.Basic)
	if !ok {
		return 8
	}
	switch b.Kind() {
	case types.Uint8, types.Int8:
		return 1
	case types.Uint16, types.Int16:
		return 2
	case types.Uint32, types.Int32:
		return 4
	}
	return 8
}

func isZeroWord(w lanes.Word) bool {
	for _, l := range w {
		if l.Kind != '0' {
			return false
		}
	}
	return true
}

var _ = constant.MakeInt64

// padOfLen: rv (the value Padding returns) equals round-up-4(x) − x for x = some len(...) expression of padF,
// decided in the congruence domain for all x ≥ 0 with package-level helpers followed. Returns x.
func (c *Ctx) padOfLen(rv ssa.Value, padF *ssa.Function) (bool, ssa.Value, string) {
	var lens []ssa.Value
	flow.Instrs(padF, func(in ssa.Instruction) {
		if call, ok := in.(*ssa.Call); ok {
			if _, isLen := builtinOf(call, "len"); isLen {
				lens = append(lens, call)
			}
		}
	})
	why := ""
	for _, x := range lens {
		x := x
		env := &cong.Env{MaxDepth: 4, IsSym: func(s ssa.Value) bool { return s == x },
			Callee: func(call *ssa.Call) *ssa.Function {
				g := flow.StaticCallee(call)
				if g == nil || g.Signature.Recv() != nil {
					return nil
				}
				return g
			}}
		cv, err := env.Eval(rv)
		if err != nil {
			why = "padding expression not analysable: " + err.Why
			continue
		}
		if !cv.Div4 && cv.K == 0 && cv.T == [4]int64{0, 3, 2, 1} {
			return true, x, ""
		}
		why = fmt.Sprintf("Padding() = %s as a function of the length, which is not round-up-to-4 of it minus it", cv)
	}
	return false, nil, why
}

// prefixOfArg: result idx of the call is, on every return, nil or a prefix p[:x] (or p itself) of one and the same
// byte-slice parameter p of the callee; returns the argument passed for p (nil otherwise).
func prefixOfArg(call *ssa.Call, idx int) ssa.Value {
	g := flow.StaticCallee(call)
	if g == nil || g.Blocks == nil || idx >= g.Signature.Results().Len() || !isByteSlice(g.Signature.Results().At(idx).Type()) {
		return nil
	}
	var p *ssa.Parameter
	n := 0
	for _, rv := range flow.ReturnValues(g, idx) {
		if flow.IsNilConst(rv) {
			continue
		}
		v := rv
		if sl, ok := v.(*ssa.Slice); ok && sl.Low == nil {
			v = sl.X
		}
		q, ok := v.(*ssa.Parameter)
		if !ok || q.Parent() != g || (p != nil && p != q) {
			return nil
		}
		p = q
		n++
	}
	if p == nil || n == 0 {
		return nil
	}
	if i := paramIndex(g, p); i < len(call.Call.Args) {
		return call.Call.Args[i]
	}
	return nil
}
