package rules

import (
	"fmt"
	"go/constant"
	"go/token"
	"strings"

	"golang.org/x/tools/go/ssa"

	"verif/internal/cong"
	"verif/internal/flow"
	"verif/internal/lanes"
)

func init() {
	register(&RuleSet{
		Property:  "C02",
		Title:     "Wire images match the RFC 6733 layout of an independent reference codec",
		Run:       runC02,
		Technique: "byte-lane layout extraction (reader and writer) compared with an RFC 6733 layout table embedded in the checker; congruence-domain decision of pad-to-4 for all n; length-bookkeeping path checks on every mutator",
		Explanation: "Decides on the current source, against an RFC 6733 layout table that is part of the checker (not of the code under analysis): R1 Header.SerializeTo writes, and Header.DecodeFromBytes reads, Version@0, Length@1..3, Flags@4, Code@5..7, Application-Id@8..11, Hop-by-Hop@12..15, End-to-End@16..19, all big-endian, every byte exactly once; HeaderLength = 20; the flag constants are R/P/E/T = 0x80/0x40/0x20/0x10; NewMessage stores Version 1 and MessageLength 20 — because both directions are compared with the table, a symmetric mistake invisible to round-trip tests is reported; " +
			"R2 AVP header: Code@0..3, Flags@4, Length@5..7, Vendor-Id@8..11 exactly under the V flag; avp.Vbit/Mbit/Pbit = 0x80/0x40/0x20; " +
			"R3 V ⇔ vendor id: NewAVP sets the V bit on the vendor > 0 edge, the writer emits the vendor id exactly under Flags&Vbit, and the header length is 12 exactly under the same predicate; " +
			"R4 the padding bytes after the payload are written as zero on every path (write buffers are pooled and not zeroed); " +
			"R5 fixed-width data types have the RFC widths (4: Integer32 Unsigned32 Float32 Enumerated Time IPv4; 8: Integer64 Unsigned64 Float64; 16: IPv6), are big-endian in both directions, and Time uses the 1900 epoch offset 2 208 988 800 with the 2036 era rule; " +
			"R6 every library function that stores to Message.AVP also updates Header.MessageLength with the added AVP's Len() (or recomputes m.Len()), and Message.Len() is HeaderLength + Σ Len(); " +
			"R7 the 24-bit conversions are the big-endian lane maps, inverse of each other (decides the conversion for all 2^24 values), and every pad helper is round-up-to-4 for all n ≥ 0 (congruence domain). " +
			"R6 also: GroupedAVP.Len() is, on every return, the sum of its current members' padded lengths (RFC 6733 section 4.4: the Length of a Grouped AVP covers its members including their padding), and (*AVP).Len() is header + Data.Len() + Data.Padding() of the current value. " +
			"Not decided: value-level sweeps as executions (the lane maps and inverse tables are their static counterpart); message length after direct edits of m.AVP by the application.",
		Rules: map[string]string{
			"R1": "message header layout = RFC table (reader and writer), constants",
			"R2": "AVP header layout = RFC table (reader and writer), flag constants",
			"R3": "V flag ⇔ vendor id present ⇔ 12-byte header",
			"R4": "padding bytes zeroed",
			"R5": "RFC widths, big-endian, Time epoch",
			"R6": "MessageLength bookkeeping on every mutator",
			"R7": "24-bit conversion lane maps; pad4 = round-up-4 for all n",
		},
		MinInstances: map[string]int{"R1": 4, "R2": 2, "R3": 3, "R4": 1, "R5": 10, "R6": 4, "R7": 3},
		Assumptions:  []string{"encoding/binary BigEndian/LittleEndian semantics", "lengths below 2^24"},
	})
}

func (c *Ctx) constInt(rel, name string) (int64, bool) {
	pk := c.P.Pkg(rel)
	if pk == nil {
		return 0, false
	}
	nc, ok := pk.Members[name].(*ssa.NamedConst)
	if !ok || nc.Value.Value == nil {
		return 0, false
	}
	return constant.Int64Val(nc.Value.Value)
}

func runC02(c *Ctx) {
	r := c.R
	// ---- R1 ----
	hw := c.P.Method("diam", "Header", "SerializeTo")
	hr := c.P.Method("diam", "Header", "DecodeFromBytes")
	if hw == nil || hr == nil {
		r.Undecided("R1", "role:header-codec", "-", "Header.SerializeTo / DecodeFromBytes not found")
	} else {
		want := rfcHeader()
		wl, _, wp := c.writerLayout(hw)
		rl, _, rp := c.readerLayout(hr, "Header")
		for _, p := range wp {
			r.Undecided("R1", fname(hw)+":layout-extraction", c.fpos(hw), "cannot interpret a header write: "+p)
		}
		for _, p := range rp {
			r.Undecided("R1", fname(hr)+":layout-extraction", c.fpos(hr), "cannot interpret a header read: "+p)
		}
		d := diffLayout(wl, want)
		r.Check(d == "", "R1", fname(hw)+":layout=RFC", c.fpos(hw), "writer layout: "+wl.String(), "the header writer deviates from RFC 6733 §3 (written vs RFC): "+d)
		d = diffLayout(rl, want)
		r.Check(d == "", "R1", fname(hr)+":layout=RFC", c.fpos(hr), "reader layout: "+rl.String(), "the header reader deviates from RFC 6733 §3 (read vs RFC): "+d)
	}
	{
		var bad []string
		for _, kv := range []struct {
			pkg, name string
			want      int64
		}{{"diam", "HeaderLength", 20}, {"diam", "RequestFlag", 0x80}, {"diam", "ProxiableFlag", 0x40}, {"diam", "ErrorFlag", 0x20}, {"diam", "RetransmittedFlag", 0x10},
			{"diam/avp", "Vbit", 0x80}, {"diam/avp", "Mbit", 0x40}, {"diam/avp", "Pbit", 0x20}} {
			if v, ok := c.constInt(kv.pkg, kv.name); !ok || v != kv.want {
				bad = append(bad, fmt.Sprintf("%s=%d (RFC %d)", kv.name, v, kv.want))
			}
		}
		r.Check(len(bad) == 0, "R1", "constants:header-length-and-flags", "-", "HeaderLength=20, R/P/E/T = 0x80/0x40/0x20/0x10, V/M/P = 0x80/0x40/0x20", "constants deviate from RFC 6733: "+strings.Join(bad, ", "))
	}
	if nm := c.P.Func("diam", "NewMessage"); nm != nil {
		sum, ok := c.summarizeConstructor(nm, 1)
		v, l := sum["Header.Version"], sum["Header.MessageLength"]
		good := ok && v != nil && v.String() == "const:1" && l != nil && l.String() == "const:20"
		r.Check(good, "R1", fname(nm)+":version-and-length", c.fpos(nm), "NewMessage stores Version 1 and MessageLength 20", fmt.Sprintf("a new message does not start with Version 1 and length 20 (Version=%v MessageLength=%v)", v, l))
	}

	// ---- R2 ----
	aw := c.P.Method("diam", "AVP", "SerializeTo")
	var ar *ssa.Function
	for _, f := range c.P.LibraryFuncs() {
		if pkgOf(f).Path() != pkgDiam || byteParam(f) == nil {
			continue
		}
		flow.Instrs(f, func(in ssa.Instruction) {
			if st, ok := in.(*ssa.Store); ok {
				if tn, fld, _, ok := flow.FieldOf(st.Addr); ok && tn == "AVP" && fld == "Length" {
					ar = f
				}
			}
		})
	}
	if ar != nil {
		// the header fields may be read by a first step of the decoder: the decoder is then the caller that
		// hands that step its own bytes
		ar, _ = c.liftDecoder(ar, byteParam(ar))
	}
	if aw == nil || ar == nil {
		r.Undecided("R2", "role:avp-codec", "-", "AVP.SerializeTo / the AVP decoder not found")
	} else {
		wl, wfacts, _ := c.writerLayout(aw)
		// the Length bytes: source is an expression, described separately
		for off := 5; off <= 7; off++ {
			if ft, ok := wfacts[off]; ok {
				wl[off] = fmt.Sprintf("Length:%d", ft.Src.Lane)
			}
		}
		rl, rcond, rp := c.readerLayout(ar, "AVP")
		for _, p := range rp {
			r.Undecided("R2", fname(ar)+":layout-extraction", c.fpos(ar), "cannot interpret an AVP header read: "+p)
		}
		d := diffLayout(wl, rfcAVPHeader(true))
		r.Check(d == "", "R2", fname(aw)+":layout=RFC", c.fpos(aw), "writer layout: "+wl.String(), "the AVP header writer deviates from RFC 6733 §4.1 (written vs RFC): "+d)
		d = diffLayout(rl, rfcAVPHeader(true))
		r.Check(d == "", "R2", fname(ar)+":layout=RFC", c.fpos(ar), "reader layout: "+rl.String(), "the AVP header reader deviates from RFC 6733 §4.1 (read vs RFC): "+d)
		// ---- R3 ----
		r.Check(rcond["VendorID"] == "V", "R3", fname(ar)+":vendor-iff-V", c.fpos(ar), "the reader takes the vendor id exactly under Flags&Vbit", "the reader takes the vendor id on edge '"+rcond["VendorID"]+"' instead of exactly under the V flag")
		vEdge := ""
		if ft, ok := wfacts[8]; ok {
			vEdge = c.vbitEdge(ft.At)
		}
		r.Check(vEdge == "V", "R3", fname(aw)+":vendor-iff-V", c.fpos(aw), "the writer emits the vendor id exactly under Flags&Vbit", "the writer emits the vendor id on edge '"+vEdge+"' instead of exactly under the V flag")
		c.c02HeaderLen()
		c.c02NewAVP()
		// ---- R4 ----
		c.c02Padding(aw)
	}

	// ---- R5 ----
	widths := map[string]int64{"Integer32Type": 4, "Unsigned32Type": 4, "Float32Type": 4, "EnumeratedType": 4, "TimeType": 4, "IPv4Type": 4,
		"Integer64Type": 8, "Unsigned64Type": 8, "Float64Type": 8, "IPv6Type": 16}
	seen := 0
	for _, tf := range c.datatypeFacts() {
		w, fixed := widths[tf.Name]
		if !fixed {
			continue
		}
		seen++
		key := "datatype:" + strings.TrimSuffix(tf.Name, "Type")
		var bad []string
		if len(tf.Problems) > 0 {
			bad = append(bad, tf.Problems...)
		}
		if tf.LenConst != w {
			bad = append(bad, fmt.Sprintf("Len() is %d (dynamic %q), RFC width %d", tf.LenConst, tf.LenDyn, w))
		}
		if tf.PadConst != 0 {
			bad = append(bad, fmt.Sprintf("Padding() is %d, expected 0", tf.PadConst))
		}
		if tf.DecLen != w {
			bad = append(bad, fmt.Sprintf("the decoder decodes payloads of %d bytes, RFC width %d", tf.DecLen, w))
		}
		if w <= 8 && tf.Name != "IPv4Type" {
			if tf.SerSize != w {
				bad = append(bad, fmt.Sprintf("Serialize() writes %d bytes, RFC width %d", tf.SerSize, w))
			}
			if tf.SerEndian != "big" {
				bad = append(bad, "Serialize() is not big-endian ("+tf.SerEndian+")")
			}
			if tf.DecEndian != "big" && !strings.HasPrefix(tf.DecEndian, "delegate") && tf.Name != "IPv4Type" {
				bad = append(bad, "the decoder is not big-endian ("+tf.DecEndian+")")
			}
		}
		if tf.Name == "TimeType" {
			if tf.SerAdd != 2208988800 {
				bad = append(bad, fmt.Sprintf("Serialize() adds %d to the Unix time, RFC 6733 §4.3.1 (NTP epoch 1900) requires 2208988800", tf.SerAdd))
			}
			has := map[int64]bool{}
			for _, k := range tf.DecAdds {
				has[k] = true
			}
			if tf.DecAddNarrow {
				bad = append(bad, "the decoder's epoch arithmetic is performed in a 32-bit / unsigned type: times before 1970 wrap around by 2^32 seconds")
			}
			if !has[-2208988800] || !has[2085978496] {
				bad = append(bad, fmt.Sprintf("the decoder's epoch arithmetic uses %v, expected −2208988800 (era 0) and +2085978496 (era 1 after 2036)", tf.DecAdds))
			}
		}
		r.Check(len(bad) == 0, "R5", key, c.fpos(tf.Decoder), fmt.Sprintf("width %d, big-endian both ways", w), "deviates from the RFC 6733 §4.2/§4.3 encoding: "+strings.Join(bad, "; "))
	}
	if seen < 10 {
		r.Undecided("R5", "datatype:fixed-width-census", "-", fmt.Sprintf("only %d of 10 fixed-width data types found in datatype.Decoder", seen))
	}

	// ---- R6 ----
	c.c02LengthBookkeeping()

	// ---- R7 ----
	c.c02Conversions()
}

// c02HeaderLen: headerLen() is 12 exactly under the V predicate, 8 otherwise.
func (c *Ctx) c02HeaderLen() {
	r := c.R
	hl := c.P.Method("diam", "AVP", "headerLen")
	if hl == nil {
		// by role: the unexported int method of AVP returning 8/12
		for _, f := range c.P.LibraryFuncs() {
			if f.Signature.Recv() != nil && flow.RecvTypeName(f.Signature) == "AVP" && len(f.Params) == 1 && f.Signature.Results().Len() == 1 {
				ks := map[int64]bool{}
				for _, rv := range flow.ReturnValues(f, 0) {
					if k, ok := flow.ConstInt(rv); ok {
						ks[k] = true
					}
				}
				if ks[8] && ks[12] && len(ks) == 2 {
					hl = f
				}
			}
		}
	}
	if hl == nil {
		r.Undecided("R3", "role:avp-header-length", "-", "no AVP method returning the header length 8/12 found")
		return
	}
	// the method may forward to a function of the flags octet (avpHeaderLen(a.Flags)): judged there
	if rvs := flow.ReturnValues(hl, 0); len(rvs) == 1 {
		if call, ok := rvs[0].(*ssa.Call); ok {
			if g := flow.StaticCallee(call); g != nil && g.Blocks != nil && c.P.IsLibrary(g) && len(call.Call.Args) == 1 && isFlagsLoad(call.Call.Args[0]) {
				hl = g
			}
		}
	}
	good := true
	flow.Instrs(hl, func(in ssa.Instruction) {
		ret, ok := in.(*ssa.Return)
		if !ok {
			return
		}
		k, _ := flow.ConstInt(ret.Results[0])
		e := c.vbitEdge(ret)
		if (k == 12 && e != "V") || (k == 8 && e == "V") || (k != 8 && k != 12) {
			good = false
		}
	})
	r.Check(good, "R3", fname(hl)+":12-iff-V", c.fpos(hl), "header length 12 exactly under Flags&Vbit, else 8", "the AVP header length is not 12 exactly when the V flag is set")
}

// c02NewAVP: NewAVP ORs Vbit into Flags on the vendor > 0 edge.
func (c *Ctx) c02NewAVP() {
	r := c.R
	f := c.P.Func("diam", "NewAVP")
	if f == nil {
		r.Undecided("R3", "role:NewAVP", "-", "diam.NewAVP not found")
		return
	}
	good := false
	flow.Instrs(f, func(in ssa.Instruction) {
		st, ok := in.(*ssa.Store)
		if !ok {
			return
		}
		if tn, fld, _, ok := flow.FieldOf(st.Addr); !ok || tn != "AVP" || fld != "Flags" {
			return
		}
		// the value stored: flags|0x80 computed right here under the test, or computed under the test earlier and
		// merged with the flags as given (if vendor > 0 { flags |= Vbit }; …{Flags: flags})
		var bo *ssa.BinOp
		var at ssa.Instruction = st
		if b, ok := st.Val.(*ssa.BinOp); ok {
			bo = b
		} else if ph, ok := st.Val.(*ssa.Phi); ok {
			for _, e := range ph.Edges {
				if b, ok := e.(*ssa.BinOp); ok && b.Op == token.OR {
					bo, at = b, b
				} else if _, isP := flow.Peel(e).(*ssa.Parameter); !isP {
					return
				}
			}
		}
		if bo == nil || bo.Op != token.OR {
			return
		}
		if k, ok := flow.ConstInt(bo.Y); !ok || k != 0x80 {
			return
		}
		// on the vendor > 0 edge (possibly together with "bit not yet set"), and under nothing else
		onVendor, extra := false, false
		for _, g := range flow.Guards(at) {
			rl, ok := condRel(g.If.Cond, g.Taken)
			if ok && (rl.op == token.GTR || rl.op == token.NEQ) && isZeroConst(rl.b) {
				if p, isP := flow.Peel(rl.a).(*ssa.Parameter); isP && p.Name() == f.Params[2].Name() {
					onVendor = true
					continue
				}
			}
			// flags&Vbit != Vbit
			if ok && rl.op == token.NEQ {
				if and, isAnd := rl.a.(*ssa.BinOp); isAnd && and.Op == token.AND {
					if k, okk := flow.ConstInt(and.Y); okk && k == 0x80 {
						continue
					}
				}
			}
			extra = true
		}
		if onVendor && !extra {
			good = true
		}
	})
	r.Check(good, "R3", fname(f)+":forces-V-bit", c.fpos(f), "NewAVP ORs the V bit into the flags on the vendor > 0 edge", "NewAVP does not force the V flag for vendor-specific AVPs: vendor id and V flag can disagree on the wire")
}

// c02Padding: after the payload copy the Padding() bytes following it are stored as zero.
func (c *Ctx) c02Padding(aw *ssa.Function) { c.paddingZeroed(aw, "R4") }

// paddingZeroed: shared clause of C02 (R4) and C01 (R3).
func (c *Ctx) paddingZeroed(aw *ssa.Function, rule string) {
	r := c.R
	key := fname(aw) + ":padding-zeroed"
	good, why := false, "the writer never zeroes the padding bytes: stale bytes of the pooled write buffer reach the wire"
	// region: b[hl+len(payload):]
	isRegion := func(v ssa.Value) (bool, string) {
		sl, ok := v.(*ssa.Slice)
		if !ok || sl.High != nil {
			return false, "the zeroed region does not start right after the payload"
		}
		bo, ok := sl.Low.(*ssa.BinOp)
		if !ok || bo.Op != token.ADD {
			return false, "the zeroed region does not start at header length + payload length"
		}
		_, isLen := builtinOf(bo.Y, "len")
		if !isLen {
			_, isLen = builtinOf(bo.X, "len")
		}
		if !isLen {
			return false, "the zeroed region does not start at header length + payload length"
		}
		return true, ""
	}
	// extraGuards: conditions on in other than error-returning ones (Data == nil) outside loop l
	extraGuards := func(in ssa.Instruction, l *flow.Loop) int {
		extra := 0
		for _, g := range flow.Guards(in) {
			if l != nil && l.Blocks[g.If.Block()] {
				continue
			}
			other := 0
			if g.Taken {
				other = 1
			}
			if !returnsNonNilError(g.If.Block().Succs[other]) {
				extra++
			}
		}
		return extra
	}
	// zeroLoop: fn stores 0 to base[i] for i < X.Padding() in a loop; reports (found, bounded, extra guards)
	scan := func(fn *ssa.Function, baseOK func(ssa.Value) (bool, string), callExtra int) {
		loops := flow.Loops(fn)
		flow.Instrs(fn, func(in ssa.Instruction) {
			st, ok := in.(*ssa.Store)
			if !ok || !isZeroConst(st.Val) {
				return
			}
			ia, ok := st.Addr.(*ssa.IndexAddr)
			if !ok {
				return
			}
			l := flow.InnermostLoop(loops, st)
			if l == nil {
				return
			}
			if ok, w := baseOK(ia.X); !ok {
				if w != "" {
					why = w
				}
				return
			}
			bound := false
			for _, g := range flow.Guards(st) {
				rl, ok := condRel(g.If.Cond, g.Taken)
				if ok && rl.op == token.LSS && rl.a == ia.Index {
					if call, ok := rl.b.(*ssa.Call); ok && call.Call.IsInvoke() && call.Call.Method.Name() == "Padding" {
						bound = true
					}
				}
			}
			switch {
			case bound && extraGuards(st, l)+callExtra == 0:
				good = true
			case !bound:
				why = "the zeroing loop is not bounded by Data.Padding()"
			default:
				why = "the padding is zeroed only conditionally"
			}
		})
	}
	scan(aw, isRegion, 0)
	if !good {
		// the loop may live in a helper that is handed the region
		for _, ci := range flow.CallInstrs(aw) {
			h := flow.StaticCallee(ci)
			if h == nil || h.Blocks == nil || !c.P.IsLibrary(h) {
				continue
			}
			for i, a := range ci.Common().Args {
				if ok, _ := isRegion(a); !ok || i >= len(h.Params) {
					continue
				}
				hp := h.Params[i]
				scan(h, func(v ssa.Value) (bool, string) { return v == ssa.Value(hp), "" }, extraGuards(ci, nil))
			}
		}
	}
	// the zeroing must be reached on every path after the payload copy
	r.Check(good, rule, key, c.fpos(aw), "bytes [hl+len(payload), +Padding()) are stored as 0 in an unconditional loop", why)
}

// c02LengthBookkeeping: R6.
func (c *Ctx) c02LengthBookkeeping() {
	r := c.R
	rp := c.readPath()
	n := 0
	for _, f := range c.P.LibraryFuncs() {
		if pkgOf(f).Path() != pkgDiam || rp[f] {
			continue
		}
		var avpStore *ssa.Store
		flow.Instrs(f, func(in ssa.Instruction) {
			if st, ok := in.(*ssa.Store); ok {
				if tn, fld, base, ok := flow.FieldOf(st.Addr); ok && tn == "Message" && fld == "AVP" && !isFreshBase(st.Addr) {
					_ = base
					avpStore = st
				}
			}
		})
		if avpStore == nil {
			continue
		}
		n++
		key := fname(f) + ":length-updated"
		// the appended AVP value
		var added ssa.Value
		if call, ok := avpStore.Val.(*ssa.Call); ok && isBuiltinCall(call, "append") {
			for _, a := range call.Call.Args {
				if sl, ok := a.(*ssa.Slice); ok {
					if al, ok := sl.X.(*ssa.Alloc); ok {
						for _, ref := range flow.Referrers(al) {
							if ia, ok := ref.(*ssa.IndexAddr); ok {
								for _, r2 := range flow.Referrers(ia) {
									if st, ok := r2.(*ssa.Store); ok {
										added = st.Val
									}
								}
							}
						}
					}
				}
			}
		}
		lenStore, how := c.lengthUpdateIn(f, avpStore, added, 0)
		switch {
		case lenStore == nil && strings.HasPrefix(how, "!"):
			r.Fail("R6", key, c.pos(avpStore), "Header.MessageLength is "+how[1:]+": the header length no longer equals the serialised size")
		case lenStore == nil:
			r.Fail("R6", key, c.pos(avpStore), "the function changes m.AVP without updating Header.MessageLength: the length kept in the header no longer equals the serialised size")
		default:
			// on every path from the AVP store to the exit
			p := flow.PathAvoiding(f, avpStore, flow.IsReturn, func(in ssa.Instruction) bool { return in == lenStore })
			r.Check(p == nil, "R6", key, c.pos(lenStore), "MessageLength "+how+" on every path", "a path changes m.AVP and returns without updating Header.MessageLength", c.witness(p)...)
		}
	}
	if n == 0 {
		r.Undecided("R6", "role:mutators", "-", "no function storing to Message.AVP outside the read path")
	}
	// (*AVP).Len = header + Data.Len() + Data.Padding() computed from the live value (shared clause with C01 R4)
	if al := c.P.Method("diam", "AVP", "Len"); al != nil {
		rv := singleReturn(al)
		hasLen, hasPad, hasHdr, other := false, false, false, false
		var walk func(v ssa.Value, d int)
		walk = func(v ssa.Value, d int) {
			if d > 6 {
				return
			}
			switch x := v.(type) {
			case *ssa.BinOp:
				if x.Op != token.ADD {
					other = true
				}
				walk(x.X, d+1)
				walk(x.Y, d+1)
			case *ssa.Call:
				switch {
				case x.Call.IsInvoke() && x.Call.Method.Name() == "Len":
					hasLen = true
				case x.Call.IsInvoke() && x.Call.Method.Name() == "Padding":
					hasPad = true
				default:
					if g := flow.StaticCallee(x); g != nil && g.Signature.Recv() != nil {
						hasHdr = true
					} else {
						other = true
					}
				}
			default:
				other = true
			}
		}
		if rv != nil {
			walk(rv, 0)
		}
		r.Check(rv != nil && hasLen && hasPad && hasHdr && !other, "R6", fname(al)+":hdr+len+padding", c.fpos(al), "(*AVP).Len() = header length + Data.Len() + Data.Padding() of the current value", "(*AVP).Len() is not computed as header length + Data.Len() + Data.Padding() of the AVP's current value (e.g. a cached length): after the value changes, MessageLength and buffer sizes no longer equal the serialised size")
	}
	// Message.Len = HeaderLength + Σ a.Len()
	if ml := c.P.Method("diam", "Message", "Len"); ml != nil {
		good := false
		for _, rv := range flow.ReturnValues(ml, 0) {
			if ph, ok := rv.(*ssa.Phi); ok {
				start, step := false, false
				for _, e := range ph.Edges {
					if k, ok := flow.ConstInt(e); ok && k == 20 {
						start = true
					}
					if bo, ok := e.(*ssa.BinOp); ok && bo.Op == token.ADD && bo.X == ssa.Value(ph) {
						if call, ok := bo.Y.(*ssa.Call); ok && flow.IsCallTo(call, pkgDiam, "AVP", "Len") {
							step = true
						}
					}
				}
				good = start && step
			}
		}
		if !good {
			for _, rv := range flow.ReturnValues(ml, 0) {
				if k, l, ok := c.lenSum(rv, 0); ok && k == 20 {
					if tn, fld, base, okf := flow.FieldOf(flow.Peel(l)); okf && tn == "Message" && fld == "AVP" && flow.Peel(base) == ssa.Value(ml.Params[0]) {
						good = true
					}
				}
			}
		}
		r.Check(good, "R6", fname(ml)+":20+sum", c.fpos(ml), "Message.Len() = 20 + Σ (*AVP).Len()", "Message.Len() is not HeaderLength plus the sum of the AVPs' padded lengths")
	}
	// GroupedAVP.Len = Σ a.Len(): RFC 6733 §4.4 — the AVP Length of a Grouped AVP covers its members including
	// their padding; the group itself needs none
	if gl := c.P.Method("diam", "GroupedAVP", "Len"); gl != nil {
		ok, why := c.lenIsSum(gl, "GroupedAVP", 0)
		r.Check(ok, "R6", fname(gl)+":sum-of-padded-members", c.fpos(gl), "GroupedAVP.Len() = Σ (*AVP).Len() of its current members (their padding included) on every return", "GroupedAVP.Len() is not the sum of its current members' padded lengths ("+why+"): the AVP Length written for a Grouped AVP is not what RFC 6733 §4.4 prescribes")
	} else {
		r.Undecided("R6", "role:GroupedAVP.Len", "-", "GroupedAVP.Len not found")
	}
}

func sameAVP(a, b ssa.Value) bool {
	return flow.Peel(a) == flow.Peel(b) || a == b
}

// c02Conversions: R7.
func (c *Ctx) c02Conversions() {
	r := c.R
	// 24-bit reader
	if f := c.P.Func("diam", "uint24to32"); f != nil {
		rd := &lanes.Reader{IsBase: func(v ssa.Value) bool { return v == ssa.Value(f.Params[0]) }, MaxDepth: 1}
		okAll := false
		for _, rv := range flow.ReturnValues(f, 0) {
			w := rd.Eval(rv)
			if w.IsBigEndianOf(0, 3) {
				okAll = true
			} else if !isZeroWord(w) {
				okAll = false
				r.Fail("R7", fname(f)+":lanes", c.fpos(f), "the 24-bit reader is not the big-endian map of 3 bytes: lanes "+w.String())
				return
			}
		}
		r.Check(okAll, "R7", fname(f)+":lanes", c.fpos(f), "uint24to32 = b[0]<<16 | b[1]<<8 | b[2] (decides all 2^24 values)", "the 24-bit reader does not decode 3 big-endian bytes")
	} else {
		r.Note("uint24to32 helper not found by name; the header/AVP layout rules cover the 24-bit fields through inlining")
		r.Ok("R7", "uint24-reader:inlined", "-", "24-bit reads are interpreted at their use sites (R1/R2)")
	}
	if f := c.P.Func("diam", "uint32to24"); f != nil {
		// the bytes the helper returns, as lanes of its argument (literal, or a fresh slice filled in place)
		ls, _, good := lanes.SummariseByteFunc(f)
		r.Check(good && len(ls) == 3 && ls[0] == 2 && ls[1] == 1 && ls[2] == 0, "R7", fname(f)+":lanes", c.fpos(f), "uint32to24 = {n>>16, n>>8, n}: inverse of the 24-bit reader", fmt.Sprintf("the 24-bit writer emits lanes %v, expected [2 1 0]", ls))
	}
	// pad helpers: every module function named/behaving like pad4 (int -> int) used by Padding()/walks
	n := 0
	for _, f := range c.P.LibraryFuncs() {
		if f.Signature.Recv() != nil || len(f.Params) != 1 || f.Signature.Results().Len() != 1 || !strings.HasPrefix(strings.ToLower(f.Name()), "pad") {
			continue
		}
		n++
		env := &cong.Env{MaxDepth: 3, IsSym: func(s ssa.Value) bool { return s == ssa.Value(f.Params[0]) },
			Callee: func(call *ssa.Call) *ssa.Function {
				g := flow.StaticCallee(call)
				if g == nil || g.Signature.Recv() != nil || !c.P.InModule(pkgOf(g)) {
					return nil
				}
				return g
			}}
		isPadAmount := func(v cong.Val) bool { return !v.Div4 && v.K == 0 && v.T == [4]int64{0, 3, 2, 1} }
		rv := singleReturn(f)
		key := fname(f) + ":round-up-4"
		if rv == nil {
			// conditional form: all returns must agree in the domain
			var vals []cong.Val
			okAll := true
			for _, x := range flow.ReturnValues(f, 0) {
				cv, err := env.Eval(x)
				if err != nil {
					okAll = false
				}
				vals = append(vals, cv)
			}
			r.Check(okAll && len(vals) > 0 && (vals[0].IsRoundUp4() || isPadAmount(vals[0])), "R7", key, c.fpos(f), "round-up-to-4 (or the distance to it) for all n ≥ 0", "the padding helper is not round-up-to-4")
			continue
		}
		cv, err := env.Eval(rv)
		if err != nil {
			r.Undecided("R7", key, c.fpos(f), "cannot evaluate the padding helper in the congruence domain: "+err.Why)
			continue
		}
		r.Check(cv.IsRoundUp4() || isPadAmount(cv), "R7", key, c.fpos(f), fmt.Sprintf("%s(n) = %s = round-up-to-4 of n (or its distance from n) for all n ≥ 0", f.Name(), cv), fmt.Sprintf("%s(n) = %s is neither round-up-to-4 (1*n+[0 3 2 1]) nor the distance to it (0*n+[0 3 2 1])", f.Name(), cv))
	}
	if n == 0 {
		r.Undecided("R7", "role:pad-helper", "-", "no padding helper found")
	}
}

// lengthUpdateIn: the instruction of f that brings Header.MessageLength up to date after the AVP list changed:
// a store of m.Len() computed after the change, a store of MessageLength + added.Len(), or a call of a
// package-local helper doing one of these for the AVP it is handed. how starts with "!" when an update exists
// but is wrong.
func (c *Ctx) lengthUpdateIn(f *ssa.Function, after ssa.Instruction, added ssa.Value, depth int) (ssa.Instruction, string) {
	var at ssa.Instruction
	how := ""
	flow.Instrs(f, func(in ssa.Instruction) {
		st, ok := in.(*ssa.Store)
		if !ok {
			return
		}
		if tn, fld, _, ok := flow.FieldOf(st.Addr); !ok || tn != "Header" || fld != "MessageLength" {
			return
		}
		v := flow.Peel(st.Val)
		// m.Len()
		if call, ok := v.(*ssa.Call); ok && flow.IsCallTo(call, pkgDiam, "Message", "Len") && (after == nil || flow.Dominates(after, call)) {
			at, how = st, "recomputed as m.Len() after the update"
			return
		}
		// old + a.Len()
		if bo, ok := v.(*ssa.BinOp); ok && bo.Op == token.ADD {
			old, inc := bo.X, bo.Y
			if tn, fld, _, ok := flow.FieldOf(flow.Peel(old)); ok && tn == "Header" && fld == "MessageLength" {
				if call, ok := flow.Peel(inc).(*ssa.Call); ok && flow.IsCallTo(call, pkgDiam, "AVP", "Len") {
					if added == nil || sameAVP(call.Call.Args[0], added) {
						at, how = st, "incremented by the added AVP's Len()"
					} else {
						how = "!incremented by the Len() of a different AVP than the one added"
					}
				} else {
					how = "!incremented by something other than the added AVP's Len() (" + short(inc.String(), 40) + ")"
				}
			}
		}
	})
	if at != nil || depth > 1 {
		return at, how
	}
	for _, ci := range flow.CallInstrs(f) {
		h := flow.StaticCallee(ci)
		if h == nil || h.Blocks == nil || !c.P.IsLibrary(h) || h.Signature.Recv() == nil || flow.RecvTypeName(h.Signature) != "Message" {
			continue
		}
		if after != nil && !flow.Dominates(after, ci) {
			continue
		}
		var hp ssa.Value
		if added != nil {
			for i, a := range ci.Common().Args {
				if sameAVP(a, added) && i < len(h.Params) {
					hp = h.Params[i]
				}
			}
			if hp == nil {
				continue
			}
		}
		if hat, hhow := c.lengthUpdateIn(h, nil, hp, depth+1); hat != nil {
			// the helper must do it on every path
			if flow.PathAvoiding(h, nil, flow.IsReturn, func(in ssa.Instruction) bool { return in == hat }) == nil {
				return ci, hhow + " (in " + h.Name() + ")"
			}
		} else if strings.HasPrefix(hhow, "!") {
			how = hhow
		}
	}
	return nil, how
}
