package rules

import (
	"fmt"
	"go/token"
	"go/types"

	"golang.org/x/tools/go/ssa"

	"verif/internal/flow"
)

func init() {
	register(&RuleSet{
		Property:  "C13",
		Title:     "The watchdog detects a silent peer and spares a responsive one",
		Run:       runC13,
		Technique: "loop-bound normalisation and select-case path queries on the watchdog / DWR functions, guard identification on the ack forwarder, construction checks on the DWA builder",
		Explanation: "Decides on the current source: R1 the watchdog goroutine (the go target of the handshake function) calls the DWR sender only in the select case of a timer on WatchdogInterval, and the handshake starts it only on the success path and only under EnableWatchdog; " +
			"R2 the DWR sender writes one request, built once before the loop from the settings' identity, at most MaxRetransmits+1 times, each retransmission after a RetransmitInterval timer; its acknowledgement case returns without closing the connection, and every path leaving the loop by exhaustion closes the connection; " +
			"R3 the DWA handler forwards to the acknowledgement channel only on the ResultCode == Success edge and with a non-blocking select; " +
			"R4 the DWR handler builds m.Answer(Success) with Origin-Host/Origin-Realm from the settings and writes it to the connection the request came from, and sm.New registers it for DWR. " +
			"R2 also: the acknowledgement channel has a slot of one and is drained before each DWR is sent (an answer that arrives before the sender waits is neither lost nor attributed to a later request); R4 also: the DWR handler answers every request that passed DWR.Parse, on every path. " +
			"R3 also: the DWA handler is registered after the acknowledgement channel is made, on every path and in the same activation — not inside a function literal that may run once per client. " +
			"R5 nothing but the application's own setting puts a deadline on reading from a connection: every SetReadDeadline/SetDeadline on a transport is computed from Server.ReadTimeout under its > 0 test, and no library function assigns Server.ReadTimeout (a connection is legitimately idle for a whole WatchdogInterval between two watchdog rounds; a read deadline the library derived from anything else closes a peer that answers every DWR). " +
			"Not decided: wall-clock periods, answer patterns as histories.",
		Rules: map[string]string{
			"R1": "watchdog: DWR only on the WatchdogInterval timer case; started only after a successful handshake with EnableWatchdog",
			"R2": "DWR sender: MaxRetransmits+1 transmissions of one request, RetransmitInterval spacing, ack → no Close, exhaustion → Close",
			"R3": "DWA forwarded as acknowledgement only when its Result-Code is Success, without blocking",
			"R4": "DWR answered with Success DWA carrying the local identity, on the same connection; registered in sm.New",
			"R5": "read deadlines come from the application's Server.ReadTimeout only; the library never assigns that setting, and writes Client.WatchdogInterval / RetransmitInterval only as constant defaults for unset values",
		},
		MinInstances: map[string]int{"R1": 2, "R2": 5, "R3": 1, "R4": 3, "R5": 2},
		Assumptions:  []string{"time.After(d) fires no earlier than d"},
	})
}

func runC13(c *Ctx) {
	r := c.R
	c.c13Deadlines()
	c.c13Intervals()
	hs, _ := c.handshakeFn()
	if hs == nil {
		r.Undecided("R1", "role:HandshakeFn", "-", "handshake function not found")
		return
	}
	// watchdog = go target in handshake
	var wd *ssa.Function
	var goInstr *ssa.Go
	// the instruction of hs at which the watchdog is started: the go itself, or the call of a helper that holds it
	var startAt ssa.Instruction
	for _, ci := range flow.CallInstrs(hs) {
		if g, ok := ci.(*ssa.Go); ok {
			if t := flow.StaticCallee(g); t != nil {
				wd, goInstr, startAt = t, g, g
			}
		}
	}
	if wd == nil {
		for _, ci := range flow.CallInstrs(hs) {
			call, ok := ci.(*ssa.Call)
			if !ok {
				continue
			}
			hlp := flow.StaticCallee(call)
			if hlp == nil || hlp.Blocks == nil || !c.P.IsLibrary(hlp) || pkgOf(hlp).Path() != pkgSM {
				continue
			}
			for _, cj := range flow.CallInstrs(hlp) {
				if g, ok := cj.(*ssa.Go); ok {
					if t := flow.StaticCallee(g); t != nil && t.Blocks != nil && len(flow.Loops(t)) > 0 {
						wd, goInstr, startAt = t, g, call
					}
				}
			}
		}
	}
	if wd == nil {
		r.Fail("R1", fname(hs)+":starts-watchdog", c.fpos(hs), "the handshake never starts a watchdog goroutine")
		return
	}
	r.Role("WatchdogFn", fname(wd))
	// started only under EnableWatchdog and on the success (non-timer) case
	{
		key := fname(hs) + ":go-watchdog"
		under := false
		for _, g := range flow.Guards(goInstr) {
			cond, neg := flow.Cond(g.If.Cond, g.Taken)
			if clientFieldLoad(cond, "EnableWatchdog") && !neg {
				under = true
			}
		}
		rl := c.findRetransLoop(hs)
		onSuccess := false
		if rl != nil && (rl.idx != nil || rl.waitCall != nil) {
			for k := range rl.sel.States {
				if timerChan(rl.sel.States[k].Chan, "RetransmitInterval") || rl.timerChanThroughHelper(rl.sel.States[k].Chan, "RetransmitInterval") {
					continue
				}
				if rl.caseDominates(k, startAt.Block()) {
					onSuccess = true
				}
			}
		}
		// and not on the error edge: no failure return reachable after go without... the go must be followed by the success return
		r.Check(under && onSuccess, "R1", key, c.pos(goInstr), "go watchdog only under EnableWatchdog, on the CEA-received case", "the watchdog is not started exactly when EnableWatchdog is set and the handshake succeeded")
	}
	// watchdog loop: dwr call only in the WatchdogInterval timer case
	var dwrFn *ssa.Function
	{
		key := fname(wd) + ":dwr-on-timer"
		loops := flow.Loops(wd)
		var sel *ssa.Select
		flow.Instrs(wd, func(in ssa.Instruction) {
			if s, ok := in.(*ssa.Select); ok {
				sel = s
			}
		})
		var dwrCall *ssa.Call
		for _, ci := range flow.CallInstrs(wd) {
			call, ok := ci.(*ssa.Call)
			if !ok {
				continue
			}
			if g := flow.StaticCallee(call); g != nil && c.P.IsLibrary(g) && pkgOf(g).Path() == pkgSM && c.findRetransLoop(g) != nil {
				dwrCall, dwrFn = call, g
			}
		}
		// the select may live in a boolean wait helper called from the loop
		var waitCall *ssa.Call
		var caseVal map[int]bool
		if sel == nil {
			for _, ci := range flow.CallInstrs(wd) {
				if hc, ok := ci.(*ssa.Call); ok {
					if h := flow.StaticCallee(hc); h != nil && c.P.IsLibrary(h) {
						if hs, vals := selectHelper(h); hs != nil && len(vals) == len(hs.States) {
							sel, waitCall, caseVal = hs, hc, vals
						}
					}
				}
			}
		}
		switch {
		case sel == nil || len(loops) == 0:
			r.Fail("R1", key, c.fpos(wd), "the watchdog does not wait in a select loop")
		case dwrCall == nil:
			r.Fail("R1", key, c.fpos(wd), "the watchdog never sends a device-watchdog request")
		default:
			rl := &retransLoop{fn: wd, sel: sel, waitCall: waitCall, caseVal: caseVal}
			for _, ref := range flow.Referrers(sel) {
				if ex, ok := ref.(*ssa.Extract); ok && ex.Index == 0 {
					rl.idx = ex
				}
			}
			tk := -1
			for k, st := range sel.States {
				if st.Dir == types.RecvOnly && timerChan(st.Chan, "WatchdogInterval") {
					tk = k
				}
			}
			good := false
			if tk >= 0 && sel.Blocking {
				if rl.caseDominates(tk, dwrCall.Block()) {
					good = true
				}
			}
			r.Check(good, "R1", key, c.pos(dwrCall), "the DWR sender is called only in the case of the time.After(WatchdogInterval) timer of a blocking select", "device-watchdog requests are not sent exactly on expiry of a WatchdogInterval timer")
		}
	}
	if dwrFn == nil {
		return
	}
	r.Role("DwrFn", fname(dwrFn))

	// ---- R2 ----
	rl := c.findRetransLoop(dwrFn)
	c.checkRetransBound(rl, "R2", fname(dwrFn)+":transmissions")
	c.checkTimerSpacing(rl, "RetransmitInterval", "R2", fname(dwrFn)+":retransmit-spacing")
	{
		// ack case returns without Close
		key := fname(dwrFn) + ":ack-keeps-connection"
		good, why := false, "no acknowledgement case in the DWR sender's select"
		if rl.sel != nil {
			for k := range rl.sel.States {
				if k == rl.timerK {
					continue
				}
				cb := rl.caseBlock(k)
				if cb == nil {
					continue
				}
				// every path from the case body reaches return without Close
				first := cb.Instrs[0]
				reachClose := isConnClose(first)
				if !reachClose {
					reachClose = flow.PathAvoiding(dwrFn, first, isConnClose, nil) != nil
				}
				if reachClose {
					good, why = false, "the acknowledgement case of the DWR sender can reach Close(): an answered watchdog closes the connection"
				} else {
					good = true
				}
			}
		}
		r.Check(good, "R2", key, c.fpos(dwrFn), "on acknowledgement the sender returns and no path reaches Close()", why)
	}
	{
		// exhaustion closes: loop-head exit edge leads to Close on all paths
		key := fname(dwrFn) + ":exhaustion-closes"
		ifi, ok := rl.loop.Head.Instrs[len(rl.loop.Head.Instrs)-1].(*ssa.If)
		good := false
		if ok {
			for _, s := range ifi.Block().Succs {
				if rl.loop.Blocks[s] {
					continue
				}
				first := s.Instrs[0]
				if isConnClose(first) || flow.PathAvoiding(dwrFn, first, flow.IsReturn, isConnClose) == nil && !flow.IsReturn(first) {
					good = true
				}
			}
		}
		r.Check(good, "R2", key, c.fpos(dwrFn), "when all transmissions went unanswered every path closes the connection", "after the last unanswered retransmission the connection is not closed on every path: a silent peer is never detected")
	}
	{
		key := fname(dwrFn) + ":same-dwr"
		recv := rl.msgArg()
		inLoop := false
		if in, ok := recv.(ssa.Instruction); ok && rl.loop.Blocks[in.Block()] {
			inLoop = true
		}
		call, isCall := flow.Peel(recv).(*ssa.Call)
		r.Check(!inLoop && isCall, "R2", key, c.pos(rl.write), "the DWR is built once before the loop and retransmitted unchanged", "a new DWR is built for every retransmission (or the message is not the DWR builder's result)")
		if isCall {
			if mk := flow.StaticCallee(call); mk != nil && mk.Blocks != nil {
				okReq := false
				for _, ci := range flow.CallInstrs(mk) {
					if flow.IsCallTo(ci, pkgDiam, "", "NewRequest") {
						if k, ok := flow.ConstInt(ci.Common().Args[0]); ok && k == 280 {
							okReq = true
						}
					}
				}
				r.Check(okReq, "R2", fname(mk)+":dwr-command", c.fpos(mk), "NewRequest(DeviceWatchdog=280)", "the watchdog message is not a Device-Watchdog request")
				c.checkIdentityAVPs(mk, "R2", "Settings")
			}
		}
	}

	// ack channel: the DWA handler reports without blocking, so the channel needs a slot (an answer dispatched
	// before the sender waits must not be dropped), and a slot needs a drain before each new request (a banked
	// surplus answer must not acknowledge a later request)
	{
		key := fname(dwrFn) + ":ack-channel"
		var ackv ssa.Value
		if rl.sel != nil {
			for k, st := range rl.sel.States {
				if k != rl.timerK && st.Dir == types.RecvOnly {
					ackv = rl.chanInFn(k)
				}
			}
		}
		mks := c.chanOrigins(ackv, 0, map[ssa.Value]bool{})
		// every acknowledgement channel gets its handler: the registration of the DWA handler follows the
		// creation of the channel on every path, in the same activation (a registration made once per client —
		// inside sync.Once or any other closure — keeps feeding the first connection's channel)
		for _, mk := range mks {
			fn := mk.Parent()
			rkey := fname(fn) + ":dwa-handler-per-channel"
			var regs []ssa.CallInstruction
			for _, g := range c.P.LibraryFuncs() {
				if pkgOf(g).Path() != pkgSM {
					continue
				}
				for _, ci := range flow.CallInstrs(g) {
					if _, ok := isMuxRegistration(ci); ok && len(ci.Common().Args) >= 3 {
						if k, ok := flow.ConstString(ci.Common().Args[1]); ok && k == "DWA" {
							regs = append(regs, ci)
						}
					}
				}
			}
			if len(regs) == 0 {
				r.Undecided("R3", rkey, c.pos(mk), "no registration of a DWA handler found in package sm")
				continue
			}
			bad := ""
			var here []ssa.CallInstruction
			for _, rg := range regs {
				if rg.Parent() == fn {
					here = append(here, rg)
				} else if rg.Parent().Parent() != nil {
					bad = "the DWA handler is registered inside a function literal (" + fname(rg.Parent()) + "): if that literal does not run for every handshake (sync.Once, a cached set-up) later connections create an acknowledgement channel that no handler feeds, and a peer that answers every DWR is closed"
				}
			}
			if bad == "" && len(here) > 0 {
				isReg := func(in ssa.Instruction) bool {
					for _, rg := range here {
						if ssa.Instruction(rg) == in {
							return true
						}
					}
					return false
				}
				isExit := func(in ssa.Instruction) bool {
					if _, isGo := in.(*ssa.Go); isGo {
						return true
					}
					return flow.IsReturn(in)
				}
				if p := flow.PathAvoiding(fn, mk, isExit, isReg); p != nil {
					bad = "a path creates the acknowledgement channel and goes on without registering the DWA handler that feeds it"
				}
			}
			if bad != "" {
				r.Fail("R3", rkey, c.pos(mk), bad)
			} else if len(here) > 0 {
				r.Ok("R3", rkey, c.pos(mk), "the DWA handler is registered after the channel is made, on every path, in the same activation")
			}
		}
		if ackv == nil || len(mks) == 0 {
			r.Undecided("R2", key, c.fpos(dwrFn), "cannot find where the acknowledgement channel of the DWR sender is created")
		} else {
			// drained: a non-blocking receive on the same channel before the first transmission
			drained := false
			flow.Instrs(rl.fn, func(in ssa.Instruction) {
				sl, ok := in.(*ssa.Select)
				if !ok || sl.Blocking || len(sl.States) != 1 || sl.States[0].Dir != types.RecvOnly || !sameVal(sl.States[0].Chan, ackv) && !samePath(sl.States[0].Chan, ackv) {
					return
				}
				if flow.Dominates(sl, rl.writeAt()) && !rl.loop.Blocks[sl.Block()] {
					drained = true
				}
			})
			// … or a helper called before the loop that does exactly that with the channel it is handed
			for _, ci := range flow.CallInstrs(rl.fn) {
				h := flow.StaticCallee(ci)
				if h == nil || h.Blocks == nil || !c.P.IsLibrary(h) || !flow.Dominates(ci, rl.writeAt()) || rl.loop.Blocks[ci.Block()] {
					continue
				}
				for i, a := range ci.Common().Args {
					if !sameVal(a, ackv) && !samePath(a, ackv) || i >= len(h.Params) {
						continue
					}
					hp := h.Params[i]
					flow.Instrs(h, func(in ssa.Instruction) {
						sl, ok := in.(*ssa.Select)
						if ok && !sl.Blocking && len(sl.States) == 1 && sl.States[0].Dir == types.RecvOnly && sl.States[0].Chan == ssa.Value(hp) {
							if flow.PathAvoiding(h, nil, flow.IsReturn, func(x ssa.Instruction) bool { return x == ssa.Instruction(sl) }) == nil {
								drained = true
							}
						}
					})
				}
			}
			for _, mk := range mks {
				k, ok := flow.ConstInt(mk.Size)
				switch {
				case !ok:
					r.Undecided("R2", key, c.pos(mk), "the capacity of the acknowledgement channel is not a constant")
				case k == 0:
					r.Fail("R2", key, c.pos(mk), "the acknowledgement channel is unbuffered while the DWA handler reports without blocking: a DWA dispatched before the sender starts waiting is dropped, and a peer that answers every DWR is retransmitted to and (MaxRetransmits 0) closed")
				case k == 1 && drained:
					r.Ok("R2", key, c.pos(mk), "one slot, emptied by a non-blocking receive before the first transmission of each request")
				case k >= 1 && !drained:
					r.Fail("R2", key, c.pos(mk), "the acknowledgement channel is buffered and never drained: a surplus or late DWA is banked and acknowledges the next DWR, so a peer that then goes silent is not detected for that request")
				default:
					r.Fail("R2", key, c.pos(mk), fmt.Sprintf("the acknowledgement channel has %d slots but only one is emptied before a new request: banked answers acknowledge later requests", k))
				}
			}
		}
	}

	// ---- R3 ----
	c.c13DWA()
	// ---- R4 ----
	c.c13DWR()
}

// c13DWA: the closure that sends on the ack channel.
func (c *Ctx) c13DWA() {
	r := c.R
	n := 0
	for _, f := range c.P.LibraryFuncs() {
		if pkgOf(f).Path() != pkgSM || f.Synthetic != "" {
			continue
		}
		// a handler (closure or method) that parses a DWA
		parsesDWA := false
		for _, ci := range flow.CallInstrs(f) {
			if flow.IsCallTo(ci, pkgSMParser, "DWA", "Parse") {
				parsesDWA = true
			}
		}
		if !parsesDWA {
			continue
		}
		n++
		key := fname(f) + ":ack-forwarding"
		// the forward: a select with a send case, in the handler or in a helper it hands a channel to
		var sel *ssa.Select
		var selAt ssa.Instruction
		failed := false
		scan := func(g *ssa.Function, at ssa.Instruction) {
			flow.Instrs(g, func(in ssa.Instruction) {
				if s, ok := in.(*ssa.Select); ok {
					for _, st := range s.States {
						if st.Dir == types.SendOnly {
							sel, selAt = s, in
							if at != nil {
								selAt = at
							}
						}
					}
				}
				if _, ok := in.(*ssa.Send); ok && !failed {
					failed = true
					r.Fail("R3", key, c.pos(in), "the DWA handler sends the acknowledgement with a blocking send")
				}
			})
		}
		scan(f, nil)
		if sel == nil && !failed {
			for _, ci := range flow.CallInstrs(f) {
				h := flow.StaticCallee(ci)
				if h == nil || h.Blocks == nil || !c.P.IsLibrary(h) || pkgOf(h).Path() != pkgSM {
					continue
				}
				takesChan := false
				for _, a := range ci.Common().Args {
					if _, ok := a.Type().Underlying().(*types.Chan); ok {
						takesChan = true
					}
				}
				if takesChan {
					scan(h, ci)
				}
			}
		}
		if failed {
			continue
		}
		if sel == nil {
			r.Fail("R3", key, c.fpos(f), "the DWA handler never forwards an acknowledgement to the watchdog")
			continue
		}
		if sel.Blocking {
			r.Fail("R3", key, c.pos(sel), "the acknowledgement is forwarded with a blocking select")
			continue
		}
		// guards: ResultCode == Success (2001) passing, and Parse error nil
		okRC := false
		for _, g := range flow.Guards(selAt) {
			rl, ok := condRel(g.If.Cond, g.Taken)
			if !ok {
				continue
			}
			tn, fld, _, okf := flow.FieldOf(flow.Peel(rl.a))
			k, okk := flow.ConstInt(rl.b)
			if okf && tn == "DWA" && fld == "ResultCode" && okk && k == 2001 && rl.op == token.EQL {
				okRC = true
			}
		}
		r.Check(okRC, "R3", key, c.pos(selAt), "non-blocking forward dominated by ResultCode == 2001", "a DWA is forwarded as acknowledgement although its Result-Code is not Success: a peer answering with failures is treated as responsive")
	}
	if n == 0 {
		r.Undecided("R3", "role:dwa-handler", "-", "no closure parsing a DWA found in package sm")
	}
}

// c13DWR: the closure that parses a DWR and answers.
func (c *Ctx) c13DWR() {
	r := c.R
	var h *ssa.Function
	for _, f := range c.P.LibraryFuncs() {
		if pkgOf(f).Path() != pkgSM || f.Synthetic != "" {
			continue
		}
		for _, ci := range flow.CallInstrs(f) {
			if flow.IsCallTo(ci, pkgSMParser, "DWR", "Parse") {
				h = f
			}
		}
	}
	if h == nil {
		r.Undecided("R4", "role:dwr-handler", "-", "no closure parsing a DWR found in package sm")
		return
	}
	r.Role("DWRHandler", fname(h))
	// the handler's connection and message parameters (a closure has (c, m), a method (recv, c, m))
	var connP, msgP *ssa.Parameter
	for _, p := range h.Params {
		if flow.TypeIs(p.Type(), pkgDiam, "Conn") {
			connP = p
		}
		if isMsgPtr(p.Type()) {
			msgP = p
		}
	}
	if connP == nil || msgP == nil {
		r.Undecided("R4", fname(h)+":handler-shape", c.fpos(h), "the DWR handler does not take (Conn, *Message)")
		return
	}
	var ans *ssa.Call
	var ansFn *ssa.Function
	var write ssa.CallInstruction
	var helperCall *ssa.Call
	for _, ci := range flow.CallInstrs(h) {
		if call, ok := ci.(*ssa.Call); ok && flow.IsCallTo(call, pkgDiam, "Message", "Answer") {
			ans, ansFn = call, h
		}
		if isMessageWrite(ci) {
			write = ci
		}
	}
	if ans == nil && write != nil {
		// the answer may be built by a package-local helper given the request
		if hc, ok := flow.Peel(write.Common().Args[0]).(*ssa.Call); ok {
			if g := flow.StaticCallee(hc); g != nil && g.Blocks != nil && pkgOf(g).Path() == pkgSM {
				for _, ci := range flow.CallInstrs(g) {
					if call, ok := ci.(*ssa.Call); ok && flow.IsCallTo(call, pkgDiam, "Message", "Answer") {
						ans, ansFn, helperCall = call, g, hc
					}
				}
			}
		}
	}
	key := fname(h) + ":success-dwa"
	switch {
	case ans == nil:
		r.Fail("R4", key, c.fpos(h), "the DWA is not built with Answer() from the received request")
	default:
		code, ok := flow.ConstInt(ans.Call.Args[1])
		fromReq := false
		if ansFn == h {
			fromReq = flow.Peel(ans.Call.Args[0]) == ssa.Value(msgP)
		} else if p, isP := flow.Peel(ans.Call.Args[0]).(*ssa.Parameter); isP && helperCall != nil {
			idx := paramIndex(ansFn, p)
			fromReq = idx >= 0 && idx < len(helperCall.Call.Args) && flow.Peel(helperCall.Call.Args[idx]) == ssa.Value(msgP)
		}
		r.Check(ok && code == 2001 && fromReq, "R4", key, c.pos(ans), "answer = Answer(Success) of the received request", "the DWA is not built as Answer(2001) of the received DWR")
	}
	key = fname(h) + ":written-to-same-conn"
	if write == nil {
		r.Fail("R4", key, c.fpos(h), "the DWA is never written")
	} else {
		okRecv := ans != nil && (derivesFromAnswer(flow.Peel(write.Common().Args[0]), ans) || (helperCall != nil && flow.Peel(write.Common().Args[0]) == ssa.Value(helperCall)))
		okConn := flow.Peel(write.Common().Args[1]) == ssa.Value(connP)
		// written on every path after a successful parse: not guarded by anything but parse success
		r.Check(okRecv && okConn, "R4", key, c.pos(write), "the answer built from the request is written to the connection the request arrived on", "the DWA written is not the answer to this request, or goes to another connection")
		// the write must happen on every path that passed Parse successfully
		var parse *ssa.Call
		for _, ci := range flow.CallInstrs(h) {
			if call, ok := ci.(*ssa.Call); ok && flow.IsCallTo(call, pkgSMParser, "DWR", "Parse") {
				parse = call
			}
		}
		if parse != nil {
			eb := errorEdgeBlocks(parse)
			p := flow.PathAvoiding(h, parse, func(in ssa.Instruction) bool { return flow.IsReturn(in) && !eb[in.Block()] }, func(in ssa.Instruction) bool { return in == ssa.Instruction(write) || eb[in.Block()] })
			r.Check(p == nil, "R4", fname(h)+":answers-every-wellformed-dwr", c.pos(write), "every path after a successful Parse writes the DWA", "a well-formed DWR can go unanswered (a path after successful parsing returns without writing the DWA)", c.witness(p)...)
		}
	}
	c.checkIdentityAVPs(h, "R4", "Settings")
	// registration in sm.New
	if nf := c.P.Func("diam/sm", "New"); nf != nil {
		found := false
		// the registrations of New, and of the set-up helpers it calls unconditionally on the machine it builds
		var regSites []ssa.CallInstruction
		for _, ci := range flow.CallInstrs(nf) {
			regSites = append(regSites, ci)
			if hlp := flow.StaticCallee(ci); hlp != nil && hlp.Blocks != nil && c.P.IsLibrary(hlp) && pkgOf(hlp).Path() == pkgSM && len(flow.Guards(ci)) == 0 {
				for _, cj := range flow.CallInstrs(hlp) {
					if len(flow.Guards(cj)) == 0 {
						regSites = append(regSites, cj)
					}
				}
			}
		}
		for _, ci := range regSites {
			if _, ok := isMuxRegistration(ci); !ok {
				continue
			}
			args := ci.Common().Args
			isDWRKey := false
			if s, ok := flow.ConstString(args[1]); ok && s == "DWR" {
				isDWRKey = true
			}
			if gl := loadedGlobal(args[1]); gl != nil {
				if vals, ok := c.globalStructLit(gl); ok {
					if v, ok := vals["Code"]; ok && v.ExactString() == "280" {
						isDWRKey = true
					}
				}
			}
			if !isDWRKey {
				continue
			}
			// handler value derives from the constructor of h (h itself a closure, or a function the registered
			// closure hands the message to)
			isH := func(fn *ssa.Function) bool {
				fn = flow.Unwrap(fn)
				if fn == h {
					return true
				}
				for _, cj := range flow.CallInstrs(fn) {
					if _, isGo := cj.(*ssa.Go); !isGo && flow.StaticCallee(cj) == h {
						return true
					}
				}
				return false
			}
			v := args[2]
			for i := 0; i < 6; i++ {
				switch x := v.(type) {
				case *ssa.MakeInterface:
					v = x.X
					continue
				case *ssa.ChangeType:
					v = x.X
					continue
				case *ssa.MakeClosure:
					if isH(x.Fn.(*ssa.Function)) {
						found = true
					}
				case *ssa.Call:
					if g := flow.StaticCallee(x); g != nil {
						if h.Parent() != nil && g == h.Parent() {
							found = true
						}
						for _, rv := range flow.ReturnValues(g, 0) {
							rv = flow.Peel(rv)
							if mi, ok := rv.(*ssa.MakeInterface); ok {
								rv = flow.Peel(mi.X)
							}
							if ct, ok := rv.(*ssa.ChangeType); ok {
								rv = ct.X
							}
							if mc, ok := rv.(*ssa.MakeClosure); ok && isH(mc.Fn.(*ssa.Function)) {
								found = true
							}
						}
					}
				}
				break
			}
		}
		r.Check(found, "R4", "sm.New:registers-dwr-handler", c.fpos(nf), "sm.New registers the DWR handler (by name and/or index)", "sm.New does not register the built-in DWR handler: device-watchdog requests go unanswered")
	}
	_ = fmt.Sprint
}

// chanOrigins traces a channel value back to the make(chan) sites it can come from: through phis, parameters
// (every library call site of the function), closure captures, struct fields and local variables.
func (c *Ctx) chanOrigins(v ssa.Value, depth int, seen map[ssa.Value]bool) []*ssa.MakeChan {
	if v == nil || depth > 6 || seen[v] {
		return nil
	}
	seen[v] = true
	var out []*ssa.MakeChan
	switch x := v.(type) {
	case *ssa.MakeChan:
		return []*ssa.MakeChan{x}
	case *ssa.ChangeType:
		return c.chanOrigins(x.X, depth, seen)
	case *ssa.Call:
		if g := flow.StaticCallee(x); g != nil && g.Blocks != nil && c.P.IsLibrary(g) {
			for _, rv := range flow.ReturnValues(g, 0) {
				if !flow.IsNilConst(rv) {
					out = append(out, c.chanOrigins(rv, depth+1, seen)...)
				}
			}
		}
	case *ssa.Extract:
		if call, ok := x.Tuple.(*ssa.Call); ok {
			if g := flow.StaticCallee(call); g != nil && g.Blocks != nil && c.P.IsLibrary(g) {
				for _, rv := range flow.ReturnValues(g, x.Index) {
					if !flow.IsNilConst(rv) {
						out = append(out, c.chanOrigins(rv, depth+1, seen)...)
					}
				}
			}
		}
	case *ssa.Phi:
		for _, e := range x.Edges {
			if !flow.IsNilConst(e) {
				out = append(out, c.chanOrigins(e, depth, seen)...)
			}
		}
	case *ssa.Parameter:
		f := x.Parent()
		idx := paramIndex(f, x)
		for _, g := range c.P.LibraryFuncs() {
			for _, ci := range flow.CallInstrs(g) {
				if flow.StaticCallee(ci) == f && idx < len(ci.Common().Args) {
					out = append(out, c.chanOrigins(ci.Common().Args[idx], depth+1, seen)...)
				}
			}
			// method values / closures created for f
			flow.Instrs(g, func(in ssa.Instruction) {
				if mc, ok := in.(*ssa.MakeClosure); ok && mc.Fn == ssa.Value(f) {
					_ = mc
				}
			})
		}
	case *ssa.FreeVar:
		f := x.Parent()
		for i, fv := range f.FreeVars {
			if fv != x {
				continue
			}
			for _, g := range c.P.LibraryFuncs() {
				flow.Instrs(g, func(in ssa.Instruction) {
					if mc, ok := in.(*ssa.MakeClosure); ok && mc.Fn == ssa.Value(f) && i < len(mc.Bindings) {
						out = append(out, c.chanOrigins(mc.Bindings[i], depth+1, seen)...)
					}
				})
			}
		}
	case *ssa.UnOp:
		if x.Op != token.MUL {
			return nil
		}
		switch a := x.X.(type) {
		case *ssa.Alloc:
			for _, ref := range flow.Referrers(a) {
				if st, ok := ref.(*ssa.Store); ok && st.Addr == ssa.Value(a) {
					out = append(out, c.chanOrigins(st.Val, depth, seen)...)
				}
			}
		case *ssa.FreeVar:
			// captured by reference: the binding is the variable's address
			f := a.Parent()
			for i, fv := range f.FreeVars {
				if fv != a {
					continue
				}
				for _, g := range c.P.LibraryFuncs() {
					flow.Instrs(g, func(in ssa.Instruction) {
						if mc, ok := in.(*ssa.MakeClosure); ok && mc.Fn == ssa.Value(f) && i < len(mc.Bindings) {
							if al, isAl := mc.Bindings[i].(*ssa.Alloc); isAl {
								for _, ref := range flow.Referrers(al) {
									if st, ok := ref.(*ssa.Store); ok && st.Addr == ssa.Value(al) {
										out = append(out, c.chanOrigins(st.Val, depth+1, seen)...)
									}
								}
							}
						}
					})
				}
			}
		case *ssa.FieldAddr:
			tn, fld, _, ok := flow.FieldOf(x)
			if !ok {
				return nil
			}
			for _, g := range c.P.LibraryFuncs() {
				flow.Instrs(g, func(in ssa.Instruction) {
					st, isSt := in.(*ssa.Store)
					if !isSt {
						return
					}
					fa, isFA := st.Addr.(*ssa.FieldAddr)
					if !isFA {
						return
					}
					if t2, f2, ok2 := fieldAddrName(fa); ok2 && t2 == tn && f2 == fld {
						out = append(out, c.chanOrigins(st.Val, depth+1, seen)...)
					}
				})
			}
		}
	}
	return out
}

// fieldAddrName: (struct type name, field name) addressed by fa.
func fieldAddrName(fa *ssa.FieldAddr) (string, string, bool) {
	pt, ok := fa.X.Type().Underlying().(*types.Pointer)
	if !ok {
		return "", "", false
	}
	st, ok := pt.Elem().Underlying().(*types.Struct)
	if !ok {
		return "", "", false
	}
	name := ""
	if n, ok := pt.Elem().(*types.Named); ok {
		name = n.Obj().Name()
	}
	return name, st.Field(fa.Field).Name(), true
}

// c13Deadlines: R5 — who may put a deadline on reads. Between two watchdog rounds a healthy connection carries
// nothing for up to WatchdogInterval, so the only legitimate source of a read deadline is the application's own
// Server.ReadTimeout; the library neither derives a deadline from anything else nor assigns that setting.
func (c *Ctx) c13Deadlines() {
	r := c.R
	nSet, nStores, nServerStores := 0, 0, 0
	for _, f := range c.P.LibraryFuncs() {
		for _, ci := range flow.CallInstrs(f) {
			com := ci.Common()
			if !com.IsInvoke() || (com.Method.Name() != "SetReadDeadline" && com.Method.Name() != "SetDeadline") || len(com.Args) != 1 {
				continue
			}
			nSet++
			key := fmt.Sprintf("%s:%s-from-ReadTimeout", fname(f), com.Method.Name())
			// the deadline: time.Now().Add(d) with d a load of Server.ReadTimeout, under ReadTimeout > 0
			fromSetting := func(v ssa.Value) bool {
				tn, fld, _, ok := flow.FieldOf(flow.Peel(v))
				return ok && tn == "Server" && fld == "ReadTimeout"
			}
			derives := false
			if add, ok := com.Args[0].(*ssa.Call); ok && flow.IsCallTo(add, "time", "Time", "Add") && len(add.Call.Args) == 2 {
				d := add.Call.Args[1]
				if fromSetting(d) {
					derives = true
				}
				if ph, isPhi := d.(*ssa.Phi); isPhi {
					derives = len(ph.Edges) > 0
					for _, e := range ph.Edges {
						if !fromSetting(e) {
							derives = false
						}
					}
				}
			}
			// a zero time.Time clears the deadline: always fine
			if _, isZero := com.Args[0].(*ssa.Const); isZero {
				derives = true
			}
			guarded := false
			for _, g := range flow.Guards(ci) {
				rl, ok := condRel(g.If.Cond, g.Taken)
				if ok && fromSetting(rl.a) && isZeroConst(rl.b) && (rl.op == token.GTR || rl.op == token.NEQ) {
					guarded = true
				}
			}
			if _, isZero := com.Args[0].(*ssa.Const); isZero {
				guarded = true
			}
			r.Check(derives && guarded, "R5", key, c.pos(ci), "the read deadline is now + Server.ReadTimeout, armed only when that setting is positive", "a read deadline is armed that does not come from the application's Server.ReadTimeout (under its > 0 test): an idle but healthy connection — nothing travels between two watchdog rounds — is closed although every DWR was answered")
		}
		flow.Instrs(f, func(in ssa.Instruction) {
			st, ok := in.(*ssa.Store)
			if !ok {
				return
			}
			tn, fld, _, ok := flow.FieldOf(st.Addr)
			if !ok || tn != "Server" {
				return
			}
			nServerStores++
			if fld == "ReadTimeout" {
				nStores++
				r.Fail("R5", fname(f)+":assigns-Server.ReadTimeout", c.pos(st), "the library assigns Server.ReadTimeout itself ("+short(st.Val.String(), 40)+"): a per-message read deadline the application did not ask for closes an idle connection between two watchdog rounds although every DWR is answered")
			}
		})
	}
	if nSet == 0 {
		r.Trivial("R5", "read-deadline:none", "-", "no read deadline is ever armed by the library")
	}
	if nStores == 0 {
		if nServerStores == 0 {
			r.Undecided("R5", "Server.ReadTimeout:never-assigned", "-", "no store to any field of diam.Server was seen: the scan is blind (anchor unresolved?)")
		} else {
			r.Ok("R5", "Server.ReadTimeout:never-assigned", "-", fmt.Sprintf("%d stores to fields of diam.Server in the library, none to ReadTimeout", nServerStores))
		}
	}
}

// c13Intervals (R5): the intervals the application configures are the intervals used. The library writes
// Client.WatchdogInterval / Client.RetransmitInterval only to fill in a default: a constant, on the edge where the
// same field was read as zero. A value computed from another setting (raised to the retransmission interval,
// capped, rounded) changes how often DWRs leave on a healthy connection.
func (c *Ctx) c13Intervals() {
	r := c.R
	n := 0
	occ := map[string]int{}
	for _, f := range c.P.LibraryFuncs() {
		if pkgOf(f).Path() != pkgSM {
			continue
		}
		flow.Instrs(f, func(in ssa.Instruction) {
			st, ok := in.(*ssa.Store)
			if !ok {
				return
			}
			tn, fld, _, ok := flow.FieldOf(st.Addr)
			if !ok || tn != "Client" || (fld != "WatchdogInterval" && fld != "RetransmitInterval") {
				return
			}
			n++
			occ[fname(f)+fld]++
			key := fmt.Sprintf("%s:assigns-Client.%s-only-as-default#%d", fname(f), fld, occ[fname(f)+fld])
			_, isConst := flow.Peel(st.Val).(*ssa.Const)
			onZero := false
			for _, g := range flow.Guards(st) {
				rl, ok := condRel(g.If.Cond, g.Taken)
				if !ok || rl.op != token.EQL {
					continue
				}
				for _, pr := range [][2]ssa.Value{{rl.a, rl.b}, {rl.b, rl.a}} {
					if t2, f2, _, ok2 := flow.FieldOf(flow.Peel(pr[0])); ok2 && t2 == "Client" && f2 == fld && isZeroConst(pr[1]) {
						onZero = true
					}
				}
			}
			r.Check(isConst && onZero, "R5", key, c.pos(st), "the setting is written only with a constant default, where the application left it zero",
				"the library overwrites the application's Client."+fld+" ("+short(st.Val.String(), 40)+") other than with a constant default for an unset value: watchdog requests then leave at another rhythm than the one configured")
		})
	}
	if n == 0 {
		r.Trivial("R5", "client-intervals:never-assigned", "-", "the library never assigns Client.WatchdogInterval / RetransmitInterval")
	}
}
