package rules

import (
	"fmt"
	"go/token"
	"go/types"
	"sort"
	"strings"

	"golang.org/x/tools/go/ssa"

	"verif/internal/flow"
)

func init() {
	register(&RuleSet{
		Property:  "C06",
		Title:     "A decoded message never changes after it has been returned",
		Run:       runC06,
		Technique: "alias classification of every datatype decoder + storage-provenance tracing of the body bytes (pool / make / parameter) through the read path",
		Explanation: "Decides on the current source: R1 each function in datatype.Decoder is classified COPY (result is a number, a string conversion, a struct, or freshly allocated storage) or ALIAS (result shares the backing array of its input); " +
			"R2 the byte slice that flows from ReadMessage into the AVP walk has no origin in pooled or otherwise shared storage (sync.Pool.Get, package-level variables, struct fields) unless every decoder is COPY; " +
			"R3 Header has only scalar fields and the Header stored into the returned Message is freshly allocated; " +
			"R4 no read-path function stores a pool-derived reference into a Message/AVP/Header or package-level location, and buffers are returned to the pool only by a deferred call at ReadMessage's exit; " +
			"R5 no function reachable from the write / serialise / inspect API (WriteTo*, Serialize*, Len, String, PrettyDump, FindAVP*, Unmarshal) stores into a field of the Message, Header, AVP or GroupedAVP it was given. " +
			"R5 also: the read-only API never copies by reflection (reflect.Copy) into storage a destination already has, which after an earlier Unmarshal can be a decoded message's body. " +
			"R6 the handlers the library itself installs (package sm) treat the received message as read-only: no NewAVP / AddAVP / InsertAVP / Marshal on it, no store into its fields, and no store into an AVP taken from the struct it was parsed into. The rule removes the only shared storage every concurrent history would need. Not decided: histories as executions; values an application mutates itself.",
		Rules: map[string]string{
			"R1": "alias classification of each datatype.Decoder entry",
			"R2": "body bytes reaching the AVP decoder have no pooled/shared origin while ALIAS decoders exist",
			"R3": "Header fields are scalars; the Message's Header is freshly allocated",
			"R4": "no pool-derived reference stored into returned objects; pool release only via defer",
			"R5": "writing / serialising / inspecting a message stores nothing into the message, its header or its AVPs",
			"R6": "the library's own handlers (state machine) add nothing to, and store nothing into, the message they are handed or the AVPs parsed out of it",
		},
		MinInstances: map[string]int{"R1": 10, "R2": 1, "R3": 2, "R4": 1, "R5": 1, "R6": 3},
		Assumptions:  []string{"sync.Pool may hand the same object to any later Get", "[]byte→string conversion copies"},
	})
}

func isByteSlice(t types.Type) bool {
	sl, ok := t.Underlying().(*types.Slice)
	return ok && types.Identical(sl.Elem(), types.Typ[types.Byte])
}

// classifyDecoder returns "COPY" or "ALIAS" (with reason) or "UNKNOWN".
func (c *Ctx) classifyDecoder(f *ssa.Function, depth int) (string, string) {
	if f == nil || f.Blocks == nil || len(f.Params) != 1 {
		return "UNKNOWN", "not a func([]byte)"
	}
	return c.classifyDecoderWrt(f, f.Params[0], depth)
}

// classifyDecoderWrt: does a result of f share storage with its parameter b?
func (c *Ctx) classifyDecoderWrt(f *ssa.Function, b *ssa.Parameter, depth int) (string, string) {
	if f == nil || f.Blocks == nil {
		return "UNKNOWN", "no body"
	}
	class, why := "COPY", "results are scalars, strings or fresh storage"
	for _, rv := range flow.ReturnValues(f, 0) {
		if flow.IsNilConst(rv) {
			continue
		}
		cv := flow.PeelNoConvert(rv)
		// delegation: result of another decoder, possibly type-asserted and converted
		t := cv.Type()
		if p, ok := t.(*types.Pointer); ok {
			t = p.Elem()
		}
		switch t.Underlying().(type) {
		case *types.Basic, *types.Struct:
			continue
		case *types.Slice, *types.Array:
		case *types.Interface:
			// returns another decoder's result unchanged
			if call, ok := cv.(*ssa.Extract); ok {
				if cc, ok := call.Tuple.(*ssa.Call); ok {
					if g := flow.StaticCallee(cc); g != nil && depth < 3 && len(g.Params) == 1 {
						cl, w := c.classifyDecoder(g, depth+1)
						if cl != "COPY" {
							return cl, "delegates to " + g.Name() + ": " + w
						}
						continue
					} else if g != nil && depth < 3 && g.Blocks != nil {
						// a helper with further parameters: its result aliases our input if it aliases one of
						// its byte-slice parameters and that argument comes from our input
						unknown := ""
						for i, gp := range g.Params {
							if !isByteSlice(gp.Type()) || i >= len(cc.Call.Args) {
								continue
							}
							cl, w := c.classifyDecoderWrt(g, gp, depth+1)
							switch cl {
							case "COPY":
							case "ALIAS":
								for _, o := range c.storageOrigins(cc.Call.Args[i], b) {
									switch o.Kind {
									case "param":
										class, why = "ALIAS", "delegates to "+g.Name()+", whose result shares the backing array of an argument taken from the input"
									case "make", "const", "nil", "string-copy":
									default:
										unknown = "storage origin " + o.Kind + " " + o.Desc
									}
								}
							default:
								unknown = "delegates to " + g.Name() + ": " + w
							}
						}
						if unknown != "" {
							return "UNKNOWN", unknown
						}
						continue
					}
				}
			}
			return "UNKNOWN", "interface-typed result " + short(cv.String(), 40)
		default:
			return "UNKNOWN", "result type " + t.String()
		}
		for _, o := range c.storageOrigins(cv, b) {
			switch o.Kind {
			case "param":
				class, why = "ALIAS", "result shares the backing array of the input ("+short(cv.String(), 50)+")"
			case "make", "const", "nil", "string-copy":
			default:
				return "UNKNOWN", "storage origin " + o.Kind + " " + o.Desc
			}
		}
	}
	return class, why
}

func runC06(c *Ctx) {
	r := c.R
	entries, ok := c.globalMapLiteral("diam/datatype", "Decoder")
	if !ok || len(entries) == 0 {
		r.Undecided("R1", "role:datatype.Decoder", "-", "cannot extract the datatype.Decoder map literal")
		return
	}
	var aliases []string
	for _, e := range entries {
		f := funcOfValue(e.Value)
		name := "?"
		if f != nil {
			name = f.Name()
		}
		key := "datatype.Decoder[" + name + "]"
		cl, why := c.classifyDecoder(f, 0)
		switch cl {
		case "COPY":
			r.Ok("R1", key, c.fpos(f), "COPY: "+why)
		case "ALIAS":
			aliases = append(aliases, name)
			r.Ok("R1", key, c.fpos(f), "ALIAS: "+why)
		default:
			r.Undecided("R1", key, c.fpos(f), "cannot classify the decoder: "+why)
		}
	}
	sort.Strings(aliases)
	r.Role("AliasDecoders", strings.Join(aliases, ","))

	// ---- R2 ----
	rp := c.readPath()
	walks, _ := c.walkLoops()
	walkFns := map[*ssa.Function]bool{}
	for _, w := range walks {
		walkFns[w.fn] = true
	}
	var wl []*ssa.Function
	for f := range walkFns {
		wl = append(wl, f)
	}
	decodeFamily := c.reach(wl, false, false, false)
	n := 0
	for f := range rp {
		if decodeFamily[f] {
			continue // recursion inside the decoder passes sub-slices of the same body
		}
		for _, ci := range flow.CallInstrs(f) {
			g := flow.StaticCallee(ci)
			if g == nil || !walkFns[g] {
				continue
			}
			// the []byte argument
			for i, a := range ci.Common().Args {
				if !isByteSlice(a.Type()) {
					continue
				}
				_ = i
				n++
				key := fname(f) + ":body-bytes-to-" + g.Name()
				origins := c.storageOrigins(a)
				var bad, unk []string
				var descs []string
				for _, o := range origins {
					descs = append(descs, o.Kind+":"+o.Desc)
					switch o.Kind {
					case "make", "string-copy", "nil":
					case "pool", "global":
						bad = append(bad, o.Kind+" "+o.Desc)
					default:
						unk = append(unk, o.Kind+" "+o.Desc)
					}
				}
				switch {
				case len(bad) > 0 && len(aliases) > 0:
					r.Fail("R2", key, c.pos(ci), fmt.Sprintf("the message body is decoded out of shared storage (%s) while decoders %v return views into their input: a message kept by a handler changes when the storage is reused by a later read", strings.Join(bad, "; "), aliases))
				case len(unk) > 0 && len(aliases) > 0:
					r.Undecided("R2", key, c.pos(ci), "cannot establish that the body bytes are private: origin "+strings.Join(unk, "; "))
				default:
					r.Ok("R2", key, c.pos(ci), "body bytes originate only from "+strings.Join(descs, ", "))
				}
			}
		}
	}
	// a walk loop written in a read-path function itself, over bytes that function obtained (not handed in)
	for _, w := range walks {
		if !rp[w.fn] || w.container == nil {
			continue
		}
		if _, isP := flow.Peel(w.container).(*ssa.Parameter); isP {
			continue
		}
		handedIn := false
		for _, p := range w.fn.Params {
			if isByteSlice(p.Type()) {
				handedIn = true // the bytes walked are (a cut of) the caller's: judged at the call sites above
			}
		}
		if handedIn {
			continue
		}
		n++
		key := fname(w.fn) + ":body-bytes-walked-in-place"
		var bad, unk, descs []string
		for _, o := range c.storageOrigins(w.container) {
			descs = append(descs, o.Kind+":"+o.Desc)
			switch o.Kind {
			case "make", "string-copy", "nil":
			case "pool", "global":
				bad = append(bad, o.Kind+" "+o.Desc)
			default:
				unk = append(unk, o.Kind+" "+o.Desc)
			}
		}
		switch {
		case len(bad) > 0 && len(aliases) > 0:
			r.Fail("R2", key, c.pos(w.call), fmt.Sprintf("the message body is decoded out of shared storage (%s) while decoders %v return views into their input: a message kept by a handler changes when the storage is reused by a later read", strings.Join(bad, "; "), aliases))
		case len(unk) > 0 && len(aliases) > 0:
			r.Undecided("R2", key, c.pos(w.call), "cannot establish that the body bytes are private: origin "+strings.Join(unk, "; "))
		default:
			r.Ok("R2", key, c.pos(w.call), "body bytes originate only from "+strings.Join(descs, ", "))
		}
	}
	if n == 0 {
		r.Undecided("R2", "role:body-to-walk", "-", "no call from the read path into an AVP walk function")
	}

	// ---- R3 ----
	if ht := c.P.NamedType("diam", "Header"); ht != nil {
		st := structOf(ht)
		good := true
		var badf string
		for i := 0; i < st.NumFields(); i++ {
			if _, ok := st.Field(i).Type().Underlying().(*types.Basic); !ok {
				good, badf = false, st.Field(i).Name()
			}
		}
		r.Check(good, "R3", "diam.Header:scalar-fields", c.P.Position(ht.Obj().Pos()), fmt.Sprintf("all %d Header fields are scalars (copied out of the scratch buffer by value)", st.NumFields()),
			"Header field "+badf+" is a reference type: it can alias the pooled scratch buffer")
	}
	for f := range rp {
		flow.Instrs(f, func(in ssa.Instruction) {
			st, ok := in.(*ssa.Store)
			if !ok {
				return
			}
			tn, fld, _, ok := flow.FieldOf(st.Addr)
			if !ok || tn != "Message" || fld != "Header" {
				return
			}
			key := fname(f) + ":store-Message.Header"
			var bad []string
			for _, o := range c.storageOrigins(st.Val) {
				if o.Kind != "make" && o.Kind != "const" && o.Kind != "nil" {
					bad = append(bad, o.Kind+" "+o.Desc)
				}
			}
			r.Check(len(bad) == 0, "R3", key, c.pos(st), "the Header stored in the Message is freshly allocated", "the Message's Header is not a fresh allocation: "+strings.Join(bad, "; "))
		})
	}

	// ---- R4 ----
	nst := 0
	for f := range rp {
		flow.Instrs(f, func(in ssa.Instruction) {
			st, ok := in.(*ssa.Store)
			if !ok {
				return
			}
			switch st.Val.Type().Underlying().(type) {
			case *types.Slice, *types.Pointer, *types.Interface:
			default:
				return
			}
			// target: field of Message/AVP/Header/GroupedAVP or global
			tn, fld, _, isField := flow.FieldOf(st.Addr)
			_, isGlobal := st.Addr.(*ssa.Global)
			if !isGlobal && !(isField && (tn == "Message" || tn == "AVP" || tn == "Header" || tn == "GroupedAVP")) {
				return
			}
			nst++
			for _, o := range c.storageOrigins(st.Val) {
				if o.Kind == "pool" {
					r.Fail("R4", fmt.Sprintf("%s:store-%s.%s", fname(f), tn, fld), c.pos(st), "a reference derived from pooled storage ("+o.Desc+") is stored into an object that outlives the read")
				}
			}
		})
	}
	// … and no decoded object is shared through package-level state: the read path neither files a message,
	// AVP or group (or a container of them) under a package-level variable or map, nor hands out one it finds
	// there — two messages that share a decoded object are not private copies
	{
		globalRoot := func(v ssa.Value) *ssa.Global {
			for i := 0; i < 8; i++ {
				switch x := v.(type) {
				case *ssa.Global:
					return x
				case *ssa.FieldAddr:
					v = x.X
				case *ssa.IndexAddr:
					v = x.X
				case *ssa.Field:
					v = x.X
				case *ssa.UnOp:
					v = x.X
				default:
					return nil
				}
			}
			return nil
		}
		var holdsDecoded func(t types.Type, d int) bool
		holdsDecoded = func(t types.Type, d int) bool {
			if d > 4 {
				return false
			}
			switch u := t.(type) {
			case *types.Pointer:
				return holdsDecoded(u.Elem(), d+1)
			case *types.Named:
				if u.Obj().Pkg() != nil && u.Obj().Pkg().Path() == pkgDiam {
					switch u.Obj().Name() {
					case "Message", "AVP", "GroupedAVP":
						return true
					}
				}
				return holdsDecoded(u.Underlying(), d+1)
			case *types.Slice:
				return holdsDecoded(u.Elem(), d+1)
			case *types.Map:
				return holdsDecoded(u.Elem(), d+1)
			case *types.Interface:
				return false
			}
			return false
		}
		shared := 0
		var fs []*ssa.Function
		for f := range rp {
			fs = append(fs, f)
		}
		sort.Slice(fs, func(i, j int) bool { return fname(fs[i]) < fname(fs[j]) })
		for _, f := range fs {
			flow.Instrs(f, func(in ssa.Instruction) {
				switch x := in.(type) {
				case *ssa.MapUpdate:
					if g := globalRoot(x.Map); g != nil && holdsDecoded(x.Value.Type(), 0) {
						shared++
						r.Fail("R4", fname(f)+":files-decoded-object-under-"+g.Name(), c.pos(x), "the read path files a decoded object under the package-level "+g.Name()+": a later message is handed the same object, so two retained messages change together")
					}
				case *ssa.Store:
					if g := globalRoot(x.Addr); g != nil && holdsDecoded(x.Val.Type(), 0) {
						shared++
						r.Fail("R4", fname(f)+":files-decoded-object-under-"+g.Name(), c.pos(x), "the read path stores a decoded object into the package-level "+g.Name()+": a later message is handed the same object, so two retained messages change together")
					}
				case *ssa.Lookup:
					if g := globalRoot(x.X); g != nil {
						if mt, ok := x.X.Type().Underlying().(*types.Map); ok && holdsDecoded(mt.Elem(), 0) {
							shared++
							r.Fail("R4", fname(f)+":takes-decoded-object-from-"+g.Name(), c.pos(x), "the read path takes a decoded object out of the package-level "+g.Name()+": the message it goes into shares it with every other message that got it")
						}
					}
				}
			})
		}
		if shared == 0 {
			r.Ok("R4", "ReadPath:no-decoded-object-in-package-state", "-", fmt.Sprintf("%d read-path functions neither file decoded objects under package-level state nor take them from there", len(fs)))
		}
	}
	r.Ok("R4", "ReadPath:no-pool-reference-retained", "-", fmt.Sprintf("%d reference stores into Message/AVP/Header/package state on the read path, none pool-derived", nst))
	// ---- R5: read-only API ----
	c.c06ReadOnly()
	c.c06Handlers()
	// release discipline
	for _, f := range c.P.LibraryFuncs() {
		if pkgOf(f).Path() != pkgDiam {
			continue
		}
		puts := false
		for _, ci := range flow.CallInstrs(f) {
			if flow.IsCallTo(ci, "sync", "Pool", "Put") {
				puts = true
			}
		}
		if !puts {
			continue
		}
		for g := range rp {
			for _, ci := range flow.CallInstrs(g) {
				if flow.StaticCallee(ci) != f {
					continue
				}
				_, isDefer := ci.(*ssa.Defer)
				r.Check(isDefer, "R4", fname(g)+":release-"+f.Name(), c.pos(ci), "the pooled buffer is released by a deferred call (after the last use)", "the pooled buffer is released by a plain call: it can be reused while still referenced")
			}
		}
	}
}

// c06ReadOnly: R5.
func (c *Ctx) c06ReadOnly() {
	r := c.R
	var roots []*ssa.Function
	add := func(typ string, names ...string) {
		for _, n := range names {
			if f := c.P.Method("diam", typ, n); f != nil {
				roots = append(roots, f)
			}
		}
	}
	add("Message", "WriteTo", "WriteToWithRetry", "WriteToStream", "WriteToStreamWithRetry", "Serialize", "SerializeTo", "Len", "String", "PrettyDump", "FindAVP", "FindAVPs", "FindAVPsWithPath", "Unmarshal", "Dictionary", "MessageStream", "Context")
	add("AVP", "Serialize", "SerializeTo", "Len", "String")
	add("Header", "Serialize", "SerializeTo", "String")
	add("GroupedAVP", "Serialize", "Len", "Padding", "Type", "String")
	if len(roots) < 10 {
		r.Undecided("R5", "role:read-only-api", "-", "fewer read-only API methods found than expected")
		return
	}
	cl := c.reach(roots, false, false, true)
	// function values made on the way (closures, bound methods such as m.step handed to a helper) run there too
	for changed := true; changed; {
		changed = false
		var extra []*ssa.Function
		for f := range cl {
			flow.Instrs(f, func(in ssa.Instruction) {
				for _, op := range in.Operands(nil) {
					if op == nil || *op == nil {
						continue
					}
					var g *ssa.Function
					switch x := (*op).(type) {
					case *ssa.Function:
						g = x
					case *ssa.MakeClosure:
						g, _ = x.Fn.(*ssa.Function)
					}
					if g == nil {
						continue
					}
					if u := flow.Unwrap(g); u != nil {
						g = u
					}
					if g.Blocks != nil && !cl[g] && c.P.IsLibrary(g) {
						extra = append(extra, g)
					}
				}
			})
		}
		if len(extra) > 0 {
			for g := range c.reach(extra, false, false, true) {
				if !cl[g] {
					cl[g] = true
					changed = true
				}
			}
		}
	}
	n, bad := 0, 0
	// reflection writes element-wise into whatever array a destination slice points to; after an earlier
	// Unmarshal that array can be a decoded message's body (byte-slice fields are set to the message's own
	// bytes), so the read-only API must not reflect.Copy into anything but a slice it has just made
	nCopy := 0
	for f := range cl {
		if !c.P.IsLibrary(f) {
			continue
		}
		for _, ci := range flow.CallInstrs(f) {
			o := flow.CalleeObj(ci)
			if o == nil || o.Pkg() == nil || o.Pkg().Path() != "reflect" || o.Name() != "Copy" || len(ci.Common().Args) != 2 {
				continue
			}
			nCopy++
			fresh := false
			if call, ok := flow.Peel(ci.Common().Args[0]).(*ssa.Call); ok {
				if oo := flow.CalleeObj(call); oo != nil && oo.Pkg() != nil && oo.Pkg().Path() == "reflect" && oo.Name() == "MakeSlice" {
					fresh = true
				}
			}
			if !fresh {
				bad++
				r.Fail("R5", fname(f)+":reflect-copy-into-existing-storage", c.pos(ci), "the read-only API copies, by reflection, into the storage a destination value already has: after an earlier Unmarshal that storage can be the body of a decoded message, which then changes although it was returned long ago")
			}
		}
	}
	if nCopy == 0 {
		r.Ok("R5", "read-only-api:no-reflect-copy", "-", "no reflect.Copy on the read-only API")
	}
	for f := range cl {
		if !c.P.IsLibrary(f) {
			continue
		}
		flow.Instrs(f, func(in ssa.Instruction) {
			st, ok := in.(*ssa.Store)
			if !ok {
				return
			}
			root, fields, ok := fieldPath(st.Addr)
			if !ok {
				return
			}
			tn, _, _, _ := flow.FieldOf(st.Addr)
			// the object written into: the innermost struct, or the object the access path starts from
			// (m.index.first = … writes into the Message although the innermost struct is a helper type)
			if tn != "Message" && tn != "Header" && tn != "AVP" && tn != "GroupedAVP" {
				rn := ""
				if pt, ok := flow.Peel(root).Type().Underlying().(*types.Pointer); ok {
					if nt := flow.NamedOf(pt.Elem()); nt != nil && nt.Obj().Pkg() != nil && nt.Obj().Pkg().Path() == pkgDiam {
						rn = nt.Obj().Name()
					}
				}
				if rn != "Message" && rn != "Header" && rn != "AVP" && rn != "GroupedAVP" {
					return
				}
				tn = rn
			}
			n++
			// root: parameter (or spilled parameter / loaded from one) = the caller's object
			pr := flow.Peel(root)
			_, isParam := pr.(*ssa.Parameter)
			if !isParam && spilledParam(pr) == nil {
				if u, isLoad := pr.(*ssa.UnOp); !isLoad || isFreshBase(u) {
					return
				}
			}
			bad++
			r.Fail("R5", fmt.Sprintf("%s:store-%s.%s", fname(f), tn, strings.Join(fields, ".")), c.pos(st), "a write / serialise / inspect operation stores into the "+tn+" it was given: a retained decoded message changes when it is written or inspected later")
		})
	}
	// … nor into the elements of an AVP list held by such an object (m.AVP[i] = …, copy(m.AVP[…], …)): re-ordering
	// or replacing members of a retained message is a change of that message just as well
	listOf := func(v ssa.Value) (string, bool) {
		for i := 0; i < 6; i++ {
			if sl, ok := v.(*ssa.Slice); ok {
				v = sl.X
				continue
			}
			break
		}
		ld, ok := v.(*ssa.UnOp)
		if !ok || ld.Op != token.MUL {
			return "", false
		}
		tn, fld, base, ok := flow.FieldOf(ld)
		if !ok || (tn != "Message" && tn != "GroupedAVP") || !isAVPSlice(ld.Type()) {
			return "", false
		}
		pr := flow.Peel(base)
		if _, isParam := pr.(*ssa.Parameter); !isParam && spilledParam(pr) == nil {
			if u, isLoad := pr.(*ssa.UnOp); !isLoad || isFreshBase(u) {
				return "", false
			}
		}
		return tn + "." + fld, true
	}
	for f := range cl {
		if !c.P.IsLibrary(f) {
			continue
		}
		flow.Instrs(f, func(in ssa.Instruction) {
			switch x := in.(type) {
			case *ssa.Store:
				if ia, ok := x.Addr.(*ssa.IndexAddr); ok {
					if what, ok := listOf(ia.X); ok {
						bad++
						r.Fail("R5", fmt.Sprintf("%s:store-element-of-%s", fname(f), what), c.pos(x), "a write / serialise / inspect operation replaces an element of "+what+" of the object it was given: a retained decoded message changes (its AVPs are re-ordered or replaced) when it is written or inspected later")
					}
				}
			case *ssa.Call:
				// append(l[:0], …): an in-place filter writes the kept elements over the list it was handed — which
				// can be the message's own AVP list (a walker returns it as it is for an empty path)
				if b, ok := x.Call.Value.(*ssa.Builtin); ok && b.Name() == "append" && len(x.Call.Args) >= 1 {
					var zeroOf func(v ssa.Value, d int) ssa.Value
					zeroOf = func(v ssa.Value, d int) ssa.Value {
						if d > 4 {
							return nil
						}
						switch y := v.(type) {
						case *ssa.Slice:
							if k, isK := flow.ConstInt(y.High); y.High != nil && isK && k == 0 && isAVPSlice(y.X.Type()) {
								return y.X
							}
						case *ssa.Phi:
							for _, e := range y.Edges {
								if e == ssa.Value(y) || e == ssa.Value(x) {
									continue
								}
								if z := zeroOf(e, d+1); z != nil {
									return z
								}
							}
						}
						return nil
					}
					if base := zeroOf(x.Call.Args[0], 0); base != nil {
						_, isParam := flow.Peel(base).(*ssa.Parameter)
						_, isList := listOf(base)
						if isParam || isList {
							bad++
							r.Fail("R5", fmt.Sprintf("%s:append-into-handed-list", fname(f)), c.pos(x), "a write / serialise / inspect operation appends into l[:0] of an AVP list it was handed ("+short(base.String(), 30)+"): the kept elements overwrite that list's array — when it is the message's own AVP list, a retained decoded message loses and duplicates AVPs")
						}
					}
				}
				if b, ok := x.Call.Value.(*ssa.Builtin); ok && b.Name() == "copy" && len(x.Call.Args) == 2 {
					if what, ok := listOf(x.Call.Args[0]); ok {
						bad++
						r.Fail("R5", fmt.Sprintf("%s:copy-into-%s", fname(f), what), c.pos(x), "a write / serialise / inspect operation copies into "+what+" of the object it was given: a retained decoded message changes (its AVPs are re-ordered or replaced) when it is written or inspected later")
					}
				}
			}
		})
	}
	// Answer builds a new message from a request it only reads: no AVP object of the request goes into the answer
	// (a shared *AVP is changed for both when either message is edited, and adding it to the answer may itself
	// rewrite it)
	if ans := c.P.Method("diam", "Message", "Answer"); ans != nil && len(ans.Params) > 0 {
		req := ans.Params[0]
		tainted := map[ssa.Value]bool{req: true}
		for changed := true; changed; {
			changed = false
			flow.Instrs(ans, func(in ssa.Instruction) {
				v, ok := in.(ssa.Value)
				if !ok || tainted[v] {
					return
				}
				from := false
				switch x := in.(type) {
				case *ssa.FieldAddr:
					from = tainted[x.X]
				case *ssa.Field:
					from = tainted[x.X]
				case *ssa.IndexAddr:
					from = tainted[x.X]
				case *ssa.Index:
					from = tainted[x.X]
				case *ssa.UnOp:
					from = x.Op == token.MUL && tainted[x.X]
				case *ssa.Slice:
					from = tainted[x.X]
				case *ssa.Extract:
					from = tainted[x.Tuple]
				case *ssa.Range:
					from = tainted[x.X]
				case *ssa.Next:
					from = tainted[x.Iter]
				case *ssa.Phi:
					for _, e := range x.Edges {
						from = from || tainted[e]
					}
				case *ssa.Call:
					// a search of the request hands out the request's own AVP objects
					if len(x.Call.Args) > 0 && tainted[x.Call.Args[0]] && !x.Call.IsInvoke() {
						if g := flow.StaticCallee(x); g != nil && pkgOf(g) != nil && pkgOf(g).Path() == pkgDiam && strings.HasPrefix(g.Name(), "Find") {
							from = true
						}
					}
				}
				if from {
					tainted[v] = true
					changed = true
				}
			})
		}
		isAVPish := func(t types.Type) bool {
			if pt, ok := t.(*types.Pointer); ok && flow.TypeIs(pt.Elem(), pkgDiam, "AVP") {
				return true
			}
			return isAVPSlice(t)
		}
		shares := 0
		flow.Instrs(ans, func(in ssa.Instruction) {
			switch x := in.(type) {
			case *ssa.Call:
				for i, a := range x.Call.Args {
					if i == 0 && tainted[a] {
						continue // a method of the request itself
					}
					if tainted[a] && isAVPish(a.Type()) && len(x.Call.Args) > 0 && !tainted[x.Call.Args[0]] {
						if _, isB := x.Call.Value.(*ssa.Builtin); isB && x.Call.Value.Name() != "append" {
							continue
						}
						shares++
						r.Fail("R5", fname(ans)+":shares-no-avp-with-request", c.pos(x), "Answer hands an AVP object of the request ("+short(a.String(), 30)+") to "+calleeLabel(x)+": request and answer then share it — editing one changes the other, and adding it to the answer can already rewrite the request a handler kept")
					}
				}
			case *ssa.Store:
				if tainted[x.Val] && isAVPish(x.Val.Type()) && !tainted[x.Addr] {
					shares++
					r.Fail("R5", fname(ans)+":shares-no-avp-with-request", c.pos(x), "Answer stores an AVP object of the request into the answer: request and answer then share it")
				}
			}
		})
		if shares == 0 {
			bad += 0
			r.Ok("R5", fname(ans)+":shares-no-avp-with-request", c.fpos(ans), "no *AVP or AVP list taken from the request is handed to the answer under construction")
		} else {
			bad += shares
		}
	}
	if bad == 0 {
		r.Ok("R5", "read-only-api:no-stores", "-", fmt.Sprintf("%d functions reachable from %d read-only API methods; %d stores to Message/Header/AVP fields, none into a caller-supplied object", len(cl), len(roots), n))
	}
}

// c06Handlers: R6 — a message stays what the reader returned while the library's own handlers process it. For
// every function of package sm that takes a *diam.Message (handlers, their closures and helpers):
//   - no mutating Message method is called on that parameter,
//   - no store goes into a field reached from it,
//   - no store goes into a field of a *diam.AVP loaded from a struct of package smparser (the parse result of
//     that message, whose *AVP fields are documented to reference the message's AVPs).
func (c *Ctx) c06Handlers() {
	r := c.R
	n := 0
	// which *Message parameters are the received message: the message parameter of a function with the handler
	// signature, and (fixpoint) every parameter that receives such a value at a library call site — a helper that
	// is handed the answer under construction is not concerned
	received := map[*ssa.Parameter]bool{}
	var smFns []*ssa.Function
	for _, f := range c.P.LibraryFuncs() {
		if pkgOf(f) == nil || !strings.HasPrefix(pkgOf(f).Path(), pkgSM) {
			continue
		}
		smFns = append(smFns, f)
		ps := f.Params
		if f.Signature.Recv() != nil && len(ps) > 0 {
			ps = ps[1:]
		}
		if len(ps) == 2 && flow.TypeIs(ps[0].Type(), pkgDiam, "Conn") && isMsgPtr(ps[1].Type()) {
			received[ps[1]] = true
		}
	}
	isReceivedVal := func(v ssa.Value) bool {
		v = flow.Peel(v)
		if p, ok := v.(*ssa.Parameter); ok {
			return received[p]
		}
		if sp := spilledParam(v); sp != nil {
			return received[sp]
		}
		if fv, ok := v.(*ssa.FreeVar); ok {
			if b := flow.BoundValue(fv); b != nil {
				if p, ok := flow.Peel(b).(*ssa.Parameter); ok {
					return received[p]
				}
			}
		}
		return false
	}
	for changed := true; changed; {
		changed = false
		for _, f := range smFns {
			for _, ci := range flow.CallInstrs(f) {
				g := flow.StaticCallee(ci)
				if g == nil || g.Blocks == nil || !c.P.IsLibrary(g) {
					continue
				}
				for i, a := range ci.Common().Args {
					if i < len(g.Params) && isMsgPtr(a.Type()) && !received[g.Params[i]] && isReceivedVal(a) {
						received[g.Params[i]] = true
						changed = true
					}
				}
			}
		}
	}
	for _, f := range smFns {
		// message values that are the received message: *Message parameters, and free variables of closures bound to them
		var msgs []ssa.Value
		for _, p := range f.Params {
			if isMsgPtr(p.Type()) && received[p] {
				msgs = append(msgs, p)
			}
		}
		for _, fv := range f.FreeVars {
			if isMsgPtr(fv.Type()) && isReceivedVal(fv) {
				msgs = append(msgs, fv)
			}
		}
		isMsg := func(v ssa.Value) bool {
			v = flow.Peel(v)
			for _, m := range msgs {
				if v == m || spilledParam(v) != nil && ssa.Value(spilledParam(v)) == m {
					return true
				}
			}
			return false
		}
		if len(msgs) == 0 && !strings.HasPrefix(pkgOf(f).Path(), pkgSM) {
			continue
		}
		bad := ""
		var at ssa.Instruction
		flow.Instrs(f, func(in ssa.Instruction) {
			if bad != "" {
				return
			}
			switch x := in.(type) {
			case ssa.CallInstruction:
				for _, name := range []string{"NewAVP", "AddAVP", "InsertAVP", "Marshal"} {
					if flow.IsCallTo(x, pkgDiam, "Message", name) && len(x.Common().Args) > 0 && isMsg(x.Common().Args[0]) {
						bad, at = "calls "+name+" on the message it was handed", in
					}
				}
			case *ssa.Store:
				root, fields, ok := fieldPath(x.Addr)
				if !ok {
					return
				}
				if isMsg(root) {
					bad, at = "stores into "+strings.Join(fields, ".")+" of the message it was handed", in
					return
				}
				// a field of an AVP reached through the parse result (parsed.SomeAVP.Data = …)
				if pt, isPtr := flow.Peel(root).Type().Underlying().(*types.Pointer); isPtr && len(fields) >= 2 {
					if nt := flow.NamedOf(pt.Elem()); nt != nil && nt.Obj().Pkg() != nil && nt.Obj().Pkg().Path() == pkgSMParser {
						if st, isSt := nt.Underlying().(*types.Struct); isSt {
							for i := 0; i < st.NumFields(); i++ {
								if st.Field(i).Name() != fields[0] {
									continue
								}
								if apt, ok := st.Field(i).Type().(*types.Pointer); ok && flow.TypeIs(apt.Elem(), pkgDiam, "AVP") {
									bad, at = "stores into "+strings.Join(fields, ".")+" of the parsed "+nt.Obj().Name()+" (an AVP that references the received message's AVPs)", in
									return
								}
							}
						}
					}
				}
				// an AVP taken from the parse result: *(&parsed.Field) of a struct declared in smparser
				if ld, isLd := flow.Peel(root).(*ssa.UnOp); isLd && ld.Op == token.MUL {
					if fa, isFA := ld.X.(*ssa.FieldAddr); isFA {
						if pt, isPtr := fa.X.Type().Underlying().(*types.Pointer); isPtr {
							if nt := flow.NamedOf(pt.Elem()); nt != nil && nt.Obj().Pkg() != nil && nt.Obj().Pkg().Path() == pkgSMParser {
								if apt, ok := ld.Type().(*types.Pointer); ok && flow.TypeIs(apt.Elem(), pkgDiam, "AVP") {
									bad, at = "stores into "+strings.Join(fields, ".")+" of an AVP taken from the parsed "+nt.Obj().Name()+" (which references the received message's AVPs)", in
								}
							}
						}
					}
				}
			}
		})
		if len(msgs) == 0 && bad == "" {
			continue
		}
		n++
		key := fname(f) + ":request-read-only"
		if bad != "" {
			r.Fail("R6", key, c.pos(at), "a handler of the library "+bad+": a message that another handler or goroutine keeps changes after the reader returned it")
		} else {
			r.Ok("R6", key, c.fpos(f), "nothing is added to or stored into the received message")
		}
	}
	if n == 0 {
		r.Undecided("R6", "role:sm-handlers", "-", "no function of package sm takes a *diam.Message")
	}
	// the parsers of package smparser only look: the AVP and group objects they are handed (by Unmarshal, which
	// copies pointers, not objects) are the received message's own, so nothing there stores into a field of a
	// diam.AVP, diam.GroupedAVP, diam.Message or diam.Header
	{
		nf, bad := 0, 0
		for _, f := range c.P.LibraryFuncs() {
			if pkgOf(f) == nil || pkgOf(f).Path() != pkgSMParser {
				continue
			}
			nf++
			flow.Instrs(f, func(in ssa.Instruction) {
				st, ok := in.(*ssa.Store)
				if !ok {
					return
				}
				tn, fld, base, ok := flow.FieldOf(st.Addr)
				if !ok || (tn != "AVP" && tn != "GroupedAVP" && tn != "Message" && tn != "Header") {
					return
				}
				if nt := flow.NamedOf(base.Type()); nt == nil || nt.Obj().Pkg() == nil || nt.Obj().Pkg().Path() != pkgDiam {
					return
				}
				// an object allocated right here is the parser's own
				root := base
				for {
					if u, isU := root.(*ssa.UnOp); isU {
						root = u.X
						continue
					}
					if fa, isFA := root.(*ssa.FieldAddr); isFA {
						root = fa.X
						continue
					}
					break
				}
				if _, own := root.(*ssa.Alloc); own {
					return
				}
				bad++
				r.Fail("R6", fmt.Sprintf("%s:stores-into-%s.%s", fname(f), tn, fld), c.pos(st), "a parser of package smparser stores into "+tn+"."+fld+" of an object it was handed: Unmarshal copies AVP pointers, not AVPs, so this is the received message's own object and a message kept by a handler changes after the reader returned it")
			})
		}
		if bad == 0 && nf > 0 {
			r.Ok("R6", "smparser:read-only-over-message-objects", "-", fmt.Sprintf("%d functions of package smparser store into no field of a diam AVP, group, message or header they were handed", nf))
		}
	}
}
