package rules

import (
	"go/token"

	"golang.org/x/tools/go/ssa"

	"verif/internal/flow"
)

// rel is a normalised relation "a OP b" known to hold.
type rel struct {
	a, b ssa.Value
	op   token.Token // LSS, LEQ, GTR, GEQ, EQL, NEQ
}

func negate(op token.Token) token.Token {
	switch op {
	case token.LSS:
		return token.GEQ
	case token.LEQ:
		return token.GTR
	case token.GTR:
		return token.LEQ
	case token.GEQ:
		return token.LSS
	case token.EQL:
		return token.NEQ
	case token.NEQ:
		return token.EQL
	}
	return token.ILLEGAL
}

// condRel turns an If condition + taken edge into a relation (or ok=false).
func condRel(cond ssa.Value, taken bool) (rel, bool) {
	v, neg := flow.Cond(cond, taken)
	bo, ok := v.(*ssa.BinOp)
	if !ok {
		return rel{}, false
	}
	op := bo.Op
	switch op {
	case token.LSS, token.LEQ, token.GTR, token.GEQ, token.EQL, token.NEQ:
	default:
		return rel{}, false
	}
	if neg {
		op = negate(op)
	}
	return rel{bo.X, bo.Y, op}, true
}

// edgeRels lists the relations known to hold when control flows along pred -> blk.
func edgeRels(pred, blk *ssa.BasicBlock) []rel {
	var out []rel
	last := pred.Instrs[len(pred.Instrs)-1]
	for _, g := range flow.Guards(last) {
		if r, ok := condRel(g.If.Cond, g.Taken); ok {
			out = append(out, r)
		}
	}
	if ifi, ok := last.(*ssa.If); ok && pred.Succs[0] != pred.Succs[1] {
		taken := pred.Succs[0] == blk
		if r, ok := condRel(ifi.Cond, taken); ok {
			out = append(out, r)
		}
	}
	return out
}

// sameVal: identical SSA value, or equal through value-preserving conversions, or two loads /
// len()/cap() calls of the same thing.
func sameVal(a, b ssa.Value) bool {
	if a == b {
		return true
	}
	pa, pb := flow.Peel(a), flow.Peel(b)
	if pa == pb {
		return true
	}
	if ka, ok := pa.(*ssa.Const); ok {
		if kb, ok := pb.(*ssa.Const); ok && ka.Value != nil && kb.Value != nil {
			return ka.Value.ExactString() == kb.Value.ExactString()
		}
	}
	if ga, gb := loadedGlobal(pa), loadedGlobal(pb); ga != nil && ga == gb {
		return true // two loads of the same package-level variable (assumed not modified concurrently)
	}
	// two reads of one local cell (a named result kept in memory) that see the same stores
	if la, ok := pa.(*ssa.UnOp); ok && la.Op == token.MUL {
		if lb, ok := pb.(*ssa.UnOp); ok && lb.Op == token.MUL {
			if aa, ok := la.X.(*ssa.Alloc); ok && la.X == lb.X && !aa.Heap || ok && la.X == lb.X {
				sa, sb := flow.SpillSources(la), flow.SpillSources(lb)
				if len(sa) > 0 && len(sa) == len(sb) {
					same := true
					for _, x := range sa {
						found := false
						for _, y := range sb {
							if x == y {
								found = true
							}
						}
						if !found {
							same = false
						}
					}
					if same && !(len(sa) == 1 && sa[0] == ssa.Value(la)) {
						return true
					}
				}
			}
		}
	}
	ca, ok1 := pa.(*ssa.Call)
	cb, ok2 := pb.(*ssa.Call)
	if ok1 && ok2 {
		ba, ok3 := ca.Call.Value.(*ssa.Builtin)
		bb, ok4 := cb.Call.Value.(*ssa.Builtin)
		if ok3 && ok4 && ba.Name() == bb.Name() && (ba.Name() == "len" || ba.Name() == "cap") {
			return sameVal(ca.Call.Args[0], cb.Call.Args[0])
		}
	}
	return false
}

// relImpliesLeq: does relation r imply v <= bound ?
func relImpliesLeq(r rel, v, bound ssa.Value) bool {
	switch {
	case sameVal(r.a, v) && sameVal(r.b, bound):
		return r.op == token.LSS || r.op == token.LEQ || r.op == token.EQL
	case sameVal(r.a, bound) && sameVal(r.b, v):
		return r.op == token.GTR || r.op == token.GEQ || r.op == token.EQL
	}
	return false
}

// leq tries to prove v <= bound at the definition of v using only the min idioms:
// v == bound; v = phi(...) with every incoming value either itself <= bound or arriving on an
// edge whose conditions imply it.
func leq(v, bound ssa.Value, depth int) bool {
	if sameVal(v, bound) {
		return true
	}
	if depth > 4 {
		return false
	}
	// v = clamp(…, bound): a call of a function all of whose results are ≤ the parameter that receives bound
	if call, isCall := flow.Peel(v).(*ssa.Call); isCall {
		g := flow.StaticCallee(call)
		if g == nil || g.Blocks == nil || call.Call.IsInvoke() {
			return false
		}
		for j, a := range call.Call.Args {
			if !sameVal(a, bound) || j >= len(g.Params) {
				continue
			}
			pj := g.Params[j]
			all, n := true, 0
			flow.Instrs(g, func(in ssa.Instruction) {
				ret, ok := in.(*ssa.Return)
				if !ok || len(ret.Results) == 0 {
					return
				}
				n++
				for _, rv := range flow.SpillSources(ret.Results[0]) {
					if leq(rv, pj, depth+1) {
						continue
					}
					okEdge := false
					for _, gd := range flow.Guards(ret) {
						if r, ok := condRel(gd.If.Cond, gd.Taken); ok && relImpliesLeq(r, rv, pj) {
							okEdge = true
						}
					}
					if !okEdge {
						all = false
					}
				}
			})
			if all && n > 0 {
				return true
			}
		}
		return false
	}
	ph, ok := v.(*ssa.Phi)
	if !ok {
		return false
	}
	for i, e := range ph.Edges {
		if sameVal(e, bound) {
			continue
		}
		okEdge := false
		for _, r := range edgeRels(ph.Block().Preds[i], ph.Block()) {
			if relImpliesLeq(r, e, bound) {
				okEdge = true
			}
		}
		if !okEdge && !leq(e, bound, depth+1) {
			return false
		}
	}
	return true
}

// isLenOf / isCapOf
func builtinOf(v ssa.Value, name string) (ssa.Value, bool) {
	call, ok := v.(*ssa.Call)
	if !ok {
		return nil, false
	}
	b, ok := call.Call.Value.(*ssa.Builtin)
	if !ok || b.Name() != name || len(call.Call.Args) != 1 {
		return nil, false
	}
	return call.Call.Args[0], true
}

// sliceLen returns a description of the length of a []byte value when it is syntactically
// evident: constant (slice x[:c], x[a:b] with constants), or "len-of" another value.
func sliceConstLen(v ssa.Value) (int64, bool) {
	sl, ok := v.(*ssa.Slice)
	if !ok {
		return 0, false
	}
	hi, ok := flow.ConstInt(sl.High)
	if sl.High == nil || !ok {
		return 0, false
	}
	lo := int64(0)
	if sl.Low != nil {
		l, ok := flow.ConstInt(sl.Low)
		if !ok {
			return 0, false
		}
		lo = l
	}
	return hi - lo, true
}
