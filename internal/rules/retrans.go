package rules

import (
	"fmt"
	"go/constant"
	"go/token"
	"go/types"
	"strings"

	"golang.org/x/tools/go/ssa"

	"verif/internal/flow"
)

// isMessageWrite: a call of (*diam.Message).WriteTo*.
func isMessageWrite(ci ssa.CallInstruction) bool {
	o := flow.CalleeObj(ci)
	return o != nil && flow.RecvTypeName(o.Type().(*types.Signature)) == "Message" && strings.HasPrefix(o.Name(), "WriteTo") && o.Pkg() != nil && o.Pkg().Path() == pkgDiam
}

// isConnClose: invoke Close() on a diam.Conn.
func isConnClose(in ssa.Instruction) bool {
	ci, ok := in.(ssa.CallInstruction)
	if !ok {
		return false
	}
	com := ci.Common()
	if com.IsInvoke() && com.Method.Name() == "Close" && flow.TypeIs(com.Value.Type(), pkgDiam, "Conn") {
		return true
	}
	// a package-local helper that closes a connection it is handed on every path (abort helpers)
	if h := flow.StaticCallee(ci); h != nil && h.Blocks != nil && h.Pkg != nil && h.Pkg.Pkg.Path() == pkgSM {
		takesConn := false
		for _, a := range com.Args {
			if flow.TypeIs(a.Type(), pkgDiam, "Conn") {
				takesConn = true
			}
		}
		if takesConn && flow.PathAvoiding(h, nil, flow.IsReturn, isConnCloseDirect) == nil {
			return true
		}
	}
	return false
}

func isConnCloseDirect(in ssa.Instruction) bool {
	ci, ok := in.(ssa.CallInstruction)
	if !ok {
		return false
	}
	com := ci.Common()
	return com.IsInvoke() && com.Method.Name() == "Close" && flow.TypeIs(com.Value.Type(), pkgDiam, "Conn")
}

// clientFieldLoad: v is (a conversion of) a load of Client.<field>.
func clientFieldLoad(v ssa.Value, field string) bool {
	tn, fld, _, ok := flow.FieldOf(flow.Peel(v))
	return ok && tn == "Client" && fld == field
}

// timerChan: v is time.After(d) / time.NewTimer(d).C / time.Tick(d) with d = Client.<field>.
func timerChan(v ssa.Value, field string) bool {
	switch x := v.(type) {
	case *ssa.Call:
		if flow.IsCallTo(x, "time", "", "After") || flow.IsCallTo(x, "time", "", "Tick") {
			return clientFieldLoad(x.Call.Args[0], field)
		}
	case *ssa.UnOp:
		// (*Timer).C
		if tn, fld, base, ok := flow.FieldOf(x); ok && tn == "Timer" && fld == "C" {
			if call, ok := flow.Peel(base).(*ssa.Call); ok && flow.IsCallTo(call, "time", "", "NewTimer") {
				return clientFieldLoad(call.Call.Args[0], field)
			}
		}
	}
	return false
}

type retransLoop struct {
	fn     *ssa.Function
	loop   *flow.Loop
	write  *ssa.Call
	sel    *ssa.Select
	idx    ssa.Value // select index extract
	timerK int       // state index of the retransmit timer (-1 none)
	// when the select lives in a boolean helper called from fn (wait-for-answer-or-timeout helpers):
	waitCall *ssa.Call    // the call of the helper in fn
	caseVal  map[int]bool // what the helper returns when the select picks state k
	// when the helper also transmits (one "send once and wait" step per iteration): write is the message write
	// inside the helper and stepCall == waitCall is its call in fn
	stepCall *ssa.Call
}

// writeAt: the instruction of fn at which the message is transmitted (the write, or the call of the step helper).
func (rl *retransLoop) writeAt() ssa.Instruction {
	if rl.stepCall != nil {
		return rl.stepCall
	}
	return rl.write
}

// msgArg: the message transmitted, as a value of fn.
func (rl *retransLoop) msgArg() ssa.Value {
	m := rl.write.Call.Args[0]
	if rl.stepCall != nil {
		if p, ok := flow.Peel(m).(*ssa.Parameter); ok {
			if i := paramIndex(p.Parent(), p); i < len(rl.stepCall.Call.Args) {
				return rl.stepCall.Call.Args[i]
			}
		}
	}
	return m
}

// waitAt: the instruction in fn at which the loop waits (the select, or the call of the helper holding it).
func (rl *retransLoop) waitAt() ssa.Instruction {
	if rl.waitCall != nil {
		return rl.waitCall
	}
	if rl.sel != nil {
		return rl.sel
	}
	return nil
}

// chanInFn: the channel of select state k expressed in fn (a helper parameter is mapped to the argument).
func (rl *retransLoop) chanInFn(k int) ssa.Value {
	ch := rl.sel.States[k].Chan
	if rl.waitCall != nil {
		if p, ok := flow.Peel(ch).(*ssa.Parameter); ok {
			if i := paramIndex(p.Parent(), p); i < len(rl.waitCall.Call.Args) {
				return rl.waitCall.Call.Args[i]
			}
		}
	}
	return ch
}

// timerChanThroughHelper: inside a wait helper the timer is time.After(d) with d a parameter; at the helper's call
// the argument for d is the Client field.
func (rl *retransLoop) timerChanThroughHelper(v ssa.Value, field string) bool {
	if rl.waitCall == nil {
		return false
	}
	call, ok := v.(*ssa.Call)
	if !ok || !(flow.IsCallTo(call, "time", "", "After") || flow.IsCallTo(call, "time", "", "Tick")) {
		return false
	}
	p, isP := flow.Peel(call.Call.Args[0]).(*ssa.Parameter)
	if !isP {
		return false
	}
	i := paramIndex(p.Parent(), p)
	return i < len(rl.waitCall.Call.Args) && clientFieldLoad(rl.waitCall.Call.Args[i], field)
}

// selectHelper: h consists of one blocking select whose every case returns a boolean constant; result maps
// the select state to that constant (states whose value cannot be determined are left out).
func selectHelper(h *ssa.Function) (*ssa.Select, map[int]bool) {
	// one boolean result, or (bool, error): the boolean tells the cases apart, the error is what the answer case
	// received
	if h == nil || h.Blocks == nil || h.Signature.Results().Len() < 1 || h.Signature.Results().Len() > 2 {
		return nil, nil
	}
	if b, ok := h.Signature.Results().At(0).Type().Underlying().(*types.Basic); !ok || b.Kind() != types.Bool {
		return nil, nil
	}
	if h.Signature.Results().Len() == 2 && !isErrorType(h.Signature.Results().At(1).Type()) {
		return nil, nil
	}
	var sel *ssa.Select
	n := 0
	flow.Instrs(h, func(in ssa.Instruction) {
		if s, ok := in.(*ssa.Select); ok {
			sel = s
			n++
		}
	})
	if n != 1 {
		return nil, nil
	}
	tmp := &retransLoop{fn: h, sel: sel}
	for _, ref := range flow.Referrers(sel) {
		if ex, ok := ref.(*ssa.Extract); ok && ex.Index == 0 {
			tmp.idx = ex
		}
	}
	vals := map[int]bool{}
	flow.Instrs(h, func(in ssa.Instruction) {
		ret, ok := in.(*ssa.Return)
		if !ok || len(ret.Results) < 1 {
			return
		}
		k, isK := ret.Results[0].(*ssa.Const)
		if !isK || k.Value == nil || k.Value.Kind() != constant.Bool {
			return
		}
		for st := range sel.States {
			if tmp.caseDominates(st, ret.Block()) {
				vals[st] = constant.BoolVal(k.Value)
			}
		}
	})
	return sel, vals
}

// findRetransLoop locates the loop of fn that contains a Message write.
func (c *Ctx) findRetransLoop(fn *ssa.Function) *retransLoop {
	loops := flow.Loops(fn)
	for _, ci := range flow.CallInstrs(fn) {
		call, ok := ci.(*ssa.Call)
		if !ok || !isMessageWrite(call) {
			continue
		}
		l := flow.InnermostLoop(loops, call)
		if l == nil {
			continue
		}
		rl := &retransLoop{fn: fn, loop: l, write: call, timerK: -1}
		for b := range l.Blocks {
			for _, in := range b.Instrs {
				if s, ok := in.(*ssa.Select); ok {
					rl.sel = s
				}
			}
		}
		if rl.sel != nil {
			for _, ref := range flow.Referrers(rl.sel) {
				if ex, ok := ref.(*ssa.Extract); ok && ex.Index == 0 {
					rl.idx = ex
				}
			}
		} else {
			// the wait may be a call of a select helper inside the loop
			for b := range l.Blocks {
				for _, in := range b.Instrs {
					if hc, ok := in.(*ssa.Call); ok {
						if h := flow.StaticCallee(hc); h != nil && c.P.IsLibrary(h) {
							if sel, vals := selectHelper(h); sel != nil && len(vals) == len(sel.States) {
								rl.sel, rl.waitCall, rl.caseVal = sel, hc, vals
							}
						}
					}
				}
			}
		}
		return rl
	}
	// the loop calls a step helper that transmits once and then waits: the write precedes the helper's select on
	// every path, and the helper's returns outside the select cases lie on the write's error edge
	for _, ci := range flow.CallInstrs(fn) {
		hc, ok := ci.(*ssa.Call)
		if !ok {
			continue
		}
		l := flow.InnermostLoop(loops, hc)
		h := flow.StaticCallee(hc)
		if l == nil || h == nil || h.Blocks == nil || !c.P.IsLibrary(h) || len(flow.Loops(h)) > 0 {
			continue
		}
		var w *ssa.Call
		nw := 0
		for _, cj := range flow.CallInstrs(h) {
			if wc, ok := cj.(*ssa.Call); ok && isMessageWrite(wc) {
				w = wc
				nw++
			}
		}
		sel, vals := selectHelper(h)
		if nw != 1 || sel == nil || len(vals) != len(sel.States) {
			continue
		}
		if flow.PathAvoiding(h, nil, func(in ssa.Instruction) bool { return in == ssa.Instruction(sel) }, func(in ssa.Instruction) bool { return in == ssa.Instruction(w) }) != nil {
			continue // the select can be reached without the write
		}
		eb := errorEdgeBlocks(w)
		tmp := &retransLoop{fn: h, sel: sel}
		for _, ref := range flow.Referrers(sel) {
			if ex, ok := ref.(*ssa.Extract); ok && ex.Index == 0 {
				tmp.idx = ex
			}
		}
		okRets := true
		flow.Instrs(h, func(in ssa.Instruction) {
			ret, isRet := in.(*ssa.Return)
			if !isRet || ret.Block() == h.Recover {
				return
			}
			under := false
			for st := range sel.States {
				if tmp.caseDominates(st, ret.Block()) {
					under = true
				}
			}
			if !under && !eb[ret.Block()] {
				okRets = false
			}
		})
		if !okRets {
			continue
		}
		return &retransLoop{fn: fn, loop: l, write: w, timerK: -1, sel: sel, waitCall: hc, caseVal: vals, stepCall: hc}
	}
	return nil
}

// caseBlock returns the block entered when the select picks state k.
func (rl *retransLoop) caseBlock(k int) *ssa.BasicBlock {
	if rl.waitCall != nil {
		if b, i := rl.helperEdge(k); b != nil {
			return b.Succs[i]
		}
		return nil
	}
	for _, b := range rl.fn.Blocks {
		ifi, ok := b.Instrs[len(b.Instrs)-1].(*ssa.If)
		if !ok {
			continue
		}
		bo, ok := ifi.Cond.(*ssa.BinOp)
		if !ok || bo.Op != token.EQL || bo.X != rl.idx {
			continue
		}
		if kk, ok := flow.ConstInt(bo.Y); ok && int(kk) == k {
			return b.Succs[0]
		}
	}
	return nil
}

// checkBound: R "iteration count = MaxRetransmits + 1".
func (c *Ctx) checkRetransBound(rl *retransLoop, rule, key string) {
	r := c.R
	// the bounding condition: a test inside the loop that every transmission passes (the loop condition, or a
	// test at the top of the body), comparing a loop counter with the bound
	var ifi *ssa.If
	var rel rel
	for _, g := range flow.Guards(rl.writeAt()) {
		if !rl.loop.Blocks[g.If.Block()] {
			continue
		}
		rr, ok := condRel(g.If.Cond, g.Taken)
		if !ok {
			continue
		}
		_, aPhi := rr.a.(*ssa.Phi)
		_, bPhi := rr.b.(*ssa.Phi)
		if aPhi || bPhi {
			ifi, rel = g.If, rr
			break
		}
	}
	if ifi == nil {
		r.Fail(rule, key, c.pos(rl.write), "no counter test bounds the transmissions of the loop: the request can be retransmitted without limit")
		return
	}
	// normalise to counter OP bound
	ctr, bound, op := rel.a, rel.b, rel.op
	if _, isPhi := ctr.(*ssa.Phi); !isPhi {
		ctr, bound = rel.b, rel.a
		switch op {
		case token.LSS:
			op = token.GTR
		case token.LEQ:
			op = token.GEQ
		case token.GTR:
			op = token.LSS
		case token.GEQ:
			op = token.LEQ
		}
	}
	ph, isPhi := ctr.(*ssa.Phi)
	if !isPhi || ph.Block() != rl.loop.Head {
		r.Fail(rule, key, c.pos(ifi), "the transmission loop is not bounded by a counter")
		return
	}
	// the counter: an affine walk "value on entry, ±1 per iteration"; entry and bound are either constants
	// or MaxRetransmits + constant
	var entry ssa.Value
	step := int64(0)
	for i, e := range ph.Edges {
		if rl.loop.Blocks[ph.Block().Preds[i]] {
			if bo, ok := e.(*ssa.BinOp); ok && bo.X == ssa.Value(ph) {
				if k, okk := flow.ConstInt(bo.Y); okk {
					switch bo.Op {
					case token.ADD:
						step = k
					case token.SUB:
						step = -k
					}
				}
			}
		} else {
			entry = e
		}
	}
	eK, eM, eok := c.retransAffine(entry, 0)
	bK, bM, bok := c.retransAffine(bound, 0)
	if (step != 1 && step != -1) || !eok || !bok {
		r.Fail(rule, key, c.pos(ph), fmt.Sprintf("the transmission counter is not a ±1 walk between constants / MaxRetransmits (step %d, entry %s, bound %s)", step, short(fmt.Sprint(entry), 30), short(fmt.Sprint(bound), 30)))
		return
	}
	// number of iterations that pass the guard "counter OP bound", as a·MaxRetransmits + k
	var itM, itK int64
	switch {
	case step == 1 && (op == token.LSS || op == token.LEQ || op == token.NEQ):
		// counter runs entry, entry+1, … while counter < bound (≤: one more)
		itM, itK = bM-eM, bK-eK
		if op == token.LEQ {
			itK++
		}
	case step == -1 && (op == token.GTR || op == token.GEQ || op == token.NEQ):
		// counter runs entry, entry−1, … while counter > bound
		itM, itK = eM-bM, eK-bK
		if op == token.GEQ {
			itK++
		}
	default:
		r.Fail(rule, key, c.pos(ifi), fmt.Sprintf("the counter steps by %+d but is tested with %s: the loop is not bounded by it", step, op))
		return
	}
	if itM != 1 {
		r.Fail(rule, key, c.pos(ifi), "the number of transmissions does not derive from Client.MaxRetransmits")
		return
	}
	r.Check(itK == 1, rule, key, c.pos(ifi), "the request is transmitted at most MaxRetransmits + 1 times",
		fmt.Sprintf("the loop transmits the request MaxRetransmits%+d times instead of MaxRetransmits+1", itK))
}

// retransAffine: v = k + m·MaxRetransmits (m ∈ {0,1}) — a constant, a (converted) load of Client.MaxRetransmits,
// a sum of these, or the result of a package-local helper returning such a value.
func (c *Ctx) retransAffine(v ssa.Value, depth int) (k, m int64, ok bool) {
	if v == nil || depth > 4 {
		return 0, 0, false
	}
	if kk, isK := flow.ConstInt(v); isK {
		return kk, 0, true
	}
	if clientFieldLoad(v, "MaxRetransmits") {
		return 0, 1, true
	}
	switch x := flow.Peel(v).(type) {
	case *ssa.BinOp:
		if x.Op != token.ADD && x.Op != token.SUB {
			return 0, 0, false
		}
		k1, m1, ok1 := c.retransAffine(x.X, depth+1)
		k2, m2, ok2 := c.retransAffine(x.Y, depth+1)
		if !ok1 || !ok2 {
			return 0, 0, false
		}
		if x.Op == token.SUB {
			return k1 - k2, m1 - m2, true
		}
		return k1 + k2, m1 + m2, true
	case *ssa.Call:
		g := flow.StaticCallee(x)
		if g == nil || g.Blocks == nil || !c.P.IsLibrary(g) {
			return 0, 0, false
		}
		rvs := flow.ReturnValues(g, 0)
		if len(rvs) != 1 {
			return 0, 0, false
		}
		return c.retransAffine(rvs[0], depth+1)
	}
	return 0, 0, false
}

// checkTimerSpacing: every cycle through the write passes the select, whose only way back to the
// write is the case of the time.After(<field>) timer.
func (c *Ctx) checkTimerSpacing(rl *retransLoop, field, rule, key string) {
	r := c.R
	if rl.sel == nil || rl.waitAt() == nil || (rl.idx == nil && rl.waitCall == nil) {
		r.Fail(rule, key, c.pos(rl.write), "the transmission loop does not wait in a select: retransmissions are not spaced")
		return
	}
	if !rl.sel.Blocking {
		r.Fail(rule, key, c.pos(rl.sel), "the select between transmissions has a default case: the next transmission follows immediately instead of after "+field)
		return
	}
	isW := func(in ssa.Instruction) bool { return in == rl.writeAt() }
	if p := flow.PathAvoiding(rl.fn, rl.writeAt(), isW, func(in ssa.Instruction) bool { return in == rl.waitAt() }); p != nil && rl.stepCall == nil {
		r.Fail(rule, key, c.pos(rl.write), "a cycle through the write does not pass the select that waits for the answer / timer", c.witness(p)...)
		return
	}
	for k, st := range rl.sel.States {
		if st.Dir == types.RecvOnly && (timerChan(st.Chan, field) || rl.timerChanThroughHelper(st.Chan, field)) {
			rl.timerK = k
		}
	}
	if rl.timerK < 0 {
		r.Fail(rule, key, c.pos(rl.sel), "no select case waits on a timer of Client."+field+": retransmissions are not spaced by the configured interval")
		return
	}
	for k := range rl.sel.States {
		if k == rl.timerK {
			continue
		}
		cb := rl.caseBlock(k)
		if cb == nil {
			r.Undecided(rule, key, c.pos(rl.sel), fmt.Sprintf("cannot find the body of select case %d", k))
			return
		}
		first := cb.Instrs[0]
		if isW(first) || flow.PathAvoiding(rl.fn, first, isW, nil) != nil {
			r.Fail(rule, key, c.pos(first), fmt.Sprintf("select case %d (not the %s timer) leads back to another transmission: a retransmission can follow without the interval having elapsed", k, field))
			return
		}
	}
	if rl.stepCall != nil {
		// what the step helper reports when its write failed must not lead to another transmission either
		h := rl.write.Parent()
		eb := errorEdgeBlocks(rl.write)
		bad := ""
		flow.Instrs(h, func(in ssa.Instruction) {
			ret, isRet := in.(*ssa.Return)
			if !isRet || !eb[ret.Block()] || len(ret.Results) != 1 || bad != "" {
				return
			}
			k, isK := ret.Results[0].(*ssa.Const)
			if !isK || k.Value == nil || k.Value.Kind() != constant.Bool {
				bad = "the step helper's result after a failed write is not a constant"
				return
			}
			v := constant.BoolVal(k.Value)
			for _, b := range rl.fn.Blocks {
				ifi, ok := b.Instrs[len(b.Instrs)-1].(*ssa.If)
				if !ok {
					continue
				}
				cond, neg := flow.Cond(ifi.Cond, true)
				if cond != ssa.Value(rl.stepCall) {
					continue
				}
				i := 1
				if v != neg {
					i = 0
				}
				first := b.Succs[i].Instrs[0]
				if isW(first) || flow.PathAvoiding(rl.fn, first, isW, nil) != nil {
					bad = "after a failed write the step helper's result leads to another transmission at once"
				}
			}
		})
		if bad != "" {
			r.Fail(rule, key, c.pos(rl.write), bad+": a retransmission can follow without the interval having elapsed")
			return
		}
	}
	r.Ok(rule, key, c.pos(rl.sel), "every cycle through the write passes the blocking select; only the time.After("+field+") case leads back to the write")
}

// caseDominates: every path to block x takes the edge "select picked state k".
func (rl *retransLoop) caseDominates(k int, x *ssa.BasicBlock) bool {
	if rl.waitCall != nil {
		if b, i := rl.helperEdge(k); b != nil {
			return flow.EdgeDominates(b, i, x)
		}
		return false
	}
	for _, b := range rl.fn.Blocks {
		ifi, ok := b.Instrs[len(b.Instrs)-1].(*ssa.If)
		if !ok {
			continue
		}
		bo, ok := ifi.Cond.(*ssa.BinOp)
		if !ok || bo.Op != token.EQL || bo.X != rl.idx {
			continue
		}
		if kk, ok := flow.ConstInt(bo.Y); ok && int(kk) == k {
			return flow.EdgeDominates(b, 0, x)
		}
	}
	return false
}

// helperEdge: the branch edge in fn taken exactly when the select helper reported state k (its boolean result
// is unique to that state).
func (rl *retransLoop) helperEdge(k int) (*ssa.BasicBlock, int) {
	v, ok := rl.caseVal[k]
	if !ok {
		return nil, 0
	}
	for kk, vv := range rl.caseVal {
		if kk != k && vv == v {
			return nil, 0 // not distinguishable
		}
	}
	for _, b := range rl.fn.Blocks {
		ifi, ok := b.Instrs[len(b.Instrs)-1].(*ssa.If)
		if !ok {
			continue
		}
		cond, neg := flow.Cond(ifi.Cond, true)
		if ex, isEx := cond.(*ssa.Extract); isEx && ex.Index == 0 && ex.Tuple == ssa.Value(rl.waitCall) {
			cond = rl.waitCall // (bool, error) helper: the boolean part
		}
		if cond != ssa.Value(rl.waitCall) {
			continue
		}
		// succ[0] taken when cond (after negation) is true
		want := v
		if neg {
			want = !want
		}
		if want {
			return b, 0
		}
		return b, 1
	}
	return nil, 0
}
