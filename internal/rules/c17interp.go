package rules

import (
	"fmt"
	"go/constant"
	"go/token"
	"go/types"
	"sort"
	"strings"

	"golang.org/x/tools/go/ssa"

	"verif/internal/flow"
)

// Abstract interpreter for the dictionary's AVP resolution (*Parser).FindAVPWithVendor (C17 R3, C01 R6).
//
// A scenario fixes the dynamic type of the code argument, the length n of the parent chain of the caller's
// application (n = −1: the caller's application is the base application itself) and the set S of chain levels
// at which the index holds an entry for (level's application, caller's code or name, caller's vendor). The
// function is executed over abstract values — application ids are chain positions, index lookups hit exactly
// at the levels in S, the parent map answers according to n — so every branch condition is decided and one
// path is followed. Its result must be the entry of the first level of [own, parents…, base] that is in S;
// with S empty, the opaque placeholder for numeric codes (with a non-nil error) and (nil, error) otherwise.
// Helper functions, loops, goto and recursion are all just control flow for the interpreter.

const c17Base = 100 // chain level of the base application (id 0)

type c17v struct {
	k      string // app, code, vendor, parser, mapref, struct, entry, placeholder, err, nil, bool, int, str, tuple, addr, unk, void, nonnil
	s      string
	b      bool
	n      int64
	level  int
	typed  string // code: which dynamic type it was asserted to ("" = interface)
	fields map[int]*c17v
	elems  []*c17v
	alloc  *ssa.Alloc
	fidx   int
	base   *c17v
	fn     *ssa.Function // k == "closure"
	free   []*c17v
}

func c17unk(s string) *c17v { return &c17v{k: "unk", s: s} }

type c17scenario struct {
	codeType string // "string", "uint32", "int", "other"
	n        int    // parent chain length, −1: caller's application is base
	hits     map[int]bool
}

func (sc c17scenario) String() string {
	var hs []string
	for l := range sc.hits {
		if l == c17Base {
			hs = append(hs, "base")
		} else {
			hs = append(hs, fmt.Sprint(l))
		}
	}
	sort.Strings(hs)
	return fmt.Sprintf("code:%s,parents:%d,defined-at:[%s]", sc.codeType, sc.n, strings.Join(hs, " "))
}

type c17interp struct {
	c     *Ctx
	sc    c17scenario
	bad   string
	steps int
	depth int
	cells map[*ssa.Alloc]*c17v
	// facts
	lookups int
}

func (it *c17interp) fail(why string) *c17v {
	if it.bad == "" {
		it.bad = why
	}
	return c17unk(why)
}

type c17frame struct {
	fn   *ssa.Function
	env  map[ssa.Value]*c17v
	prev *ssa.BasicBlock
}

func (it *c17interp) eval(fr *c17frame, v ssa.Value) *c17v {
	if k, ok := v.(*ssa.Const); ok {
		if k.Value == nil {
			return &c17v{k: "nil"}
		}
		switch k.Value.Kind() {
		case constant.Bool:
			return &c17v{k: "bool", b: constant.BoolVal(k.Value)}
		case constant.Int:
			n, _ := constant.Int64Val(k.Value)
			return &c17v{k: "int", n: n}
		case constant.String:
			return &c17v{k: "str", s: constant.StringVal(k.Value)}
		}
		return c17unk("const")
	}
	if x, ok := fr.env[v]; ok {
		return x
	}
	switch x := v.(type) {
	case *ssa.Global:
		return &c17v{k: "global", s: x.Name()}
	case *ssa.Function:
		return &c17v{k: "closure", s: x.Name(), fn: x}
	}
	return c17unk("not computed: " + short(v.String(), 30))
}

// asApp: an application id value — a chain position, or the integer constant 0 (base).
func asApp(v *c17v) (int, bool) {
	switch {
	case v.k == "app":
		return v.level, true
	case v.k == "int" && v.n == 0:
		return c17Base, true
	}
	return 0, false
}

func (it *c17interp) load(a *c17v, t types.Type) *c17v {
	switch a.k {
	case "global":
		if _, ok := t.Underlying().(*types.Map); ok {
			return &c17v{k: "mapref", s: "parents"}
		}
		return c17unk("global " + a.s)
	case "addr":
		if a.alloc != nil {
			cell := it.cells[a.alloc]
			if cell == nil {
				return c17zero(t)
			}
			if a.fidx < 0 {
				return cell
			}
			if cell.k == "struct" {
				if f, ok := cell.fields[a.fidx]; ok {
					return f
				}
				return c17zero(t) // field never set: zero value
			}
			return c17unk("field of local")
		}
		if a.base != nil && a.base.k == "parser" {
			if m, ok := t.Underlying().(*types.Map); ok {
				if st, ok := m.Key().Underlying().(*types.Struct); ok && st.NumFields() == 3 {
					if b, ok := st.Field(1).Type().Underlying().(*types.Basic); ok {
						if b.Kind() == types.String {
							return &c17v{k: "mapref", s: "byname"}
						}
						return &c17v{k: "mapref", s: "bycode"}
					}
				}
			}
			return c17unk("parser field")
		}
	}
	return c17unk("load of " + a.k)
}

func (it *c17interp) call(fn *ssa.Function, args []*c17v) *c17v { return it.callClosure(fn, args, nil) }

func (it *c17interp) callClosure(fn *ssa.Function, args []*c17v, free []*c17v) *c17v {
	if it.depth > 12 {
		return it.fail("call depth exceeded in the lookup code")
	}
	it.depth++
	defer func() { it.depth-- }()
	fr := &c17frame{fn: fn, env: map[ssa.Value]*c17v{}}
	for i, p := range fn.Params {
		if i < len(args) {
			fr.env[p] = args[i]
		}
	}
	for i, fv := range fn.FreeVars {
		if i < len(free) {
			fr.env[fv] = free[i]
		}
	}
	blk := fn.Blocks[0]
	for it.bad == "" {
		var next *ssa.BasicBlock
		for _, in := range blk.Instrs {
			it.steps++
			if it.steps > 40000 {
				return it.fail("the lookup does not terminate for this scenario (cycle)")
			}
			switch x := in.(type) {
			case *ssa.Phi:
				for i, p := range blk.Preds {
					if p == fr.prev {
						fr.env[x] = it.eval(fr, x.Edges[i])
					}
				}
			case *ssa.Alloc:
				it.cells[x] = nil
				if st, ok := x.Type().Underlying().(*types.Pointer).Elem().Underlying().(*types.Struct); ok && st.NumFields() > 0 {
					it.cells[x] = &c17v{k: "struct", fields: map[int]*c17v{}}
				}
				fr.env[x] = &c17v{k: "addr", alloc: x, fidx: -1}
			case *ssa.FieldAddr:
				base := it.eval(fr, x.X)
				// the index maps may live in a struct of their own inside the parser: &p.idx.byCode — the inner
				// struct stands for the parser
				if base.k == "addr" && base.base != nil && base.base.k == "parser" {
					if pt, ok := x.X.Type().Underlying().(*types.Pointer); ok {
						if _, isStruct := pt.Elem().Underlying().(*types.Struct); isStruct {
							base = base.base
						}
					}
				}
				if base.k == "addr" && base.alloc != nil && base.fidx < 0 {
					fr.env[x] = &c17v{k: "addr", alloc: base.alloc, fidx: x.Field}
				} else {
					fr.env[x] = &c17v{k: "addr", base: base, fidx: x.Field}
				}
			case *ssa.Field:
				base := it.eval(fr, x.X)
				if base.k == "struct" {
					if f, ok := base.fields[x.Field]; ok {
						fr.env[x] = f
					} else {
						fr.env[x] = c17zero(x.Type())
					}
					break
				}
				fr.env[x] = c17unk("field of " + base.k)
			case *ssa.UnOp:
				a := it.eval(fr, x.X)
				switch x.Op {
				case token.MUL:
					fr.env[x] = it.load(a, x.Type())
				case token.NOT:
					if a.k == "bool" {
						fr.env[x] = &c17v{k: "bool", b: !a.b}
					} else {
						fr.env[x] = c17unk("negation of " + a.k)
					}
				default:
					fr.env[x] = c17unk("unary")
				}
			case *ssa.Store:
				a := it.eval(fr, x.Addr)
				v := it.eval(fr, x.Val)
				if a.k == "addr" && a.alloc != nil {
					if a.fidx < 0 {
						it.cells[a.alloc] = v
					} else {
						cell := it.cells[a.alloc]
						if cell == nil || cell.k != "struct" {
							cell = &c17v{k: "struct", fields: map[int]*c17v{}}
							it.cells[a.alloc] = cell
						}
						cell.fields[a.fidx] = v
					}
				}
			case *ssa.BinOp:
				fr.env[x] = it.binop(x, it.eval(fr, x.X), it.eval(fr, x.Y))
			case *ssa.MakeClosure:
				cl := &c17v{k: "closure", s: x.Fn.Name(), fn: x.Fn.(*ssa.Function)}
				for _, b := range x.Bindings {
					cl.free = append(cl.free, it.eval(fr, b))
				}
				fr.env[x] = cl
			case *ssa.ChangeType:
				fr.env[x] = it.eval(fr, x.X)
			case *ssa.Convert:
				fr.env[x] = it.eval(fr, x.X)
			case *ssa.ChangeInterface:
				fr.env[x] = it.eval(fr, x.X)
			case *ssa.MakeInterface:
				v := it.eval(fr, x.X)
				if v.k == "unk" || v.k == "addr" || v.k == "struct" || v.k == "str" || v.k == "int" {
					v = &c17v{k: "nonnil"}
				}
				fr.env[x] = v
			case *ssa.TypeAssert:
				v := it.eval(fr, x.X)
				if v.k != "code" {
					if x.CommaOk {
						fr.env[x] = &c17v{k: "tuple", elems: []*c17v{v, c17unk("type test")}}
					} else {
						fr.env[x] = v
					}
					break
				}
				want := x.AssertedType.String()
				is := want == it.sc.codeType
				tv := &c17v{k: "code", typed: want}
				if x.CommaOk {
					fr.env[x] = &c17v{k: "tuple", elems: []*c17v{tv, {k: "bool", b: is}}}
				} else if is {
					fr.env[x] = tv
				} else {
					return it.fail("unchecked type assertion of the code argument fails for a " + it.sc.codeType + " code")
				}
			case *ssa.Lookup:
				fr.env[x] = it.lookup(x, it.eval(fr, x.X), it.eval(fr, x.Index))
			case *ssa.Extract:
				t := it.eval(fr, x.Tuple)
				if t.k == "tuple" && x.Index < len(t.elems) {
					fr.env[x] = t.elems[x.Index]
				} else {
					fr.env[x] = c17unk("component of " + t.k)
				}
			case *ssa.Call:
				fr.env[x] = it.doCall(fr, x)
			case *ssa.Defer, *ssa.RunDefers, *ssa.DebugRef:
			case *ssa.Panic:
				return it.fail("the lookup panics in this scenario")
			case *ssa.Return:
				switch len(x.Results) {
				case 0:
					return &c17v{k: "void"}
				case 1:
					return it.eval(fr, x.Results[0])
				}
				t := &c17v{k: "tuple"}
				for _, rv := range x.Results {
					t.elems = append(t.elems, it.eval(fr, rv))
				}
				return t
			case *ssa.If:
				cv := it.eval(fr, x.Cond)
				if cv.k != "bool" {
					return it.fail("a branch of the lookup depends on something other than the code's type, the index contents and the parent map (" + cv.k + ": " + cv.s + ") at " + it.c.pos(x))
				}
				if cv.b {
					next = blk.Succs[0]
				} else {
					next = blk.Succs[1]
				}
			case *ssa.Jump:
				next = blk.Succs[0]
			default:
				if v, ok := in.(ssa.Value); ok {
					fr.env[v] = c17unk(fmt.Sprintf("%T", in))
				}
			}
		}
		if next == nil {
			return it.fail("block without successor")
		}
		fr.prev, blk = blk, next
	}
	return c17unk(it.bad)
}

func (it *c17interp) binop(x *ssa.BinOp, a, b *c17v) *c17v {
	switch x.Op {
	case token.EQL, token.NEQ:
		eq := x.Op == token.EQL
		res := func(v bool) *c17v {
			if !eq {
				v = !v
			}
			return &c17v{k: "bool", b: v}
		}
		la, oka := asApp(a)
		lb, okb := asApp(b)
		if oka && okb && (a.k == "app" || b.k == "app") {
			return res(la == lb)
		}
		isNil := func(v *c17v) bool { return v.k == "nil" }
		if isNil(a) || isNil(b) {
			o := a
			if isNil(a) {
				o = b
			}
			switch o.k {
			case "nil":
				return res(true)
			case "entry":
				return res(!o.b) // a missed lookup yields the nil entry
			case "placeholder", "nonnil", "err", "parser":
				return res(false)
			}
			return c17unk("nil test of " + o.k)
		}
		if a.k == "bool" && b.k == "bool" {
			return res(a.b == b.b)
		}
		if a.k == "int" && b.k == "int" {
			return res(a.n == b.n)
		}
		if a.k == "str" && b.k == "str" {
			return res(a.s == b.s)
		}
	case token.ADD, token.SUB:
		if a.k == "int" && b.k == "int" {
			if x.Op == token.ADD {
				return &c17v{k: "int", n: a.n + b.n}
			}
			return &c17v{k: "int", n: a.n - b.n}
		}
	case token.LSS, token.GTR, token.LEQ, token.GEQ:
		if a.k == "int" && b.k == "int" {
			r := false
			switch x.Op {
			case token.LSS:
				r = a.n < b.n
			case token.GTR:
				r = a.n > b.n
			case token.LEQ:
				r = a.n <= b.n
			case token.GEQ:
				r = a.n >= b.n
			}
			return &c17v{k: "bool", b: r}
		}
	}
	return c17unk("operator " + x.Op.String() + " on " + a.k + "," + b.k)
}

func (it *c17interp) lookup(x *ssa.Lookup, m, key *c17v) *c17v {
	tuple := func(v *c17v, ok bool) *c17v {
		if x.CommaOk {
			return &c17v{k: "tuple", elems: []*c17v{v, {k: "bool", b: ok}}}
		}
		return v
	}
	if m.k != "mapref" {
		return c17unk("lookup in " + m.k)
	}
	switch m.s {
	case "parents":
		l, ok := asApp(key)
		if !ok {
			return it.fail("the parent map is consulted with something that is not the application id being tried")
		}
		if l != c17Base && l < it.sc.n {
			return tuple(&c17v{k: "app", level: l + 1}, true)
		}
		return tuple(&c17v{k: "int"}, false)
	case "byname", "bycode":
		if key.k != "struct" {
			return it.fail("index lookup with an unrecognised key")
		}
		app, code, vend := key.fields[0], key.fields[1], key.fields[2]
		if app == nil || code == nil || vend == nil {
			return it.fail("index key with unset fields")
		}
		l, ok := asApp(app)
		if !ok {
			return it.fail("the index key's application is not an id of the fallback chain (own, parent…, base)")
		}
		if code.k != "code" {
			return it.fail("the index lookup is not keyed by the caller's code / name")
		}
		if (m.s == "byname") != (code.typed == "string") {
			return it.fail("a " + code.typed + " code is looked up in the " + m.s + " index")
		}
		if vend.k != "vendor" {
			return it.fail("the index lookup does not use the caller's vendor id")
		}
		it.lookups++
		hit := it.sc.hits[l]
		return tuple(&c17v{k: "entry", level: l, b: hit}, hit)
	}
	return c17unk("lookup")
}

func (it *c17interp) doCall(fr *c17frame, x *ssa.Call) *c17v {
	com := x.Common()
	var args []*c17v
	for _, a := range com.Args {
		args = append(args, it.eval(fr, a))
	}
	if com.IsInvoke() {
		return c17unk("interface call")
	}
	g := flow.StaticCallee(x)
	if g == nil {
		if fv := it.eval(fr, com.Value); fv.k == "closure" && fv.fn != nil && fv.fn.Blocks != nil && it.c.P.IsLibrary(fv.fn) {
			return it.callClosure(fv.fn, args, fv.free)
		}
		return c17unk("dynamic call")
	}
	if flow.IsCallTo(x, pkgDict, "", "MakeUnknownAVP") && len(args) == 3 {
		l, ok := asApp(args[0])
		if !ok || args[1].k != "code" || args[2].k != "vendor" {
			return it.fail("the placeholder is not built from (an application of the chain, the caller's code, the caller's vendor)")
		}
		return &c17v{k: "placeholder", level: l}
	}
	if g.Pkg != nil && (g.Pkg.Pkg.Path() == "fmt" || g.Pkg.Pkg.Path() == "errors") {
		return &c17v{k: "nonnil"}
	}
	if len(args) == 1 && args[0].k == "app" {
		// the parent relation written as a function: a constant table over the application id
		if tab, two, def, ok := constTable(g); ok {
			l := args[0].level
			if _, isKey := tab[0]; isKey {
				return it.fail("the parent table gives the base application a parent")
			}
			if l != c17Base && l < it.sc.n {
				if two {
					return &c17v{k: "tuple", elems: []*c17v{{k: "app", level: l + 1}, {k: "bool", b: true}}}
				}
				return &c17v{k: "app", level: l + 1}
			}
			if two {
				return &c17v{k: "tuple", elems: []*c17v{{k: "int"}, {k: "bool", b: false}}}
			}
			if def != 0 {
				return it.fail(fmt.Sprintf("the parent function %s answers %d, not the base application, for an application without a parent", g.Name(), def))
			}
			return &c17v{k: "int"}
		}
	}
	if g.Blocks != nil && it.c.P.IsLibrary(g) && pkgOf(g) != nil && pkgOf(g).Path() == pkgDict {
		return it.call(g, args)
	}
	return c17unk("call of " + g.Name())
}

// constTable reads a function of one integer parameter whose body only compares the parameter with constants
// and returns constants (a switch, an if chain) as the table it denotes: tab holds the answers for the
// constants compared against that differ from the answer for every other input; two is set for the
// (value, found) form, in which tab holds the inputs that are found; def is the answer for every other input.
func constTable(fn *ssa.Function) (tab map[int64]int64, two bool, def int64, ok bool) {
	if fn == nil || fn.Blocks == nil || len(fn.Params) != 1 || fn.Signature.Recv() != nil {
		return nil, false, 0, false
	}
	isInt := func(t types.Type) bool {
		b, ok := t.Underlying().(*types.Basic)
		return ok && b.Info()&types.IsInteger != 0
	}
	res := fn.Signature.Results()
	switch {
	case res.Len() == 1 && isInt(res.At(0).Type()):
	case res.Len() == 2 && isInt(res.At(0).Type()) && types.Identical(res.At(1).Type().Underlying(), types.Typ[types.Bool]):
		two = true
	default:
		return nil, false, 0, false
	}
	if !isInt(fn.Params[0].Type()) {
		return nil, false, 0, false
	}
	var consts []int64
	seen := map[int64]bool{}
	pure := true
	isParam := func(v ssa.Value) bool {
		for {
			switch x := v.(type) {
			case *ssa.ChangeType:
				v = x.X
				continue
			}
			break
		}
		return v == fn.Params[0]
	}
	flow.Instrs(fn, func(in ssa.Instruction) {
		switch x := in.(type) {
		case *ssa.BinOp:
			if x.Op != token.EQL && x.Op != token.NEQ {
				pure = false
				return
			}
			var k ssa.Value
			switch {
			case isParam(x.X):
				k = x.Y
			case isParam(x.Y):
				k = x.X
			default:
				pure = false
				return
			}
			n, ok := flow.ConstInt(k)
			if !ok {
				pure = false
				return
			}
			if !seen[n] {
				seen[n] = true
				consts = append(consts, n)
			}
		case *ssa.If, *ssa.Jump, *ssa.Return, *ssa.Phi, *ssa.DebugRef, *ssa.ChangeType:
		default:
			pure = false
		}
	})
	if !pure {
		return nil, false, 0, false
	}
	// run evaluates the function for input in (other: an input different from every constant compared against)
	run := func(in int64, other bool) (int64, bool, bool) {
		blk := fn.Blocks[0]
		var prev *ssa.BasicBlock
		env := map[ssa.Value]ssa.Value{}
		val := func(v ssa.Value) ssa.Value {
			if w, ok := env[v]; ok {
				return w
			}
			return v
		}
		for steps := 0; steps < 10000; steps++ {
			var next *ssa.BasicBlock
			for _, ins := range blk.Instrs {
				switch x := ins.(type) {
				case *ssa.Phi:
					for i, p := range blk.Preds {
						if p == prev {
							env[x] = val(x.Edges[i])
						}
					}
				case *ssa.If:
					b, ok := val(x.Cond).(*ssa.BinOp)
					if !ok {
						if k, ok := val(x.Cond).(*ssa.Const); ok && k.Value != nil && k.Value.Kind() == constant.Bool {
							if constant.BoolVal(k.Value) {
								next = blk.Succs[0]
							} else {
								next = blk.Succs[1]
							}
							continue
						}
						return 0, false, false
					}
					kv := b.Y
					if !isParam(b.X) {
						kv = b.X
					}
					n, _ := flow.ConstInt(kv)
					eq := !other && n == in
					if b.Op == token.NEQ {
						eq = !eq
					}
					if eq {
						next = blk.Succs[0]
					} else {
						next = blk.Succs[1]
					}
				case *ssa.Jump:
					next = blk.Succs[0]
				case *ssa.Return:
					n, ok := flow.ConstInt(val(x.Results[0]))
					if !ok {
						return 0, false, false
					}
					found := true
					if two {
						k, ok := val(x.Results[1]).(*ssa.Const)
						if !ok || k.Value == nil || k.Value.Kind() != constant.Bool {
							return 0, false, false
						}
						found = constant.BoolVal(k.Value)
					}
					return n, found, true
				}
			}
			if next == nil {
				return 0, false, false
			}
			prev, blk = blk, next
		}
		return 0, false, false
	}
	d, dfound, ok := run(0, true)
	if !ok || (two && dfound) {
		return nil, false, 0, false
	}
	tab = map[int64]int64{}
	for _, k := range consts {
		v, found, ok := run(k, false)
		if !ok {
			return nil, false, 0, false
		}
		if two {
			if found {
				tab[k] = v
			}
		} else if v != d {
			tab[k] = v
		}
	}
	return tab, two, d, true
}

// c17Resolve runs FindAVPWithVendor in one scenario; returns the result tuple (or nil with it.bad set).
func (c *Ctx) c17Resolve(f *ssa.Function, sc c17scenario) (*c17interp, *c17v) {
	it := &c17interp{c: c, sc: sc, cells: map[*ssa.Alloc]*c17v{}}
	own := &c17v{k: "app", level: 0}
	if sc.n < 0 {
		own = &c17v{k: "app", level: c17Base}
	}
	res := it.call(f, []*c17v{{k: "parser"}, own, {k: "code"}, {k: "vendor"}})
	return it, res
}

// c17Chain: R3 by exhaustive scenarios.
func (c *Ctx) c17Chain(rule string, onlyMisses bool) {
	r := c.R
	f := c.P.Method("diam/dict", "Parser", "FindAVPWithVendor")
	if f == nil {
		r.Undecided(rule, "role:FindAVPWithVendor", "-", "dict.(*Parser).FindAVPWithVendor not found")
		return
	}
	total, lookups := 0, 0
	for _, ct := range []string{"string", "uint32", "int", "other"} {
		for n := -1; n <= 2; n++ {
			var levels []int
			if n >= 0 {
				for l := 0; l <= n; l++ {
					levels = append(levels, l)
				}
			}
			levels = append(levels, c17Base)
			for mask := 0; mask < 1<<uint(len(levels)); mask++ {
				if onlyMisses && mask != 0 {
					break
				}
				sc := c17scenario{codeType: ct, n: n, hits: map[int]bool{}}
				first := -1
				for i, l := range levels {
					if mask&(1<<uint(i)) != 0 {
						sc.hits[l] = true
						if first < 0 {
							first = l
						}
					}
				}
				total++
				key := "FindAVPWithVendor[" + sc.String() + "]"
				it, res := c.c17Resolve(f, sc)
				lookups += it.lookups
				if it.bad != "" {
					r.Undecided(rule, key, c.fpos(f), "cannot interpret the lookup for this scenario: "+it.bad)
					continue
				}
				if res == nil || res.k != "tuple" || len(res.elems) != 2 {
					r.Undecided(rule, key, c.fpos(f), "the lookup does not return (AVP, error)")
					continue
				}
				got, gerr := res.elems[0], res.elems[1]
				errNil := gerr.k == "nil"
				errSet := gerr.k == "nonnil" || gerr.k == "err"
				var want, have string
				switch {
				case ct == "other":
					want = "nil + error"
				case first >= 0:
					want = fmt.Sprintf("the definition at level %s, no error", c17Level(first))
				case ct == "uint32":
					want = "placeholder of the caller's application + error"
				default:
					want = "nil + error"
				}
				switch {
				case got.k == "entry" && got.b && errNil:
					have = fmt.Sprintf("the definition at level %s, no error", c17Level(got.level))
				case got.k == "entry" && got.b:
					have = fmt.Sprintf("the definition at level %s with an error", c17Level(got.level))
				case got.k == "placeholder" && errSet:
					own := 0
					if n < 0 {
						own = c17Base
					}
					if got.level == own {
						have = "placeholder of the caller's application + error"
					} else {
						have = "placeholder of application level " + c17Level(got.level) + " + error"
					}
				case got.k == "placeholder":
					have = "placeholder without an error"
				case (got.k == "nil" || (got.k == "entry" && !got.b)) && errSet:
					have = "nil + error"
				case got.k == "nil" || (got.k == "entry" && !got.b):
					have = "nil without an error"
				default:
					have = got.k + " / " + gerr.k
				}
				if have == want {
					r.Ok(rule, key, c.fpos(f), have)
				} else {
					r.Fail(rule, key, c.fpos(f), fmt.Sprintf("for this dictionary situation the lookup yields [%s] but resolution through the application, its parents, then base requires [%s]", have, want))
				}
			}
		}
	}
	r.Note(fmt.Sprintf("FindAVPWithVendor interpreted in %d scenarios (%d index lookups)", total, lookups))
}

func c17Level(l int) string {
	if l == c17Base {
		return "base"
	}
	if l == 0 {
		return "own"
	}
	return fmt.Sprintf("parent^%d", l)
}

// c17zero: the zero value of type t.
func c17zero(t types.Type) *c17v {
	switch tt := t.Underlying().(type) {
	case *types.Basic:
		switch {
		case tt.Info()&types.IsBoolean != 0:
			return &c17v{k: "bool"}
		case tt.Info()&types.IsInteger != 0:
			return &c17v{k: "int"}
		case tt.Info()&types.IsString != 0:
			return &c17v{k: "str"}
		}
	case *types.Pointer, *types.Interface, *types.Map, *types.Slice:
		return &c17v{k: "nil"}
	case *types.Struct:
		return &c17v{k: "struct", fields: map[int]*c17v{}}
	}
	return c17unk("zero value")
}
