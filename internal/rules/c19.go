package rules

import (
	"fmt"
	"go/token"
	"go/types"
	"strings"

	"golang.org/x/tools/go/ssa"

	"verif/internal/flow"
)

func init() {
	register(&RuleSet{
		Property:  "C19",
		Title:     "SCTP multistream: every message is assembled from one stream, in order",
		Run:       runC19,
		Technique: "value provenance of the stream number along the read path (pinning), must-held lock sets on the per-stream buffers, guard identification on the delivery paths of ReadStream",
		Explanation: "Decides on the current source: R1 stream pinning — the body read's ReadAtLeast receives the stream value that the header read's ReadAtLeast(…, InvalidStreamID) reported (through readHeader's result and readBody's parameter), and inside SCTPConn.ReadAtLeast every continuation read is ReadStream on the loop-invariant stream value that is also returned; " +
			"R2 every access to the per-stream buffer structure (SCTPConn.s) in functions reachable from ReadAtLeast happens with streamBuffMu held (held on entry at every call site for the unexported helper); " +
			"R3 in ReadStream, bytes received for another stream flow only into the buffer of that other stream, and freshly received bytes of the requested stream are returned only through the function that first drains older buffered bytes of that stream; " +
			"R4 replies: see C16 R2/R3 (answer's stream = request's stream, passed unchanged to WriteStream). " +
			"R3 also: a function that takes bytes out of a per-stream buffer reports the stream number of that very buffer. R5 contradiction rule on the buffer heap: where some path re-establishes the heap order after changing a buffer's length, every path that changes it must. " +
			"NOT decided (not applicable to static analysis beyond R1–R4): chunk interleavings, heap ordering of the stream buffers, partial reads — histories of a run-time data structure.",
		Rules: map[string]string{
			"R1": "one message, one stream: the body is read from the stream the header came from",
			"R2": "per-stream buffers only touched under streamBuffMu on the library's read path",
			"R3": "no cross-stream delivery; older buffered bytes of a stream are delivered before fresh ones; the stream reported is the buffer's own",
			"R4": "replies carry the request's stream number unchanged to WriteStream (shared with C16 R2)",
			"R5": "heap of stream buffers: if any path re-fixes the heap after a length change, every such path does",
		},
		MinInstances: map[string]int{"R1": 3, "R2": 3, "R3": 2},
		Assumptions:  []string{"sctp.SCTPConn.SCTPRead reports the stream of the bytes it returns", "the connection has a single reader (the connection loop, C08)"},
	})
}

func runC19(c *Ctx) {
	r := c.R
	rm := c.P.Func("diam", "ReadMessage")
	if rm == nil {
		r.Undecided("R1", "role:ReadMessage", "-", "diam.ReadMessage not found")
		return
	}
	rp := c.readPath()
	c.c19ReaderUnwrapped(rm)
	// ---- R1 (library read path) ----
	hdrRA, bodyRA := c.streamReadSites(rp)
	if len(hdrRA) != 1 || len(bodyRA) == 0 {
		r.Fail("R1", "ReadPath:stream-pinning", c.fpos(rm), fmt.Sprintf("expected one stream-selecting read (ReadAtLeast with InvalidStreamID) followed by stream-pinned reads, found %d / %d", len(hdrRA), len(bodyRA)))
	} else {
		h := hdrRA[0].call
		hf := h.Parent()
		// the stream result of the header read
		hstream := hdrRA[0].reportedStream()
		isH := func(v ssa.Value) bool { return hstream != nil && v == hstream }
		r.Check(hstream != nil, "R1", fname(hf)+":reports-header-stream", c.pos(h), "the header read's ReadAtLeast(…, InvalidStreamID) reports the stream it took the bytes from", "the stream the header was read from is discarded: the body cannot be pinned to it")
		for _, bs := range bodyRA {
			b := bs.call
			bf := b.Parent()
			key := fname(bf) + ":body-read-pinned"
			ok, saw := c.derivesOnlyFrom(bs.stream, isH, 0, map[ssa.Value]bool{})
			if !(ok && saw) {
				// the stream kept in a field of the message between the two steps: every store to that field on
				// the read path stores the stream the header read reported
				if tn, fld, _, isF := flow.FieldOf(flow.Peel(bs.stream)); isF && tn == "Message" {
					n, all := 0, true
					for f := range rp {
						flow.Instrs(f, func(in ssa.Instruction) {
							st, isSt := in.(*ssa.Store)
							if !isSt {
								return
							}
							if t2, f2, _, ok2 := flow.FieldOf(st.Addr); ok2 && t2 == tn && f2 == fld {
								n++
								if o, s2 := c.derivesOnlyFrom(st.Val, isH, 0, map[ssa.Value]bool{}); !o || !s2 {
									all = false
								}
							}
						})
					}
					if n > 0 && all {
						ok, saw = true, true
					}
				}
			}
			// and the header read happens first: the body read is not reachable without it
			r.Check(ok && saw, "R1", key, c.pos(b), "the body is read with ReadAtLeast(…, stream) where, through every call path, stream is the stream the header read reported", "the stream passed to the body read is not (on every path) the one the header read reported ("+short(bs.stream.String(), 40)+"): body bytes can be taken from another stream than the header's")
		}
	}

	// ---- SCTP implementation ----
	ra := c.P.Method("diam", "SCTPConn", "ReadAtLeast")
	rs := c.P.Method("diam", "SCTPConn", "ReadStream")
	if ra == nil || rs == nil {
		r.Note("SCTPConn not built in this configuration: R1 (implementation part), R2 and R3 not evaluated here")
		r.Trivial("R2", "SCTPConn:not-built", "-", "no SCTP implementation in this build configuration")
		r.Trivial("R3", "SCTPConn:not-built", "-", "no SCTP implementation in this build configuration")
		return
	}
	{
		key := fname(ra) + ":continuation-reads-pinned"
		loops := flow.Loops(ra)
		good, why, n := true, "", 0
		var strmP *ssa.Parameter
		for _, p := range ra.Params {
			if b, ok := p.Type().Underlying().(*types.Basic); ok && b.Kind() == types.Uint {
				strmP = p
			}
		}
		for _, ci := range flow.CallInstrs(ra) {
			if flow.StaticCallee(ci) != rs && !(ci.Common().IsInvoke() && ci.Common().Method.Name() == "ReadStream") {
				if g := flow.StaticCallee(ci); g != nil && (g.Name() == "ReadAny") && flow.InnermostLoop(loops, ci) != nil {
					good, why = false, "a continuation read inside ReadAtLeast takes bytes from any stream"
				}
				continue
			}
			n++
			args := ci.Common().Args
			sv := args[len(args)-1]
			ph, ok := sv.(*ssa.Phi)
			if !ok {
				if flow.Peel(sv) != ssa.Value(strmP) {
					good, why = false, "a continuation read does not use the pinned stream"
				}
				continue
			}
			// loop-invariant phi: sources = requested stream, stream reported by the first (ReadAny) read, itself
			for _, e := range ph.Edges {
				switch {
				case e == ssa.Value(ph), flow.Peel(e) == ssa.Value(strmP):
				default:
					ex, ok := e.(*ssa.Extract)
					if !ok || ex.Index != 1 {
						good, why = false, "the stream of continuation reads changes inside the loop"
						continue
					}
					call, ok := ex.Tuple.(*ssa.Call)
					if !ok || flow.InnermostLoop(loops, call) != nil {
						good, why = false, "the stream of continuation reads is re-selected inside the loop"
					}
				}
			}
			// and it is what ReadAtLeast returns
			okRet := false
			for _, rv := range flow.ReturnValues(ra, 1) {
				if rv == sv {
					okRet = true
				}
			}
			if !okRet {
				good, why = false, "ReadAtLeast does not report the stream it read from"
			}
		}
		if n == 0 {
			good, why = false, "ReadAtLeast has no stream-pinned continuation read"
		}
		r.Check(good, "R1", key, c.fpos(ra), "every continuation read is ReadStream on one loop-invariant stream (requested, or reported by the first read), which is also returned", why)
	}

	// ---- R2 ----
	reach := c.reach([]*ssa.Function{ra}, false, false, true)
	nAcc := 0
	for f := range reach {
		if !c.P.IsLibrary(f) {
			continue
		}
		entry := c.heldOnEntryIn(f, reach)
		flow.Instrs(f, func(in ssa.Instruction) {
			fa, ok := in.(*ssa.FieldAddr)
			if !ok {
				return
			}
			tn, fld, _, ok := flow.FieldOf(fa)
			if !ok || tn != "SCTPConn" || fld != "s" {
				return
			}
			nAcc++
			key := fmt.Sprintf("%s:access-streams#%d", fname(f), nAcc)
			bp, _, _ := basePathOf(fa)
			mu := bp + ".streamBuffMu"
			held := mustHeldAt(f, fa, mu, true)
			if !held {
				for _, e := range entry {
					if e == "streamBuffMu" {
						held = true
					}
				}
			}
			r.Check(held, "R2", key, c.pos(fa), "per-stream buffers accessed with "+mu+" held", "the per-stream buffer structure is accessed without streamBuffMu on the library's read path: concurrent buffering corrupts or reorders a stream's bytes")
		})
	}
	if nAcc == 0 {
		r.Undecided("R2", "role:stream-buffers", "-", "no access to SCTPConn.s reachable from ReadAtLeast")
	}

	// ---- R3 ----
	c.c19ReadStream(rs)
	c.c19ReportedStream()

	// buffered bytes are copies: a stream buffer must not alias the caller's (reused) read buffer
	nBuf := 0
	for f := range reach {
		if !c.P.IsLibrary(f) {
			continue
		}
		for _, ci := range flow.CallInstrs(f) {
			if !flow.IsCallTo(ci, "bytes", "", "NewBuffer") && !flow.IsCallTo(ci, "bytes", "", "NewBufferString") {
				continue
			}
			nBuf++
			key := fmt.Sprintf("%s:buffer-owns-its-bytes#%d", fname(f), nBuf)
			aliased := ""
			for _, o := range c.storageOrigins(ci.Common().Args[0]) {
				if o.Kind != "make" && o.Kind != "string-copy" && o.Kind != "const" && o.Kind != "nil" {
					aliased = o.Kind + " " + o.Desc
				}
			}
			r.Check(aliased == "", "R3", key, c.pos(ci), "the stream buffer is created over freshly allocated storage", "a stream buffer is created directly over bytes owned by someone else ("+aliased+"): the reader reuses that memory for the next receive, so another stream's buffered bytes are overwritten")
		}
	}

	// ---- R5: heap maintenance ----
	c.c19Heap(reach)

	// ---- R4 ----
	c.streamChain("R4")
}

// c19Heap: every read from / write to a buffered stream's bytes.Buffer on the read path is followed,
// on every path to the unlock or return, by heap.Fix / heap.Push for that buffer (the stream
// buffers live in a heap ordered by length; a stale position hides buffered messages).
func (c *Ctx) c19Heap(reach map[*ssa.Function]bool) {
	r := c.R
	isHeapFix := func(in ssa.Instruction) bool {
		ci, ok := in.(ssa.CallInstruction)
		return ok && (flow.IsCallTo(ci, "container/heap", "", "Fix") || flow.IsCallTo(ci, "container/heap", "", "Push") || flow.IsCallTo(ci, "container/heap", "", "Init"))
	}
	n := 0
	for f := range reach {
		if !c.P.IsLibrary(f) || f.Signature.Recv() == nil || flow.RecvTypeName(f.Signature) != "SCTPConn" {
			continue
		}
		for _, ci := range flow.CallInstrs(f) {
			o := flow.CalleeObj(ci)
			if o == nil || o.Pkg() == nil || o.Pkg().Path() != "bytes" || flow.RecvTypeName(o.Type().(*types.Signature)) != "Buffer" || (o.Name() != "Read" && o.Name() != "Write") {
				continue
			}
			// receiver is the Buffer embedded in a streamBuffer
			if tn, fld, _, ok := flow.FieldOf(ci.Common().Args[0]); !ok || tn != "streamBuffer" || fld != "Buffer" {
				continue
			}
			n++
			key := fmt.Sprintf("%s:heap-fixed-after-%s#%d", fname(f), o.Name(), n)
			// Contradiction rule: where the code fixes the heap after this I/O on some path, it must do so on
			// every path. An I/O that is never followed by a fix (the final Read of the pipe-through helper,
			// whose branch needs a second reader to be reachable) expresses no such belief and is only noted.
			if flow.PathAvoiding(f, ci, isHeapFix, nil) == nil {
				r.Note("%s: %s on a stream buffer is not followed by heap.Fix on any path (%s)", fname(f), o.Name(), c.pos(ci))
				r.Trivial("R5", key, c.pos(ci), "no heap fix follows on any path (no conditional maintenance to check)")
				continue
			}
			p := flow.PathAvoiding(f, ci, func(in ssa.Instruction) bool { return flow.IsReturn(in) || isRunDefers(in) }, isHeapFix)
			r.Check(p == nil, "R5", key, c.pos(ci), "every path after the buffer changed length passes heap.Fix / heap.Push before returning", "the heap position of a stream buffer is fixed after this I/O only on some paths: the longest-buffer-first heap goes stale and buffered messages of some stream are never delivered (or delivered after later ones)", c.witness(p)...)
		}
	}
	if n == 0 {
		r.Undecided("R5", "role:stream-buffer-io", "-", "no stream buffer reads/writes found on the read path")
	}
}

func init() {
	// extend the rule set texts (kept next to the rules they describe)
	rs := Get("C19")
	if rs != nil {
		rs.Rules["R4"] = "replies: the stream travels unchanged with the bytes along the write chain (shared with C16 R2)"
		rs.Rules["R5"] = "heap maintenance: heap.Fix/Push after every change of a stream buffer's length"
		rs.MinInstances["R4"] = 4
		rs.MinInstances["R5"] = 1
		rs.Explanation = strings.Replace(rs.Explanation, "R4 replies: see C16 R2/R3 (answer's stream = request's stream, passed unchanged to WriteStream). ", "stream buffers are created over freshly allocated storage (never over the caller's reused read buffer); R4 along the write chain the stream number travels unchanged together with the bytes (shared clause with C16 R2); R5 wherever the code fixes a stream buffer's heap position after reading from / writing to it, it does so on every path (a conditional fix leaves the longest-first heap stale). ", 1)
	}
}

func unusedC19() {}

// valueReaches: v is target through phis.
func valueReaches(v, target ssa.Value, d int) bool {
	if v == target {
		return true
	}
	if d > 4 {
		return false
	}
	if ph, ok := v.(*ssa.Phi); ok {
		for _, e := range ph.Edges {
			if e != ssa.Value(ph) && valueReaches(e, target, d+1) {
				return true
			}
		}
	}
	return false
}

func (c *Ctx) c19ReadStream(rs *ssa.Function) {
	r := c.R
	var streamP *ssa.Parameter
	for _, p := range rs.Params {
		if b, ok := p.Type().Underlying().(*types.Basic); ok && b.Kind() == types.Uint {
			streamP = p
		}
	}
	var sread *ssa.Call
	for _, ci := range flow.CallInstrs(rs) {
		if call, ok := ci.(*ssa.Call); ok {
			if o := flow.CalleeObj(call); o != nil && o.Name() == "SCTPRead" {
				sread = call
			}
		}
	}
	if sread == nil || streamP == nil {
		r.Undecided("R3", fname(rs)+":shape", c.fpos(rs), "ReadStream does not read from the socket with SCTPRead")
		return
	}
	// the stream of the bytes just read: uint(info.Stream)
	isInfoStream := func(v ssa.Value) bool {
		tn, fld, _, ok := flow.FieldOf(flow.Peel(v))
		return ok && tn == "SndRcvInfo" && fld == "Stream"
	}
	// returns after the socket read
	key := fname(rs) + ":fresh-bytes-delivery"
	good, why := true, ""
	nRet := 0
	flow.Instrs(rs, func(in ssa.Instruction) {
		ret, ok := in.(*ssa.Return)
		if !ok || !flow.Dominates(sread, ret) {
			return
		}
		nRet++
		// (a) n <= 0 error return: result 0 is const 0
		if k, ok := flow.ConstInt(ret.Results[0]); ok && k == 0 {
			return
		}
		// (b) delivery: must be the result of a helper called with the requested stream, on the edge currStream == stream
		ex, ok := ret.Results[0].(*ssa.Extract)
		var call *ssa.Call
		if ok {
			call, _ = ex.Tuple.(*ssa.Call)
		}
		if call == nil || flow.StaticCallee(call) == nil {
			good, why = false, "freshly received bytes are returned directly, bypassing the stream's buffer check (older buffered bytes of the stream would be overtaken) or without checking which stream they belong to"
			return
		}
		passesStream := false
		for _, a := range call.Call.Args {
			if flow.Peel(a) == ssa.Value(streamP) {
				passesStream = true
			}
		}
		sameStream := false
		for _, g := range flow.Guards(ret) {
			rl, ok := condRel(g.If.Cond, g.Taken)
			if !ok || rl.op != token.EQL {
				continue
			}
			if (isInfoStream(rl.a) && flow.Peel(rl.b) == ssa.Value(streamP)) || (isInfoStream(rl.b) && flow.Peel(rl.a) == ssa.Value(streamP)) {
				sameStream = true
			}
		}
		if !passesStream || !sameStream {
			good, why = false, "bytes read from the socket are delivered to the caller without the test that they belong to the requested stream: bytes of another stream are mixed into the message"
		}
		// helper drains older buffered data first: it looks up streamMap[stream] under the lock
		g := flow.StaticCallee(call)
		looksUp := false
		var scan func(h *ssa.Function, d int)
		scan = func(h *ssa.Function, d int) {
			if h == nil || h.Blocks == nil || d > 2 {
				return
			}
			flow.Instrs(h, func(x ssa.Instruction) {
				if lk, ok := x.(*ssa.Lookup); ok {
					if _, fld, _, ok := flow.FieldOf(lk.X); ok && strings.Contains(fld, "streamMap") {
						looksUp = true
					}
				}
				// the buffers may be kept by a type of their own whose methods do the lookup
				if ci, ok := x.(ssa.CallInstruction); ok {
					if hh := flow.StaticCallee(ci); hh != nil && c.P.IsLibrary(hh) {
						scan(hh, d+1)
					}
				}
			})
		}
		scan(g, 0)
		if !looksUp {
			good, why = false, "the delivery helper does not consult the stream's buffer: older buffered bytes of the stream are overtaken by fresh ones"
		}
	})
	if nRet == 0 {
		good, why = false, "ReadStream never returns after reading from the socket"
	}
	r.Check(good, "R3", key, c.pos(sread), "fresh bytes are delivered only on the edge info.Stream == requested stream and through the helper that first drains that stream's buffer", why)

	// other-stream bytes go to bufferStreamData(rb, currStream)
	key = fname(rs) + ":other-stream-buffered"
	good, why = false, "bytes received for another stream are not buffered for that stream (they are dropped or delivered to the wrong reader)"
	for _, ci := range flow.CallInstrs(rs) {
		call, ok := ci.(*ssa.Call)
		if !ok || !flow.Dominates(sread, call) {
			continue
		}
		g := flow.StaticCallee(call)
		if g == nil || g.Signature.Recv() == nil || flow.RecvTypeName(g.Signature) != "SCTPConn" || len(call.Call.Args) != 3 {
			continue
		}
		// stream arg derives from info.Stream (phi with InvalidStreamID), never the requested stream
		sv := call.Call.Args[2]
		okSrc := false
		var chk func(v ssa.Value, d int) bool
		chk = func(v ssa.Value, d int) bool {
			if d > 4 {
				return false
			}
			if isInfoStream(v) {
				okSrc = true
				return true
			}
			if k, ok := v.(*ssa.Const); ok && k.Value != nil && isAllOnes(k) {
				return true
			}
			if ph, ok := v.(*ssa.Phi); ok {
				for _, e := range ph.Edges {
					if e != ssa.Value(ph) && !chk(e, d+1) {
						return false
					}
				}
				return true
			}
			return false
		}
		if chk(sv, 0) && okSrc {
			// data arg is b[0:n] of the bytes just read
			if sl, ok := call.Call.Args[1].(*ssa.Slice); ok {
				if ex, ok := sl.High.(*ssa.Extract); ok && ex.Tuple == ssa.Value(sread) && ex.Index == 0 {
					good = true
				}
			}
		}
	}
	r.Check(good, "R3", key, c.pos(sread), "bytes of another stream are appended to that stream's buffer (b[0:n], info.Stream)", why)
}

// c19ReportedStream: R3 — a function of the SCTP adaptor that takes bytes out of a per-stream buffer and reports
// a stream number reports the stream of that very buffer: the reported value is the stream field of the same
// buffer object whose Read supplied the bytes (not of whatever sits at the heap's root afterwards).
func (c *Ctx) c19ReportedStream() {
	r := c.R
	n := 0
	for _, f := range c.P.LibraryFuncs() {
		if pkgOf(f).Path() != pkgDiam || f.Signature.Recv() == nil || !strings.Contains(flow.RecvTypeName(f.Signature), "SCTP") {
			continue
		}
		// index of the uint (stream) result
		si := -1
		for i := 0; i < f.Signature.Results().Len(); i++ {
			if b, ok := f.Signature.Results().At(i).Type().Underlying().(*types.Basic); ok && b.Kind() == types.Uint {
				si = i
			}
		}
		if si < 0 {
			continue
		}
		for _, ci := range flow.CallInstrs(f) {
			call, ok := ci.(*ssa.Call)
			if !ok || !flow.IsCallTo(call, "bytes", "Buffer", "Read") {
				continue
			}
			// the buffer object: &X.Buffer
			recv := call.Call.Args[0]
			if u, isLoad := recv.(*ssa.UnOp); isLoad && u.Op == token.MUL {
				recv = u.X // embedded *bytes.Buffer: the pointer is loaded from the buffer object
			}
			fa, ok := recv.(*ssa.FieldAddr)
			if !ok {
				continue
			}
			X := fa.X
			n++
			key := fname(f) + ":reports-stream-of-buffer-read"
			good, why := true, ""
			flow.Instrs(f, func(in ssa.Instruction) {
				ret, ok := in.(*ssa.Return)
				if !ok || si >= len(ret.Results) || !flow.Dominates(call, ret) {
					return
				}
				for _, src := range flow.SpillSources(ret.Results[si]) {
					if _, isK := src.(*ssa.Const); isK {
						continue
					}
					_, fld, base, okf := flow.FieldOf(flow.Peel(src))
					if !okf || fld != "stream" || base != X {
						good = false
						why = "after taking bytes out of one stream's buffer the function reports a stream number that is not that buffer's own (" + short(src.String(), 40) + "): the bytes are attributed to another stream"
					}
				}
			})
			r.Check(good, "R3", key, c.pos(call), "the stream reported with buffered bytes is the stream field of the buffer they were read from", why)
		}
	}
	if n == 0 {
		r.Trivial("R3", "SCTPConn:reports-stream-of-buffer-read", "-", "no function both reads a stream buffer and reports a stream")
	}
}

// isAllOnes: the constant is the all-ones value of its unsigned type (^uint(0) is 2^32−1 on 32-bit targets and
// 2^64−1 on 64-bit ones): the library's InvalidStreamID.
func isAllOnes(k *ssa.Const) bool {
	if k == nil || k.Value == nil {
		return false
	}
	v := k.Uint64()
	return v == ^uint64(0) || v == uint64(^uint32(0))
}

type raSite struct {
	call   ssa.CallInstruction
	stream ssa.Value
	resIdx int // index of the reported stream among the results of call
}

// reportedStream: the value holding the stream the read at this site reported (nil if it is discarded).
func (s raSite) reportedStream() ssa.Value {
	if s.resIdx < 0 || s.call.Value() == nil {
		return nil
	}
	for _, ref := range flow.Referrers(s.call.Value()) {
		if ex, ok := ref.(*ssa.Extract); ok && ex.Index == s.resIdx {
			return ex
		}
	}
	return nil
}

func (c *Ctx) streamReadSites(rp map[*ssa.Function]bool) (hdrRA, bodyRA []raSite) {
	// streamReadSites: a stream-selecting / stream-pinned read: the ReadAtLeast invoke itself, or — when it sits in an unexported
	// helper that receives the stream as a parameter — each call of that helper (with the result index at which
	// the helper hands the reported stream back)
	var all []raSite
	for f := range rp {
		for _, ci := range flow.CallInstrs(f) {
			com := ci.Common()
			if com.IsInvoke() && com.Method.Name() == "ReadAtLeast" && len(com.Args) == 3 {
				all = append(all, raSite{ci, com.Args[2], 1})
			}
		}
	}
	// a read inside a closure that captured the stream: the stream is the captured variable's value in the
	// function that built the closure (a parameter spilled for capture by reference, or the value itself)
	for i := range all {
		v := all[i].stream
		var fv *ssa.FreeVar
		if u, ok := v.(*ssa.UnOp); ok && u.Op == token.MUL {
			fv, _ = u.X.(*ssa.FreeVar)
		} else {
			fv, _ = v.(*ssa.FreeVar)
		}
		if fv == nil {
			continue
		}
		b := flow.BoundValue(fv)
		if al, ok := b.(*ssa.Alloc); ok {
			var stored ssa.Value
			n := 0
			for _, ref := range flow.Referrers(al) {
				if st, ok := ref.(*ssa.Store); ok && st.Addr == ssa.Value(al) {
					n++
					stored = st.Val
				}
			}
			if n == 1 {
				all[i].stream = stored
			}
		} else if b != nil {
			all[i].stream = b
		}
	}
	for d := 0; d < 2; d++ {
		var next []raSite
		for _, s := range all {
			f := s.call.Parent()
			p, isP := flow.Peel(s.stream).(*ssa.Parameter)
			if !isP || p.Parent() != f || f.Object() != nil && f.Object().Exported() {
				next = append(next, s)
				continue
			}
			css := c.librarySites(f)
			if len(css) == 0 || len(css) > 4 {
				next = append(next, s)
				continue
			}
			// which result of the helper is the stream the read reported?
			resIdx := -1
			if v := s.call.Value(); v != nil {
				for i := 0; i < f.Signature.Results().Len(); i++ {
					for _, rv := range flow.ReturnValues(f, i) {
						if ex, ok := rv.(*ssa.Extract); ok && ex.Tuple == ssa.Value(v) && ex.Index == s.resIdx {
							resIdx = i
						}
					}
				}
			}
			for _, cs := range css {
				next = append(next, raSite{cs, cs.Common().Args[paramIndex(f, p)], resIdx})
			}
		}
		all = next
	}
	for _, s := range all {
		if k, ok := s.stream.(*ssa.Const); ok && k.Value != nil && isAllOnes(k) {
			hdrRA = append(hdrRA, s)
		} else {
			bodyRA = append(bodyRA, s)
		}
	}
	return hdrRA, bodyRA
}

// c19ReaderUnwrapped: R1 — ReadMessage recognises a multi-stream source by asserting its reader to
// MultistreamReader. Where the library itself knows the transport to be multi-stream (a comma-ok assertion to a
// Multistream* interface in the function that calls ReadMessage) the value it passes is that very connection,
// not an object wrapped around it: a wrapper that only offers Read makes the association look like a byte
// stream, so the message's stream is reported as 0 and the answer leaves on stream 0.
func (c *Ctx) c19ReaderUnwrapped(rm *ssa.Function) {
	r := c.R
	n := 0
	for _, f := range c.P.LibraryFuncs() {
		if pkgOf(f).Path() != pkgDiam {
			continue
		}
		var asserts []*ssa.TypeAssert
		flow.Instrs(f, func(in ssa.Instruction) {
			if ta, ok := in.(*ssa.TypeAssert); ok && ta.CommaOk {
				if nt := flow.NamedOf(ta.AssertedType); nt != nil && strings.HasPrefix(nt.Obj().Name(), "Multistream") {
					asserts = append(asserts, ta)
				}
			}
		})
		if len(asserts) == 0 {
			continue
		}
		isAsserted := func(v ssa.Value) bool {
			v = flow.PeelNoConvert(v)
			ex, ok := v.(*ssa.Extract)
			if !ok || ex.Index != 0 {
				return false
			}
			for _, ta := range asserts {
				if ex.Tuple == ssa.Value(ta) {
					return true
				}
			}
			return false
		}
		var expand func(v ssa.Value, d int, seen map[ssa.Value]bool) []ssa.Value
		expand = func(v ssa.Value, d int, seen map[ssa.Value]bool) []ssa.Value {
			if seen[v] || d > 6 {
				return nil
			}
			seen[v] = true
			if ph, ok := v.(*ssa.Phi); ok {
				var out []ssa.Value
				for _, e := range ph.Edges {
					out = append(out, expand(e, d+1, seen)...)
				}
				return out
			}
			return []ssa.Value{v}
		}
		for _, ci := range flow.CallInstrs(f) {
			if flow.StaticCallee(ci) != rm || len(ci.Common().Args) == 0 {
				continue
			}
			n++
			key := fname(f) + ":multistream-reader-unwrapped"
			direct, bad := false, ""
			for _, src := range expand(ci.Common().Args[0], 0, map[ssa.Value]bool{}) {
				if isAsserted(src) {
					direct = true
					continue
				}
				// a freshly built object that holds the connection (or a reader made of it) in a field
				if al, ok := flow.PeelNoConvert(src).(*ssa.Alloc); ok {
					for _, ref := range flow.Referrers(al) {
						fa, ok := ref.(*ssa.FieldAddr)
						if !ok {
							continue
						}
						for _, r2 := range flow.Referrers(fa) {
							st, ok := r2.(*ssa.Store)
							if !ok {
								continue
							}
							for _, held := range expand(st.Val, 0, map[ssa.Value]bool{}) {
								if isAsserted(held) {
									bad = "the multi-stream connection is handed to ReadMessage inside a wrapper (" + short(al.Type().String(), 40) + ") that does not offer the multi-stream read interface"
								}
							}
						}
					}
				}
			}
			switch {
			case bad != "":
				r.Fail("R1", key, c.pos(ci), bad+": ReadMessage then reads it as a plain byte stream, reports stream 0 for every message and the answers leave on stream 0")
			case !direct && len(asserts) > 0 && f.Name() != "ReadMessage":
				// the function tests for a multi-stream transport but never reads it as one
				sawOther := false
				for _, cj := range flow.CallInstrs(f) {
					if flow.StaticCallee(cj) == rm && cj != ci {
						for _, src := range expand(cj.Common().Args[0], 0, map[ssa.Value]bool{}) {
							if isAsserted(src) {
								sawOther = true
							}
						}
					}
				}
				if sawOther {
					r.Ok("R1", key, c.pos(ci), "this call serves the transports that are not multi-stream; another call of the function passes the asserted connection")
				} else {
					r.Fail("R1", key, c.pos(ci), "the function recognises a multi-stream transport but never passes the asserted connection itself to ReadMessage: the association is read as a plain byte stream and every message reports stream 0")
				}
			default:
				r.Ok("R1", key, c.pos(ci), "on the multi-stream edge ReadMessage is given the asserted connection itself")
			}
		}
	}
	if n == 0 {
		r.Trivial("R1", "multistream-reader-unwrapped:no-site", "-", "no library function both recognises a multi-stream transport and calls ReadMessage")
	}
}
