package rules

import (
	"fmt"
	"go/token"
	"go/types"
	"sort"
	"strings"

	"golang.org/x/tools/go/ssa"

	"verif/internal/flow"
)

func init() {
	register(&RuleSet{
		Property:  "C09",
		Title:     "Dispatch selects the handler by index, then by name, then the catch-all",
		Run:       runC09,
		Technique: "decision-structure extraction: abstract interpretation of ServeMux.ServeDIAM (callees inlined) under every consistent outcome of the classified map lookups, compared with a reference decision list; exhaustive over 2^5 outcome assignments",
		Explanation: "Decides on the current source, exhaustively over all 32 assignments of {command known to the dictionary, exact-index hit, name hit, catch-all hit, request bit}: R1 interpreting ServeMux.ServeDIAM with its module callees inlined, the sequence of effects (handler invoked from which lookup, mux.Error) is exactly: exact-index entry's handler; else the name entry's; else the catch-all's; else Error and no handler — and for commands unknown to the dictionary: catch-all, else Error — with exactly one effect per path, the invoked handler being the h field of the looked-up entry and called with the mux's own (conn, message); " +
			"R2 the exact key is (Header.ApplicationID, Header.CommandCode, CommandFlags&0x80==0x80) and the name key is the dictionary short name + \"R\" on the request edge and + \"A\" otherwise; " +
			"R3 Handle/HandleIdx update the maps unconditionally (no existence test) under the exclusive mux lock, storing the given handler, with \"ALL\" mapped to the catch-all index; " +
			"R4 FindCommand retries with application 0 on a miss. " +
			"R5 (*ServeMux).Error reaches the send of its report on every path, and the channel it sends on is a mux field that every constructor of a ServeMux makes with capacity >= 1 (so the report of an unmatched message is kept for a later reader). " +
			"This is a complete static decision of the precedence clause over all registration subsets; the dictionary's content (which short name a command has) is data and not decided.",
		Rules: map[string]string{
			"R1": "decision table of ServeDIAM = reference list for all 32 lookup-outcome assignments",
			"R2": "key construction: exact index from header fields; name = Short + R/A by the request bit",
			"R3": "registration overwrites unconditionally under the write lock; ALL → catch-all index",
			"R4": "FindCommand base-application fallback",
			"R5": "the Error effect is an offered report: Error sends on every path, on a channel every constructor made with room",
		},
		MinInstances: map[string]int{"R1": 32, "R2": 2, "R3": 2, "R4": 1, "R5": 2},
		Assumptions:  []string{"Go map semantics: a comma-ok lookup hits iff the key was stored; repeated lookups of one key on one path agree (the read lock is held throughout)"},
	})
}

func runC09(c *Ctx) {
	r := c.R
	sd := c.P.Method("diam", "ServeMux", "ServeDIAM")
	if sd == nil {
		r.Undecided("R1", "role:ServeMux.ServeDIAM", "-", "(*ServeMux).ServeDIAM not found")
		return
	}
	vars := []string{"FC", "hitEXACT", "hitNAME", "hitALL", "REQ"}
	sufs := map[string]bool{}
	exactKeys, badExact := 0, ""
	for mask := 0; mask < 32; mask++ {
		as := map[string]bool{}
		var desc []string
		for i, v := range vars {
			as[v] = mask&(1<<uint(i)) != 0
			desc = append(desc, fmt.Sprintf("%s=%v", v, as[v]))
		}
		st := c.c09Interpret(sd, as)
		for k := range st.nameSuffix {
			sufs[k] = true
		}
		exactKeys += st.exactKeys
		if st.badExactKey != "" {
			badExact = st.badExactKey
		}
		var want string
		switch {
		case !as["FC"] && as["hitALL"]:
			want = "invoke ALL"
		case !as["FC"]:
			want = "error"
		case as["hitEXACT"]:
			want = "invoke EXACT"
		case as["hitNAME"]:
			want = "invoke NAME"
		case as["hitALL"]:
			want = "invoke ALL"
		default:
			want = "error"
		}
		key := "ServeDIAM[" + strings.Join(desc, ",") + "]"
		got := strings.Join(st.effects, "; ")
		switch {
		case st.wrong != "":
			r.Fail("R1", key, c.fpos(sd), st.wrong)
		case st.bad != "":
			r.Undecided("R1", key, c.fpos(sd), "cannot interpret the dispatch code for this configuration: "+st.bad)
		case got == want:
			r.Ok("R1", key, c.fpos(sd), "effect: "+got)
		default:
			r.Fail("R1", key, c.fpos(sd), fmt.Sprintf("for this registration/message configuration the dispatcher does [%s] but the property requires [%s]", got, want))
		}
	}

	// ---- R2: key construction, as observed on the interpreted paths ----
	r.Check(exactKeys > 0 && badExact == "", "R2", fname(sd)+":exact-key", c.fpos(sd), "exact key = (Header.ApplicationID, Header.CommandCode, CommandFlags&0x80==0x80) wherever an index lookup is made", func() string {
		if badExact != "" {
			return badExact
		}
		return "no lookup with the exact (application, code, request bit) index is made on any dispatch path"
	}())
	var sl []string
	for s := range sufs {
		sl = append(sl, s)
	}
	sort.Strings(sl)
	r.Check(len(sl) == 2 && sl[0] == "A" && sl[1] == "R", "R2", fname(sd)+":name-suffixes", c.fpos(sd), "name key suffixes are exactly R (request edge) and A (answer edge) — agreement with the request bit is checked on every interpreted path", fmt.Sprintf("name key suffixes are %v, expected [A R]", sl))

	// ---- R3 ----
	for _, name := range []string{"Handle", "HandleIdx"} {
		f := c.P.Method("diam", "ServeMux", name)
		if f == nil {
			r.Undecided("R3", "role:ServeMux."+name, "-", "registration method not found")
			continue
		}
		n := 0
		flow.Instrs(f, func(in ssa.Instruction) {
			mu, ok := in.(*ssa.MapUpdate)
			if !ok {
				return
			}
			_, mfName, base, ok := flow.FieldOf(mu.Map)
			if !ok {
				return
			}
			// the handler maps are recognised by their key type
			mf := ""
			if mt, isMap := mu.Map.Type().Underlying().(*types.Map); isMap {
				if flow.TypeIs(mt.Key(), pkgDiam, "CommandIndex") {
					mf = "idxMap"
				} else if bt, isB := mt.Key().Underlying().(*types.Basic); isB && bt.Kind() == types.String {
					mf = "m"
				}
			}
			if mf == "" {
				return
			}
			_ = mfName
			n++
			key := fmt.Sprintf("%s:update-%s#%d", fname(f), mf, n)
			bp, _ := flow.Path(base)
			if !mustHeldAt(f, mu, bp+".mu", true) {
				r.Fail("R3", key, c.pos(mu), "the handler map is written without the exclusive mux lock")
				return
			}
			// no existence test
			for _, g := range flow.Guards(mu) {
				cond, _ := flow.Cond(g.If.Cond, g.Taken)
				if ex, ok := cond.(*ssa.Extract); ok {
					if _, isLk := ex.Tuple.(*ssa.Lookup); isLk {
						r.Fail("R3", key, c.pos(mu), "the registration is conditional on the key's presence: registering a key again does not replace the earlier handler")
						return
					}
				}
			}
			// key
			kc := "?"
			switch {
			case mf == "m":
				if p, ok := mu.Key.(*ssa.Parameter); ok && p == f.Params[1] {
					kc = "name param"
				}
			case mf == "idxMap":
				if p, ok := mu.Key.(*ssa.Parameter); ok && p == f.Params[1] {
					kc = "index param"
				} else if gl := loadedGlobal(mu.Key); gl != nil && gl.Name() == "ALL_CMD_INDEX" {
					kc = "ALL"
					// must be on the shortCmd == "ALL" edge
					okAll := false
					for _, g := range flow.Guards(mu) {
						rl, ok := condRel(g.If.Cond, g.Taken)
						if ok && rl.op == token.EQL {
							if s, oks := flow.ConstString(rl.b); oks && s == "ALL" && rl.a == ssa.Value(f.Params[1]) {
								okAll = true
							}
						}
					}
					if !okAll {
						kc = "?ALL not under cmd == \"ALL\""
					}
				}
			}
			if strings.HasPrefix(kc, "?") {
				r.Fail("R3", key, c.pos(mu), "the registration does not use the caller's key ("+kc+")")
				return
			}
			// value carries the handler param
			hv := entryCarriesHandler(mu.Value, f.Params[2], 0)
			if !hv {
				r.Fail("R3", key, c.pos(mu), "the stored entry does not carry the handler being registered")
				return
			}
			r.Ok("R3", key, c.pos(mu), "unconditional update under "+bp+".mu, key = "+kc+", value carries the given handler")
		})
		if n == 0 {
			// the update is made by helpers: interpret the method (helpers, closures and table types included)
			cases := []bool{false}
			if name == "Handle" {
				cases = []bool{false, true}
			}
			for _, isALL := range cases {
				want := "update map=INDEX key=REGIDX handler=true locked=true"
				label := "index"
				if name == "Handle" {
					want, label = "update map=NAME key=REGNAME handler=true locked=true", "name"
					if isALL {
						want, label = "update map=INDEX key=ALL handler=true locked=true", "ALL"
					}
				}
				key := fmt.Sprintf("%s:update-%s", fname(f), label)
				it := c.c09Register(f, isALL)
				var ups []string
				for _, e := range it.effects {
					if strings.HasPrefix(e, "update ") {
						ups = append(ups, e)
					}
				}
				switch {
				case it.wrong != "":
					r.Fail("R3", key, c.fpos(f), it.wrong)
				case it.bad != "":
					r.Undecided("R3", key, c.fpos(f), "cannot interpret the registration method: "+it.bad)
				case len(ups) == 1 && ups[0] == want:
					r.Ok("R3", key, c.fpos(f), "interpreted: exactly one "+ups[0])
				case len(ups) == 0:
					r.Fail("R3", key, c.fpos(f), "the registration method does not update a handler map")
				default:
					r.Fail("R3", key, c.fpos(f), fmt.Sprintf("the registration performs %v, expected exactly one %q: the handler is not stored unconditionally under the caller's key with the exclusive lock held", ups, want))
				}
			}
		}
	}
	// Handle: name registrations for non-ALL must go to m (so that ALL is not shadowing)
	// ---- R4 ----
	if fc := c.P.Method("diam/dict", "Parser", "FindCommand"); fc != nil {
		var looks []*ssa.Lookup
		flow.Instrs(fc, func(in ssa.Instruction) {
			if lk, ok := in.(*ssa.Lookup); ok && lk.CommaOk {
				looks = append(looks, lk)
			}
		})
		good := false
		if len(looks) >= 2 {
			f1 := structLitFields(looks[0].Index)
			f2 := structLitFields(looks[1].Index)
			if f1 != nil && f2 != nil && flow.Peel(f1["appID"]) == ssa.Value(fc.Params[1]) && isZeroConst(flow.Peel(f2["appID"])) &&
				flow.Peel(f1["code"]) == ssa.Value(fc.Params[2]) && flow.Peel(f2["code"]) == ssa.Value(fc.Params[2]) {
				for _, g := range flow.Guards(looks[1]) {
					cond, neg := flow.Cond(g.If.Cond, g.Taken)
					if ex, ok := cond.(*ssa.Extract); ok && ex.Tuple == ssa.Value(looks[0]) && ex.Index == 1 && neg {
						good = true
					}
				}
			}
		}
		r.Check(good, "R4", fname(fc)+":base-fallback", c.fpos(fc), "second lookup with application 0 on the miss edge of the first", "FindCommand does not fall back to the base application: messages of applications that reuse base commands are dispatched as unknown")
	}
	// ---- R5: the "Error" effect of R1 is an offered report ----
	c.c09ErrorOffers()
}

// c09ErrorOffers: (*ServeMux).Error offers its argument on the mux's report channel on every path (a select with
// a default may drop it when the buffer is full, nothing else may), and every constructor of a ServeMux makes
// that channel with room for at least one report (a send on a nil or unbuffered channel under select/default
// is dropped when nobody is receiving at that instant).
func (c *Ctx) c09ErrorOffers() {
	r := c.R
	ef := c.P.Method("diam", "ServeMux", "Error")
	if ef == nil || len(ef.Params) < 2 {
		r.Undecided("R5", "role:ServeMux.Error", "-", "(*ServeMux).Error not found")
		return
	}
	// the offer: a select state or a send whose value is the report parameter
	var offer ssa.Instruction
	var ch ssa.Value
	offers := map[ssa.Instruction]bool{}
	flow.Instrs(ef, func(in ssa.Instruction) {
		switch x := in.(type) {
		case *ssa.Select:
			for _, st := range x.States {
				if st.Dir == types.SendOnly && flow.Peel(st.Send) == ssa.Value(ef.Params[1]) {
					offer, ch = x, st.Chan
					offers[x] = true
				}
			}
		case *ssa.Send:
			if flow.Peel(x.X) == ssa.Value(ef.Params[1]) {
				offer, ch = x, x.Chan
				offers[x] = true
			}
		}
	})
	if offer == nil {
		// the offer written as a helper or a method of the channel's type: a call that hands the report to a
		// function every path of which sends that parameter; the channel is the argument the helper sends on
		for _, ci := range flow.CallInstrs(ef) {
			h := flow.StaticCallee(ci)
			if h == nil || h.Blocks == nil || !c.P.IsLibrary(h) {
				continue
			}
			for j, a := range ci.Common().Args {
				if flow.Peel(a) != ssa.Value(ef.Params[1]) || j >= len(h.Params) {
					continue
				}
				hoffers := map[ssa.Instruction]bool{}
				var hch ssa.Value
				flow.Instrs(h, func(in ssa.Instruction) {
					switch x := in.(type) {
					case *ssa.Select:
						for _, st := range x.States {
							if st.Dir == types.SendOnly && flow.Peel(st.Send) == ssa.Value(h.Params[j]) {
								hoffers[x], hch = true, st.Chan
							}
						}
					case *ssa.Send:
						if flow.Peel(x.X) == ssa.Value(h.Params[j]) {
							hoffers[x], hch = true, x.Chan
						}
					}
				})
				if len(hoffers) == 0 {
					continue
				}
				hentry := h.Blocks[0].Instrs[0]
				if p := flow.PathAvoiding(h, hentry, flow.IsExit, func(in ssa.Instruction) bool { return hoffers[in] }); p != nil && !hoffers[hentry] {
					continue // the helper does not offer on every path: not an offer
				}
				if hp, isP := flow.Peel(hch).(*ssa.Parameter); isP {
					if k := paramIndex(h, hp); k >= 0 && k < len(ci.Common().Args) {
						offer, ch = ci, ci.Common().Args[k]
						offers[ci] = true
					}
				}
			}
		}
	}
	key := fname(ef) + ":offers-on-every-path"
	if offer == nil {
		r.Fail("R5", key, c.fpos(ef), "Error never sends the report it is given on a channel: unmatched messages are dropped without a report")
		return
	}
	entry := ef.Blocks[0].Instrs[0]
	if p := flow.PathAvoiding(ef, entry, flow.IsExit, func(in ssa.Instruction) bool { return offers[in] }); p != nil && !offers[entry] {
		r.Fail("R5", key, c.pos(p[len(p)-1]), "Error can return without offering the report on the channel: an unmatched message then leaves no trace", c.witness(p)...)
	} else {
		r.Ok("R5", key, c.pos(offer), "every path through Error reaches the send of the report")
	}
	// the channel is a field of the mux, made with capacity >= 1 by every constructor
	tn, fld, _, ok := flow.FieldOf(flow.Peel(ch))
	if !ok || tn != "ServeMux" {
		for _, src := range flow.SpillSources(ch) {
			if t2, f2, _, ok2 := flow.FieldOf(flow.Peel(src)); ok2 && t2 == "ServeMux" {
				tn, fld, ok = t2, f2, true
			}
		}
	}
	key = "ServeMux:report-channel-made-with-room"
	if !ok || tn != "ServeMux" {
		r.Undecided("R5", key, c.pos(offer), "the channel Error sends on is not a field of the mux")
		return
	}
	nCtor, bad := 0, ""
	var at ssa.Instruction
	for _, f := range c.P.LibraryFuncs() {
		if pkgOf(f).Path() != pkgDiam {
			continue
		}
		flow.Instrs(f, func(in ssa.Instruction) {
			al, isAl := in.(*ssa.Alloc)
			if !isAl || !flow.TypeIs(al.Type(), pkgDiam, "ServeMux") {
				return
			}
			if _, isPtrPtr := al.Type().Underlying().(*types.Pointer).Elem().Underlying().(*types.Pointer); isPtrPtr {
				return
			}
			nCtor++
			made := false
			for _, ref := range flow.Referrers(al) {
				fa, isFA := ref.(*ssa.FieldAddr)
				if !isFA {
					continue
				}
				if _, f2, _, ok2 := flow.FieldOf(fa); !ok2 || f2 != fld {
					continue
				}
				for _, r2 := range flow.Referrers(fa) {
					if st, isSt := r2.(*ssa.Store); isSt && st.Addr == ssa.Value(fa) {
						if mk, isMk := flow.Peel(st.Val).(*ssa.MakeChan); isMk {
							if k, isK := flow.ConstInt(mk.Size); isK && k >= 1 {
								made = true
							}
						}
					}
				}
			}
			if !made {
				bad, at = fname(f), al
			}
		})
	}
	switch {
	case nCtor == 0:
		r.Undecided("R5", key, "-", "no function of package diam allocates a ServeMux")
	case bad != "":
		r.Fail("R5", key, c.pos(at), bad+" builds a ServeMux without making its report channel with room for a report: until something else makes the channel, Error's non-blocking send finds no buffer and no receiver and the report of an unmatched message is lost")
	default:
		r.Ok("R5", key, "-", fmt.Sprintf("%d constructor(s) make the report channel with capacity >= 1", nCtor))
	}
}

// reqBitTest classifies a boolean value as the request-bit test of the dispatched message:
// CommandFlags & m == m, inline or through a module helper. Returns (mask, true) when it has that
// shape (mask 128 = exactly the R bit).
func reqBitTest(v ssa.Value, depth int) (int64, bool) {
	switch x := v.(type) {
	case *ssa.BinOp:
		if x.Op != token.EQL {
			return 0, false
		}
		and, ok := x.X.(*ssa.BinOp)
		if !ok || and.Op != token.AND {
			return 0, false
		}
		k1, ok1 := flow.ConstInt(and.Y)
		k2, ok2 := flow.ConstInt(x.Y)
		if _, fld, _, okf := flow.FieldOf(flow.Peel(and.X)); okf && fld == "CommandFlags" && ok1 && ok2 {
			if k1 == k2 {
				return k1, true
			}
			return k1<<8 | k2, true // mask and expected value differ: never exactly the R-bit test
		}
	case *ssa.Call:
		if depth > 2 {
			return 0, false
		}
		g := flow.StaticCallee(x)
		if g == nil || g.Blocks == nil {
			return 0, false
		}
		rvs := flow.ReturnValues(g, 0)
		if len(rvs) != 1 {
			return 0, false
		}
		return reqBitTest(rvs[0], depth+1)
	}
	return 0, false
}

func reqMaskMsg(v int64) string {
	mask, want := v, v
	if v > 0xff {
		mask, want = v>>8, v&0xff
	}
	return fmt.Sprintf("the request/answer side of a message is decided by CommandFlags & %#x == %#x instead of the R bit (0x80) alone: messages with other flag bits set are dispatched to the handler of the wrong side", mask, want)
}

// entryCarriesHandler: v is a handler-map entry whose Handler-typed field holds the parameter hp — a struct
// literal built in place, or the result of a package-local constructor that receives hp.
// peelIdentity peels conversions and calls of checking helpers that hand one of their arguments back unchanged
// on every return (and panic otherwise).
func peelIdentity(v ssa.Value) ssa.Value {
	for d := 0; d < 3; d++ {
		v = flow.Peel(v)
		call, ok := v.(*ssa.Call)
		if !ok {
			break
		}
		g := flow.StaticCallee(call)
		if g == nil || g.Blocks == nil || g.Signature.Results().Len() != 1 {
			break
		}
		rvs := flow.ReturnValues(g, 0)
		idx := -1
		for _, rv := range rvs {
			p, isP := flow.Peel(rv).(*ssa.Parameter)
			if !isP || p.Parent() != g || (idx >= 0 && paramIndex(g, p) != idx) {
				idx = -2
				break
			}
			idx = paramIndex(g, p)
		}
		if idx < 0 || idx >= len(call.Call.Args) {
			break
		}
		v = call.Call.Args[idx]
	}
	return v
}

func entryCarriesHandler(v ssa.Value, hp *ssa.Parameter, depth int) bool {
	// a local entry: initialised as a whole (constructor result) and/or field by field
	if u, ok := v.(*ssa.UnOp); ok && u.Op == token.MUL {
		if a, isA := u.X.(*ssa.Alloc); isA {
			whole, wholeOK, fieldOK, fieldBad := 0, true, false, false
			for _, ref := range flow.Referrers(a) {
				switch x := ref.(type) {
				case *ssa.Store:
					if x.Addr == ssa.Value(a) {
						whole++
						if !entryCarriesHandler(x.Val, hp, depth+1) {
							wholeOK = false
						}
					}
				case *ssa.FieldAddr:
					for _, r2 := range flow.Referrers(x) {
						if st, isSt := r2.(*ssa.Store); isSt && st.Addr == ssa.Value(x) && isHandlerIface(st.Val.Type()) {
							if p, isP := peelIdentity(st.Val).(*ssa.Parameter); isP && p == hp {
								fieldOK = true
							} else {
								fieldBad = true
							}
						}
					}
				}
			}
			if whole > 0 {
				return wholeOK && !fieldBad
			}
			return fieldOK && !fieldBad
		}
	}
	if fs := structLitFields(v); fs != nil {
		for _, fv := range fs {
			if isHandlerIface(fv.Type()) {
				if p, ok := peelIdentity(fv).(*ssa.Parameter); ok && p == hp {
					return true
				}
			}
		}
		return false
	}
	if call, ok := v.(*ssa.Call); ok && depth < 2 {
		g := flow.StaticCallee(call)
		if g == nil || g.Blocks == nil {
			return false
		}
		for i, a := range call.Call.Args {
			if p, isP := flow.Peel(a).(*ssa.Parameter); isP && p == hp && i < len(g.Params) {
				all := true
				rvs := flow.ReturnValues(g, 0)
				for _, rv := range rvs {
					if !entryCarriesHandler(rv, g.Params[i], depth+1) {
						all = false
					}
				}
				if all && len(rvs) > 0 {
					return true
				}
			}
		}
	}
	return false
}
