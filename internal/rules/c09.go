package rules

import (
	"fmt"
	"go/token"
	"go/types"
	"sort"
	"strings"

	"golang.org/x/tools/go/ssa"

	"verif/internal/flow"
)

func init() {
	register(&RuleSet{
		Property:  "C09",
		Title:     "Dispatch selects the handler by index, then by name, then the catch-all",
		Run:       runC09,
		Technique: "decision-structure extraction: abstract interpretation of ServeMux.ServeDIAM (callees inlined) under every consistent outcome of the classified map lookups, compared with a reference decision list; exhaustive over 2^5 outcome assignments",
		Explanation: "Decides on the current source, exhaustively over all 32 assignments of {command known to the dictionary, exact-index hit, name hit, catch-all hit, request bit}: R1 interpreting ServeMux.ServeDIAM with its module callees inlined, the sequence of effects (handler invoked from which lookup, mux.Error) is exactly: exact-index entry's handler; else the name entry's; else the catch-all's; else Error and no handler — and for commands unknown to the dictionary: catch-all, else Error — with exactly one effect per path, the invoked handler being the h field of the looked-up entry and called with the mux's own (conn, message); " +
			"R2 the exact key is (Header.ApplicationID, Header.CommandCode, CommandFlags&0x80==0x80) and the name key is the dictionary short name + \"R\" on the request edge and + \"A\" otherwise; " +
			"R3 Handle/HandleIdx update the maps unconditionally (no existence test) under the exclusive mux lock, storing the given handler, with \"ALL\" mapped to the catch-all index; " +
			"R4 FindCommand retries with application 0 on a miss. " +
			"This is a complete static decision of the precedence clause over all registration subsets; the dictionary's content (which short name a command has) is data and not decided.",
		Rules: map[string]string{
			"R1": "decision table of ServeDIAM = reference list for all 32 lookup-outcome assignments",
			"R2": "key construction: exact index from header fields; name = Short + R/A by the request bit",
			"R3": "registration overwrites unconditionally under the write lock; ALL → catch-all index",
			"R4": "FindCommand base-application fallback",
		},
		MinInstances: map[string]int{"R1": 32, "R2": 2, "R3": 3, "R4": 1},
		Assumptions:  []string{"Go map semantics: a comma-ok lookup hits iff the key was stored; repeated lookups of one key on one path agree (the read lock is held throughout)"},
	})
}

type c09State struct {
	c       *Ctx
	assign  map[string]bool // outcome variables
	effects []string
	notes   []string
	bad     string
	wrong   string // a definite violation found while interpreting
	steps   int
	muxConn ssa.Value
}

type c09Frame struct {
	phis map[*ssa.Phi]ssa.Value // phi -> value selected on the executed path
	fn   *ssa.Function
	args map[*ssa.Parameter]string // class of parameter values
	pass map[*ssa.Parameter]string // "conn"/"msg" identity of parameters
}

// keyClass classifies a map key value.
func (s *c09State) keyClass(v ssa.Value, fr *c09Frame, prev *ssa.BasicBlock) string {
	switch x := v.(type) {
	case *ssa.Parameter:
		if c, ok := fr.args[x]; ok {
			return c
		}
		return "?param"
	case *ssa.UnOp:
		if x.Op == token.MUL {
			if g, ok := x.X.(*ssa.Global); ok {
				if g.Name() == "ALL_CMD_INDEX" {
					return "ALL"
				}
				return "?global:" + g.Name()
			}
			if a, ok := x.X.(*ssa.Alloc); ok {
				if flow.TypeIs(a.Type(), pkgDiam, "CommandIndex") {
					return "EXACT"
				}
			}
		}
	case *ssa.BinOp:
		if x.Op == token.ADD {
			if suf, ok := flow.ConstString(x.Y); ok {
				if tn, fld, _, ok := flow.FieldOf(flow.Peel(x.X)); ok && tn == "Command" && fld == "Short" {
					return "NAME:" + suf
				}
			}
		}
	case *ssa.Phi:
		if e, ok := fr.phis[x]; ok {
			return s.keyClass(e, fr, nil)
		}
		for i, p := range x.Block().Preds {
			if p == prev {
				return s.keyClass(x.Edges[i], fr, nil)
			}
		}
	}
	return "?" + short(v.String(), 30)
}

// condValue resolves a branch condition under the current assignment.
func (s *c09State) condValue(cond ssa.Value, fr *c09Frame, prev *ssa.BasicBlock) (bool, bool) {
	v, neg := flow.Cond(cond, true)
	res, ok := s.condValue1(v, fr, prev)
	if neg {
		res = !res
	}
	return res, ok
}

func (s *c09State) condValue1(v ssa.Value, fr *c09Frame, prev *ssa.BasicBlock) (bool, bool) {
	switch x := v.(type) {
	case *ssa.Extract:
		if lk, ok := x.Tuple.(*ssa.Lookup); ok && lk.CommaOk && x.Index == 1 {
			_, mf, _, _ := flow.FieldOf(lk.X)
			cl := s.keyClass(lk.Index, fr, prev)
			if strings.HasPrefix(cl, "?") {
				s.bad = "a dispatch branch depends on a lookup with an unclassified key (" + cl + ")"
				return false, false
			}
			if strings.HasPrefix(cl, "NAME:") {
				// suffix must agree with the request bit on this path
				want := "A"
				if s.assign["REQ"] {
					want = "R"
				}
				if strings.TrimPrefix(cl, "NAME:") != want {
					s.wrong = fmt.Sprintf("the name key carries suffix %q on the path where the request bit is %v: requests are dispatched to the handler registered for answers (and vice versa)", strings.TrimPrefix(cl, "NAME:"), s.assign["REQ"])
					s.bad = s.wrong
					return false, false
				}
				cl = "NAME"
			}
			if (cl == "NAME") != (mf == "m") {
				s.bad = "key class " + cl + " looked up in map " + mf
				return false, false
			}
			return s.assign["hit"+cl], true
		}
	case *ssa.BinOp:
		// err != nil of FindCommand
		if x.Op == token.NEQ || x.Op == token.EQL {
			var other ssa.Value
			if flow.IsNilConst(x.Y) {
				other = x.X
			} else if flow.IsNilConst(x.X) {
				other = x.Y
			}
			if ex, ok := other.(*ssa.Extract); ok {
				if call, ok := ex.Tuple.(*ssa.Call); ok && flow.IsCallTo(call, pkgDict, "Parser", "FindCommand") && isErrorType(ex.Type()) {
					notfound := !s.assign["FC"]
					if x.Op == token.NEQ {
						return notfound, true
					}
					return !notfound, true
				}
			}
			// request bit: flags & 128 == 128
			if mask, ok := reqBitTest(x, 0); ok {
				if mask != 128 {
					s.wrong = reqMaskMsg(mask)
					s.bad = s.wrong
					return false, false
				}
				return s.assign["REQ"], true
			}
		}
	case *ssa.Call:
		if mask, ok := reqBitTest(x, 0); ok {
			if mask != 128 {
				s.wrong = reqMaskMsg(mask)
				s.bad = s.wrong
				return false, false
			}
			return s.assign["REQ"], true
		}
	}
	// a field of a local struct literal (idx.Request): evaluate what was stored there
	if u, ok := v.(*ssa.UnOp); ok && u.Op == token.MUL {
		if fa, ok := u.X.(*ssa.FieldAddr); ok {
			if al, ok := fa.X.(*ssa.Alloc); ok {
				for _, ref := range flow.Referrers(al) {
					fa2, ok := ref.(*ssa.FieldAddr)
					if !ok || fa2.Field != fa.Field {
						continue
					}
					for _, r2 := range flow.Referrers(fa2) {
						if st, ok := r2.(*ssa.Store); ok {
							return s.condValue1(st.Val, fr, prev)
						}
					}
				}
			}
		}
	}
	s.bad = "a dispatch branch depends on something other than the classified lookups, the dictionary result and the request bit: " + short(v.String(), 50)
	return false, false
}

func (s *c09State) exec(fr *c09Frame) {
	blk := fr.fn.Blocks[0]
	var prev *ssa.BasicBlock
	mem := map[*ssa.Alloc]ssa.Value{} // last value stored to a local on this path
	if fr.phis == nil {
		fr.phis = map[*ssa.Phi]ssa.Value{}
	}
	for s.bad == "" {
		for _, in := range blk.Instrs {
			if ph, ok := in.(*ssa.Phi); ok {
				for i, p := range blk.Preds {
					if p == prev {
						fr.phis[ph] = ph.Edges[i]
					}
				}
				continue
			}
			s.steps++
			if s.steps > 5000 {
				s.bad = "interpretation did not terminate (cycle in the dispatch code)"
				return
			}
			switch x := in.(type) {
			case *ssa.Store:
				if a, ok := x.Addr.(*ssa.Alloc); ok {
					mem[a] = x.Val
				}
			case *ssa.Call:
				com := x.Common()
				if com.IsInvoke() && com.Method.Name() == "ServeDIAM" {
					// handler must be entry.h of a lookup
					cl := "?"
					var entry ssa.Value
					switch hv := com.Value.(type) {
					case *ssa.Field:
						entry = hv.X
					case *ssa.UnOp:
						if fa, ok := hv.X.(*ssa.FieldAddr); ok && hv.Op == token.MUL {
							if _, fld, _, _ := flow.FieldOf(fa); fld == "h" {
								if a, ok := fa.X.(*ssa.Alloc); ok {
									entry = mem[a]
								}
							}
						}
					}
					if ex, ok := entry.(*ssa.Extract); ok && ex.Index == 0 {
						if lk, ok := ex.Tuple.(*ssa.Lookup); ok {
							cl = s.keyClass(lk.Index, fr, prev)
							if strings.HasPrefix(cl, "NAME:") {
								cl = "NAME"
							}
						}
					}
					// arguments must be the mux's own conn and message
					okArgs := len(com.Args) == 2
					if okArgs {
						for i, a := range com.Args {
							p, isP := a.(*ssa.Parameter)
							want := []string{"conn", "msg"}[i]
							if !isP || fr.pass[p] != want {
								okArgs = false
							}
						}
					}
					if !okArgs {
						s.bad = "a handler is invoked with something other than the dispatched (conn, message)"
						return
					}
					s.effects = append(s.effects, "invoke "+cl)
					continue
				}
				if flow.IsCallTo(x, pkgDiam, "ServeMux", "Error") {
					s.effects = append(s.effects, "error")
					continue
				}
				if isHandlerInvocation(x) {
					s.effects = append(s.effects, "invoke ?dynamic")
					continue
				}
				g := flow.StaticCallee(x)
				if g != nil && g.Signature.Recv() != nil && flow.RecvTypeName(g.Signature) == "ServeMux" && g.Blocks != nil && g.Name() != "Error" {
					nf := &c09Frame{fn: g, args: map[*ssa.Parameter]string{}, pass: map[*ssa.Parameter]string{}}
					for i, p := range g.Params {
						if i >= len(com.Args) {
							break
						}
						a := com.Args[i]
						if ap, ok := a.(*ssa.Parameter); ok && fr.pass[ap] != "" {
							nf.pass[p] = fr.pass[ap]
						}
						t := p.Type()
						if flow.TypeIs(t, pkgDiam, "CommandIndex") || types.Identical(t.Underlying(), types.Typ[types.String]) {
							nf.args[p] = s.keyClass(a, fr, prev)
						}
					}
					s.exec(nf)
					if s.bad != "" {
						return
					}
				}
			case *ssa.Go:
				s.bad = "go statement in the dispatch code"
				return
			case *ssa.Return:
				return
			case *ssa.Panic:
				s.effects = append(s.effects, "panic")
				return
			case *ssa.If:
				t, ok := s.condValue(x.Cond, fr, prev)
				if !ok {
					return
				}
				prev = blk
				if t {
					blk = blk.Succs[0]
				} else {
					blk = blk.Succs[1]
				}
			case *ssa.Jump:
				prev = blk
				blk = blk.Succs[0]
			}
		}
	}
}

func runC09(c *Ctx) {
	r := c.R
	sd := c.P.Method("diam", "ServeMux", "ServeDIAM")
	if sd == nil {
		r.Undecided("R1", "role:ServeMux.ServeDIAM", "-", "(*ServeMux).ServeDIAM not found")
		return
	}
	vars := []string{"FC", "hitEXACT", "hitNAME", "hitALL", "REQ"}
	for mask := 0; mask < 32; mask++ {
		as := map[string]bool{}
		var desc []string
		for i, v := range vars {
			as[v] = mask&(1<<uint(i)) != 0
			desc = append(desc, fmt.Sprintf("%s=%v", v, as[v]))
		}
		st := &c09State{c: c, assign: as}
		fr := &c09Frame{fn: sd, args: map[*ssa.Parameter]string{}, pass: map[*ssa.Parameter]string{}}
		if len(sd.Params) == 3 {
			fr.pass[sd.Params[1]] = "conn"
			fr.pass[sd.Params[2]] = "msg"
		}
		st.exec(fr)
		var want string
		switch {
		case !as["FC"] && as["hitALL"]:
			want = "invoke ALL"
		case !as["FC"]:
			want = "error"
		case as["hitEXACT"]:
			want = "invoke EXACT"
		case as["hitNAME"]:
			want = "invoke NAME"
		case as["hitALL"]:
			want = "invoke ALL"
		default:
			want = "error"
		}
		key := "ServeDIAM[" + strings.Join(desc, ",") + "]"
		got := strings.Join(st.effects, "; ")
		switch {
		case st.wrong != "":
			r.Fail("R1", key, c.fpos(sd), st.wrong)
		case st.bad != "":
			r.Undecided("R1", key, c.fpos(sd), "cannot interpret the dispatch code for this configuration: "+st.bad)
		case got == want:
			r.Ok("R1", key, c.fpos(sd), "effect: "+got)
		default:
			r.Fail("R1", key, c.fpos(sd), fmt.Sprintf("for this registration/message configuration the dispatcher does [%s] but the property requires [%s]", got, want))
		}
	}

	// ---- R2: exact key construction ----
	flow.Instrs(sd, func(in ssa.Instruction) {
		a, ok := in.(*ssa.Alloc)
		if !ok || !flow.TypeIs(a.Type(), pkgDiam, "CommandIndex") {
			return
		}
		fields := map[string]ssa.Value{}
		for _, ref := range flow.Referrers(a) {
			if fa, ok := ref.(*ssa.FieldAddr); ok {
				_, fld, _, _ := flow.FieldOf(fa)
				for _, r2 := range flow.Referrers(fa) {
					if st, ok := r2.(*ssa.Store); ok {
						fields[fld] = st.Val
					}
				}
			}
		}
		hdr := func(v ssa.Value, f string) bool {
			tn, fld, _, ok := flow.FieldOf(flow.Peel(v))
			return ok && tn == "Header" && fld == f
		}
		good := hdr(fields["AppID"], "ApplicationID") && hdr(fields["Code"], "CommandCode")
		if mask, ok := reqBitTest(fields["Request"], 0); !ok || mask != 128 {
			good = false
		}
		r.Check(good, "R2", fname(sd)+":exact-key", c.pos(a), "exact key = (Header.ApplicationID, Header.CommandCode, CommandFlags&0x80==0x80)", "the exact-index key is not built from the message's application id, command code and request bit")
	})
	// name key suffixes appear on both edges (checked per path in R1); record
	sufs := map[string]bool{}
	flow.Instrs(sd, func(in ssa.Instruction) {
		if bo, ok := in.(*ssa.BinOp); ok && bo.Op == token.ADD {
			if s, ok := flow.ConstString(bo.Y); ok {
				sufs[s] = true
			}
		}
	})
	var sl []string
	for s := range sufs {
		sl = append(sl, s)
	}
	sort.Strings(sl)
	r.Check(len(sl) == 2 && sl[0] == "A" && sl[1] == "R", "R2", fname(sd)+":name-suffixes", c.fpos(sd), "name key suffixes are exactly R (request edge) and A (answer edge) — agreement with the request bit is checked on every interpreted path", fmt.Sprintf("name key suffixes are %v, expected [A R]", sl))

	// ---- R3 ----
	for _, name := range []string{"Handle", "HandleIdx"} {
		f := c.P.Method("diam", "ServeMux", name)
		if f == nil {
			r.Undecided("R3", "role:ServeMux."+name, "-", "registration method not found")
			continue
		}
		n := 0
		flow.Instrs(f, func(in ssa.Instruction) {
			mu, ok := in.(*ssa.MapUpdate)
			if !ok {
				return
			}
			_, mf, base, ok := flow.FieldOf(mu.Map)
			if !ok || (mf != "m" && mf != "idxMap") {
				return
			}
			n++
			key := fmt.Sprintf("%s:update-%s#%d", fname(f), mf, n)
			bp, _ := flow.Path(base)
			if !mustHeldAt(f, mu, bp+".mu", true) {
				r.Fail("R3", key, c.pos(mu), "the handler map is written without the exclusive mux lock")
				return
			}
			// no existence test
			for _, g := range flow.Guards(mu) {
				cond, _ := flow.Cond(g.If.Cond, g.Taken)
				if ex, ok := cond.(*ssa.Extract); ok {
					if _, isLk := ex.Tuple.(*ssa.Lookup); isLk {
						r.Fail("R3", key, c.pos(mu), "the registration is conditional on the key's presence: registering a key again does not replace the earlier handler")
						return
					}
				}
			}
			// key
			kc := "?"
			switch {
			case mf == "m":
				if p, ok := mu.Key.(*ssa.Parameter); ok && p == f.Params[1] {
					kc = "name param"
				}
			case mf == "idxMap":
				if p, ok := mu.Key.(*ssa.Parameter); ok && p == f.Params[1] {
					kc = "index param"
				} else if gl := loadedGlobal(mu.Key); gl != nil && gl.Name() == "ALL_CMD_INDEX" {
					kc = "ALL"
					// must be on the shortCmd == "ALL" edge
					okAll := false
					for _, g := range flow.Guards(mu) {
						rl, ok := condRel(g.If.Cond, g.Taken)
						if ok && rl.op == token.EQL {
							if s, oks := flow.ConstString(rl.b); oks && s == "ALL" && rl.a == ssa.Value(f.Params[1]) {
								okAll = true
							}
						}
					}
					if !okAll {
						kc = "?ALL not under cmd == \"ALL\""
					}
				}
			}
			if strings.HasPrefix(kc, "?") {
				r.Fail("R3", key, c.pos(mu), "the registration does not use the caller's key ("+kc+")")
				return
			}
			// value carries the handler param
			hv := false
			if fs := structLitFields(mu.Value); fs != nil {
				if p, ok := flow.Peel(fs["h"]).(*ssa.Parameter); ok && p == f.Params[2] {
					hv = true
				}
			}
			if !hv {
				r.Fail("R3", key, c.pos(mu), "the stored entry does not carry the handler being registered")
				return
			}
			r.Ok("R3", key, c.pos(mu), "unconditional update under "+bp+".mu, key = "+kc+", value carries the given handler")
		})
		if n == 0 {
			r.Fail("R3", fname(f)+":update", c.fpos(f), "the registration method does not update a handler map")
		}
	}
	// Handle: name registrations for non-ALL must go to m (so that ALL is not shadowing)
	// ---- R4 ----
	if fc := c.P.Method("diam/dict", "Parser", "FindCommand"); fc != nil {
		var looks []*ssa.Lookup
		flow.Instrs(fc, func(in ssa.Instruction) {
			if lk, ok := in.(*ssa.Lookup); ok && lk.CommaOk {
				looks = append(looks, lk)
			}
		})
		good := false
		if len(looks) >= 2 {
			f1 := structLitFields(looks[0].Index)
			f2 := structLitFields(looks[1].Index)
			if f1 != nil && f2 != nil && flow.Peel(f1["appID"]) == ssa.Value(fc.Params[1]) && isZeroConst(flow.Peel(f2["appID"])) &&
				flow.Peel(f1["code"]) == ssa.Value(fc.Params[2]) && flow.Peel(f2["code"]) == ssa.Value(fc.Params[2]) {
				for _, g := range flow.Guards(looks[1]) {
					cond, neg := flow.Cond(g.If.Cond, g.Taken)
					if ex, ok := cond.(*ssa.Extract); ok && ex.Tuple == ssa.Value(looks[0]) && ex.Index == 1 && neg {
						good = true
					}
				}
			}
		}
		r.Check(good, "R4", fname(fc)+":base-fallback", c.fpos(fc), "second lookup with application 0 on the miss edge of the first", "FindCommand does not fall back to the base application: messages of applications that reuse base commands are dispatched as unknown")
	}
}

// reqBitTest classifies a boolean value as the request-bit test of the dispatched message:
// CommandFlags & m == m, inline or through a module helper. Returns (mask, true) when it has that
// shape (mask 128 = exactly the R bit).
func reqBitTest(v ssa.Value, depth int) (int64, bool) {
	switch x := v.(type) {
	case *ssa.BinOp:
		if x.Op != token.EQL {
			return 0, false
		}
		and, ok := x.X.(*ssa.BinOp)
		if !ok || and.Op != token.AND {
			return 0, false
		}
		k1, ok1 := flow.ConstInt(and.Y)
		k2, ok2 := flow.ConstInt(x.Y)
		if _, fld, _, okf := flow.FieldOf(flow.Peel(and.X)); okf && fld == "CommandFlags" && ok1 && ok2 {
			if k1 == k2 {
				return k1, true
			}
			return k1<<8 | k2, true // mask and expected value differ: never exactly the R-bit test
		}
	case *ssa.Call:
		if depth > 2 {
			return 0, false
		}
		g := flow.StaticCallee(x)
		if g == nil || g.Blocks == nil {
			return 0, false
		}
		rvs := flow.ReturnValues(g, 0)
		if len(rvs) != 1 {
			return 0, false
		}
		return reqBitTest(rvs[0], depth+1)
	}
	return 0, false
}

func reqMaskMsg(v int64) string {
	mask, want := v, v
	if v > 0xff {
		mask, want = v>>8, v&0xff
	}
	return fmt.Sprintf("the request/answer side of a message is decided by CommandFlags & %#x == %#x instead of the R bit (0x80) alone: messages with other flag bits set are dispatched to the handler of the wrong side", mask, want)
}
