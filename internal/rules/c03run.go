package rules

import (
	"fmt"

	"golang.org/x/tools/go/ssa"

	"verif/internal/flow"
)

func init() {
	register(&RuleSet{
		Property:  "C03",
		Title:     "Decoding arbitrary bytes never panics, crashes or over-allocates",
		Run:       runC03,
		Technique: "obligation census (index/slice/assert/alloc/recursion sites on the decode+inspect call graph) discharged by the Go compiler's prove pass as oracle plus dominance/non-negativity/taint rules",
		Explanation: "TBD",
		Rules:       map[string]string{"O1": "bounds"},
		MinInstances: map[string]int{},
	})
}

func runC03(c *Ctx) {
	r := c.R
	scope, _, _ := c.c03Scope()
	sites, err := compilerResidue(c.P)
	if err != nil {
		r.Undecided("O1", "compiler-residue", "-", err.Error())
		return
	}
	for _, s := range sites {
		f := c.funcAt(s.File, s.Line, s.Col)
		in := "out"
		if f != nil && scope[f] {
			in = "IN"
		}
		desc := ""
		if f != nil {
			flow.Instrs(f, func(x ssa.Instruction) {
				ps := c.P.Fset.Position(x.Pos())
				if ps.Line == s.Line && ps.Column == s.Col {
					desc += " | " + flow.Describe(x)
				}
			})
		}
		r.Note("%s %s:%d:%d %s %s%s", in, s.File, s.Line, s.Col, s.Kind, fname(f), desc)
	}
	r.Ok("O1", "probe", "-", fmt.Sprint(len(scope)))
}
