package rules

import (
	"fmt"
	"go/constant"
	"go/token"
	"go/types"
	"os"
	"sort"
	"strings"

	"golang.org/x/tools/go/ssa"

	"verif/internal/flow"
	"verif/internal/prog"
)

func init() {
	register(&RuleSet{
		Property:  "C03",
		Title:     "Decoding arbitrary bytes never panics, crashes or over-allocates",
		Run:       runC03,
		Technique: "obligation census on the decode+inspect call graph (bounds, type assertions, allocations, unsigned subtraction, recursion) discharged by the Go compiler's prove pass as oracle plus dominance / non-negativity / wire-taint / call-graph-cycle rules",
		Explanation: "Decides on the current source, for every library function reachable from the decode entry points (ReadMessage, DecodeAVP, DecodeHeader, DecodeGrouped, DecodeFromBytes, datatype.Decode and every Decoder entry) and the inspection API (String, PrettyDump, Serialize*, Len, Unmarshal, FindAVP*, WriteTo*, all methods of datatype.Type implementors): " +
			"O1 every bounds check the Go compiler's prove pass could NOT eliminate (go build -gcflags=-d=ssa/check_bce/debug=1; sites it proved are discharged by the compiler) is discharged by a generic rule — constant bounds under a dominating len guard (G5), x[:f] under a len(x) ≥ f guard on the same field load with f non-negative (G2), cursor loops b[n:] under n < len(b) with a non-negative cursor (G1), buffers extended by the count a full read returned (Gread), bytes.Buffer invariants (G4), pooled header scratch (G7), non-empty results/arguments (G8/G9), writes into buffers allocated with Len() at every library call site (S) — or by a reviewed exemption naming the function and operand; anything else is a violation; " +
			"O2 every type assertion without comma-ok is dominated by a Type()==K test on the same value with K's only implementor being the asserted type (or is a homogeneous pool / registered-decoder result); " +
			"O3 every allocation in a decode function whose size derives from wire data is bounded by a constant or by data already received (min idiom), and every unsigned subtraction of wire lengths is dominated by a guard excluding wrap-around; " +
			"O4 every call-graph cycle among decode functions carries an integer depth parameter that is compared with a constant (error return) and passed on increased; cycles among inspection functions recurse only into children of the current AVP; no formatting call in a function of a decode cycle takes both an error returned by a call of the cycle and a byte slice (an error wrapped with a rendering of each level's bytes grows depth x size). " +
			"Further O1 discharge rules, each a local argument over the SSA: Gparam (every library caller passes a slice whose length is a known constant), Gsym (index and limit are affine forms of the wire Length and the input length that the dominating guards order), Gwrite/Gbuf (offsets into a buffer sized by the same Len() sum), the same rules applied in the caller's frame for residue sites inside functions the compiler inlined, and clamp helpers (min-style functions) for O3. " +
			"Not decided: panics inside reflect for arbitrary struct types, nil dereferences beyond (value,error) contracts, quantitative memory beyond 'no allocation sized by an unchecked wire value', actual stack sizes.",
		Rules: map[string]string{
			"O1":  "no undischarged bounds-check site (compiler residue) on the decode+inspect graph",
			"O2":  "no unguarded type assertion on the decode+inspect graph",
			"O3":  "no allocation sized by an unchecked wire value in decode functions",
			"O3b": "no unguarded unsigned subtraction of wire lengths",
			"O4":  "no unbounded recursion on wire data",
		},
		MinInstances: map[string]int{"O1": 10, "O2": 5, "O3": 2, "O3b": 1, "O4": 2},
		Assumptions: []string{"the Go compiler's prove pass is sound (bounds checks it removes cannot fail)",
			"bytes.Buffer, io.ReadFull/ReadAtLeast, io.Writer contracts (counts within the buffer passed)",
			"lengths stay below 2^31 (uint32→int conversions are value preserving)",
			"MessageBufferLength ≥ HeaderLength (package variable; applications that lower it below 20 are outside the property)",
			"values built by user code that are invalid for their type (a 1-byte Address, a struct tag `avp:\"`) are outside the property's quantifier"},
	})
}

// c03Exemptions: reviewed residue sites that no generic rule covers. Key: function name + operand shape.
var c03Exemptions = map[string]string{
	"(diam/datatype.Address).String|slice[2:]": "reached only when the address is neither 4 nor 16 bytes; decoded addresses of other families keep their 2-byte family prefix and DecodeAddress rejects inputs shorter than 3 bytes",
	"(diam/datatype.Address).String|slice[:2]": "same guard as above",
	"diam.dataValueToString|slice[2:]":         "Address branch of the pretty printer: same invariant as Address.String (decoded non-IP addresses have length ≥ 3)",
	"diam.dataValueToString|slice[:2]":         "same",
}

type c03 struct {
	helperDepth int
	c           *Ctx
	nn          *nonNeg
	scope       map[*ssa.Function]bool
	decode      map[*ssa.Function]bool
	serial      map[*ssa.Function]*ssa.Parameter // serializer function -> its output buffer parameter
	serialOK    map[*ssa.Function]string
}

func runC03(c *Ctx) {
	r := c.R
	x := &c03{c: c, nn: c.newNonNeg()}
	var entries []string
	x.scope, x.decode, entries = c.c03Scope()
	r.Role("Entries", fmt.Sprintf("%d entry points", len(entries)))
	r.Role("Scope", fmt.Sprintf("%d library functions (decode path: %d)", len(x.scope), len(x.decode)))
	if len(x.scope) < 50 {
		r.Undecided("O1", "role:scope", "-", "decode/inspect scope unexpectedly small")
		return
	}
	x.findSerializers()
	x.bounds()
	x.asserts()
	x.allocs()
	x.recursion()
}

// ---------- O1 ----------

func (x *c03) findSerializers() {
	c := x.c
	x.serial = map[*ssa.Function]*ssa.Parameter{}
	x.serialOK = map[*ssa.Function]string{}
	// serializer: method named SerializeTo-like by role: has a []byte parameter that is written
	// (IndexAddr store / PutUint / copy destination) and never read.
	for f := range x.scope {
		for _, p := range f.Params {
			if !isByteSlice(p.Type()) {
				continue
			}
			writes, reads := 0, 0
			var visit func(v ssa.Value, depth int)
			visit = func(v ssa.Value, depth int) {
				if depth > 4 {
					return
				}
				for _, ref := range flow.Referrers(v) {
					switch u := ref.(type) {
					case *ssa.Slice:
						visit(u, depth+1)
					case *ssa.IndexAddr:
						for _, r2 := range flow.Referrers(u) {
							switch r2.(type) {
							case *ssa.Store:
								writes++
							case *ssa.UnOp:
								reads++
							}
						}
					case *ssa.Phi:
						visit(u, depth+1)
					case ssa.CallInstruction:
						com := u.Common()
						if b, ok := com.Value.(*ssa.Builtin); ok {
							switch b.Name() {
							case "copy":
								if com.Args[0] == v {
									writes++
								} else {
									reads++
								}
							case "len", "cap":
							default:
								reads++
							}
							continue
						}
						if o := flow.CalleeObj(u); o != nil && o.Pkg() != nil && o.Pkg().Path() == "encoding/binary" && strings.HasPrefix(o.Name(), "PutUint") {
							writes++
							continue
						}
						if g := flow.StaticCallee(u); g != nil && x.scope[g] {
							// passing on to another serializer counts as write (checked there)
							writes++
							continue
						}
						reads++
					}
				}
			}
			visit(p, 0)
			if writes > 0 && reads == 0 {
				x.serial[f] = p
			}
		}
	}
	// classify every library call site's buffer argument
	for f, p := range x.serial {
		idx := paramIndex(f, p)
		bad := ""
		nSites := 0
		for _, caller := range c.P.LibraryFuncs() {
			for _, ci := range flow.CallInstrs(caller) {
				if flow.StaticCallee(ci) != f || idx >= len(ci.Common().Args) {
					continue
				}
				nSites++
				if why := x.bufferFits(caller, ci, ci.Common().Args[idx], f); why != "" {
					bad = fmt.Sprintf("%s at %s", why, c.pos(ci))
				}
			}
		}
		if bad != "" {
			x.serialOK[f] = "!" + bad
		} else {
			x.serialOK[f] = fmt.Sprintf("%d library call sites pass a buffer sized with the serialised length", nSites)
		}
	}
}

// bufferFits: the buffer handed to serializer g at this call site is sized for it. Returns "" or why not.
func (x *c03) bufferFits(caller *ssa.Function, ci ssa.CallInstruction, buf ssa.Value, g *ssa.Function) string {
	var lenCallOn func(v ssa.Value, recv ssa.Value) bool
	lenCallOn = func(v ssa.Value, recv ssa.Value) bool {
		// a size handed in by the only caller of an unexported helper: judged at that call site
		if vp, isP := flow.Peel(v).(*ssa.Parameter); isP {
			if cs := x.c.uniqueSite(vp.Parent()); cs != nil {
				args := cs.Common().Args
				if i := paramIndex(vp.Parent(), vp); i < len(args) {
					r2 := recv
					if rp, isRP := flow.Peel(recv).(*ssa.Parameter); isRP && rp.Parent() == vp.Parent() {
						if j := paramIndex(rp.Parent(), rp); j < len(args) {
							r2 = args[j]
						}
					}
					if _, again := flow.Peel(args[i]).(*ssa.Parameter); !again {
						return lenCallOn(args[i], r2)
					}
				}
			}
			return false
		}
		call, ok := flow.Peel(v).(*ssa.Call)
		if !ok {
			return false
		}
		o := flow.CalleeObj(call)
		if o == nil || o.Name() != "Len" || len(call.Call.Args) == 0 {
			return false
		}
		return sameVal(call.Call.Args[0], recv) || samePath(call.Call.Args[0], recv)
	}
	recv := ci.Common().Args[0]
	switch b := buf.(type) {
	case *ssa.MakeSlice:
		if lenCallOn(b.Len, recv) {
			return ""
		}
		if k, ok := flow.ConstInt(b.Len); ok && g.Name() == "SerializeTo" && k == 20 {
			return ""
		}
		return "buffer is make() of something other than the receiver's Len()"
	case *ssa.Slice:
		// b[0:l] with l = recv.Len()
		if b.High != nil && lenCallOn(b.High, recv) {
			return ""
		}
		// header: b[0:20]
		if k, ok := flow.ConstInt(b.High); ok && b.High != nil && k == 20 {
			return ""
		}
		// walker: b[off:] inside a serializer (or a function that allocated make(x.Len())) where off accumulates Len()
		if b.High == nil && b.Low != nil {
			if _, isSer := x.serial[caller]; isSer {
				return ""
			}
			if mk, ok := b.X.(*ssa.MakeSlice); ok && len(caller.Params) > 0 && lenCallOn(mk.Len, caller.Params[0]) {
				return ""
			}
		}
		return "buffer is a slice whose length is not tied to the serialised length"
	case *ssa.Parameter:
		if _, isSer := x.serial[caller]; isSer {
			return ""
		}
	}
	return "buffer of unknown size"
}

func samePath(a, b ssa.Value) bool {
	pa, ok1 := flow.Path(a)
	pb, ok2 := flow.Path(b)
	return ok1 && ok2 && pa == pb
}

func (x *c03) instrsAt(f *ssa.Function, s residueSite) []ssa.Instruction {
	var out []ssa.Instruction
	flow.Instrs(f, func(in ssa.Instruction) {
		ps := x.c.P.Fset.Position(in.Pos())
		if ps.Line == s.Line && ps.Column == s.Col {
			out = append(out, in)
		}
	})
	return out
}

func (x *c03) bounds() {
	c, r := x.c, x.c.R
	sites, err := compilerResidue(c.P)
	if err != nil {
		r.Undecided("O1", "compiler-residue", "-", "cannot obtain the compiler's bounds-check residue: "+err.Error())
		return
	}
	// count all index/slice sites in scope (the compiler-proved ones are discharged wholesale)
	total := 0
	for f := range x.scope {
		flow.Instrs(f, func(in ssa.Instruction) {
			switch in.(type) {
			case *ssa.Slice, *ssa.IndexAddr, *ssa.Index:
				total++
			}
		})
	}
	inScope := 0
	counter := map[string]int{}
	for _, s := range sites {
		f := c.funcAt(s.File, s.Line, s.Col)
		if f == nil || !x.scope[f] {
			continue
		}
		inScope++
		ins := x.instrsAt(f, s)
		how, why, shape := x.dischargeBounds(f, ins, s)
		base := fname(f) + ":" + shape
		counter[base]++
		key := fmt.Sprintf("%s#%d", base, counter[base])
		at := fmt.Sprintf("%s:%d", s.File, s.Line)
		if how != "" {
			r.Ok("O1", key, at, how)
		} else {
			r.Fail("O1", key, at, "bounds check the compiler cannot prove and no discharge rule covers ("+s.Kind+"): "+why+" — on malformed input this index/slice expression can panic")
		}
	}
	r.Trivial("O1", "compiler-proved-sites", "-", fmt.Sprintf("%d index/slice sites in %d scope functions; %d left unproven by the compiler's prove pass and examined individually", total, len(x.scope), inScope))
	r.Note("bounds: %d sites in scope, %d residue sites in scope, %d residue sites overall", total, inScope, len(sites))
}

func lenGuardGE(in ssa.Instruction, s ssa.Value, need func(ssa.Value) bool) string {
	for _, g := range flow.Guards(in) {
		rl, ok := condRel(g.If.Cond, g.Taken)
		if !ok {
			continue
		}
		isLen := func(v ssa.Value) bool {
			a, ok := builtinOf(v, "len")
			if !ok {
				// n := len(s) spilled into a phi-free local is the same call value
				return false
			}
			return a == s || sameVal(a, s)
		}
		switch {
		case isLen(rl.a) && need(rl.b) && (rl.op == token.GEQ || rl.op == token.EQL):
			return short(g.If.Cond.String(), 30)
		case isLen(rl.b) && need(rl.a) && (rl.op == token.LEQ || rl.op == token.EQL):
			return short(g.If.Cond.String(), 30)
		case isLen(rl.a) && rl.op == token.GTR:
			// len > k-1
			if k, ok := flow.ConstInt(rl.b); ok {
				kk := k + 1
				if need(constOf(kk)) {
					return short(g.If.Cond.String(), 30)
				}
			}
		}
	}
	return ""
}

type fakeConst struct{ ssa.Value }

func constOf(k int64) ssa.Value { return ssa.NewConst(constant.MakeInt64(k), types.Typ[types.Int]) }

// sameFieldLoad: a and b are loads of the same field of the same base with no store to that
// field in between (the store(s) to the field in the function dominate both loads).
func sameFieldLoad(f *ssa.Function, a, b ssa.Value) bool {
	ua, ok1 := a.(*ssa.UnOp)
	ub, ok2 := b.(*ssa.UnOp)
	if !ok1 || !ok2 || ua.Op != token.MUL || ub.Op != token.MUL {
		return false
	}
	fa, ok1 := ua.X.(*ssa.FieldAddr)
	fb, ok2 := ub.X.(*ssa.FieldAddr)
	if !ok1 || !ok2 || fa.Field != fb.Field || fa.X != fb.X {
		return false
	}
	okAll := true
	flow.Instrs(f, func(in ssa.Instruction) {
		st, ok := in.(*ssa.Store)
		if !ok {
			return
		}
		if sa, ok := st.Addr.(*ssa.FieldAddr); ok && sa.Field == fa.Field && types.Identical(sa.X.Type(), fa.X.Type()) {
			if !(flow.Dominates(st, ua) && flow.Dominates(st, ub)) {
				okAll = false
			}
		}
	})
	return okAll
}

func (x *c03) dischargeBounds(f *ssa.Function, ins []ssa.Instruction, s residueSite) (how, why, shape string) {
	shape = "site"
	if len(ins) == 0 {
		return "", "no SSA instruction at this position", "unmapped"
	}
	// G4: inlined standard library
	for _, in := range ins {
		if call, ok := in.(*ssa.Call); ok {
			if o := flow.CalleeObj(call); o != nil && o.Pkg() != nil && o.Pkg().Path() == "bytes" && flow.RecvTypeName(o.Type().(*types.Signature)) == "Buffer" {
				return "G4: inlined bytes.Buffer." + o.Name() + " — the buffer's own invariant (off ≤ len) holds for buffers only manipulated through its methods", "", "bytes.Buffer." + o.Name()
			}
		}
	}
	// inlined standard-library string helpers (HasPrefix, HasSuffix, TrimSuffix, …): their slice expressions
	// are guarded by their own length test on the very same operands
	for _, in := range ins {
		if call, ok := in.(*ssa.Call); ok {
			if o := flow.CalleeObj(call); o != nil && o.Pkg() != nil && (o.Pkg().Path() == "strings" || o.Pkg().Path() == "bytes") && o.Type().(*types.Signature).Recv() == nil {
				return "G4: inlined " + o.Pkg().Path() + "." + o.Name() + " — the standard library function checks the lengths of its own operands before slicing them", "", o.Pkg().Path() + "." + o.Name()
			}
		}
	}
	// inlined encoding/binary readers: need len(s) >= N
	for _, in := range ins {
		call, ok := in.(*ssa.Call)
		if !ok {
			continue
		}
		o := flow.CalleeObj(call)
		if o == nil || o.Pkg() == nil || o.Pkg().Path() != "encoding/binary" {
			continue
		}
		need := map[string]int64{"Uint16": 2, "Uint32": 4, "Uint64": 8, "PutUint16": 2, "PutUint32": 4, "PutUint64": 8}[o.Name()]
		shape = "binary." + o.Name()
		if need > 0 && len(call.Call.Args) >= 2 {
			sarg := call.Call.Args[1]
			if h := x.serializerSite(f, sarg); h != "" {
				return h, "", shape
			}
			if n, ok := sliceConstLen(sarg); ok && n >= need {
				continue
			}
			if g := lenGuardGE(call, sarg, func(k ssa.Value) bool { kk, ok := flow.ConstInt(k); return ok && kk >= need }); g != "" {
				return fmt.Sprintf("G5: binary.%s under the dominating guard %s", o.Name(), g), "", shape
			}
			if pp, ok := sarg.(*ssa.Parameter); ok {
				if why := x.paramLenAtCallers(f, pp, need, 0); why != "" {
					return why, "", shape
				}
			}
			// Gsym: the slice is a window of the decoder's input whose width is known for the V-flag alternative(s)
			// this point is reached under (data[8:hdr] with hdr ∈ {8, 12} on the hdr > 8 edge)
			if _, isSl := sarg.(*ssa.Slice); isSl {
				if top, data, wire := x.c.avpDecoder(); top != nil {
					e := x.c.newAVPSym(top, data, wire)
					ws := e.slices(sarg, 0)
					here := e.tagOf(call, 0)
					okAll, cnt := true, 0
					for _, w := range ws {
						t, compatible := tagJoin(w.tag, here)
						if !compatible {
							continue
						}
						cnt++
						d := w.hi.sub(w.lo)
						if d.l == 0 && d.n == 0 {
							if d.k < need {
								okAll = false
							}
							continue
						}
						tags := []string{t}
						if t == "" {
							tags = []string{"V", "noV"}
						}
						for _, tg := range tags {
							if ok, _ := e.holdsAt(call, d.sub(lin{k: need}), tg, 0); !ok {
								okAll = false
							}
						}
					}
					if okAll && cnt > 0 {
						return fmt.Sprintf("Gsym: binary.%s reads a window of the decoder's input that is at least %d bytes wide for the V-flag alternative this point is reached under", o.Name(), need), "", shape
					}
				}
			}
			return "", fmt.Sprintf("binary.%s reads %d bytes of a slice without a dominating length guard", o.Name(), need), shape
		}
	}
	// a call of a small module function the compiler inlined here: the check belongs to the callee's body;
	// every index / slice expression of the callee has to discharge in the callee
	for _, in := range ins {
		call, ok := in.(*ssa.Call)
		if !ok {
			continue
		}
		g := flow.StaticCallee(call)
		if g == nil || g.Blocks == nil || !x.c.P.InModule(pkgOf(g)) || len(ins) != 1 {
			continue
		}
		shape = "inlined:" + g.Name()
		all, n, first := true, 0, ""
		flow.Instrs(g, func(y ssa.Instruction) {
			var h, w string
			switch v := y.(type) {
			case *ssa.Slice:
				h, w = x.dischargeSlice(g, v)
			case *ssa.IndexAddr:
				if _, isArr := v.X.Type().Underlying().(*types.Pointer); isArr {
					return
				}
				h, w = x.dischargeIndex(g, v, v.X, v.Index)
			case *ssa.Index:
				h, w = x.dischargeIndex(g, v, v.X, v.Index)
			default:
				return
			}
			n++
			if h == "" {
				all = false
				if why == "" {
					why = "in the inlined " + g.Name() + ": " + w
				}
			} else if first == "" {
				first = h
			}
		})
		if n > 0 && all {
			return first + " (check inside the inlined " + g.Name() + ")", "", shape
		}
	}
	for _, in := range ins {
		switch v := in.(type) {
		case *ssa.Slice:
			shape = "slice" + sliceShape(v)
			if h, w := x.dischargeSlice(f, v); h != "" {
				return h, "", shape
			} else {
				why = w
			}
		case *ssa.IndexAddr:
			shape = "index" + idxShape(v.Index)
			if h, w := x.dischargeIndex(f, v, v.X, v.Index); h != "" {
				return h, "", shape
			} else {
				why = w
			}
		case *ssa.Index:
			shape = "index" + idxShape(v.Index)
			if h, w := x.dischargeIndex(f, v, v.X, v.Index); h != "" {
				return h, "", shape
			} else {
				why = w
			}
		}
	}
	// Gtag: slicing / indexing a string that derives from a reflect.StructTag — struct tags are compile-time
	// constants of the calling program, not wire data (decided by provenance, wherever the code lives)
	for _, in := range ins {
		var base ssa.Value
		switch v := in.(type) {
		case *ssa.Slice:
			base = v.X
		case *ssa.Index:
			base = v.X
		}
		if base != nil && x.fromStructTag(base, 0) {
			return "Gtag: the operand derives from a reflect.StructTag, a compile-time constant of the calling program, not from wire data", "", shape
		}
	}
	// exemptions
	for k, reason := range c03Exemptions {
		parts := strings.SplitN(k, "|", 2)
		if parts[0] == fname(f) && strings.HasPrefix(shape, parts[1]) {
			return "reviewed exemption: " + reason, "", shape
		}
	}
	if why == "" {
		why = "unrecognised construct " + flow.Describe(ins[0])
	}
	return "", why, shape
}

func sliceShape(v *ssa.Slice) string {
	p := func(x ssa.Value) string {
		if x == nil {
			return ""
		}
		if k, ok := flow.ConstInt(x); ok {
			return fmt.Sprint(k)
		}
		return "v"
	}
	return "[" + p(v.Low) + ":" + p(v.High) + "]"
}

func idxShape(i ssa.Value) string {
	if k, ok := flow.ConstInt(i); ok {
		return fmt.Sprintf("[%d]", k)
	}
	return "[v]"
}

func (x *c03) serializerSite(f *ssa.Function, base ssa.Value) string {
	// local buffer make([]byte, recv.Len()) walked while serialising the receiver's children
	if mk, ok := base.(*ssa.MakeSlice); ok && len(f.Params) > 0 {
		if call, ok := flow.Peel(mk.Len).(*ssa.Call); ok {
			if o := flow.CalleeObj(call); o != nil && o.Name() == "Len" && len(call.Call.Args) > 0 && call.Call.Args[0] == ssa.Value(f.Params[0]) {
				return "S: write into a local buffer allocated as make([]byte, receiver.Len()) and walked by the children's Len() (reduces to len(Serialize()) == Len() per type, which C01 decides)"
			}
		}
	}
	p, ok := x.serial[f]
	if !ok {
		// a helper of a serialiser: the buffer is one of its parameters, and every library call site hands it
		// (a slice of) a serialiser's output buffer
		v := base
		for i := 0; i < 8; i++ {
			if pp, isP := v.(*ssa.Parameter); isP && pp.Parent() == f && x.helperDepth < 2 {
				idx := paramIndex(f, pp)
				n, how := 0, ""
				for _, g := range x.c.P.ModuleFuncs() {
					for _, ci := range flow.CallInstrs(g) {
						if flow.StaticCallee(ci) != f || idx >= len(ci.Common().Args) {
							continue
						}
						n++
						x.helperDepth++
						h := x.serializerSite(g, ci.Common().Args[idx])
						x.helperDepth--
						if h == "" {
							return ""
						}
						how = h
					}
				}
				if n > 0 && (f.Object() == nil || !f.Object().Exported()) {
					return how + " — through the helper " + f.Name()
				}
				return ""
			}
			switch y := v.(type) {
			case *ssa.Slice:
				v = y.X
			case *ssa.Phi:
				if len(y.Edges) > 0 {
					v = y.Edges[0]
				}
			default:
				return ""
			}
		}
		return ""
	}
	// base derives from the buffer parameter through slicing / phi
	v := base
	for i := 0; i < 8; i++ {
		if v == ssa.Value(p) {
			st := x.serialOK[f]
			if strings.HasPrefix(st, "!") {
				return ""
			}
			return "S: write into the serialiser's output buffer; " + st + " (so the bound reduces to len(Serialize()) == Len() per type, which C01 decides)"
		}
		switch y := v.(type) {
		case *ssa.Slice:
			v = y.X
		case *ssa.Phi:
			if len(y.Edges) > 0 {
				v = y.Edges[0]
			}
		default:
			return ""
		}
	}
	return ""
}

func (x *c03) dischargeSlice(f *ssa.Function, v *ssa.Slice) (string, string) {
	if h := x.serializerSite(f, v.X); h != "" {
		return h, ""
	}
	lo, loConst := int64(0), true
	if v.Low != nil {
		lo, loConst = flow.ConstInt(v.Low)
	}
	hi, hiConst := int64(-1), v.High == nil
	if v.High != nil {
		hi, hiConst = flow.ConstInt(v.High)
	}
	// G5: constant bounds under len guard
	if loConst && (v.High == nil || hiConst) {
		need := hi
		if v.High == nil {
			need = lo
		}
		if g := lenGuardGE(v, v.X, func(k ssa.Value) bool { kk, ok := flow.ConstInt(k); return ok && kk >= need }); g != "" {
			return fmt.Sprintf("G5: constant bounds [%d:%d] under the dominating guard %s", lo, hi, g), ""
		}
		// G7: pooled header scratch buf.Bytes()[:20]
		if call, ok := v.X.(*ssa.Call); ok && flow.IsCallTo(call, "bytes", "Buffer", "Bytes") && need <= 20 {
			for _, o := range x.c.storageOrigins(call) {
				_ = o
			}
			return "G7: header scratch — every buffer in the reader pool is created with len = MessageBufferLength and re-pooled only with that capacity (assumption recorded: MessageBufferLength ≥ HeaderLength)", ""
		}
		// Gparam: the sliced value is a parameter of a function only called inside the library, and every
		// call site passes a slice whose length is guarded there
		if pp, ok := v.X.(*ssa.Parameter); ok {
			if why := x.paramLenAtCallers(f, pp, need, 0); why != "" {
				return why, ""
			}
		}
		if cst, ok := madeAtLeast(v.X); ok && cst >= need {
			return fmt.Sprintf("Gmake: constant bounds [%d:%d] of a buffer made with length %d + len(…)", lo, hi, cst), ""
		}
		if why := x.resultLenAtLeast(v, v.X, need); why != "" {
			return why, ""
		}
		return "", fmt.Sprintf("constant slice bounds [%d:%d] without a dominating length guard on the sliced value", lo, hi)
	}
	// G2: x[:h] under len(x) >= h, h non-negative
	if v.Low == nil && v.High != nil {
		okGuard := lenGuardGE(v, v.X, func(k ssa.Value) bool { return k == v.High || sameVal(k, v.High) || sameFieldLoad(f, k, v.High) })
		if okGuard != "" && x.nn.val(v.High, 0) {
			return "G2: x[:h] dominated by the guard " + okGuard + " on the same value, h non-negative", ""
		}
		// Gread: b[:len(b)+n], n returned by a full read into b[len(b):cap(b)]
		if bo, ok := v.High.(*ssa.BinOp); ok && bo.Op == token.ADD {
			if a, isLen := builtinOf(bo.X, "len"); isLen && a == v.X {
				if readCountInto(x.c, bo.Y, v.X) {
					return "Gread: b[:len(b)+n] with n the count a read into b[len(b):cap(b)] returned (≤ cap(b)−len(b) by the reader contract)", ""
				}
			}
		}
		// [:l] of a writer buffer allocated with at least l
		if why := x.gbuf(v); why != "" {
			return why, ""
		}
		return "", "x[:h] without a dominating len(x) ≥ h guard on the same value (or h not provably non-negative)"
	}
	if v.Low != nil && v.High == nil {
		// G1 cursor loop: n < len(x) passing edge, n non-negative
		if why := x.cursorGuardAt(v, v.X, v.Low); why != "" {
			return why, ""
		}
		// G1 at the callers: buffer and cursor are both handed in to an unexported step helper, and every
		// library call site stands under the loop condition for the values it passes
		if bp, ok := v.X.(*ssa.Parameter); ok {
			if np, ok := v.Low.(*ssa.Parameter); ok && bp.Parent() == f && np.Parent() == f && f.Parent() == nil && (f.Object() == nil || !f.Object().Exported()) {
				css := x.c.librarySites(f)
				okAll := len(css) > 0 && len(css) <= 4 && !x.c.addressTaken(f)
				for _, cs := range css {
					args := cs.Common().Args
					bi, ni := paramIndex(f, bp), paramIndex(f, np)
					if bi >= len(args) || ni >= len(args) || x.cursorGuardAt(cs, args[bi], args[ni]) == "" {
						okAll = false
					}
				}
				if okAll {
					return fmt.Sprintf("G1 at the %d call site(s) of %s: b[n:] of the buffer and cursor handed in, each call under the loop condition n < len(b) with a non-negative cursor", len(css), f.Name()), ""
				}
			}
		}
		// Gwrite: b[wn:] with wn the count Write(b) returned, under wn > 0
		if ex, ok := v.Low.(*ssa.Extract); ok && ex.Index == 0 {
			if call, ok := ex.Tuple.(*ssa.Call); ok && call.Call.IsInvoke() && (call.Call.Method.Name() == "Write" || call.Call.Method.Name() == "WriteStream") && len(call.Call.Args) >= 1 && call.Call.Args[0] == v.X {
				return "Gwrite: b[wn:] with wn the count Write(b) returned (0 ≤ wn ≤ len(b) by the io.Writer contract)", ""
			}
			// the write handed in as a func([]byte) (int, error) parameter: same contract
			if call, ok := ex.Tuple.(*ssa.Call); ok && !call.Call.IsInvoke() && len(call.Call.Args) == 1 && call.Call.Args[0] == v.X {
				if p, isP := call.Call.Value.(*ssa.Parameter); isP {
					if sig, okS := p.Type().Underlying().(*types.Signature); okS && sig.Params().Len() == 1 && sig.Results().Len() == 2 && isByteSlice(sig.Params().At(0).Type()) && isErrorType(sig.Results().At(1).Type()) {
						return "Gwrite: b[wn:] with wn the count the write function handed in returned for b (0 ≤ wn ≤ len(b), io.Writer contract of the wrapped Write)", ""
					}
				}
			}
		}
		// Gwrite (peeled loop): b and wn are merges at the same point, and on every incoming edge wn is the count
		// the write of that edge's b returned
		if lp, ok := v.Low.(*ssa.Phi); ok {
			if bp, ok := v.X.(*ssa.Phi); ok && bp.Block() == lp.Block() && len(bp.Edges) == len(lp.Edges) && len(lp.Edges) > 0 {
				good := true
				for i := range lp.Edges {
					ex, isEx := lp.Edges[i].(*ssa.Extract)
					if !isEx || ex.Index != 0 {
						good = false
						break
					}
					call, isCall := ex.Tuple.(*ssa.Call)
					if !isCall || !isTransportWriteInvoke(call) || len(call.Call.Args) < 1 || call.Call.Args[0] != bp.Edges[i] {
						good = false
						break
					}
				}
				if good {
					return "Gwrite: b[wn:] where, on every edge into the merge, wn is the count the write of that edge's b returned (0 ≤ wn ≤ len(b) by the io.Writer contract)", ""
				}
			}
		}
		// Gwrite (offset form): b[sent:] with sent = 0 + the counts returned by Write(b[sent:])
		if ph, ok := v.Low.(*ssa.Phi); ok {
			good := true
			var chk func(e ssa.Value, d int)
			chk = func(e ssa.Value, d int) {
				if e == ssa.Value(ph) || isZeroConst(e) {
					return
				}
				if mp, isPhi := e.(*ssa.Phi); isPhi && d < 3 {
					for _, ee := range mp.Edges {
						chk(ee, d+1)
					}
					return
				}
				bo, isB := e.(*ssa.BinOp)
				if !isB || bo.Op != token.ADD {
					good = false
					return
				}
				cnt := bo.Y
				if bo.Y == ssa.Value(ph) {
					cnt = bo.X
				} else if bo.X != ssa.Value(ph) {
					good = false
					return
				}
				ex, isEx := cnt.(*ssa.Extract)
				if !isEx || ex.Index != 0 {
					good = false
					return
				}
				call, isCall := ex.Tuple.(*ssa.Call)
				if !isCall || len(call.Call.Args) < 1 {
					good = false
					return
				}
				isW := call.Call.IsInvoke() && (call.Call.Method.Name() == "Write" || call.Call.Method.Name() == "WriteStream")
				if p, isP := call.Call.Value.(*ssa.Parameter); isP && !call.Call.IsInvoke() {
					if sig, okS := p.Type().Underlying().(*types.Signature); okS && sig.Results().Len() == 2 {
						isW = true // a write function handed in as a parameter
					}
				}
				sl, isSl := call.Call.Args[0].(*ssa.Slice)
				if !isW || !isSl || sl.X != v.X || sl.Low != ssa.Value(ph) || sl.High != nil {
					good = false
				}
			}
			for _, e := range ph.Edges {
				chk(e, 0)
			}
			if good {
				return "Gwrite: b[sent:] with sent the sum of the counts returned by Write(b[sent:]) (0 ≤ count ≤ len(b)−sent by the io.Writer contract)", ""
			}
		}
		// Gsym: inside the AVP decoder, the window arithmetic over the wire Length decides it
		if why := x.symbolicSlice(f, v); why != "" {
			return why, ""
		}
		return "", "b[n:] without a dominating n < len(b) guard"
	}
	// [0:l] of pooled writer buffer
	if v.Low != nil && v.High != nil {
		if k, ok := flow.ConstInt(v.Low); ok && k == 0 {
			if why := x.gbuf(v); why != "" {
				return why, ""
			}
		}
	}
	return "", "slice expression with non-constant bounds not covered by a rule"
}

// allocatesAtLeastParam: g(min) returns bytes.NewBuffer(make([]byte, n)) with n == min when
// min > K, or a pooled / fresh K-sized buffer when min <= K.
func (x *c03) allocatesAtLeastParam(g *ssa.Function) bool {
	if g.Blocks == nil || len(g.Params) != 1 {
		return false
	}
	okAll := true
	n := 0
	for _, rv := range flow.ReturnValues(g, 0) {
		n++
		switch v := flow.Peel(rv).(type) {
		case *ssa.Call:
			if flow.IsCallTo(v, "bytes", "", "NewBuffer") {
				mk, ok := v.Call.Args[0].(*ssa.MakeSlice)
				if !ok {
					okAll = false
					continue
				}
				if mk.Len == ssa.Value(g.Params[0]) {
					continue
				}
				// make(phi(min, K)): K only on edges reached with min <= K
				if ph, isPhi := mk.Len.(*ssa.Phi); isPhi {
					for i, e := range ph.Edges {
						if e == ssa.Value(g.Params[0]) {
							continue
						}
						pred := ph.Block().Preds[i]
						under := false
						for _, gd := range flow.Guards(pred.Instrs[len(pred.Instrs)-1]) {
							rl, ok := condRel(gd.If.Cond, gd.Taken)
							if ok && rl.a == ssa.Value(g.Params[0]) && rl.op == token.LEQ && sameVal(rl.b, e) {
								under = true
							}
						}
						if !under {
							okAll = false
						}
					}
					continue
				}
				// make(K) on the path where min <= K
				okGuard := false
				for _, gd := range flow.Guards(v) {
					rl, ok := condRel(gd.If.Cond, gd.Taken)
					if ok && rl.a == ssa.Value(g.Params[0]) && rl.op == token.LEQ && sameVal(rl.b, mk.Len) {
						okGuard = true
					}
				}
				if !okGuard {
					okAll = false
				}
				continue
			}
			okAll = false
		case *ssa.TypeAssert:
			// pooled: only buffers of capacity K are pooled; reached on min <= K
			continue
		default:
			okAll = false
		}
	}
	return okAll && n > 0
}

func readCountInto(xc *Ctx, n ssa.Value, b ssa.Value) bool {
	seen := map[ssa.Value]bool{}
	var rec func(v ssa.Value) bool
	rec = func(v ssa.Value) bool {
		if seen[v] {
			return true
		}
		seen[v] = true
		switch y := v.(type) {
		case *ssa.Phi:
			for _, e := range y.Edges {
				if !rec(e) {
					return false
				}
			}
			return len(y.Edges) > 0
		case *ssa.Extract:
			call, ok := y.Tuple.(*ssa.Call)
			if !ok || y.Index != 0 {
				return false
			}
			var buf ssa.Value
			if flow.IsCallTo(call, "io", "", "ReadFull") || flow.IsCallTo(call, "io", "", "ReadAtLeast") {
				buf = call.Call.Args[1]
			} else if call.Call.IsInvoke() && call.Call.Method.Name() == "ReadAtLeast" {
				buf = call.Call.Args[0]
			} else if g := flow.StaticCallee(call); g != nil && g.Blocks != nil {
				// a read helper: every count it returns is the count of a read into its byte parameter
				if bp := byteParam(g); bp != nil && readHelperCount(g, bp) {
					if i := paramIndex(g, bp); i < len(call.Call.Args) {
						buf = call.Call.Args[i]
					}
				}
			} else if g == nil && !call.Call.IsInvoke() {
				// a read function value (closure chosen by the caller): every function it can be is such a helper
				if ts := xc.funcValueTargets(call.Call.Value, 0); len(ts) > 0 {
					idx := -1
					for _, t := range ts {
						bp := byteParam(t)
						if t.Blocks == nil || bp == nil || !readHelperCount(t, bp) || idx >= 0 && idx != paramIndex(t, bp) {
							idx = -2
							break
						}
						idx = paramIndex(t, bp)
					}
					if idx >= 0 && idx < len(call.Call.Args) {
						buf = call.Call.Args[idx]
					}
				}
			}
			sl, ok := buf.(*ssa.Slice)
			if !ok || sl.X != b {
				return false
			}
			lo, ok1 := builtinOf(sl.Low, "len")
			hi, ok2 := builtinOf(sl.High, "cap")
			return ok1 && ok2 && lo == b && hi == b
		}
		return false
	}
	return rec(n)
}

func (x *c03) dischargeIndex(f *ssa.Function, in ssa.Instruction, base, idx ssa.Value) (string, string) {
	if h := x.serializerSite(f, base); h != "" {
		return h, ""
	}
	k, isConst := flow.ConstInt(idx)
	if isConst {
		// array pointer: always fine (compiler proves); slices:
		if g := lenGuardGE(in, base, func(v ssa.Value) bool { kk, ok := flow.ConstInt(v); return ok && kk > k }); g != "" {
			return fmt.Sprintf("G5: constant index %d under the dominating guard %s", k, g), ""
		}
		if pp, ok := base.(*ssa.Parameter); ok {
			if why := x.paramLenAtCallers(f, pp, k+1, 0); why != "" {
				return why, ""
			}
		}
		// G9: index into a phi of non-empty constant strings
		if ph, ok := base.(*ssa.Phi); ok {
			okAll := true
			for _, e := range ph.Edges {
				s, ok := flow.ConstString(e)
				if !ok || int64(len(s)) <= k {
					okAll = false
				}
			}
			if okAll {
				return "G9: index into a choice of constant strings all longer than the index", ""
			}
		}
		if k == 0 {
			if why := x.nonEmpty(f, in, base, 0); why != "" {
				return "G8: " + why, ""
			}
		}
		// Gmake: a buffer made here with length c + (a length), c > k
		if cst, ok := madeAtLeast(base); ok && cst > k {
			return fmt.Sprintf("Gmake: index %d into a buffer made with length %d + len(…)", k, cst), ""
		}
		return "", fmt.Sprintf("constant index %d without a dominating length guard", k)
	}
	// b[i] with i < len(b) guard (loop)
	for _, g := range flow.Guards(in) {
		rl, ok := condRel(g.If.Cond, g.Taken)
		if !ok {
			continue
		}
		if a, isLen := builtinOf(rl.b, "len"); isLen && rl.a == idx && a == base && rl.op == token.LSS && x.nn.val(idx, 0) {
			return "G1: index under i < len(b), i non-negative", ""
		}
	}
	return "", "variable index without a dominating i < len(b) guard"
}

// cursorGuardAt: at instruction at, low < len(base) holds by a dominating guard and low is non-negative.
func (x *c03) cursorGuardAt(at ssa.Instruction, base, low ssa.Value) string {
	for _, g := range flow.Guards(at) {
		rl, ok := condRel(g.If.Cond, g.Taken)
		if !ok {
			continue
		}
		a, isLen := builtinOf(rl.b, "len")
		if rl.a == low && isLen && a == base && rl.op == token.LSS && x.nn.val(low, 0) {
			return "G1: b[n:] under the loop condition n < len(b), cursor non-negative (0 plus non-negative increments)"
		}
		a2, isLen2 := builtinOf(rl.a, "len")
		if rl.b == low && isLen2 && a2 == base && rl.op == token.GTR && x.nn.val(low, 0) {
			return "G1: b[n:] under the loop condition len(b) > n, cursor non-negative"
		}
	}
	return ""
}

// resultLenAtLeast (Gres): s is the slice a step helper returned together with an error, used at `at` on the edge
// where that error is nil; every return of the helper with a nil error hands back p[:h] (p one of its parameters)
// at a point where the helper's own guards have established h ≥ need (h < K not taken with K ≥ need, h ≥ K taken).
func (x *c03) resultLenAtLeast(at ssa.Instruction, s ssa.Value, need int64) string {
	ex, ok := s.(*ssa.Extract)
	if !ok {
		return ""
	}
	call, ok := ex.Tuple.(*ssa.Call)
	if !ok {
		return ""
	}
	h := flow.StaticCallee(call)
	if h == nil || h.Blocks == nil || !x.c.P.IsLibrary(h) {
		return ""
	}
	ev := errorResult(call)
	if ev == nil {
		return ""
	}
	onNil := false
	for _, gd := range flow.Guards(at) {
		rl, ok := condRel(gd.If.Cond, gd.Taken)
		if ok && rl.op == token.EQL && ((rl.a == ev && flow.IsNilConst(rl.b)) || (rl.b == ev && flow.IsNilConst(rl.a))) {
			onNil = true
		}
	}
	if !onNil {
		return ""
	}
	nres := h.Signature.Results().Len()
	n := 0
	for _, b := range h.Blocks {
		ret, ok := b.Instrs[len(b.Instrs)-1].(*ssa.Return)
		if !ok || b == h.Recover || len(ret.Results) != nres {
			continue
		}
		if !flow.IsNilConst(ret.Results[nres-1]) {
			continue // an error return: not the edge the caller is on
		}
		sl, ok := ret.Results[ex.Index].(*ssa.Slice)
		if !ok || sl.Low != nil || sl.High == nil {
			return ""
		}
		if _, isP := sl.X.(*ssa.Parameter); !isP {
			return ""
		}
		okGE := false
		for _, gd := range flow.Guards(ret) {
			rl, ok := condRel(gd.If.Cond, gd.Taken)
			if !ok {
				continue
			}
			same := func(v ssa.Value) bool {
				return v == sl.High || sameVal(v, sl.High) || sameFieldLoad(h, v, sl.High)
			}
			if k, isK := flow.ConstInt(rl.b); isK && same(rl.a) && ((rl.op == token.GEQ && k >= need) || (rl.op == token.GTR && k+1 >= need)) {
				okGE = true
			}
			if k, isK := flow.ConstInt(rl.a); isK && same(rl.b) && ((rl.op == token.LEQ && k >= need) || (rl.op == token.LSS && k+1 >= need)) {
				okGE = true
			}
		}
		if !okGE {
			return ""
		}
		n++
	}
	if n == 0 {
		return ""
	}
	return fmt.Sprintf("Gres: the slice %s returned on its nil-error edge is p[:h] with h ≥ %d established by the helper's own length test", h.Name(), need)
}

// madeAtLeast: v is a slice made right here with length c, or c + len(…); returns c.
func madeAtLeast(v ssa.Value) (int64, bool) {
	mk, ok := v.(*ssa.MakeSlice)
	if !ok {
		return 0, false
	}
	if c, ok := flow.ConstInt(mk.Len); ok {
		return c, true
	}
	if bo, ok := mk.Len.(*ssa.BinOp); ok && bo.Op == token.ADD {
		for _, pr := range [][2]ssa.Value{{bo.X, bo.Y}, {bo.Y, bo.X}} {
			if cst, ok := flow.ConstInt(pr[0]); ok && cst >= 0 {
				if _, isLen := builtinOf(pr[1], "len"); isLen {
					return cst, true
				}
			}
		}
	}
	return 0, false
}

// nonEmpty: argument for "v has at least one element at `at`".
func (x *c03) nonEmpty(f *ssa.Function, at ssa.Instruction, v ssa.Value, depth int) string {
	if depth > 3 {
		return ""
	}
	switch y := v.(type) {
	case *ssa.Extract:
		// result of a call with nil error whose callee returns non-empty slices with nil errors
		if call, ok := y.Tuple.(*ssa.Call); ok && y.Index == 0 {
			g := flow.StaticCallee(call)
			if g != nil && x.scope[g] {
				e := errorResult(call)
				onNil := false
				for _, gd := range flow.Guards(at) {
					rl, ok := condRel(gd.If.Cond, gd.Taken)
					if ok && rl.op == token.EQL && ((rl.a == e && flow.IsNilConst(rl.b)) || (rl.b == e && flow.IsNilConst(rl.a))) {
						onNil = true
					}
				}
				if onNil && x.returnsNonEmptyWithNilErr(g) {
					return "result of " + g.Name() + " on its nil-error edge; every nil-error return of " + g.Name() + " carries a non-empty slice"
				}
			}
		}
		// result of a lookup helper that also returns "found": on the edge where that flag is true, and every return
		// of the helper that can report true carries a non-empty slice
		if call, ok := y.Tuple.(*ssa.Call); ok {
			if g := flow.StaticCallee(call); g != nil && g.Blocks != nil && x.c.P.IsLibrary(g) {
				for _, gd := range flow.Guards(at) {
					cond, neg := flow.Cond(gd.If.Cond, gd.Taken)
					fl, isEx := cond.(*ssa.Extract)
					if !isEx || neg || fl.Tuple != y.Tuple || fl.Index == y.Index {
						continue
					}
					if bt, isB := fl.Type().Underlying().(*types.Basic); !isB || bt.Info()&types.IsBoolean == 0 {
						continue
					}
					okAll, n := true, 0
					flow.Instrs(g, func(in ssa.Instruction) {
						ret, isRet := in.(*ssa.Return)
						if !isRet || len(ret.Results) <= fl.Index || len(ret.Results) <= y.Index || ret.Block() == g.Recover {
							return
						}
						if k, isK := ret.Results[fl.Index].(*ssa.Const); isK && k.Value != nil && k.Value.String() == "false" {
							return
						}
						n++
						// the flag may itself be the hit of the map the slice was taken from: (v, ok := idx[k])
						if fe, isFE := ret.Results[fl.Index].(*ssa.Extract); isFE && fe.Index == 1 {
							if ve, isVE := ret.Results[y.Index].(*ssa.Extract); isVE && ve.Index == 0 && ve.Tuple == fe.Tuple {
								if lk, isLk := fe.Tuple.(*ssa.Lookup); isLk && lk.CommaOk && x.mapValuesAppended(lk.X) {
									return
								}
							}
						}
						if x.nonEmpty(g, ret, ret.Results[y.Index], depth+1) == "" {
							okAll = false
						}
					})
					if okAll && n > 0 {
						return "result of " + g.Name() + " on the edge where its found-flag is true; every return of " + g.Name() + " that can report true carries a non-empty slice"
					}
				}
			}
		}
		// comma-ok map hit of an index whose values are only ever append() results
		if lk, ok := y.Tuple.(*ssa.Lookup); ok && lk.CommaOk && y.Index == 0 {
			for _, gd := range flow.Guards(at) {
				cond, neg := flow.Cond(gd.If.Cond, gd.Taken)
				if ex, ok := cond.(*ssa.Extract); ok && ex.Tuple == ssa.Value(lk) && ex.Index == 1 && !neg {
					if x.mapValuesAppended(lk.X) {
						return "map hit of an index whose values are only ever append()-extended slices"
					}
				}
			}
		}
	case *ssa.Parameter:
		// every library call site passes a non-empty argument
		idx := paramIndex(f, y)
		n := 0
		for _, caller := range x.c.P.LibraryFuncs() {
			for _, ci := range flow.CallInstrs(caller) {
				if flow.StaticCallee(ci) != f {
					continue
				}
				n++
				a := ci.Common().Args[idx]
				if caller == f && a == ssa.Value(y) {
					continue // recursion with the same argument
				}
				if sl, ok := a.(*ssa.Slice); ok && sl.High == nil && sl.Low != nil {
					// avps[n:] under n < len(avps)
					okG := false
					for _, gd := range flow.Guards(ci) {
						rl, ok := condRel(gd.If.Cond, gd.Taken)
						if !ok {
							continue
						}
						if la, isLen := builtinOf(rl.b, "len"); isLen && rl.a == sl.Low && la == sl.X && rl.op == token.LSS {
							okG = true
						}
					}
					if okG {
						continue
					}
					return ""
				}
				if x.nonEmpty(caller, ci, a, depth+1) == "" {
					return ""
				}
			}
		}
		if n > 0 {
			return fmt.Sprintf("parameter: all %d library call sites pass a non-empty slice (map hit of an append-built index, x[n:] under n < len(x), or the same argument recursively)", n)
		}
	}
	return ""
}

func (x *c03) returnsNonEmptyWithNilErr(g *ssa.Function) bool {
	okAll := true
	n := 0
	flow.Instrs(g, func(in ssa.Instruction) {
		ret, ok := in.(*ssa.Return)
		if !ok || len(ret.Results) != 2 {
			return
		}
		isNil := false
		for _, s := range flow.SpillSources(ret.Results[1]) {
			if flow.IsNilConst(s) {
				isNil = true
			}
		}
		if !isNil {
			if _, isConst := ret.Results[1].(*ssa.Const); isConst {
				return
			}
			if definitelyNonNilError(ret.Results[1]) {
				return
			}
			// unknown error value: conservatively treat as possibly nil
		}
		n++
		v := ret.Results[0]
		if !x.sliceNonEmptyAt(ret, v, 0) {
			okAll = false
		}
	})
	return okAll && n > 0
}

func (x *c03) sliceNonEmptyAt(at ssa.Instruction, v ssa.Value, depth int) bool {
	if depth > 4 {
		return false
	}
	// guarded by len(v) != 0 / > 0 (the failing edge returned)
	for _, gd := range flow.Guards(at) {
		rl, ok := condRel(gd.If.Cond, gd.Taken)
		if !ok {
			continue
		}
		if a, isLen := builtinOf(rl.a, "len"); isLen && a == v && isZeroConst(rl.b) && (rl.op == token.NEQ || rl.op == token.GTR) {
			return true
		}
	}
	switch y := v.(type) {
	case *ssa.Slice:
		// a slice literal with at least one element: []T{x}
		if al, ok := y.X.(*ssa.Alloc); ok && y.Low == nil && y.High == nil {
			if arr, ok := al.Type().(*types.Pointer).Elem().Underlying().(*types.Array); ok && arr.Len() >= 1 {
				return true
			}
		}
	case *ssa.Extract:
		// the result of a recursive call of the same function on its nil-error edge (coinduction)
		if rc, ok := y.Tuple.(*ssa.Call); ok && y.Index == 0 && flow.StaticCallee(rc) == at.Parent() {
			e := errorResult(rc)
			for _, gd := range flow.Guards(at) {
				rl, ok := condRel(gd.If.Cond, gd.Taken)
				if ok && rl.op == token.EQL && ((rl.a == e && flow.IsNilConst(rl.b)) || (rl.b == e && flow.IsNilConst(rl.a))) {
					return true
				}
			}
		}
	case *ssa.Call:
		if b, ok := y.Call.Value.(*ssa.Builtin); ok && b.Name() == "append" && len(y.Call.Args) == 2 {
			// variadic slice of a fixed array with >= 1 element, or a non-empty slice
			if sl, ok := y.Call.Args[1].(*ssa.Slice); ok {
				if al, ok := sl.X.(*ssa.Alloc); ok {
					if arr, ok := al.Type().(*types.Pointer).Elem().Underlying().(*types.Array); ok && arr.Len() >= 1 {
						return true
					}
				}
			}
			// append(x, r...) with r the result of a recursive call of the same function on its nil-error edge (coinduction)
			if ex, ok := y.Call.Args[1].(*ssa.Extract); ok && ex.Index == 0 {
				if rc, ok := ex.Tuple.(*ssa.Call); ok && flow.StaticCallee(rc) == at.Parent() {
					e := errorResult(rc)
					for _, gd := range flow.Guards(y) {
						rl, ok := condRel(gd.If.Cond, gd.Taken)
						if ok && rl.op == token.EQL && ((rl.a == e && flow.IsNilConst(rl.b)) || (rl.b == e && flow.IsNilConst(rl.a))) {
							return true
						}
					}
				}
			}
			return x.sliceNonEmptyAt(at, y.Call.Args[0], depth+1)
		}
	case *ssa.Phi:
		for _, e := range y.Edges {
			if !x.sliceNonEmptyAt(at, e, depth+1) {
				return false
			}
		}
		return len(y.Edges) > 0
	}
	return false
}

// mapValuesAppended: the map value loaded here comes from a module function that only stores
// append() results into the map.
func (x *c03) mapValuesAppended(m ssa.Value) bool {
	// find the producer: parameter <- call site argument <- call result of a builder
	var builder *ssa.Function
	var localMap *ssa.MakeMap
	var find func(v ssa.Value, f *ssa.Function, d int)
	find = func(v ssa.Value, f *ssa.Function, d int) {
		if d > 3 || builder != nil {
			return
		}
		switch y := flow.Peel(v).(type) {
		case *ssa.Call:
			if g := flow.StaticCallee(y); g != nil && x.scope[g] {
				builder = g
			}
		case *ssa.MakeMap:
			// built where it is used: the function that makes the map is its builder
			builder, localMap = y.Parent(), y
		case *ssa.Parameter:
			idx := paramIndex(y.Parent(), y)
			for _, caller := range x.c.P.LibraryFuncs() {
				for _, ci := range flow.CallInstrs(caller) {
					if flow.StaticCallee(ci) == y.Parent() && idx < len(ci.Common().Args) {
						find(ci.Common().Args[idx], caller, d+1)
					}
				}
			}
		}
	}
	if in, ok := m.(ssa.Instruction); ok {
		find(m, in.Parent(), 0)
	} else if p, ok := m.(*ssa.Parameter); ok {
		find(p, p.Parent(), 0)
	}
	if builder == nil {
		return false
	}
	okAll, n := true, 0
	census := func(f *ssa.Function, only ssa.Value) {
		flow.Instrs(f, func(in ssa.Instruction) {
			mu, ok := in.(*ssa.MapUpdate)
			if !ok || (only != nil && mu.Map != only) {
				return
			}
			n++
			call, ok := mu.Value.(*ssa.Call)
			if !ok {
				okAll = false
				return
			}
			if b, ok := call.Call.Value.(*ssa.Builtin); !ok || b.Name() != "append" {
				okAll = false
			}
		})
	}
	var only ssa.Value
	if localMap != nil {
		only = localMap
	}
	census(builder, only)
	// the builder may fill the map through a helper or a method of the map's type that it hands the map to
	for _, ci := range flow.CallInstrs(builder) {
		g := flow.StaticCallee(ci)
		if g == nil || g.Blocks == nil || g == builder || !x.c.P.IsLibrary(g) {
			continue
		}
		for i, a := range ci.Common().Args {
			if _, isMap := a.Type().Underlying().(*types.Map); !isMap || i >= len(g.Params) {
				continue
			}
			if localMap != nil && flow.Peel(a) != ssa.Value(localMap) {
				continue
			}
			census(g, g.Params[i])
		}
	}
	return okAll && n > 0
}

// ---------- O2 ----------

func (x *c03) asserts() {
	c, r := x.c, x.c.R
	typs, _ := c.datatypeImplementors()
	// Impl(K): implementor types whose Type() returns constant K
	implByK := map[string][]types.Type{}
	for _, T := range typs {
		if v, ok := c.methodConstResult(T, "Type"); ok {
			implByK[v.ExactString()] = append(implByK[v.ExactString()], T)
		}
	}
	counter := map[string]int{}
	var fs []*ssa.Function
	for f := range x.scope {
		fs = append(fs, f)
	}
	sort.Slice(fs, func(i, j int) bool { return fname(fs[i]) < fname(fs[j]) })
	for _, f := range fs {
		flow.Instrs(f, func(in ssa.Instruction) {
			ta, ok := in.(*ssa.TypeAssert)
			if !ok || ta.CommaOk {
				return
			}
			// interface-to-interface assertions of static supertypes are no-ops inserted by go/ssa
			if types.IsInterface(ta.AssertedType) && types.AssignableTo(ta.X.Type(), ta.AssertedType) {
				return
			}
			base := fmt.Sprintf("%s:assert-%s", fname(f), types.TypeString(ta.AssertedType, func(p *types.Package) string { return p.Name() }))
			counter[base]++
			key := fmt.Sprintf("%s#%d", base, counter[base])
			how, why := x.dischargeAssert(f, ta, implByK)
			if how != "" {
				r.Ok("O2", key, c.pos(ta), how)
			} else {
				r.Fail("O2", key, c.pos(ta), "type assertion without comma-ok that can fail on decoded data: "+why)
			}
		})
	}
}

func (x *c03) dischargeAssert(f *ssa.Function, ta *ssa.TypeAssert, implByK map[string][]types.Type) (string, string) {
	c := x.c
	// (a) pool homogeneity
	if call, ok := ta.X.(*ssa.Call); ok && flow.IsCallTo(call, "sync", "Pool", "Get") {
		pool, _ := flow.Path(call.Call.Args[0])
		okAll, n := true, 0
		for _, g := range c.P.LibraryFuncs() {
			for _, ci := range flow.CallInstrs(g) {
				if !flow.IsCallTo(ci, "sync", "Pool", "Put") {
					continue
				}
				p2, _ := flow.Path(ci.Common().Args[0])
				if p2 != pool {
					continue
				}
				n++
				if mi, ok := ci.Common().Args[1].(*ssa.MakeInterface); !ok || !types.Identical(mi.X.Type(), ta.AssertedType) {
					okAll = false
				}
			}
		}
		if okAll && n > 0 {
			return fmt.Sprintf("pool homogeneity: every Put into %s stores a %s", pool, ta.AssertedType), ""
		}
		return "", "pool " + pool + " is not homogeneous"
	}
	// (b) code.(T) inside a type switch: go/ssa emits non-comma-ok asserts after a successful typeswitch test on the same value
	for _, g := range flow.Guards(ta) {
		cond, neg := flow.Cond(g.If.Cond, g.Taken)
		if ex, ok := cond.(*ssa.Extract); ok && !neg && ex.Index == 1 {
			if t2, ok := ex.Tuple.(*ssa.TypeAssert); ok && t2.X == ta.X && types.Identical(t2.AssertedType, ta.AssertedType) {
				return "dominated by a successful comma-ok assertion of the same value to the same type (type switch)", ""
			}
		}
	}
	// (c) Type()==K guard in the same function
	if root, fields, ok := fieldPath(addrOfLoad(ta.X)); ok {
		if x.typeGuardOn(flow.Guards(ta), root, fields, ta.AssertedType, implByK) {
			return "dominated by Type()==K on the same value; K's only implementor is " + ta.AssertedType.String(), ""
		}
	}
	for _, g := range flow.Guards(ta) {
		rl, ok := condRel(g.If.Cond, g.Taken)
		if !ok || rl.op != token.EQL {
			continue
		}
		call, ok := rl.a.(*ssa.Call)
		k, isK := rl.b.(*ssa.Const)
		if !ok || !isK || !call.Call.IsInvoke() || call.Call.Method.Name() != "Type" {
			continue
		}
		if !sameIface(call.Call.Value, ta.X, f) {
			continue
		}
		impls := implByK[k.Value.ExactString()]
		if len(impls) == 1 && types.Identical(impls[0], ta.AssertedType) {
			return fmt.Sprintf("dominated by Type() == %s on the same value; the only implementor whose Type() returns that constant is %s", k.Value, ta.AssertedType), ""
		}
		var names []string
		for _, t := range impls {
			names = append(names, t.String())
		}
		return "", fmt.Sprintf("guarded by Type() == %s, but the types reporting that id are %v, not exactly {%s}", k.Value, names, ta.AssertedType)
	}
	// (d) asserting the result of a known constructor in the same package chain: v.(T) where v comes from a call whose every return is T
	if ex, ok := ta.X.(*ssa.Extract); ok {
		if call, ok := ex.Tuple.(*ssa.Call); ok {
			if g := flow.StaticCallee(call); g != nil && g.Blocks != nil {
				okAll, n := true, 0
				for _, rv := range flow.ReturnValues(g, ex.Index) {
					if flow.IsNilConst(rv) {
						continue
					}
					n++
					mi, ok := rv.(*ssa.MakeInterface)
					if !ok || !types.Identical(mi.X.Type(), ta.AssertedType) {
						okAll = false
					}
				}
				// nil results only on error returns, and the assert must be on the nil-error edge
				e := errorResult(call)
				onNil := e == nil
				for _, gd := range flow.Guards(ta) {
					rl, ok := condRel(gd.If.Cond, gd.Taken)
					if ok && rl.op == token.EQL && ((rl.a == e && flow.IsNilConst(rl.b)) || (rl.b == e && flow.IsNilConst(rl.a))) {
						onNil = true
					}
				}
				if okAll && n > 0 && onNil {
					return fmt.Sprintf("asserts the result of %s on its nil-error edge; every non-nil value it returns is a %s", g.Name(), ta.AssertedType), ""
				}
			}
		}
	}
	// (e) caller-established guard (depth 1): f is only called on edges guarded by Type()==K of the argument
	if p, ok := flow.Peel(ta.X).(*ssa.Parameter); ok || isFieldOfParam(ta.X) {
		_ = p
		if how := x.callerTypeGuard(f, ta, implByK); how != "" {
			return how, ""
		}
	}
	return "", "no dominating Type()==K test / successful comma-ok assertion on the same value"
}

func isFieldOfParam(v ssa.Value) bool {
	root, _, ok := fieldPath(addrOfLoad(v))
	if !ok {
		return false
	}
	_, isP := flow.Peel(root).(*ssa.Parameter)
	return isP
}

func addrOfLoad(v ssa.Value) ssa.Value {
	if u, ok := v.(*ssa.UnOp); ok && u.Op == token.MUL {
		return u.X
	}
	return v
}

// sameIface: a and b denote the same interface value (same SSA value, or loads of the same
// field path with no intervening store).
func sameIface(a, b ssa.Value, f *ssa.Function) bool {
	if a == b {
		return true
	}
	if sameFieldLoad(f, a, b) {
		return true
	}
	pa, ok1 := flow.Path(a)
	pb, ok2 := flow.Path(b)
	if ok1 && ok2 && pa == pb {
		// same access path; require no store to the last field between (function-wide: no store at all to that field after both)
		return sameFieldLoadLoose(f, a, b)
	}
	return false
}

func sameFieldLoadLoose(f *ssa.Function, a, b ssa.Value) bool {
	ua, ok1 := a.(*ssa.UnOp)
	ub, ok2 := b.(*ssa.UnOp)
	if !ok1 || !ok2 {
		return false
	}
	fa, ok1 := ua.X.(*ssa.FieldAddr)
	fb, ok2 := ub.X.(*ssa.FieldAddr)
	if !ok1 || !ok2 || fa.Field != fb.Field {
		return false
	}
	okAll := true
	flow.Instrs(f, func(in ssa.Instruction) {
		st, ok := in.(*ssa.Store)
		if !ok {
			return
		}
		if sa, ok := st.Addr.(*ssa.FieldAddr); ok && sa.Field == fa.Field && types.Identical(sa.X.Type(), fa.X.Type()) {
			// a store between the two loads kills
			if flow.PathAvoiding(f, ua, func(x ssa.Instruction) bool { return x == ssa.Instruction(st) }, func(x ssa.Instruction) bool { return x == ssa.Instruction(ub) }) != nil &&
				flow.PathAvoiding(f, st, func(x ssa.Instruction) bool { return x == ssa.Instruction(ub) }, nil) != nil {
				okAll = false
			}
		}
	})
	return okAll
}

// typeGuardOn: a Type()==K test (passing edge among gs) on the value root.fields, K's only
// implementor being want.
func (x *c03) typeGuardOn(gs []flow.Guard, root ssa.Value, fields []string, want types.Type, implByK map[string][]types.Type) bool {
	for _, g := range gs {
		rl, okRel := condRel(g.If.Cond, g.Taken)
		if okRel && rl.op == token.EQL {
			call, ok := rl.a.(*ssa.Call)
			k, isK := rl.b.(*ssa.Const)
			if ok && isK && call.Call.IsInvoke() && call.Call.Method.Name() == "Type" {
				r2, f2, ok := fieldPath(addrOfLoad(call.Call.Value))
				if ok && flow.Peel(r2) == flow.Peel(root) && strings.Join(f2, ".") == strings.Join(fields, ".") {
					impls := implByK[k.Value.ExactString()]
					if len(impls) == 1 && types.Identical(impls[0], want) {
						return true
					}
				}
			}
		}
		// boolean helper: if h(.., root, ..)#i { ... } where h's i-th result is true only under the guard
		cond, neg := flow.Cond(g.If.Cond, g.Taken)
		if ex, ok := cond.(*ssa.Extract); ok && !neg {
			if hc, ok := ex.Tuple.(*ssa.Call); ok {
				if h := flow.StaticCallee(hc); h != nil && h.Blocks != nil {
					for ai, a := range hc.Call.Args {
						if flow.Peel(a) != flow.Peel(root) || ai >= len(h.Params) {
							continue
						}
						if x.boolImpliesTypeGuard(h, ex.Index, h.Params[ai], fields, want, implByK) {
							return true
						}
					}
				}
			}
		}
	}
	return false
}

// boolImpliesTypeGuard: result idx of h can be true only on paths where Type()==K held for
// param.fields.
func (x *c03) boolImpliesTypeGuard(h *ssa.Function, idx int, param *ssa.Parameter, fields []string, want types.Type, implByK map[string][]types.Type) bool {
	okAll, n := true, 0
	var rets []*ssa.Return
	flow.Instrs(h, func(in ssa.Instruction) {
		if rt, ok := in.(*ssa.Return); ok && rt.Block() != h.Recover && len(rt.Results) > idx {
			rets = append(rets, rt)
		}
	})
	for _, rt := range rets {
		rv := rt.Results[idx]
		n++
		var visit func(v ssa.Value, at ssa.Instruction, d int) bool
		visit = func(v ssa.Value, at ssa.Instruction, d int) bool {
			if d > 4 {
				return false
			}
			switch y := v.(type) {
			case *ssa.Const:
				if y.Value != nil && y.Value.String() == "false" {
					return true
				}
				// true constant: the edge it arrives on must be guarded
				if os.Getenv("DVERIF_DEBUG") != "" {
					fmt.Fprintf(os.Stderr, "  bool true edge at=%v guards=%d implByK=%v\n", at, len(flow.Guards(at)), implByK)
				}
				if at == nil {
					return false
				}
				return x.typeGuardOn(flow.Guards(at), param, fields, want, implByK)
			case *ssa.Phi:
				for i, e := range y.Edges {
					pred := y.Block().Preds[i]
					if !visit(e, pred.Instrs[len(pred.Instrs)-1], d+1) {
						return false
					}
				}
				return true
			}
			return false
		}
		// a constant returned as it is: the return itself stands on the guarded (or unguarded) edge
		if !visit(rv, rt, 0) {
			okAll = false
		}
	}
	return okAll && n > 0
}

// callerTypeGuard: every library call site of f is dominated by Type()==K on the value f asserts.
func (x *c03) callerTypeGuard(f *ssa.Function, ta *ssa.TypeAssert, implByK map[string][]types.Type) string {
	root, fields, ok := fieldPath(addrOfLoad(ta.X))
	var param *ssa.Parameter
	if ok {
		param, _ = flow.Peel(root).(*ssa.Parameter)
	} else if p, isP := flow.Peel(ta.X).(*ssa.Parameter); isP {
		param, fields = p, nil
	}
	if param == nil || param.Parent() != f {
		return ""
	}
	idx := paramIndex(f, param)
	n := 0
	for _, caller := range x.c.P.LibraryFuncs() {
		for _, ci := range flow.CallInstrs(caller) {
			if flow.StaticCallee(ci) != f {
				continue
			}
			n++
			if os.Getenv("DVERIF_DEBUG") != "" {
				fmt.Fprintf(os.Stderr, "callerTypeGuard %s <- %s guards=%d fields=%v\n", f.Name(), caller.Name(), len(flow.Guards(ci)), fields)
			}
			if !x.typeGuardOn(flow.Guards(ci), ci.Common().Args[idx], fields, ta.AssertedType, implByK) {
				return ""
			}
		}
	}
	if n == 0 {
		return ""
	}
	return fmt.Sprintf("all %d library call sites are dominated by a Type()==K test (directly or through a boolean helper) on the asserted value, K's only implementor being %s", n, ta.AssertedType)
}

// ---------- O3 ----------

// wireTainted: the value derives from message bytes (wire length fields, byte loads, BigEndian reads).
func (x *c03) wireTainted(v ssa.Value, seen map[ssa.Value]bool, depth int) bool {
	if v == nil || seen[v] || depth > 10 {
		return false
	}
	seen[v] = true
	switch y := v.(type) {
	case *ssa.Const:
		return false
	case *ssa.Convert:
		return x.wireTainted(y.X, seen, depth+1)
	case *ssa.ChangeType:
		return x.wireTainted(y.X, seen, depth+1)
	case *ssa.BinOp:
		return x.wireTainted(y.X, seen, depth+1) || x.wireTainted(y.Y, seen, depth+1)
	case *ssa.Phi:
		for _, e := range y.Edges {
			if x.wireTainted(e, seen, depth+1) {
				return true
			}
		}
		return false
	case *ssa.UnOp:
		if y.Op == token.MUL {
			if tn, fld, _, ok := flow.FieldOf(y); ok {
				if (tn == "Header" && fld == "MessageLength") || (tn == "AVP" && fld == "Length") {
					return true
				}
				return false
			}
			if ia, ok := y.X.(*ssa.IndexAddr); ok && isByteSlice(ia.X.Type()) {
				return true
			}
		}
		return false
	case *ssa.Call:
		if _, ok := y.Call.Value.(*ssa.Builtin); ok {
			return false // len/cap: data actually present
		}
		if o := flow.CalleeObj(y); o != nil && o.Pkg() != nil && o.Pkg().Path() == "encoding/binary" {
			return true
		}
		if g := flow.StaticCallee(y); g != nil && x.scope[g] && g.Blocks != nil {
			for _, rv := range flow.ReturnValues(g, 0) {
				if x.wireTainted(rv, seen, depth+1) {
					return true
				}
			}
			for _, a := range y.Call.Args {
				if _, isBasic := a.Type().Underlying().(*types.Basic); isBasic && x.wireTainted(a, seen, depth+1) {
					return true
				}
			}
		}
		return false
	case *ssa.Parameter:
		// parameters named by callers: check call sites one level
		f := y.Parent()
		idx := paramIndex(f, y)
		for _, caller := range x.c.P.LibraryFuncs() {
			if !x.scope[caller] {
				continue
			}
			for _, ci := range flow.CallInstrs(caller) {
				if flow.StaticCallee(ci) == f && idx < len(ci.Common().Args) {
					if x.wireTainted(ci.Common().Args[idx], seen, depth+1) {
						return true
					}
				}
			}
		}
	}
	return false
}

// boundedSize: a wire-tainted size is acceptable when it is min(tainted, untainted): a phi whose
// tainted alternatives arrive on edges where they are compared below an untainted value.
func (x *c03) boundedSize(v ssa.Value, depth int) bool {
	if !x.wireTainted(v, map[ssa.Value]bool{}, 0) {
		return true
	}
	if depth > 3 {
		return false
	}
	// the result of a decode-path helper (min / clamp functions), evaluated for this call's arguments: every
	// returned value is an argument that is itself bounded, or is returned on an edge where it was compared
	// below another argument that does not come from the wire
	if call, isCall := flow.Peel(v).(*ssa.Call); isCall {
		g := flow.StaticCallee(call)
		if g == nil || !x.scope[g] || g.Blocks == nil {
			return false
		}
		argOf := func(pv ssa.Value) ssa.Value {
			if pp, ok := flow.Peel(pv).(*ssa.Parameter); ok && pp.Parent() == g {
				if i := paramIndex(g, pp); i < len(call.Call.Args) {
					return call.Call.Args[i]
				}
			}
			if _, ok := flow.Peel(pv).(*ssa.Const); ok {
				return pv
			}
			return nil
		}
		untainted := func(a ssa.Value) bool { return a != nil && !x.wireTainted(a, map[ssa.Value]bool{}, 0) }
		nRet, good := 0, true
		flow.Instrs(g, func(in ssa.Instruction) {
			ret, ok := in.(*ssa.Return)
			if !ok || len(ret.Results) == 0 {
				return
			}
			nRet++
			for _, rv := range flow.SpillSources(ret.Results[0]) {
				a := argOf(rv)
				if a != nil && x.boundedSize(a, depth+1) {
					continue
				}
				okEdge := false
				for _, gd := range flow.Guards(ret) {
					rl, ok := condRel(gd.If.Cond, gd.Taken)
					if !ok {
						continue
					}
					var other ssa.Value
					switch {
					case sameVal(rl.a, rv) && (rl.op == token.LEQ || rl.op == token.LSS):
						other = rl.b
					case sameVal(rl.b, rv) && (rl.op == token.GEQ || rl.op == token.GTR):
						other = rl.a
					}
					if other != nil && untainted(argOf(other)) {
						okEdge = true
					}
				}
				if !okEdge {
					good = false
				}
			}
		})
		return good && nRet > 0
	}
	// the size handed to an unexported allocation helper: bounded when it is at every call site
	if pp, isP := flow.Peel(v).(*ssa.Parameter); isP {
		f := pp.Parent()
		if f.Object() != nil && f.Object().Exported() || x.c.addressTaken(f) {
			return false
		}
		idx := paramIndex(f, pp)
		n := 0
		for _, cs := range x.c.librarySites(f) {
			if idx >= len(cs.Common().Args) || !x.boundedSize(cs.Common().Args[idx], depth+1) {
				return false
			}
			n++
		}
		return n > 0
	}
	ph, ok := v.(*ssa.Phi)
	if !ok {
		return false
	}
	for i, e := range ph.Edges {
		if !x.wireTainted(e, map[ssa.Value]bool{}, 0) {
			continue
		}
		okEdge := false
		for _, rl := range edgeRels(ph.Block().Preds[i], ph.Block()) {
			// e <= u  or  e < u  with u untainted
			var other ssa.Value
			switch {
			case sameVal(rl.a, e) && (rl.op == token.LEQ || rl.op == token.LSS):
				other = rl.b
			case sameVal(rl.b, e) && (rl.op == token.GEQ || rl.op == token.GTR):
				other = rl.a
			}
			if other != nil && !x.wireTainted(other, map[ssa.Value]bool{}, 0) {
				okEdge = true
			}
		}
		if !okEdge && !x.boundedSize(e, depth+1) {
			return false
		}
	}
	return true
}

func (x *c03) allocs() {
	c, r := x.c, x.c.R
	var fs []*ssa.Function
	for f := range x.decode {
		fs = append(fs, f)
	}
	sort.Slice(fs, func(i, j int) bool { return fname(fs[i]) < fname(fs[j]) })
	counter := map[string]int{}
	for _, f := range fs {
		flow.Instrs(f, func(in ssa.Instruction) {
			var sizes []ssa.Value
			kind := ""
			switch v := in.(type) {
			case *ssa.MakeSlice:
				sizes, kind = []ssa.Value{v.Len, v.Cap}, "make-slice"
			case *ssa.MakeMap:
				if v.Reserve != nil {
					sizes, kind = []ssa.Value{v.Reserve}, "make-map"
				}
			case *ssa.MakeChan:
				sizes, kind = []ssa.Value{v.Size}, "make-chan"
			case *ssa.Call:
				if flow.IsCallTo(v, "bytes", "", "Repeat") || flow.IsCallTo(v, "strings", "", "Repeat") {
					sizes, kind = []ssa.Value{v.Call.Args[1]}, "repeat"
				}
				if flow.IsCallTo(v, "bytes", "Buffer", "Grow") {
					sizes, kind = []ssa.Value{v.Call.Args[1]}, "buffer-grow"
				}
			}
			if kind == "" {
				return
			}
			allConst := true
			for _, s := range sizes {
				if _, ok := flow.ConstInt(s); !ok {
					allConst = false
				}
			}
			if allConst {
				return
			}
			base := fname(f) + ":" + kind
			counter[base]++
			key := fmt.Sprintf("%s#%d", base, counter[base])
			for _, s := range sizes {
				if _, ok := flow.ConstInt(s); ok {
					continue
				}
				if !x.boundedSize(s, 0) {
					r.Fail("O3", key, c.pos(in), "allocation whose size derives from a length the input merely claims ("+short(s.String(), 50)+") and is not bounded by a constant or by the data already received: a few header bytes can make the decoder allocate up to 16 MiB (or ~4 GiB after wrap-around)")
					return
				}
			}
			if x.wireTainted(sizes[0], map[ssa.Value]bool{}, 0) || (len(sizes) > 1 && x.wireTainted(sizes[1], map[ssa.Value]bool{}, 0)) {
				r.Ok("O3", key, c.pos(in), "wire-derived size bounded by min(·, constant / received data) on every edge")
			} else {
				r.Ok("O3", key, c.pos(in), "size does not derive from wire length fields (dictionary data / lengths of data present)")
			}
		})
	}
	// O3b
	rp := c.readPath()
	c.lengthGuard(rp, "O3b")
	// other unsigned subtractions with tainted operands in decode functions
	for _, f := range fs {
		flow.Instrs(f, func(in ssa.Instruction) {
			bo, ok := in.(*ssa.BinOp)
			if !ok || bo.Op != token.SUB || !isUnsigned(bo.Type()) || isMsgLenMinusHeader(bo) {
				return
			}
			if !x.wireTainted(bo.X, map[ssa.Value]bool{}, 0) && !x.wireTainted(bo.Y, map[ssa.Value]bool{}, 0) {
				return
			}
			// guard X >= Y
			okG := false
			for _, g := range flow.Guards(bo) {
				rl, ok := condRel(g.If.Cond, g.Taken)
				if !ok {
					continue
				}
				if (sameVal(rl.a, bo.X) && sameVal(rl.b, bo.Y) && (rl.op == token.GEQ || rl.op == token.GTR)) || (sameVal(rl.a, bo.Y) && sameVal(rl.b, bo.X) && (rl.op == token.LEQ || rl.op == token.LSS)) {
					okG = true
				}
			}
			r.Check(okG, "O3b", fname(f)+":unsigned-sub", c.pos(bo), "unsigned subtraction of wire values guarded against wrap-around", "unsigned subtraction on wire-derived values without a guard excluding wrap-around")
		})
	}
}

// ---------- O4 ----------

func (x *c03) recursion() {
	c, r := x.c, x.c.R
	_, implMethods := c.datatypeImplementors()
	// edges
	succ := map[*ssa.Function][]*ssa.Function{}
	for f := range x.scope {
		for _, ci := range flow.CallInstrs(f) {
			if g := flow.StaticCallee(ci); g != nil && x.scope[g] {
				succ[f] = append(succ[f], g)
			} else if ci.Common().IsInvoke() && flow.TypeIs(ci.Common().Value.Type(), pkgDatatype, "Type") {
				for _, m := range implMethods {
					if m.Name() == ci.Common().Method.Name() && x.scope[m] {
						succ[f] = append(succ[f], m)
					}
				}
			}
		}
	}
	// Tarjan SCC
	index := 0
	idx := map[*ssa.Function]int{}
	low := map[*ssa.Function]int{}
	on := map[*ssa.Function]bool{}
	var stack []*ssa.Function
	var sccs [][]*ssa.Function
	var strong func(v *ssa.Function)
	strong = func(v *ssa.Function) {
		index++
		idx[v], low[v] = index, index
		stack = append(stack, v)
		on[v] = true
		for _, w := range succ[v] {
			if idx[w] == 0 {
				strong(w)
				if low[w] < low[v] {
					low[v] = low[w]
				}
			} else if on[w] && idx[w] < low[v] {
				low[v] = idx[w]
			}
		}
		if low[v] == idx[v] {
			var comp []*ssa.Function
			for {
				w := stack[len(stack)-1]
				stack = stack[:len(stack)-1]
				on[w] = false
				comp = append(comp, w)
				if w == v {
					break
				}
			}
			selfLoop := false
			for _, w := range succ[v] {
				if w == v {
					selfLoop = true
				}
			}
			if len(comp) > 1 || selfLoop {
				sccs = append(sccs, comp)
			}
		}
	}
	var fs []*ssa.Function
	for f := range x.scope {
		fs = append(fs, f)
	}
	sort.Slice(fs, func(i, j int) bool { return fname(fs[i]) < fname(fs[j]) })
	for _, f := range fs {
		if idx[f] == 0 {
			strong(f)
		}
	}
	for _, comp := range sccs {
		sort.Slice(comp, func(i, j int) bool { return fname(comp[i]) < fname(comp[j]) })
		var names []string
		inDecode := false
		set := map[*ssa.Function]bool{}
		for _, f := range comp {
			names = append(names, f.Name())
			set[f] = true
			if x.decode[f] {
				inDecode = true
			}
		}
		key := "cycle{" + strings.Join(names, ",") + "}"
		if inDecode {
			if how := x.mapChainBounded(comp); how != "" {
				r.Ok("O4", key, c.fpos(comp[0]), how)
				continue
			}
			x.errorsStaySmall(comp, set, key)
			how, why := x.depthBounded(comp, set)
			if how != "" {
				r.Ok("O4", key, c.fpos(comp[0]), how)
			} else {
				r.Fail("O4", key, c.fpos(comp[0]), "recursion on wire data without a depth bound: "+why+" — a 16 MiB message nests ~2 million grouped AVPs and the decoder dies with an unrecoverable stack overflow")
			}
			continue
		}
		// inspection: structural recursion into children
		if x.structural(comp, set) {
			r.Ok("O4", key, c.fpos(comp[0]), "structural recursion: every recursive call descends into the AVP children of the current element (depth ≤ decoded depth, which the decoder bounds)")
		} else {
			r.Fail("O4", key, c.fpos(comp[0]), "recursive inspection function whose recursive call does not descend into a child of the current AVP")
		}
	}
	if len(sccs) == 0 {
		r.Note("no recursion in scope")
	}
}

// depthBounded: some function of the cycle has an int parameter d such that (1) a guard d > K / d >= K
// returns an error, (2) every call that stays in the cycle passes a value derived from d increased or equal
// along the cycle, with at least one +const step.
func (x *c03) depthBounded(comp []*ssa.Function, set map[*ssa.Function]bool) (string, string) {
	// the depth may travel inside a small struct handed down by value (a decode scope): same argument, with the
	// struct's one int field in the place of the parameter
	if how, why, applies := x.depthBoundedInStruct(comp, set); applies {
		return how, why
	}
	// find depth parameters: per function, an int parameter passed along to cycle calls
	depthParam := map[*ssa.Function]*ssa.Parameter{}
	for _, f := range comp {
		for _, p := range f.Params {
			if b, ok := p.Type().Underlying().(*types.Basic); ok && b.Kind() == types.Int {
				depthParam[f] = p // last int param
			}
		}
	}
	guarded := ""
	for _, f := range comp {
		p := depthParam[f]
		if p == nil {
			return "", "function " + f.Name() + " of the cycle has no integer depth parameter"
		}
		for _, b := range f.Blocks {
			ifi, ok := b.Instrs[len(b.Instrs)-1].(*ssa.If)
			if !ok {
				continue
			}
			rl, ok := condRel(ifi.Cond, true)
			if !ok || rl.a != ssa.Value(p) {
				continue
			}
			if _, isK := flow.ConstInt(rl.b); isK && (rl.op == token.GTR || rl.op == token.GEQ) && returnsNonNilError(b.Succs[0]) {
				// the guard must dominate every cycle call of f
				okDom := true
				for _, ci := range flow.CallInstrs(f) {
					if g := flow.StaticCallee(ci); g != nil && set[g] && !flow.Dominates(ifi, ci) {
						okDom = false
					}
				}
				if okDom {
					k, _ := flow.ConstInt(rl.b)
					guarded = fmt.Sprintf("%s rejects depth %s %d with an error before recursing", f.Name(), rl.op, k)
				}
			}
		}
	}
	if guarded == "" {
		return "", "no function of the cycle compares its depth parameter with a constant and returns an error"
	}
	// every cycle call passes depth or depth+const (>=0); at least one strictly increasing step
	inc := false
	for _, f := range comp {
		p := depthParam[f]
		for _, ci := range flow.CallInstrs(f) {
			g := flow.StaticCallee(ci)
			if g == nil || !set[g] {
				continue
			}
			gp := depthParam[g]
			a := ci.Common().Args[paramIndex(g, gp)]
			switch {
			case a == ssa.Value(p):
			default:
				bo, ok := a.(*ssa.BinOp)
				k, isK := int64(0), false
				if ok && bo.Op == token.ADD && bo.X == ssa.Value(p) {
					k, isK = flow.ConstInt(bo.Y)
				}
				if !ok || !isK || k < 0 {
					return "", fmt.Sprintf("%s calls %s with a depth argument that is not its own depth (+ a non-negative constant)", f.Name(), g.Name())
				}
				if k > 0 {
					inc = true
				}
			}
		}
	}
	if !inc {
		return "", "the depth value is never increased around the cycle"
	}
	return "depth parameter threaded through the cycle, increased at least once per round; " + guarded, ""
}

// errorsStaySmall: memory clause of the recursion. An error that travels up a decode cycle is re-wrapped at
// every level; if a level's wrap also renders that level's wire bytes, the text grows by the size of each
// enclosing group — depth x size instead of a small multiple of the input. No formatting call in a function of the
// cycle may take both an error obtained from a call of the cycle and a byte slice.
func (x *c03) errorsStaySmall(comp []*ssa.Function, set map[*ssa.Function]bool, cycle string) {
	r, c := x.c.R, x.c
	n := 0
	for _, f := range comp {
		cycErr := map[ssa.Value]bool{}
		for _, ci := range flow.CallInstrs(f) {
			call, ok := ci.(*ssa.Call)
			if !ok {
				continue
			}
			if g := flow.StaticCallee(call); g != nil && set[g] {
				if e := errorResult(call); e != nil {
					cycErr[e] = true
				}
			}
		}
		if len(cycErr) == 0 {
			continue
		}
		for _, ci := range flow.CallInstrs(f) {
			o := flow.CalleeObj(ci)
			if o == nil || o.Pkg() == nil || o.Pkg().Path() != "fmt" {
				continue
			}
			hasErr, hasBytes := false, ""
			for _, a := range variadicElems(ci) {
				if mi, ok := a.(*ssa.MakeInterface); ok {
					a = mi.X
				}
				if ct, ok := a.(*ssa.ChangeInterface); ok {
					a = ct.X
				}
				for _, src := range flow.SpillSources(a) {
					if cycErr[src] {
						hasErr = true
					}
				}
				if ph, ok := a.(*ssa.Phi); ok {
					for _, e := range ph.Edges {
						if cycErr[e] {
							hasErr = true
						}
					}
				}
				if sl, ok := a.Type().Underlying().(*types.Slice); ok {
					if b, ok := sl.Elem().Underlying().(*types.Basic); ok && b.Kind() == types.Uint8 {
						hasBytes = short(a.String(), 40)
					}
				}
			}
			if hasErr {
				n++
				r.Check(hasBytes == "", "O4", fmt.Sprintf("%s:%s:wrapped-error-carries-no-wire-bytes#%d", cycle, f.Name(), n), c.pos(ci),
					"the error of a nested decode step is wrapped without a rendering of this level's bytes",
					"the error of a nested decode step is wrapped together with a rendering of this level's wire bytes ("+hasBytes+"): every enclosing group adds its own payload to the text, so a failing decode of a deeply nested message allocates depth x size — thousands of times the bytes supplied")
			}
		}
	}
}

// variadicElems: the values stored into the variadic slice of a call (fmt.Errorf(format, a...)), plus its plain
// arguments.
func variadicElems(ci ssa.CallInstruction) []ssa.Value {
	var out []ssa.Value
	for _, a := range ci.Common().Args {
		out = append(out, a)
		sl, ok := a.(*ssa.Slice)
		if !ok {
			continue
		}
		al, ok := sl.X.(*ssa.Alloc)
		if !ok {
			continue
		}
		for _, ref := range flow.Referrers(al) {
			ia, ok := ref.(*ssa.IndexAddr)
			if !ok {
				continue
			}
			for _, r2 := range flow.Referrers(ia) {
				if st, ok := r2.(*ssa.Store); ok && st.Addr == ssa.Value(ia) {
					out = append(out, st.Val)
				}
			}
		}
	}
	return out
}

// depthBoundedInStruct: every function of the cycle takes, by value, a parameter of one and the same struct type
// with exactly one int field (the depth). One function compares that field of its parameter with a constant and
// returns an error beyond it, before any cycle call; every cycle call passes the parameter itself or the result
// of a value-receiver method that returns its receiver with the field increased by a positive constant (and at
// least one call does the latter). applies is false when the cycle does not have this shape at all.
func (x *c03) depthBoundedInStruct(comp []*ssa.Function, set map[*ssa.Function]bool) (how, why string, applies bool) {
	carrier := map[*ssa.Function]*ssa.Parameter{}
	var T *types.Named
	fld := -1
	for _, f := range comp {
		for _, p := range f.Params {
			n, ok := p.Type().(*types.Named)
			if !ok {
				continue
			}
			st, ok := n.Underlying().(*types.Struct)
			if !ok {
				continue
			}
			ints, idx := 0, -1
			for i := 0; i < st.NumFields(); i++ {
				if b, ok := st.Field(i).Type().Underlying().(*types.Basic); ok && b.Kind() == types.Int {
					ints++
					idx = i
				}
			}
			if ints == 1 && (T == nil || types.Identical(T, n)) {
				T, fld = n, idx
				carrier[f] = p
			}
		}
	}
	if T == nil || len(carrier) != len(comp) {
		return "", "", false
	}
	// does v read field fld of parameter p (directly, or through the cell the parameter was spilled to)?
	readsDepth := func(v ssa.Value, p *ssa.Parameter) bool {
		switch y := v.(type) {
		case *ssa.Field:
			return y.Field == fld && (y.X == ssa.Value(p) || spilledParam(y.X) == p)
		case *ssa.UnOp:
			if fa, ok := y.X.(*ssa.FieldAddr); ok && y.Op == token.MUL && fa.Field == fld {
				if al, ok := fa.X.(*ssa.Alloc); ok {
					for _, ref := range flow.Referrers(al) {
						if st, ok := ref.(*ssa.Store); ok && st.Addr == ssa.Value(al) && st.Val == ssa.Value(p) {
							return true
						}
					}
				}
			}
		}
		return false
	}
	guarded := ""
	for _, f := range comp {
		p := carrier[f]
		for _, b := range f.Blocks {
			ifi, ok := b.Instrs[len(b.Instrs)-1].(*ssa.If)
			if !ok {
				continue
			}
			rl, ok := condRel(ifi.Cond, true)
			if !ok || !readsDepth(rl.a, p) {
				continue
			}
			if k, isK := flow.ConstInt(rl.b); isK && (rl.op == token.GTR || rl.op == token.GEQ) && returnsNonNilError(b.Succs[0]) {
				okDom := true
				for _, ci := range flow.CallInstrs(f) {
					if g := flow.StaticCallee(ci); g != nil && set[g] && !flow.Dominates(ifi, ci) {
						okDom = false
					}
				}
				if okDom {
					guarded = fmt.Sprintf("%s rejects %s.%s %s %d with an error before recursing", f.Name(), T.Obj().Name(), T.Underlying().(*types.Struct).Field(fld).Name(), rl.op, k)
				}
			}
		}
	}
	if guarded == "" {
		return "", "no function of the cycle compares the depth field of the scope it was handed with a constant and returns an error", true
	}
	// stepper: value-receiver method returning its receiver with the field + k
	steps := func(h *ssa.Function) bool {
		if h == nil || h.Blocks == nil || len(h.Params) != 1 || !types.Identical(h.Params[0].Type(), T) || len(flow.Loops(h)) > 0 {
			return false
		}
		var cell *ssa.Alloc
		for _, b := range h.Blocks {
			for _, in := range b.Instrs {
				if st, ok := in.(*ssa.Store); ok && st.Val == ssa.Value(h.Params[0]) {
					cell, _ = st.Addr.(*ssa.Alloc)
				}
			}
		}
		if cell == nil {
			return false
		}
		inc, other := false, false
		flow.Instrs(h, func(in ssa.Instruction) {
			st, ok := in.(*ssa.Store)
			if !ok {
				return
			}
			fa, ok := st.Addr.(*ssa.FieldAddr)
			if !ok || fa.X != ssa.Value(cell) {
				return
			}
			if fa.Field != fld {
				return
			}
			bo, ok := st.Val.(*ssa.BinOp)
			if ok && bo.Op == token.ADD {
				if k, isK := flow.ConstInt(bo.Y); isK && k > 0 {
					if ld, isLd := bo.X.(*ssa.UnOp); isLd && ld.Op == token.MUL {
						if fa2, ok := ld.X.(*ssa.FieldAddr); ok && fa2.X == ssa.Value(cell) && fa2.Field == fld {
							inc = true
							return
						}
					}
				}
			}
			other = true
		})
		if !inc || other {
			return false
		}
		okRet := true
		flow.Instrs(h, func(in ssa.Instruction) {
			if ret, isRet := in.(*ssa.Return); isRet {
				ld, ok := ret.Results[0].(*ssa.UnOp)
				if len(ret.Results) != 1 || !ok || ld.Op != token.MUL || ld.X != ssa.Value(cell) {
					okRet = false
				}
			}
		})
		return okRet
	}
	inc := false
	for _, f := range comp {
		p := carrier[f]
		for _, ci := range flow.CallInstrs(f) {
			g := flow.StaticCallee(ci)
			if g == nil || !set[g] {
				continue
			}
			gp := carrier[g]
			a := ci.Common().Args[paramIndex(g, gp)]
			if a == ssa.Value(p) || spilledParam(a) == p {
				continue
			}
			if hc, ok := a.(*ssa.Call); ok && len(hc.Call.Args) == 1 && (hc.Call.Args[0] == ssa.Value(p) || spilledParam(hc.Call.Args[0]) == p) && steps(flow.StaticCallee(hc)) {
				inc = true
				continue
			}
			return "", fmt.Sprintf("%s calls %s with a scope that is neither its own nor its own one level deeper", f.Name(), g.Name()), true
		}
	}
	if !inc {
		return "", "the depth carried in the scope is never increased around the cycle", true
	}
	return "depth carried by value in " + T.Obj().Name() + " around the cycle, increased at least once per round; " + guarded, "", true
}

// structural: every call that stays in the cycle either descends (into the AVP children of the
// current element, or into a sub-value of the reflect destination) or passes the current element
// on unchanged — and the calls that do not descend form no cycle by themselves.
func (x *c03) structural(comp []*ssa.Function, set map[*ssa.Function]bool) bool {
	flat := map[*ssa.Function][]*ssa.Function{} // non-descending edges
	for _, f := range comp {
		for _, ci := range flow.CallInstrs(f) {
			g := flow.StaticCallee(ci)
			if g == nil || !set[g] {
				continue // interface calls on a.Data: the callee's own cycle calls are examined
			}
			descends, same := false, true
			for _, a := range ci.Common().Args {
				switch {
				case derivesFromChild(a, 0) || reflectDescends(a):
					descends = true
				default:
					if _, isParam := flow.Peel(a).(*ssa.Parameter); isParam {
						continue
					}
					if _, isConst := a.(*ssa.Const); isConst {
						continue
					}
					if _, isBasic := a.Type().Underlying().(*types.Basic); isBasic {
						continue // depth counters, prefixes
					}
					if spilledParam(a) != nil {
						continue
					}
					// an element of a list handed in as a parameter: not above the caller's own level
					if u, ok := flow.Peel(a).(*ssa.UnOp); ok && u.Op == token.MUL {
						if ia, ok := u.X.(*ssa.IndexAddr); ok {
							if _, isP := flow.Peel(ia.X).(*ssa.Parameter); isP {
								continue
							}
						}
					}
					same = false
				}
			}
			if descends {
				continue
			}
			if !same {
				return false
			}
			flat[f] = append(flat[f], g)
		}
	}
	// flat edges must be acyclic
	state := map[*ssa.Function]int{}
	var dfs func(f *ssa.Function) bool
	dfs = func(f *ssa.Function) bool {
		state[f] = 1
		for _, g := range flat[f] {
			if state[g] == 1 {
				return false
			}
			if state[g] == 0 && !dfs(g) {
				return false
			}
		}
		state[f] = 2
		return true
	}
	for _, f := range comp {
		if state[f] == 0 && !dfs(f) {
			return false
		}
	}
	return true
}

// reflectDescends: a reflect.Value obtained from Elem/Index/Field/Indirect of another value
// (one step down the finite structure of the destination type).
func reflectDescends(v ssa.Value) bool {
	call, ok := v.(*ssa.Call)
	if !ok {
		return false
	}
	o := flow.CalleeObj(call)
	if o == nil || o.Pkg() == nil || o.Pkg().Path() != "reflect" {
		return false
	}
	switch o.Name() {
	case "Elem", "Index", "Field", "Indirect":
		return true
	}
	return false
}

func derivesFromChild(v ssa.Value, d int) bool {
	if d > 6 {
		return false
	}
	switch y := v.(type) {
	case *ssa.UnOp:
		if y.Op == token.MUL {
			if _, fld, _, ok := flow.FieldOf(y); ok && (fld == "AVP" || fld == "Data") {
				return true
			}
			if ia, ok := y.X.(*ssa.IndexAddr); ok {
				return derivesFromChild(ia.X, d+1)
			}
			if fa, ok := y.X.(*ssa.FieldAddr); ok {
				return derivesFromChild(fa.X, d+1)
			}
		}
	case *ssa.TypeAssert:
		return derivesFromChild(y.X, d+1)
	case *ssa.Extract:
		if call, ok := y.Tuple.(*ssa.Call); ok {
			return callDerivesFromChild(call, y.Index, d)
		}
		return derivesFromChild(y.Tuple, d+1)
	case *ssa.Call:
		return callDerivesFromChild(y, 0, d)
	case *ssa.Next:
		return true // range over children
	case *ssa.Phi:
		for _, e := range y.Edges {
			if derivesFromChild(e, d+1) {
				return true
			}
		}
	case *ssa.Slice:
		return derivesFromChild(y.X, d+1)
	case *ssa.MakeInterface:
		return derivesFromChild(y.X, d+1)
	case *ssa.Field:
		return derivesFromChild(y.X, d+1)
	}
	return false
}

// gbuf: v = buf.Bytes()[:l] (or [0:l]) of a buffer obtained from a function called with the same l that returns
// a buffer of at least l bytes.
func (x *c03) gbuf(v *ssa.Slice) string {
	call, ok := v.X.(*ssa.Call)
	if !ok || !flow.IsCallTo(call, "bytes", "Buffer", "Bytes") {
		return ""
	}
	bufV, high := call.Call.Args[0], v.High
	// buffer and size handed in together by the only caller of an unexported helper
	if bp, isP := flow.Peel(bufV).(*ssa.Parameter); isP {
		if hp, isH := flow.Peel(high).(*ssa.Parameter); isH && hp.Parent() == bp.Parent() {
			if cs := x.c.uniqueSite(bp.Parent()); cs != nil {
				args := cs.Common().Args
				if i, j := paramIndex(bp.Parent(), bp), paramIndex(hp.Parent(), hp); i < len(args) && j < len(args) {
					bufV, high = args[i], args[j]
				}
			}
		}
	}
	bc, ok := bufV.(*ssa.Call)
	if !ok || len(bc.Call.Args) != 1 || !sameVal(bc.Call.Args[0], high) {
		return ""
	}
	if g := flow.StaticCallee(bc); g != nil && x.allocatesAtLeastParam(g) {
		return "Gbuf: buf.Bytes()[0:l] of a buffer obtained from " + g.Name() + "(l), which returns a buffer of at least l (or MessageBufferLength ≥ l) bytes"
	}
	return ""
}

// paramLenAtCallers: parameter p of the unexported library function f has len ≥ need at every call site
// (guard at the call site on the argument, or the argument is the caller's own parameter with the same property).
func (x *c03) paramLenAtCallers(f *ssa.Function, p *ssa.Parameter, need int64, depth int) string {
	if depth > 2 || f.Object() == nil || f.Object().Exported() {
		return ""
	}
	idx := paramIndex(f, p)
	n := 0
	desc := ""
	for _, g := range x.c.P.ModuleFuncs() {
		for _, ci := range flow.CallInstrs(g) {
			if flow.StaticCallee(ci) != f {
				continue
			}
			n++
			if idx >= len(ci.Common().Args) {
				return ""
			}
			arg := ci.Common().Args[idx]
			if why := lenGuardGE(ci, arg, func(k ssa.Value) bool { kk, ok := flow.ConstInt(k); return ok && kk >= need }); why != "" {
				desc = why + " in " + g.Name()
				continue
			}
			// a slice of constant length: x[a:b] with constants, or make([]byte, K)
			if n, ok := sliceConstLen(arg); ok && n >= need {
				desc = fmt.Sprintf("constant-length slice [%d bytes] in %s", n, g.Name())
				continue
			}
			if mk, ok := arg.(*ssa.MakeSlice); ok {
				if n, ok := flow.ConstInt(mk.Len); ok && n >= need {
					desc = fmt.Sprintf("make([]byte, %d) in %s", n, g.Name())
					continue
				}
			}
			if sl, ok := arg.(*ssa.Slice); ok {
				// whole-array slice new([K]byte)[:]
				if al, ok := sl.X.(*ssa.Alloc); ok && sl.Low == nil && sl.High == nil {
					if at, ok := al.Type().Underlying().(*types.Pointer).Elem().Underlying().(*types.Array); ok && at.Len() >= need {
						desc = fmt.Sprintf("array of %d bytes in %s", at.Len(), g.Name())
						continue
					}
				}
			}
			if ap, ok := arg.(*ssa.Parameter); ok {
				if why := x.paramLenAtCallers(g, ap, need, depth+1); why != "" {
					desc = why
					continue
				}
			}
			return ""
		}
		// a function value taken of f (method value, closure) could be called from anywhere
		bad := false
		flow.Instrs(g, func(in ssa.Instruction) {
			if mc, ok := in.(*ssa.MakeClosure); ok && flow.Unwrap(mc.Fn.(*ssa.Function)) == f {
				bad = true
			}
		})
		if bad {
			return ""
		}
	}
	if n == 0 {
		return ""
	}
	return fmt.Sprintf("Gparam: every one of the %d call sites passes a slice of at least %d bytes (guard %s)", n, need, desc)
}

// symbolicSlice: v = x[low:] inside the AVP decoder (or a helper of it). With x a window [lo, hi) of the decoder's
// input and low an affine, possibly V-dependent value, the slice is in bounds when low ≥ 0 and hi − lo − low ≥ 0
// are established (by guards whose failing edge returns an error) under each tag.
func (x *c03) symbolicSlice(f *ssa.Function, v *ssa.Slice) string {
	top, data, wire := x.c.avpDecoder()
	if top == nil {
		return ""
	}
	e := x.c.newAVPSym(top, data, wire)
	xs := e.slices(v.X, 0)
	lows := e.ints(v.Low, 0)
	if xs == nil || lows == nil {
		return ""
	}
	n := 0
	for _, s := range xs {
		for _, lo := range lows {
			t, ok := tagJoin(s.tag, lo.tag)
			if !ok {
				continue
			}
			tags := []string{t}
			if t == "" {
				tags = []string{"V", "noV"}
			}
			for _, tg := range tags {
				n++
				if lo.v.l == 0 && lo.v.n == 0 {
					if lo.v.k < 0 {
						return ""
					}
				} else if ok, _ := e.holdsAt(v, lo.v, tg, 0); !ok {
					return ""
				}
				if ok, _ := e.holdsAt(v, s.hi.sub(s.lo).sub(lo.v), tg, 0); !ok {
					return ""
				}
			}
		}
	}
	if n == 0 {
		return ""
	}
	return "Gsym: x[low:] with x a window of the decoder's input; low ≥ 0 and len(x) − low ≥ 0 follow, under the V flag and without it, from guards whose failing edge returns an error (affine arithmetic over the wire Length)"
}

// readHelperCount: every first result of g is the count returned by io.ReadFull / ReadAtLeast into g's byte
// parameter bp (so 0 ≤ count ≤ len(bp) by the reader contract).
func readHelperCount(g *ssa.Function, bp *ssa.Parameter) bool {
	rvs := flow.ReturnValues(g, 0)
	for _, rv := range rvs {
		ex, ok := rv.(*ssa.Extract)
		if !ok || ex.Index != 0 {
			return false
		}
		call, ok := ex.Tuple.(*ssa.Call)
		if !ok {
			return false
		}
		var buf ssa.Value
		if flow.IsCallTo(call, "io", "", "ReadFull") || flow.IsCallTo(call, "io", "", "ReadAtLeast") {
			buf = call.Call.Args[1]
		} else if call.Call.IsInvoke() && call.Call.Method.Name() == "ReadAtLeast" {
			buf = call.Call.Args[0]
		}
		if buf == nil || flow.Peel(buf) != ssa.Value(bp) {
			return false
		}
	}
	return len(rvs) > 0
}

// callDerivesFromChild: result #idx of a helper is, on every return that yields a value, a child taken from one
// of its arguments (a.Data, group.AVP, …).
func callDerivesFromChild(call *ssa.Call, idx, d int) bool {
	g := flow.StaticCallee(call)
	if g == nil || g.Blocks == nil || d > 4 {
		return false
	}
	n := 0
	for _, rv := range flow.ReturnValues(g, idx) {
		if flow.IsNilConst(rv) {
			continue
		}
		n++
		if !derivesFromChild(rv, d+1) {
			return false
		}
	}
	return n > 0
}

// mapChainBounded: a self-recursive function that walks a chain through a package-level constant map: in every
// recursive call one parameter receives the value looked up for that same parameter in the map (or a constant),
// all others are passed unchanged, and the map's literal is acyclic — the recursion depth is at most the
// longest chain in the map plus one.
func (x *c03) mapChainBounded(comp []*ssa.Function) string {
	if len(comp) != 1 {
		return ""
	}
	f := comp[0]
	var gmap *ssa.Global
	nRec := 0
	for _, ci := range flow.CallInstrs(f) {
		if flow.StaticCallee(ci) != f {
			continue
		}
		nRec++
		args := ci.Common().Args
		varying := 0
		for i, a := range args {
			if i < len(f.Params) && flow.Peel(a) == ssa.Value(f.Params[i]) {
				continue
			}
			if spilledParam(a) != nil && i < len(f.Params) && spilledParam(a) == f.Params[i] {
				continue
			}
			varying++
			if _, isK := a.(*ssa.Const); isK {
				// a constant: the call must be unreachable when the parameter already has that value
				guarded := false
				for _, g := range flow.Guards(ci) {
					if rl, ok := condRel(g.If.Cond, g.Taken); ok && rl.op == token.NEQ && i < len(f.Params) && flow.Peel(rl.a) == ssa.Value(f.Params[i]) && sameVal(rl.b, a) {
						guarded = true
					}
				}
				if !guarded {
					return ""
				}
				continue
			}
			// the next key computed by a helper of the current one: every value it returns is the map's entry
			// for its parameter, or a constant the recursion is guarded against
			if hc, isCall := flow.Peel(a).(*ssa.Call); isCall && i < len(f.Params) {
				h := flow.StaticCallee(hc)
				if h == nil || h.Blocks == nil || len(h.Params) != 1 || len(hc.Call.Args) != 1 || flow.Peel(hc.Call.Args[0]) != ssa.Value(f.Params[i]) || len(flow.Loops(h)) > 0 {
					return ""
				}
				for _, rv := range flow.ReturnValues(h, 0) {
					if k, isK := rv.(*ssa.Const); isK {
						guarded := false
						for _, g := range flow.Guards(ci) {
							if rl, ok := condRel(g.If.Cond, g.Taken); ok && rl.op == token.NEQ && flow.Peel(rl.a) == ssa.Value(f.Params[i]) && sameVal(rl.b, k) {
								guarded = true
							}
						}
						if !guarded {
							return ""
						}
						continue
					}
					ex, ok := flow.Peel(rv).(*ssa.Extract)
					if !ok || ex.Index != 0 {
						return ""
					}
					lk, ok := ex.Tuple.(*ssa.Lookup)
					if !ok || flow.Peel(lk.Index) != ssa.Value(h.Params[0]) {
						return ""
					}
					gl := loadedGlobal(lk.X)
					if gl == nil || (gmap != nil && gmap != gl) {
						return ""
					}
					gmap = gl
				}
				continue
			}
			ex, ok := flow.Peel(a).(*ssa.Extract)
			if !ok || ex.Index != 0 {
				return ""
			}
			lk, ok := ex.Tuple.(*ssa.Lookup)
			if !ok || i >= len(f.Params) || flow.Peel(lk.Index) != ssa.Value(f.Params[i]) {
				return ""
			}
			gl := loadedGlobal(lk.X)
			if gl == nil || (gmap != nil && gmap != gl) {
				return ""
			}
			gmap = gl
		}
		if varying != 1 {
			return ""
		}
	}
	if nRec == 0 || gmap == nil {
		return ""
	}
	rel := strings.TrimPrefix(gmap.Pkg.Pkg.Path(), prog.ModPath+"/")
	ents, ok := x.c.globalMapLiteral(rel, gmap.Name())
	if !ok {
		return ""
	}
	m := map[int64]int64{}
	for _, e := range ents {
		k, _ := constant.Int64Val(e.Key)
		v, okv := flow.ConstInt(e.Value)
		if !okv {
			return ""
		}
		m[k] = v
	}
	longest := 0
	for k := range m {
		xk, n := k, 0
		for {
			nx, ok := m[xk]
			if !ok {
				break
			}
			xk = nx
			n++
			if n > len(m) {
				return "" // cycle
			}
		}
		if n > longest {
			longest = n
		}
	}
	return fmt.Sprintf("chain recursion over the constant map %s (acyclic, longest chain %d): depth ≤ %d regardless of the input", gmap.Name(), longest, longest+2)
}

// fromStructTag: v is (a conversion, a slice, a trimmed form of) a reflect.StructTag, or a string parameter of an
// unexported library function that receives such a value at every library call site.
func (x *c03) fromStructTag(v ssa.Value, depth int) bool {
	if depth > 6 || v == nil {
		return false
	}
	if flow.TypeIs(v.Type(), "reflect", "StructTag") {
		return true
	}
	switch y := v.(type) {
	case *ssa.Convert:
		return x.fromStructTag(y.X, depth+1)
	case *ssa.ChangeType:
		return x.fromStructTag(y.X, depth+1)
	case *ssa.Slice:
		return x.fromStructTag(y.X, depth+1)
	case *ssa.Phi:
		for _, e := range y.Edges {
			if !x.fromStructTag(e, depth+1) {
				return false
			}
		}
		return len(y.Edges) > 0
	case *ssa.Extract:
		if call, ok := y.Tuple.(*ssa.Call); ok {
			return x.fromStructTag(call, depth+1)
		}
	case *ssa.Call:
		if o := flow.CalleeObj(y); o != nil && o.Pkg() != nil {
			switch o.Pkg().Path() {
			case "strings":
				if len(y.Call.Args) > 0 {
					return x.fromStructTag(y.Call.Args[0], depth+1)
				}
			case "reflect":
				if len(y.Call.Args) > 0 && flow.TypeIs(y.Call.Args[0].Type(), "reflect", "StructTag") {
					return true
				}
			}
		}
	case *ssa.Parameter:
		f := y.Parent()
		if f.Object() != nil && f.Object().Exported() {
			return false
		}
		css := x.c.librarySites(f)
		if len(css) == 0 {
			return false
		}
		i := paramIndex(f, y)
		for _, cs := range css {
			if i >= len(cs.Common().Args) || !x.fromStructTag(cs.Common().Args[i], depth+1) {
				return false
			}
		}
		return true
	}
	return false
}
