package rules

import (
	"fmt"
	"go/token"
	"go/types"

	"golang.org/x/tools/go/ssa"

	"verif/internal/flow"
)

func init() {
	register(&RuleSet{
		Property:  "C20",
		Title:     "AVP search returns exactly the AVPs a reference tree walk finds",
		Run:       runC20,
		Technique: "dominance of the code-equality test over every append, path queries for pre-order and first-match return, provenance of the searched code and of the recursion arguments",
		Explanation: "Decides on the current source, for the recursive search walkers (the self-recursive functions of package diam over []*AVP): R1 every element appended to a result is either the current loop element on an edge dominated by elem.Code == the wanted code, or the spread of a recursive call's result (a result can never be a different AVP); " +
			"R2 within one iteration the self-match test is never reached after the recursive descent (pre-order), the element's own children are searched on every iteration whose element is grouped, and with findMultiple == false the first append is followed by a return on every path; " +
			"R3 the path walker recurses only with path[1:], only on elements whose code equals path[0], only into the children of a *GroupedAVP, appends an element only when len(path) == 1, and the generic walker recurses with the same code and mode; " +
			"R4 the public entry points pass the walkers m.AVP and the Code of the dictionary AVP found for the caller's argument, and return the lookup error without walking. " +
			"R2 also: one pass builds one result list (no second scan that could reorder results). R4 also: the walkers are reached on every non-error path of the entry points, and the code they are given derives only from the dictionary lookup of the caller's argument. " +
			"R2/R3 also: a helper that hands out an AVP's members may decline only on the grouped-type test; any other condition (a cached length, a flag) hides the members of some grouped AVPs. " +
			"Not decided: equality with a reference walk over all trees as executed behaviour.",
		Rules: map[string]string{
			"R1": "appends are guarded by the code match (or are recursive results)",
			"R2": "pre-order; children always searched; first match returns when not collecting all",
			"R3": "strict path descent / unchanged query on recursion",
			"R4": "name resolution through the dictionary; complete top-level list searched",
		},
		MinInstances: map[string]int{"R1": 3, "R2": 2, "R3": 2, "R4": 3},
		Assumptions:  []string{"a *GroupedAVP's AVP field holds its children in document order (decoder, C04)"},
	})
}

func isAVPSlice(t types.Type) bool {
	sl, ok := t.Underlying().(*types.Slice)
	if !ok {
		return false
	}
	pt, ok := sl.Elem().(*types.Pointer)
	return ok && flow.TypeIs(pt.Elem(), pkgDiam, "AVP")
}

type walker struct {
	fn      *ssa.Function
	avps    *ssa.Parameter
	recCall *ssa.Call
	loop    *flow.Loop
	elem    ssa.Value // loop element *AVP
	isPath  bool
	query   *ssa.Parameter // code (uint32) or path ([]uint32)
	first   bool           // returns the first match (*AVP) instead of a list
}

func (c *Ctx) walkers() []*walker {
	var out []*walker
	for _, f := range c.P.LibraryFuncs() {
		if pkgOf(f).Path() != pkgDiam || len(f.Params) < 2 || !isAVPSlice(f.Params[0].Type()) || f.Signature.Recv() != nil {
			continue
		}
		if f.Signature.Results().Len() < 1 {
			continue
		}
		first := false
		if !isAVPSlice(f.Signature.Results().At(0).Type()) {
			rp, ok := f.Signature.Results().At(0).Type().(*types.Pointer)
			if !ok || !flow.TypeIs(rp.Elem(), pkgDiam, "AVP") {
				continue
			}
			first = true
		}
		w := &walker{fn: f, avps: f.Params[0], query: f.Params[1], first: first}
		for _, ci := range flow.CallInstrs(f) {
			if call, ok := ci.(*ssa.Call); ok && flow.StaticCallee(call) == f {
				w.recCall = call
			}
		}
		if w.recCall == nil {
			continue
		}
		_, w.isPath = w.query.Type().Underlying().(*types.Slice)
		loops := flow.Loops(f)
		w.loop = flow.InnermostLoop(loops, w.recCall)
		// loop element: load of &avps[i]
		flow.Instrs(f, func(in ssa.Instruction) {
			if u, ok := in.(*ssa.UnOp); ok && u.Op == token.MUL {
				if ia, ok := u.X.(*ssa.IndexAddr); ok && ia.X == ssa.Value(w.avps) {
					w.elem = u
				}
			}
		})
		out = append(out, w)
	}
	return out
}

// codeMatchGuard: in is dominated by elem.Code == want (passing edge).
func codeMatchGuard(in ssa.Instruction, elem ssa.Value, isWant func(ssa.Value) bool) bool {
	for _, g := range flow.Guards(in) {
		rl, ok := condRel(g.If.Cond, g.Taken)
		if !ok || rl.op != token.EQL {
			continue
		}
		for _, pair := range [][2]ssa.Value{{rl.a, rl.b}, {rl.b, rl.a}} {
			if tn, fld, base, ok := flow.FieldOf(flow.Peel(pair[0])); ok && tn == "AVP" && fld == "Code" && base == elem && isWant(pair[1]) {
				return true
			}
		}
	}
	return false
}

func runC20(c *Ctx) {
	r := c.R
	ws := c.walkers()
	if len(ws) == 0 {
		r.Undecided("R1", "role:walkers", "-", "no self-recursive []*AVP search function found in package diam")
		return
	}
	for _, w := range ws {
		f := w.fn
		if w.loop == nil || w.elem == nil {
			r.Undecided("R1", fname(f)+":shape", c.fpos(f), "the walker is not a loop over its AVP list")
			continue
		}
		isWant := func(v ssa.Value) bool {
			if !w.isPath {
				return v == ssa.Value(w.query)
			}
			// path[0]
			u, ok := v.(*ssa.UnOp)
			if !ok {
				return false
			}
			ia, ok := u.X.(*ssa.IndexAddr)
			return ok && ia.X == ssa.Value(w.query) && isZeroConst(ia.Index)
		}
		// ---- R1 ----
		n := 0
		var matchAppend *ssa.Call
		var matchReturn ssa.Instruction
		if w.first {
			// first-match form: every return yields nil, the loop element under the code test, or the
			// (non-nil) result of the recursive search
			k := 0
			flow.Instrs(f, func(in ssa.Instruction) {
				ret, ok := in.(*ssa.Return)
				if !ok || len(ret.Results) == 0 {
					return
				}
				for _, src := range flow.SpillSources(ret.Results[0]) {
					k++
					n++
					key := fmt.Sprintf("%s:return#%d", fname(f), k)
					switch {
					case flow.IsNilConst(src):
						r.Ok("R1", key, c.pos(ret), "returns nil (nothing found)")
					case src == w.elem:
						if codeMatchGuard(ret, w.elem, isWant) {
							matchReturn = ret
							r.Ok("R1", key, c.pos(ret), "returns the loop element on the edge elem.Code == wanted code")
						} else {
							r.Fail("R1", key, c.pos(ret), "the loop element is returned without the code-equality test dominating it: the search can return a different AVP")
						}
					case src == ssa.Value(w.recCall):
						r.Ok("R1", key, c.pos(ret), "returns the result of the recursive search")
					default:
						if ex, ok := src.(*ssa.Extract); ok && ex.Tuple == ssa.Value(w.recCall) {
							r.Ok("R1", key, c.pos(ret), "returns the result of the recursive search")
						} else {
							r.Fail("R1", key, c.pos(ret), "something other than the matching loop element or a recursive result is returned by the search")
						}
					}
				}
			})
		}
		flow.Instrs(f, func(in ssa.Instruction) {
			if w.first {
				return
			}
			call, ok := in.(*ssa.Call)
			if !ok || !isBuiltinCall(call, "append") || !isAVPSlice(call.Type()) {
				return
			}
			n++
			key := fmt.Sprintf("%s:append#%d", fname(f), n)
			src := call.Call.Args[1]
			// spread of the recursive result
			if ex, ok := src.(*ssa.Extract); ok && ex.Tuple == ssa.Value(w.recCall) {
				r.Ok("R1", key, c.pos(call), "appends the result of the recursive search")
				return
			}
			if src == ssa.Value(w.recCall) {
				r.Ok("R1", key, c.pos(call), "appends the result of the recursive search")
				return
			}
			// single element
			if sl, ok := src.(*ssa.Slice); ok {
				if al, ok := sl.X.(*ssa.Alloc); ok {
					var stored ssa.Value
					for _, ref := range flow.Referrers(al) {
						if ia, ok := ref.(*ssa.IndexAddr); ok {
							for _, r2 := range flow.Referrers(ia) {
								if st, ok := r2.(*ssa.Store); ok {
									stored = st.Val
								}
							}
						}
					}
					if stored == w.elem && codeMatchGuard(call, w.elem, isWant) {
						matchAppend = call
						extra := ""
						if w.isPath {
							// and len(path) == 1
							okLen := pathEndGuard(call, w.query)
							if !okLen {
								r.Fail("R3", key+"-at-path-end", c.pos(call), "an element is added to a path search result although the path is not at its last component: AVPs at the wrong depth are returned")
								return
							}
							extra = " and len(path) == 1"
						}
						r.Ok("R1", key, c.pos(call), "appends the loop element on the edge elem.Code == wanted code"+extra)
						return
					}
					if stored == w.elem {
						r.Fail("R1", key, c.pos(call), "the loop element is appended to the result without the code-equality test dominating it: the search can return a different AVP")
						return
					}
				}
			}
			r.Fail("R1", key, c.pos(call), "something other than the matching loop element or a recursive result is appended to the search result")
		})
		if n == 0 {
			r.Fail("R1", fname(f)+":appends", c.fpos(f), "the walker never adds anything to its result")
		}

		// one scan: every access to the list's elements happens in the one walk loop (a separate
		// pre-scan of the level returns matches out of document order)
		{
			key := fname(f) + ":single-scan"
			loops := flow.Loops(f)
			extra := false
			var at ssa.Instruction
			flow.Instrs(f, func(in ssa.Instruction) {
				ia, ok := in.(*ssa.IndexAddr)
				if !ok || ia.X != ssa.Value(w.avps) {
					return
				}
				if l := flow.InnermostLoop(loops, ia); l != nil && l.Head != w.loop.Head {
					extra, at = true, ia
				}
			})
			if extra {
				r.Fail("R2", key, c.pos(at), "the walker scans its AVP list in a second loop besides the depth-first walk: a match found there is returned ahead of earlier elements' nested matches (not document order)")
			} else {
				r.Ok("R2", key, c.fpos(f), "the AVP list is scanned only by the depth-first walk loop")
			}
		}

		// ---- R2 ----
		head := w.loop.Head.Instrs[0]
		// pre-order: no path from the recursive call to the match append within the same iteration
		var matchAt ssa.Instruction
		if matchAppend != nil {
			matchAt = matchAppend
		} else if matchReturn != nil {
			matchAt = matchReturn
		}
		if matchAt != nil {
			key := fname(f) + ":pre-order"
			p := flow.PathAvoiding(f, w.recCall, func(in ssa.Instruction) bool { return in == matchAt }, func(in ssa.Instruction) bool { return in == head })
			r.Check(p == nil, "R2", key, c.pos(w.recCall), "the element itself is tested before its children are searched (document order)", "an element's children are searched before the element itself is tested: results are not in depth-first document order", c.witness(p)...)
		}
		if !w.isPath {
			// children always searched: from the loop body entry, every path to the next iteration passes the Type()==Grouped test
			key := fname(f) + ":children-always-searched"
			var typeTest ssa.Instruction
			tests := map[ssa.Instruction]bool{}
			flow.Instrs(f, func(in ssa.Instruction) {
				if !w.loop.Blocks[in.Block()] {
					return
				}
				if isGroupedTest(in, 0) {
					tests[in] = true
					if typeTest == nil {
						typeTest = in
					}
				}
			})
			if typeTest == nil {
				r.Fail("R2", key, c.fpos(f), "the walker never tests whether an element is grouped")
			} else {
				var bodyFirst ssa.Instruction
				for _, s := range w.loop.Head.Succs {
					if w.loop.Blocks[s] {
						bodyFirst = s.Instrs[0]
					}
				}
				p := flow.PathAvoiding(f, w.loop.Head.Instrs[len(w.loop.Head.Instrs)-1], func(in ssa.Instruction) bool { return in == head }, func(in ssa.Instruction) bool { return tests[in] || !w.loop.Blocks[in.Block()] })
				_ = bodyFirst
				r.Check(p == nil, "R2", key, c.pos(typeTest), "every iteration that continues reaches the grouped test (a matching group's children are searched too)", "an iteration can move on to the next element without looking into the current element's children (e.g. after a match): nested occurrences are missed", c.witness(p)...)
			}
			// first match returns when !findMultiple
			if matchAppend != nil && len(f.Params) >= 3 {
				key := fname(f) + ":first-match-returns"
				multi := f.Params[2]
				// after the match append, on the !multi edge, return
				good := false
				// the match region: what the guards of the match append establish (the code equality edge)
				matchGuards := flow.Guards(matchAppend)
				inMatchRegion := func(in ssa.Instruction) bool {
					if flow.Dominates(matchAppend, in) {
						return true
					}
					// same guards as the append, except the findMultiple test itself
					have := flow.Guards(in)
					for _, mg := range matchGuards {
						if c0, _ := flow.Cond(mg.If.Cond, true); c0 == ssa.Value(multi) {
							continue
						}
						found := false
						for _, hg := range have {
							if hg.If == mg.If && hg.Taken == mg.Taken {
								found = true
							}
						}
						if !found {
							return false
						}
					}
					return len(matchGuards) > 0
				}
				holdsElem := func(v ssa.Value) bool {
					v = flow.Peel(v)
					if v == ssa.Value(matchAppend) {
						return true
					}
					// a one-element literal []*AVP{elem}
					if sl, ok := v.(*ssa.Slice); ok {
						if al, ok := sl.X.(*ssa.Alloc); ok {
							for _, ref := range flow.Referrers(al) {
								if ia, ok := ref.(*ssa.IndexAddr); ok {
									for _, r2 := range flow.Referrers(ia) {
										if st, ok := r2.(*ssa.Store); ok && flow.Peel(st.Val) == flow.Peel(w.elem) {
											return true
										}
									}
								}
							}
						}
					}
					return false
				}
				for _, b := range f.Blocks {
					ifi, ok := b.Instrs[len(b.Instrs)-1].(*ssa.If)
					if !ok || !inMatchRegion(ifi) {
						continue
					}
					cond, neg := flow.Cond(ifi.Cond, true)
					if cond != ssa.Value(multi) {
						continue
					}
					idx := 1
					if neg {
						idx = 0
					}
					// the !multi successor returns the appended slice (or the match alone)
					sb := b.Succs[idx]
					if ret, ok := sb.Instrs[len(sb.Instrs)-1].(*ssa.Return); ok && holdsElem(ret.Results[0]) {
						good = true
					}
				}
				r.Check(good, "R2", key, c.pos(matchAppend), "with findMultiple == false the match is returned immediately", "with findMultiple == false the search goes on after the first match: FindAVP does not return the first AVP in document order")
			}
		}

		// ---- R3 ----
		{
			key := fname(f) + ":recursion-arguments"
			good, why := true, ""
			// first arg: children of the element's *GroupedAVP
			okChildren := childrenOf(w.recCall.Call.Args[0], 0) == w.elem
			if !okChildren {
				good, why = false, "the recursion does not descend into the children of the current element's *GroupedAVP"
			}
			if w.isPath {
				sl, ok := w.recCall.Call.Args[1].(*ssa.Slice)
				lo := int64(-1)
				if ok {
					lo, _ = flow.ConstInt(sl.Low)
				}
				if !ok || sl.X != ssa.Value(w.query) || lo != 1 || sl.High != nil {
					good, why = false, "the path walker does not recurse with path[1:]"
				}
				if !codeMatchGuardNeg(w.recCall, w.elem, isWant) {
					good, why = false, "the path walker descends into elements whose code does not equal path[0]"
				}
			} else {
				for i := 1; i < len(f.Params); i++ {
					if w.recCall.Call.Args[i] != ssa.Value(f.Params[i]) {
						good, why = false, "the recursion changes the searched code / mode"
					}
				}
			}
			r.Check(good, "R3", key, c.pos(w.recCall), "recursion into the element's own children with the (rest of the) same query", why)
		}
		// the path walker collects over all siblings: nothing found under one matching group (or an error from
		// there) does not end the scan of the others — its loop has no exit but exhaustion
		if w.isPath && w.loop != nil {
			key := fname(f) + ":path-scan-covers-all-siblings"
			var early ssa.Instruction
			for b := range w.loop.Blocks {
				if b == w.loop.Head {
					continue
				}
				for _, s := range b.Succs {
					if !w.loop.Blocks[s] && early == nil {
						early = b.Instrs[len(b.Instrs)-1]
					}
				}
			}
			if early != nil {
				r.Fail("R3", key, c.pos(early), "the path walker can leave its loop before the last sibling: when one group matching the leading path element lacks the rest of the path, the AVPs under the later (and the results from the earlier) matching groups are not returned")
			} else {
				r.Ok("R3", key, c.pos(w.recCall), "the sibling loop of the path walker has no exit but exhaustion")
			}
		}
	}

	// ---- R4 ----
	for _, name := range []string{"FindAVP", "FindAVPs", "FindAVPsWithPath"} {
		f := c.P.Method("diam", "Message", name)
		if f == nil {
			r.Undecided("R4", "role:Message."+name, "-", "entry point not found")
			continue
		}
		key := fname(f) + ":resolves-through-dictionary"
		var wcall *ssa.Call
		for _, ci := range flow.CallInstrs(f) {
			call, ok := ci.(*ssa.Call)
			if !ok {
				continue
			}
			for _, w := range ws {
				if flow.StaticCallee(call) == w.fn {
					wcall = call
				}
			}
		}
		if wcall == nil {
			r.Fail("R4", key, c.fpos(f), "the entry point does not walk the message with one of the search functions")
			continue
		}
		good, why := true, ""
		// walker gets m.AVP
		if tn, fld, base, ok := flow.FieldOf(flow.Peel(wcall.Call.Args[0])); !ok || tn != "Message" || fld != "AVP" || flow.Peel(base) != ssa.Value(f.Params[0]) {
			good, why = false, "the walker is not given the message's complete top-level AVP list"
		}
		// the code(s) handed to the walker: on every path the Code of the dictionary AVP that
		// FindAVPWithVendor(message's application id, caller's argument, …) returned — directly or through a
		// resolving helper; for a path, every stored element
		var lookups []*ssa.Call
		isDictCode := func(v ssa.Value) bool {
			tn, fld, base, ok := flow.FieldOf(flow.Peel(v))
			if !ok || tn != "AVP" || fld != "Code" {
				return false
			}
			ex, ok := flow.Peel(base).(*ssa.Extract)
			if !ok {
				return false
			}
			call, ok := ex.Tuple.(*ssa.Call)
			if !ok || !flow.IsCallTo(call, pkgDict, "Parser", "FindAVPWithVendor") {
				return false
			}
			lookups = append(lookups, call)
			return true
		}
		codeArg := wcall.Call.Args[1]
		codeOK := false
		if mk, isMk := codeArg.(*ssa.MakeSlice); isMk {
			n, all := 0, true
			for _, ref := range flow.Referrers(mk) {
				if ia, ok := ref.(*ssa.IndexAddr); ok {
					for _, r2 := range flow.Referrers(ia) {
						if st, ok := r2.(*ssa.Store); ok {
							n++
							if ok, saw := c.derivesOnlyFrom(st.Val, isDictCode, 0, map[ssa.Value]bool{}); !ok || !saw {
								all = false
							}
						}
					}
				}
			}
			codeOK = n > 0 && all
		} else if ok, saw := c.derivesOnlyFrom(codeArg, isDictCode, 0, map[ssa.Value]bool{}); ok && saw {
			codeOK = true
		}
		if !codeOK {
			good, why = false, "the code handed to the walker is not the Code of the dictionary AVP found for the caller's argument (a name or a vendor-scoped code is searched raw)"
		}
		for _, lookup := range lookups {
			if tn, fld, _, ok := flow.FieldOf(flow.Peel(lookup.Call.Args[1])); !ok || tn != "Header" || fld != "ApplicationID" {
				good, why = false, "the dictionary lookup does not use the message's application id"
			}
		}
		// walk only when the resolution succeeded: the walk is not reachable from the error edge of the
		// resolving call made in the entry point (the lookup itself or the helper that wraps it)
		if good {
			var res *ssa.Call
			for _, ci := range flow.CallInstrs(f) {
				call, ok := ci.(*ssa.Call)
				if !ok || call == wcall || errorResult(call) == nil {
					continue
				}
				isRes := flow.IsCallTo(call, pkgDict, "Parser", "FindAVPWithVendor")
				if g := flow.StaticCallee(call); !isRes && g != nil && g.Blocks != nil && c.P.IsLibrary(g) {
					for _, cj := range flow.CallInstrs(g) {
						if flow.IsCallTo(cj, pkgDict, "Parser", "FindAVPWithVendor") {
							isRes = true
						}
					}
				}
				if isRes {
					res = call
				}
			}
			if res == nil || len(errorEdgeBlocks(res)) == 0 || errorEdgeBlocks(res)[wcall.Block()] || pathFromErrEdge(f, res, wcall) != nil {
				good, why = false, "the message is searched although the dictionary lookup failed"
			}
		}
		// every successful answer comes from a walk of the message as it is now: no return that can carry a nil
		// error is reachable without passing the walk (a remembered earlier result is not the reference walk's)
		if good {
			flow.Instrs(f, func(in ssa.Instruction) {
				ret, ok := in.(*ssa.Return)
				if !ok || !good || !mayReturnNilError(ret) {
					return
				}
				if p := flow.PathAvoiding(f, nil, func(x ssa.Instruction) bool { return x == ssa.Instruction(ret) }, func(x ssa.Instruction) bool { return x == ssa.Instruction(wcall) }); p != nil {
					good, why = false, "a result can be returned without walking the message (e.g. from an index of earlier results): after the tree changed it is no longer what a walk finds"
				}
			})
		}
		r.Check(good, "R4", key, c.pos(wcall), "searches m.AVP for the Code of the dictionary AVP resolved from the argument, only when the lookup succeeded", why)
		// the search mode is fixed by the entry point, not computed: FindAVPs collects every occurrence, FindAVP
		// stops at the first — whatever the dictionary, the command or the message say
		if wf := flow.StaticCallee(wcall); wf != nil && len(wf.Params) >= 3 && len(wcall.Call.Args) >= 3 && name != "FindAVPsWithPath" {
			if bt, ok := wf.Params[2].Type().Underlying().(*types.Basic); ok && bt.Kind() == types.Bool {
				mkey := fname(f) + ":search-mode-fixed"
				k, isK := wcall.Call.Args[2].(*ssa.Const)
				want := name == "FindAVPs"
				switch {
				case !isK || k.Value == nil:
					r.Fail("R4", mkey, c.pos(wcall), "whether "+name+" collects every occurrence or stops at the first is computed at run time ("+short(wcall.Call.Args[2].String(), 40)+"): for some messages the walk ends early and occurrences further on (nested ones in particular) are not returned")
				case (k.Value.String() == "true") != want:
					r.Fail("R4", mkey, c.pos(wcall), fmt.Sprintf("%s runs the walk with collect-all = %s", name, k.Value.String()))
				default:
					r.Ok("R4", mkey, c.pos(wcall), fmt.Sprintf("%s always runs the walk with collect-all = %v", name, want))
				}
			}
		}
	}
}

// codeMatchGuardNeg: in is dominated by the failing edge of elem.Code != want (i.e. equality holds).
func codeMatchGuardNeg(in ssa.Instruction, elem ssa.Value, isWant func(ssa.Value) bool) bool {
	return codeMatchGuard(in, elem, isWant)
}

// pathEndGuard: in is guarded by "the path is at its last component": len(path) == 1, or len(path[1:]) == 0
// (any re-slice path[k:] with the constant adjusted).
func pathEndGuard(in ssa.Instruction, path ssa.Value) bool {
	for _, g := range flow.Guards(in) {
		rl, ok := condRel(g.If.Cond, g.Taken)
		if !ok || rl.op != token.EQL {
			continue
		}
		for _, pr := range [][2]ssa.Value{{rl.a, rl.b}, {rl.b, rl.a}} {
			x, isLen := builtinOf(pr[0], "len")
			k, isK := flow.ConstInt(pr[1])
			if !isLen || !isK {
				continue
			}
			off := int64(0)
			for i := 0; i < 3; i++ {
				sl, isSl := x.(*ssa.Slice)
				if !isSl || sl.High != nil {
					break
				}
				lo := int64(0)
				if sl.Low != nil {
					var okc bool
					if lo, okc = flow.ConstInt(sl.Low); !okc {
						break
					}
				}
				off += lo
				x = sl.X
			}
			if x == path && k+off == 1 {
				return true
			}
		}
	}
	return false
}

// isGroupedTest: in tests whether an AVP's value is a group — a.Data.Type() compared later, a checked type
// assertion to *GroupedAVP, or a package-local helper doing one of these on its argument.
func isGroupedTest(in ssa.Instruction, depth int) bool {
	switch x := in.(type) {
	case *ssa.Call:
		if x.Call.IsInvoke() && x.Call.Method.Name() == "Type" {
			return true
		}
		g := flow.StaticCallee(x)
		if g == nil || g.Blocks == nil || depth > 1 || g.Pkg == nil || g.Pkg.Pkg.Path() != pkgDiam || g == x.Parent() {
			return false
		}
		// a helper applied to an AVP (not a walk over a list)
		takesAVP := false
		for _, p := range g.Params {
			if pt, ok := p.Type().(*types.Pointer); ok && flow.TypeIs(pt.Elem(), pkgDiam, "AVP") {
				takesAVP = true
			}
		}
		if !takesAVP {
			return false
		}
		found := false
		flow.Instrs(g, func(y ssa.Instruction) {
			if isGroupedTest(y, depth+1) {
				found = true
			}
		})
		return found
	case *ssa.TypeAssert:
		if pt, ok := x.AssertedType.(*types.Pointer); ok && x.CommaOk && flow.TypeIs(pt.Elem(), pkgDiam, "GroupedAVP") {
			return true
		}
	}
	return false
}

// childrenOf: v is the member list of the group held by some AVP value — elem.Data.(*GroupedAVP).AVP, directly
// or as the result of a package-local helper applied to elem. Returns that AVP value (nil when v is not of
// this shape).
func childrenOf(v ssa.Value, depth int) ssa.Value {
	if depth > 2 {
		return nil
	}
	switch x := v.(type) {
	case *ssa.UnOp:
		if tn, fld, base, ok := flow.FieldOf(x); ok && tn == "GroupedAVP" && fld == "AVP" {
			b := base
			if ex, isEx := b.(*ssa.Extract); isEx {
				b = ex.Tuple
			}
			if ta, ok := b.(*ssa.TypeAssert); ok {
				if tn2, fld2, b2, ok := flow.FieldOf(ta.X); ok && tn2 == "AVP" && fld2 == "Data" {
					return b2
				}
			}
		}
	case *ssa.Extract:
		if call, ok := x.Tuple.(*ssa.Call); ok {
			return childrenViaHelper(call, x.Index, depth)
		}
	case *ssa.Call:
		return childrenViaHelper(x, 0, depth)
	}
	return nil
}

func childrenViaHelper(call *ssa.Call, idx, depth int) ssa.Value {
	g := flow.StaticCallee(call)
	if g == nil || g.Blocks == nil {
		return nil
	}
	// the helper may decline (return nil) only because the AVP is not grouped: every branch of the helper has
	// to be the grouped-type test (Data.Type() against a constant, or the comma-ok of the *GroupedAVP assertion);
	// any other condition (a cached length, a flag) would hide the members of some grouped AVPs
	for _, b := range g.Blocks {
		ifi, ok := b.Instrs[len(b.Instrs)-1].(*ssa.If)
		if !ok {
			continue
		}
		cond, _ := flow.Cond(ifi.Cond, true)
		okCond := false
		switch y := cond.(type) {
		case *ssa.BinOp:
			for _, side := range []ssa.Value{y.X, y.Y} {
				if call, isCall := side.(*ssa.Call); isCall && call.Call.IsInvoke() && call.Call.Method.Name() == "Type" {
					okCond = true
				}
			}
		case *ssa.Extract:
			if ta, isTA := y.Tuple.(*ssa.TypeAssert); isTA && y.Index == 1 {
				if pt, isPtr := ta.AssertedType.(*types.Pointer); isPtr && flow.TypeIs(pt.Elem(), pkgDiam, "GroupedAVP") {
					okCond = true
				}
			}
		}
		if !okCond {
			return nil
		}
	}
	var res ssa.Value
	n := 0
	for _, rv := range flow.ReturnValues(g, idx) {
		if flow.IsNilConst(rv) {
			continue
		}
		n++
		base := childrenOf(rv, depth+1)
		p, ok := base.(*ssa.Parameter)
		if !ok || p.Parent() != g {
			return nil
		}
		i := paramIndex(g, p)
		if i >= len(call.Call.Args) || (res != nil && res != call.Call.Args[i]) {
			return nil
		}
		res = call.Call.Args[i]
	}
	if n == 0 {
		return nil
	}
	return res
}
