package rules

import (
	"fmt"
	"go/ast"
	"go/constant"
	"go/token"
	"go/types"
	"sort"
	"strings"

	"golang.org/x/tools/go/ssa"

	"verif/internal/flow"
)

func init() {
	register(&RuleSet{
		Property:  "C10",
		Title:     "No application handler runs before the capabilities exchange succeeds",
		Run:       runC10,
		Technique: "who-may-register census + value-origin taint from parameters to ServeMux registrations, dominance of the gate test, guarded metadata producers",
		Explanation: "Decides on the current source: R1 every ServeMux.Handle/HandleIdx/HandleFunc call site in package sm registers either a built-in handler (result of a package-local constructor or a literal closure that invokes no handler) or a value converted to the gate type on every origin path, and the state machine's mux never escapes (it is only used as the receiver of ServeMux methods); " +
			"R2 in the gate type's ServeDIAM the wrapped function is called exactly under the ok result of smpeer.FromContext(c.Context()) of the connection parameter (dominated by the ok edge and guarded by nothing else), and FromContext's ok is the comma-ok of a *Metadata type assertion on ctx.Value(metadataKey); " +
			"R3 every smpeer.NewContext call in the library flows into Conn.SetContext and is dominated by the nil-error edge of a CER/CEA Parse call — and, on the server side, by the nil-error edge of the function that writes the success CEA, and that function's error result after a failed (*Message).WriteTo* is the write's own error, a wrapper of it or a freshly constructed error — never a value that does not come from the write (a shadowed outer variable, a constant nil); " +
			"R4 StateMachine.HandleFunc/HandleIdx cannot reach their registration for the keys CER, CEA, DWR / (0,257,R), (0,257,A), (0,280,R). " +
			"R5 the state machine's own ServeDIAM hands every message, with the same connection and message, to its mux on every path (no message is answered or dropped in front of the gate). R3 is decided at the call sites that supply the values when the construction is wrapped in helpers (parameters lifted to their only library call site). " +
			"R1 also: a gate value that is converted on to another func type (ServeMux.HandleFunc takes a HandlerFunc) has lost the gate's ServeDIAM and counts as not gated. " +
			"Not decided: message histories as executions, the dispatch precedence (C09), applications that call smpeer.NewContext themselves.",
		Rules: map[string]string{
			"R1": "each ServeMux registration in package sm: handler is built-in or passes through the gate type; sm.mux does not escape",
			"R2": "gate: wrapped call dominated by — and only by — the ok edge of smpeer.FromContext(c.Context()); FromContext ok = type assertion on the private key",
			"R3": "smpeer.NewContext only at sites feeding SetContext, dominated by successful Parse (and successful success-CEA write on the server)",
			"R4": "built-in keys (names and indexes) are refused by StateMachine.HandleFunc / HandleIdx",
			"R5": "the state machine's ServeDIAM hands every message, unfiltered, to its mux",
		},
		MinInstances: map[string]int{"R1": 4, "R2": 2, "R3": 2, "R4": 2, "R5": 1},
		Assumptions: []string{"unexported identifiers (StateMachine.mux, smpeer.metadataKey) are inaccessible outside their package (language guarantee)",
			"context.WithValue/Value contract"},
	})
}

// gateType finds the named type in package sm — a func type, or a struct holding one handler — whose ServeDIAM
// consults smpeer.FromContext.
func (c *Ctx) gateType() (*types.Named, *ssa.Function) {
	for _, f := range c.P.LibraryFuncs() {
		if f.Name() != "ServeDIAM" || f.Signature.Recv() == nil || pkgOf(f).Path() != pkgSM {
			continue
		}
		n := flow.NamedOf(f.Signature.Recv().Type())
		if n == nil {
			continue
		}
		switch u := n.Underlying().(type) {
		case *types.Signature:
		case *types.Struct:
			// a gate object: a struct that holds the wrapped handler
			nh := 0
			for i := 0; i < u.NumFields(); i++ {
				if isHandlerish(u.Field(i).Type()) {
					nh++
				}
			}
			if nh != 1 {
				continue
			}
		default:
			continue
		}
		found := false
		flow.Instrs(f, func(in ssa.Instruction) {
			if ifi, ok := in.(*ssa.If); ok {
				cond, _ := flow.Cond(ifi.Cond, true)
				if _, ok := peerKnownTest(cond, 0); ok {
					found = true
				}
			}
		})
		if found {
			return n, f
		}
	}
	return nil, nil
}

// gateCtor finds a gate written as a constructor function of package sm: it takes the handler to protect and
// returns a function literal with the handler signature that consults smpeer.FromContext and calls the captured
// handler. Returns the constructor, the literal and the captured handler variable.
func (c *Ctx) gateCtor() (*ssa.Function, *ssa.Function, *ssa.FreeVar) {
	for _, g := range c.P.LibraryFuncs() {
		if pkgOf(g) == nil || pkgOf(g).Path() != pkgSM || g.Parent() != nil || g.Signature.Results().Len() != 1 || !isHandlerish(g.Signature.Results().At(0).Type()) {
			continue
		}
		var hp *ssa.Parameter
		for _, p := range g.Params {
			if isHandlerish(p.Type()) {
				hp = p
			}
		}
		if hp == nil {
			continue
		}
		var lit *ssa.Function
		var fv *ssa.FreeVar
		ok := true
		rvs := flow.ReturnValues(g, 0)
		for _, rv := range rvs {
			v := rv
			for {
				switch x := v.(type) {
				case *ssa.ChangeType:
					v = x.X
					continue
				case *ssa.MakeInterface:
					v = x.X
					continue
				}
				break
			}
			mc, isMC := v.(*ssa.MakeClosure)
			if !isMC {
				ok = false
				break
			}
			fn := mc.Fn.(*ssa.Function)
			if lit != nil && lit != fn {
				ok = false
				break
			}
			lit = fn
			for i, b := range mc.Bindings {
				if i >= len(fn.FreeVars) {
					continue
				}
				if flow.Peel(b) == ssa.Value(hp) {
					fv = fn.FreeVars[i]
				}
				// the parameter spilled to a cell for capture by reference: one store, of the parameter
				if al, isAl := b.(*ssa.Alloc); isAl {
					stores, fromParam := 0, false
					for _, ref := range flow.Referrers(al) {
						if st, isSt := ref.(*ssa.Store); isSt && st.Addr == ssa.Value(al) {
							stores++
							fromParam = fromParam || flow.Peel(st.Val) == ssa.Value(hp)
						}
					}
					if stores == 1 && fromParam {
						fv = fn.FreeVars[i]
					}
				}
			}
		}
		if !ok || lit == nil || fv == nil || len(rvs) == 0 || len(lit.Params) != 2 {
			continue
		}
		tests := false
		flow.Instrs(lit, func(in ssa.Instruction) {
			if ifi, ok := in.(*ssa.If); ok {
				cond, _ := flow.Cond(ifi.Cond, true)
				if _, ok := peerKnownTest(cond, 0); ok {
					tests = true
				}
			}
		})
		if tests {
			return g, lit, fv
		}
	}
	return nil, nil, nil
}

func isMuxRegistration(ci ssa.CallInstruction) (string, bool) {
	o := flow.CalleeObj(ci)
	for _, n := range []string{"Handle", "HandleIdx", "HandleFunc"} {
		if flow.IsFuncObj(o, pkgDiam, "ServeMux", n) {
			return n, true
		}
	}
	return "", false
}

// handlerOrigin classifies a registered handler value.
// returns: "wrapped", "builtin", or "application:<why>".
func (c *Ctx) handlerOrigin(v ssa.Value, gate *types.Named, depth int, seen map[ssa.Value]bool) string {
	if seen[v] || depth > 12 {
		return "builtin" // cycle: neutral
	}
	seen[v] = true
	switch x := v.(type) {
	case *ssa.MakeInterface:
		return c.handlerOrigin(x.X, gate, depth+1, seen)
	case *ssa.ChangeInterface:
		return c.handlerOrigin(x.X, gate, depth+1, seen)
	case *ssa.ChangeType:
		if n, ok := x.Type().(*types.Named); ok && gate != nil && n.Obj() == gate.Obj() {
			return "wrapped"
		}
		// a gate value converted on to another func type (e.g. handed to ServeMux.HandleFunc, whose parameter is
		// HandlerFunc) loses the gate's ServeDIAM method: what is registered is the function inside the gate
		if inner, ok := x.X.(*ssa.ChangeType); ok && gate != nil {
			if n, ok := inner.Type().(*types.Named); ok && n.Obj() == gate.Obj() {
				o := c.handlerOrigin(inner.X, gate, depth+1, seen)
				if strings.HasPrefix(o, "application") {
					return "application: the gate is converted away again (" + x.Type().String() + "), its ServeDIAM is not the one registered → " + o
				}
				return o
			}
		}
		return c.handlerOrigin(x.X, gate, depth+1, seen)
	case *ssa.Phi:
		res := "wrapped"
		for _, e := range x.Edges {
			o := c.handlerOrigin(e, gate, depth+1, seen)
			if strings.HasPrefix(o, "application") {
				return o
			}
			if o == "builtin" {
				res = "builtin"
			}
		}
		return res
	case *ssa.Call:
		if g := flow.StaticCallee(x); g != nil && pkgOf(g) != nil && pkgOf(g).Path() == pkgSM {
			if ctor, _, _ := c.gateCtor(); ctor != nil && g == ctor {
				return "wrapped" // the gate written as a constructor: what it returns consults the handshake first
			}
			// a constructor of the gate: everything it returns is a gate value
			if gate != nil && g.Blocks != nil {
				rvs := flow.ReturnValues(g, 0)
				all := len(rvs) > 0
				for _, rv := range rvs {
					v := rv
					if mi, ok := v.(*ssa.MakeInterface); ok {
						v = mi.X
					}
					n := flow.NamedOf(v.Type())
					if n == nil || n.Obj() != gate.Obj() {
						all = false
					}
				}
				if all {
					return "wrapped"
				}
			}
			// package-local constructor: its arguments must not smuggle an application handler
			for _, a := range x.Call.Args {
				if isHandlerish(a.Type()) {
					if o := c.handlerOrigin(a, gate, depth+1, seen); strings.HasPrefix(o, "application") {
						return "application: handler-typed argument of " + g.Name() + " → " + o
					}
				}
			}
			return "builtin"
		}
		return "application: result of " + short(x.String(), 50)
	case *ssa.Function:
		if x.Parent() != nil || pkgOf(x).Path() == pkgSM {
			if invokesHandler(x) {
				return "application: function literal invoking a handler"
			}
			return "builtin"
		}
		return "application: external function"
	case *ssa.MakeClosure:
		fn := x.Fn.(*ssa.Function)
		if strings.HasSuffix(fn.Name(), "$bound") {
			// method value handler.ServeDIAM: origin is the bound receiver
			if len(x.Bindings) == 1 {
				return c.handlerOrigin(x.Bindings[0], gate, depth+1, seen)
			}
		}
		if invokesHandler(fn) {
			return "application: closure invoking a handler"
		}
		return "builtin"
	case *ssa.TypeAssert:
		return c.handlerOrigin(x.X, gate, depth+1, seen)
	case *ssa.Parameter:
		return "application: parameter " + x.Name() + " of " + fname(x.Parent())
	case *ssa.FreeVar:
		if b := flow.BoundValue(x); b != nil {
			return c.handlerOrigin(b, gate, depth+1, seen)
		}
		return "application: captured variable " + x.Name()
	case *ssa.UnOp:
		if a, ok := x.X.(*ssa.Alloc); ok && x.Op == token.MUL {
			res := "builtin"
			for _, ref := range flow.Referrers(a) {
				if st, ok := ref.(*ssa.Store); ok && st.Addr == ssa.Value(a) {
					o := c.handlerOrigin(st.Val, gate, depth+1, seen)
					if strings.HasPrefix(o, "application") {
						return o
					}
				}
			}
			return res
		}
		return "application: loaded from " + short(x.X.String(), 40)
	}
	return "application: " + short(v.String(), 50)
}

func isHandlerish(t types.Type) bool {
	if flow.TypeIs(t, pkgDiam, "Handler") || flow.TypeIs(t, pkgDiam, "HandlerFunc") {
		return true
	}
	if s, ok := t.Underlying().(*types.Signature); ok {
		return isHandlerSig(s)
	}
	return false
}

func invokesHandler(f *ssa.Function) bool {
	for _, ci := range flow.CallInstrs(f) {
		if isHandlerInvocation(ci) {
			return true
		}
	}
	for _, a := range f.AnonFuncs {
		if invokesHandler(a) {
			return true
		}
	}
	return false
}

func runC10(c *Ctx) {
	r := c.R
	gate, gateFn := c.gateType()
	var gateFV *ssa.FreeVar
	if gate == nil {
		if ctor, lit, fv := c.gateCtor(); ctor != nil {
			gateFn, gateFV = lit, fv
			r.Role("GateCtor", fname(ctor))
		}
	}
	if gate == nil && gateFV == nil {
		r.Fail("R2", "role:gate-type", "-", "no func type in package sm whose ServeDIAM consults smpeer.FromContext: nothing gates application handlers on the handshake")
	} else if gate != nil {
		r.Role("GateType", gate.Obj().Name())
	}

	// ---- R1 ----
	for _, f := range c.P.LibraryFuncs() {
		if pkgOf(f) == nil || pkgOf(f).Path() != pkgSM {
			continue
		}
		counter := map[string]int{}
		for _, ci := range flow.CallInstrs(f) {
			kind, ok := isMuxRegistration(ci)
			if !ok {
				continue
			}
			args := ci.Common().Args
			if len(args) < 3 {
				continue
			}
			keyDesc := "?"
			if s, ok := flow.ConstString(args[1]); ok {
				keyDesc = s
			} else if p, ok := flow.Path(args[1]); ok {
				keyDesc = p
			}
			counter[kind+"("+keyDesc+")"]++
			key := fmt.Sprintf("%s:%s(%s)#%d", fname(f), kind, keyDesc, counter[kind+"("+keyDesc+")"])
			o := c.handlerOrigin(args[2], gate, 0, map[ssa.Value]bool{})
			switch {
			case o == "wrapped":
				r.Ok("R1", key, c.pos(ci), "handler passes through the gate type on every origin path")
			case o == "builtin":
				r.Ok("R1", key, c.pos(ci), "built-in handler (package-local constructor or literal that invokes no handler)")
			default:
				r.Fail("R1", key, c.pos(ci), "an application-supplied handler is registered without the handshake gate: "+o)
			}
		}
	}
	// mux escape
	smT := c.P.NamedType("diam/sm", "StateMachine")
	if smT == nil {
		r.Undecided("R1", "role:StateMachine", "-", "type sm.StateMachine not found")
	} else {
		nUse := 0
		for _, f := range c.P.LibraryFuncs() {
			flow.Instrs(f, func(in ssa.Instruction) {
				fa, ok := in.(*ssa.FieldAddr)
				if !ok {
					return
				}
				tn, fld, _, ok2 := flow.FieldOf(fa)
				if !ok2 || tn != "StateMachine" || fld != "mux" || !flow.TypeIs(fa.X.Type(), pkgSM, "StateMachine") {
					return
				}
				for _, ref := range flow.Referrers(fa) {
					switch u := ref.(type) {
					case *ssa.Store:
						if u.Addr == ssa.Value(fa) {
							// initialisation: must be a fresh mux
							continue
						}
					case *ssa.UnOp:
						for _, lr := range flow.Referrers(u) {
							nUse++
							ci, isCall := lr.(ssa.CallInstruction)
							okUse := false
							if isCall {
								o := flow.CalleeObj(ci)
								if o != nil && flow.RecvTypeName(o.Type().(*types.Signature)) == "ServeMux" && len(ci.Common().Args) > 0 && ci.Common().Args[0] == ssa.Value(u) {
									okUse = true
									for _, a := range ci.Common().Args[1:] {
										if a == ssa.Value(u) {
											okUse = false
										}
									}
								}
							}
							if !okUse {
								r.Fail("R1", fname(f)+":mux-escapes", c.pos(lr), "the state machine's ServeMux is used other than as the receiver of a ServeMux method: registrations could bypass the gate ("+short(flow.Describe(lr), 70)+")")
							}
						}
					}
				}
			})
		}
		if nUse > 0 {
			r.Ok("R1", "sm.StateMachine.mux:receiver-only", "-", fmt.Sprintf("%d loads of StateMachine.mux, each used only as the receiver of a ServeMux method", nUse))
		}
		// exported field?
		if st, ok := smT.Underlying().(*types.Struct); ok {
			for i := 0; i < st.NumFields(); i++ {
				if flow.TypeIs(st.Field(i).Type(), pkgDiam, "ServeMux") && st.Field(i).Exported() {
					r.Fail("R1", "sm.StateMachine."+st.Field(i).Name()+":exported-mux", c.P.Position(st.Field(i).Pos()), "the state machine's ServeMux field is exported: applications can register handlers that bypass the gate")
				}
			}
		}
	}

	// ---- R2 ----
	if gateFn != nil {
		key := fname(gateFn) + ":wrapped-call"
		var wrapped []*ssa.Call
		// the connection and message parameters of the gate: after the receiver for a gate type, the literal's own
		// two for a gate constructor
		connIdx, msgIdx := 1, 2
		if gateFV != nil {
			connIdx, msgIdx = 0, 1
		}
		for _, ci := range flow.CallInstrs(gateFn) {
			call, ok := ci.(*ssa.Call)
			if !ok || len(gateFn.Params) == 0 {
				continue
			}
			if gateFV != nil {
				// the captured handler called directly, or its ServeDIAM invoked
				cv := call.Call.Value
				if ld, isLd := cv.(*ssa.UnOp); isLd && ld.Op == token.MUL {
					cv = ld.X
				}
				if cv == ssa.Value(gateFV) {
					wrapped = append(wrapped, call)
				}
				continue
			}
			if call.Call.IsInvoke() {
				continue
			}
			if call.Call.Value == ssa.Value(gateFn.Params[0]) {
				wrapped = append(wrapped, call)
				continue
			}
			// the wrapped handler held in a field of the gate object
			if isHandlerish(call.Call.Value.Type()) {
				switch fv := call.Call.Value.(type) {
				case *ssa.Field:
					if fv.X == ssa.Value(gateFn.Params[0]) {
						wrapped = append(wrapped, call)
					}
				case *ssa.UnOp:
					if fa, isFA := fv.X.(*ssa.FieldAddr); isFA && fv.Op == token.MUL {
						base := fa.X
						if al, isAl := base.(*ssa.Alloc); isAl {
							// value receiver spilled to a local
							for _, ref := range flow.Referrers(al) {
								if st, isSt := ref.(*ssa.Store); isSt && st.Addr == ssa.Value(al) && st.Val == ssa.Value(gateFn.Params[0]) {
									base = st.Val
								}
							}
						}
						if base == ssa.Value(gateFn.Params[0]) {
							wrapped = append(wrapped, call)
						}
					}
				}
			}
		}
		if len(wrapped) != 1 {
			r.Fail("R2", key, c.fpos(gateFn), fmt.Sprintf("expected exactly one call of the wrapped function in the gate, found %d", len(wrapped)))
		} else {
			w := wrapped[0]
			gs := flow.Guards(w)
			good := len(gs) == 1
			why := ""
			if !good {
				why = fmt.Sprintf("the wrapped call is guarded by %d conditions, expected exactly the handshake test", len(gs))
				if len(gs) == 0 {
					why = "the wrapped handler is called unconditionally: application handlers run before the capabilities exchange"
				}
			} else {
				g := gs[0]
				cond, neg := flow.Cond(g.If.Cond, g.Taken)
				ctx, isTest := peerKnownTest(cond, 0)
				if !isTest || neg {
					good, why = false, "the guard is not the ok result of smpeer.FromContext"
				} else {
					// argument is c.Context() of the conn parameter
					if len(gateFn.Params) <= msgIdx || !contextIsOfConn(ctx, gateFn.Params[connIdx]) {
						good, why = false, "FromContext is not applied to the Context() of the connection the message arrived on"
					}
					// the wrapped call receives the same conn and message
					if good && (len(w.Call.Args) != 2 || w.Call.Args[0] != ssa.Value(gateFn.Params[connIdx]) || w.Call.Args[1] != ssa.Value(gateFn.Params[msgIdx])) {
						good, why = false, "the wrapped handler is not called with the gate's own (conn, message)"
					}
				}
			}
			r.Check(good, "R2", key, c.pos(w), "wrapped call dominated by, and only by, the ok edge of smpeer.FromContext(c.Context())", why)
		}
	}
	// FromContext shape
	fc := c.P.Func("diam/sm/smpeer", "FromContext")
	nc := c.P.Func("diam/sm/smpeer", "NewContext")
	if fc == nil || nc == nil {
		r.Undecided("R2", "role:smpeer.FromContext/NewContext", "-", "smpeer.FromContext or NewContext not found")
	} else {
		good, why := true, ""
		var keyObjGet, keyObjSet types.Object
		nRet := 0
		flow.Instrs(fc, func(in ssa.Instruction) {
			ret, ok := in.(*ssa.Return)
			if !ok || len(ret.Results) != 2 {
				return
			}
			nRet++
			ex, ok := ret.Results[1].(*ssa.Extract)
			if !ok || ex.Index != 1 {
				good, why = false, "FromContext's bool result is not the comma-ok of a type assertion"
				return
			}
			ta, ok := ex.Tuple.(*ssa.TypeAssert)
			if !ok || !flow.TypeIs(ta.AssertedType, pkgSMPeer, "Metadata") {
				good, why = false, "FromContext's bool result is not the comma-ok of a *Metadata type assertion"
				return
			}
			vc, ok := ta.X.(*ssa.Call)
			if !ok || !vc.Call.IsInvoke() || vc.Call.Method.Name() != "Value" || len(fc.Params) < 1 || vc.Call.Value != ssa.Value(fc.Params[0]) {
				good, why = false, "the asserted value is not ctx.Value(key) of FromContext's parameter"
				return
			}
			if k := flow.PeelNoConvert(vc.Call.Args[0]); k != nil {
				if cst, isC := k.(*ssa.Const); isC {
					if n, isN := cst.Type().(*types.Named); isN {
						keyObjGet = n.Obj()
					}
				}
			}
		})
		flow.Instrs(nc, func(in ssa.Instruction) {
			if ci, ok := in.(ssa.CallInstruction); ok && flow.IsCallTo(ci, "context", "", "WithValue") {
				if k := flow.PeelNoConvert(ci.Common().Args[1]); k != nil {
					if cst, isC := k.(*ssa.Const); isC {
						if n, isN := cst.Type().(*types.Named); isN {
							keyObjSet = n.Obj()
						}
					}
				}
			}
		})
		if good && (keyObjGet == nil || keyObjSet == nil || keyObjGet != keyObjSet) {
			good, why = false, "NewContext and FromContext do not use a constant of the same private key type"
		}
		if good && keyObjGet != nil && keyObjGet.Exported() {
			good, why = false, "the context key type is exported: other packages can forge handshake metadata"
		}
		if good && nRet == 0 {
			good, why = false, "FromContext has no (meta, ok) return"
		}
		r.Check(good, "R2", "smpeer.FromContext:ok-is-private-key-assertion", c.fpos(fc), "ok = comma-ok of ctx.Value(<private key const>).(*Metadata); NewContext stores under the same private key type", why)
	}

	// ---- R3 ----
	nProd := 0
	for _, f := range c.P.LibraryFuncs() {
		for _, ci := range flow.CallInstrs(f) {
			if !flow.IsCallTo(ci, pkgSMPeer, "", "NewContext") {
				continue
			}
			call, ok := ci.(*ssa.Call)
			if !ok {
				continue
			}
			nProd++
			key := fname(f) + ":NewContext"
			// flows to SetContext
			var setc ssa.CallInstruction
			for _, ref := range flow.Referrers(call) {
				if sc, ok := ref.(ssa.CallInstruction); ok && sc.Common().IsInvoke() && sc.Common().Method.Name() == "SetContext" && flow.TypeIs(sc.Common().Value.Type(), pkgDiam, "Conn") {
					setc = sc
				}
			}
			if setc == nil {
				r.Fail("R3", key, c.pos(call), "handshake metadata is created here but not stored with Conn.SetContext of the connection")
				continue
			}
			// dominated by successful Parse — in this function, or (when the storing was moved into an
			// unexported helper) in every function that calls the helper
			hasParse := func(g *ssa.Function) bool {
				for _, cj := range flow.CallInstrs(g) {
					if flow.IsCallTo(cj, pkgSMParser, "CER", "Parse") || flow.IsCallTo(cj, pkgSMParser, "CEA", "Parse") {
						return true
					}
				}
				return false
			}
			checkAt := func(f *ssa.Function, setAt ssa.Instruction, key string) {
				var parse *ssa.Call
				parsesCER := false
				for _, cj := range flow.CallInstrs(f) {
					pc, ok := cj.(*ssa.Call)
					if !ok {
						continue
					}
					if flow.IsCallTo(pc, pkgSMParser, "CER", "Parse") {
						parse, parsesCER = pc, true
					} else if flow.IsCallTo(pc, pkgSMParser, "CEA", "Parse") {
						parse = pc
					}
				}
				if parse == nil {
					r.Fail("R3", key, c.pos(call), "handshake metadata is created in a function that does not validate a CER/CEA with Parse")
					return
				}
				if !flow.Dominates(parse, setAt) || errorEdgeBlocks(parse)[setAt.Block()] || !errEdgeTested(parse) {
					r.Fail("R3", key, c.pos(setAt), "SetContext(NewContext(...)) is not confined to the nil-error edge of Parse: a rejected peer gets handshake metadata")
					return
				}
				if p := pathFromErrEdge(f, parse, setAt); p != nil {
					r.Fail("R3", key, c.pos(setAt), "SetContext(NewContext(...)) is reachable from the error edge of Parse", c.witness(p)...)
					return
				}
				if parsesCER {
					// success CEA writer
					var writer *ssa.Call
					for _, cj := range flow.CallInstrs(f) {
						wc, ok := cj.(*ssa.Call)
						if !ok {
							continue
						}
						g := flow.StaticCallee(wc)
						if g == nil || pkgOf(g) == nil || pkgOf(g).Path() != pkgSM {
							continue
						}
						if c.answersWith(g, 2001) && c.writesMessage(g) {
							writer = wc
						}
					}
					if writer == nil {
						r.Fail("R3", key, c.pos(call), "server side: no call of a function that writes the success CEA (Answer(2001) + WriteTo) in the CER handler")
						return
					}
					passesWriter := flow.Dominates(writer, setAt) || flow.PathAvoiding(f, nil, func(in ssa.Instruction) bool { return in == setAt }, func(in ssa.Instruction) bool { return in == ssa.Instruction(writer) }) == nil
					if !passesWriter || !errEdgeTested(writer) {
						r.Fail("R3", key, c.pos(setAt), "metadata is stored before / regardless of the success CEA having been written")
						return
					}
					if p := pathFromErrEdge(f, writer, setAt); p != nil {
						r.Fail("R3", key, c.pos(setAt), "metadata is stored although writing the success CEA failed", c.witness(p)...)
						return
					}
					if g := flow.StaticCallee(writer); g != nil && g.Blocks != nil {
						if ret, w := c.writerSwallowsWriteError(g); ret != nil {
							r.Fail("R3", key, c.pos(ret), fmt.Sprintf("%s can return an error value that does not come from its message write at %s after that write failed: the caller stores the handshake metadata although no success CEA was delivered", fname(g), c.pos(w)))
							return
						}
					}
					r.Ok("R3", key, c.pos(setAt), "stored with SetContext only after CER.Parse succeeded and the success CEA was written without error (the writer returns the write's own error or a freshly constructed one whenever the write failed)")
				} else {
					r.Ok("R3", key, c.pos(setAt), "stored with SetContext only on the nil-error edge of CEA.Parse")
				}
			}
			var lift func(g *ssa.Function, at ssa.Instruction, hop int)
			lift = func(g *ssa.Function, at ssa.Instruction, hop int) {
				if hasParse(g) || hop >= 2 || g.Object() != nil && g.Object().Exported() {
					k := key
					if g != f {
						k = fname(g) + ":NewContext"
					}
					checkAt(g, at, k)
					return
				}
				css := c.librarySites(g)
				if len(css) == 0 || len(css) > 4 {
					checkAt(g, at, key)
					return
				}
				for _, cs := range css {
					lift(cs.Parent(), cs, hop+1)
				}
			}
			lift(f, setc, 0)
		}
	}
	if nProd == 0 {
		r.Fail("R3", "role:metadata-producers", "-", "no smpeer.NewContext call in the library: the handshake can never complete")
	}

	// ---- R4 ----
	c.c10Refusals()

	// ---- R5: once the exchange succeeded, every matching message reaches the application's handler ----
	// structural part: the state machine's own ServeDIAM hands every message, unfiltered, to its mux
	if sd := c.P.Method("diam/sm", "StateMachine", "ServeDIAM"); sd != nil {
		key := fname(sd) + ":forwards-every-message"
		isFwd := func(in ssa.Instruction) bool {
			call, ok := in.(*ssa.Call)
			if !ok || !flow.IsCallTo(call, pkgDiam, "ServeMux", "ServeDIAM") || len(call.Call.Args) != 3 {
				return false
			}
			return len(sd.Params) == 3 && call.Call.Args[1] == ssa.Value(sd.Params[1]) && call.Call.Args[2] == ssa.Value(sd.Params[2])
		}
		if p := flow.PathAvoiding(sd, nil, flow.IsReturn, isFwd); p != nil {
			r.Fail("R5", key, c.fpos(sd), "a message can leave the state machine's ServeDIAM without being handed to its mux: application handlers registered for it are not invoked although the peer completed the capabilities exchange", c.witness(p)...)
		} else {
			r.Ok("R5", key, c.fpos(sd), "every path hands the received (conn, message) to the state machine's mux")
		}
	} else {
		r.Undecided("R5", "role:StateMachine.ServeDIAM", "-", "(*StateMachine).ServeDIAM not found")
	}
}

func errEdgeTested(call *ssa.Call) bool { return len(errorEdgeBlocks(call)) > 0 }

// pathFromErrEdge: a path from the head of call's error region to target.
func pathFromErrEdge(f *ssa.Function, call *ssa.Call, target ssa.Instruction) []ssa.Instruction {
	eb := errorEdgeBlocks(call)
	for b := range eb {
		first := b.Instrs[0]
		if first == target {
			return []ssa.Instruction{first}
		}
		if p := flow.PathAvoiding(f, first, func(in ssa.Instruction) bool { return in == target }, func(in ssa.Instruction) bool { return in == ssa.Instruction(call) }); p != nil {
			return p
		}
	}
	return nil
}

// answersWith: g calls (*Message).Answer with the given constant.
func (c *Ctx) answersWith(g *ssa.Function, code int64) bool { return c.answersWithDepth(g, code, 0) }

func (c *Ctx) answersWithDepth(g *ssa.Function, code int64, depth int) bool {
	if g == nil || g.Blocks == nil || depth > 2 {
		return false
	}
	// … or obtains the answer from a builder of the same package
	for _, ci := range flow.CallInstrs(g) {
		if h := flow.StaticCallee(ci); h != nil && h != g && depth < 2 && c.P.IsLibrary(h) && pkgOf(h) == pkgOf(g) && h.Signature.Results().Len() >= 1 && isMsgPtr(h.Signature.Results().At(0).Type()) {
			if c.answersWithDepth(h, code, depth+1) {
				return true
			}
		}
	}
	for _, ci := range flow.CallInstrs(g) {
		if flow.IsCallTo(ci, pkgDiam, "Message", "Answer") && len(ci.Common().Args) == 2 {
			if v, ok := flow.ConstInt(ci.Common().Args[1]); ok && v == code {
				return true
			}
		}
	}
	return false
}

func (c *Ctx) writesMessage(g *ssa.Function) bool {
	for _, ci := range flow.CallInstrs(g) {
		o := flow.CalleeObj(ci)
		if o != nil && flow.RecvTypeName(o.Type().(*types.Signature)) == "Message" && strings.HasPrefix(o.Name(), "WriteTo") {
			return true
		}
	}
	return false
}

func (c *Ctx) c10Refusals() {
	r := c.R
	hf := c.P.Method("diam/sm", "StateMachine", "HandleFunc")
	hi := c.P.Method("diam/sm", "StateMachine", "HandleIdx")
	if hf == nil || hi == nil {
		r.Undecided("R4", "role:StateMachine.HandleFunc/HandleIdx", "-", "registration API not found")
		return
	}
	// HandleFunc: strings
	for _, ci := range flow.CallInstrs(hf) {
		if _, ok := isMuxRegistration(ci); !ok {
			continue
		}
		refused := map[string]bool{}
		for _, k := range c.excludedKeys(ci, hf.Params[1], func(v ssa.Value) (string, bool) { return flow.ConstString(v) }) {
			refused[k] = true
		}
		var missing []string
		for _, k := range []string{"CER", "CEA", "DWR"} {
			if !refused[k] {
				missing = append(missing, k)
			}
		}
		key := fname(hf) + ":refused-names"
		r.Check(len(missing) == 0, "R4", key, c.pos(ci), fmt.Sprintf("registration unreachable for cmd ∈ %v", keys(refused)),
			fmt.Sprintf("an application can register a handler under the built-in name(s) %v and replace the state machine's processing", missing))
	}
	// HandleIdx: globals
	want := map[string]string{"0/257/true": "CER", "0/257/false": "CEA", "0/280/true": "DWR"}
	idxKey := func(v ssa.Value) (string, bool) {
		gl := loadedGlobal(v)
		if gl == nil {
			return "", false
		}
		vals, ok := c.globalStructLit(gl)
		if !ok {
			return "", false
		}
		var app, code int64
		req := false
		if v, ok := vals["AppID"]; ok {
			app, _ = constant.Int64Val(v)
		}
		if v, ok := vals["Code"]; ok {
			code, _ = constant.Int64Val(v)
		}
		if v, ok := vals["Request"]; ok {
			req = constant.BoolVal(v)
		}
		return fmt.Sprintf("%d/%d/%v", app, code, req), true
	}
	for _, ci := range flow.CallInstrs(hi) {
		if _, ok := isMuxRegistration(ci); !ok {
			continue
		}
		refused := map[string]bool{}
		for _, k := range c.excludedKeys(ci, hi.Params[1], idxKey) {
			refused[k] = true
		}
		var missing []string
		for k, n := range want {
			if !refused[k] {
				missing = append(missing, n)
			}
		}
		sort.Strings(missing)
		key := fname(hi) + ":refused-indexes"
		r.Check(len(missing) == 0, "R4", key, c.pos(ci), fmt.Sprintf("registration unreachable for %d built-in command indexes (0,257,R) (0,257,A) (0,280,R)", len(refused)),
			fmt.Sprintf("an application can register a handler under the built-in index of %v and replace the state machine's processing", missing))
	}
}

// excludedKeys: the constant keys K for which instruction in is unreachable because a dominating guard implies
// param != K: comparisons of param with K, or a package-local predicate over param whose result is true for K
// (a chain of param == K alternatives) on its false edge.
func (c *Ctx) excludedKeys(in ssa.Instruction, param ssa.Value, keyOf func(ssa.Value) (string, bool)) []string {
	var out []string
	for _, g := range flow.Guards(in) {
		cond, neg := flow.Cond(g.If.Cond, g.Taken)
		switch x := cond.(type) {
		case *ssa.BinOp:
			var other ssa.Value
			if x.X == param {
				other = x.Y
			} else if x.Y == param {
				other = x.X
			}
			if other == nil {
				continue
			}
			if k, ok := keyOf(other); ok && ((x.Op == token.EQL && neg) || (x.Op == token.NEQ && !neg)) {
				out = append(out, k)
			}
		case *ssa.Call:
			if !neg {
				continue
			}
			h := flow.StaticCallee(x)
			if h == nil || h.Blocks == nil || !c.P.IsLibrary(h) {
				continue
			}
			for i, a := range x.Call.Args {
				if a == param && i < len(h.Params) {
					out = append(out, trueKeys(h, h.Params[i], keyOf)...)
				}
			}
		}
	}
	return out
}

// trueKeys: constants K such that the boolean function h returns true whenever its parameter p equals K
// (p == K1 || p == K2 || …, or a switch returning true).
func trueKeys(h *ssa.Function, p *ssa.Parameter, keyOf func(ssa.Value) (string, bool)) []string {
	var out []string
	eqKey := func(v ssa.Value) (string, bool) {
		bo, ok := v.(*ssa.BinOp)
		if !ok || bo.Op != token.EQL {
			return "", false
		}
		if bo.X == ssa.Value(p) {
			return keyOf(bo.Y)
		}
		if bo.Y == ssa.Value(p) {
			return keyOf(bo.X)
		}
		return "", false
	}
	var visit func(v ssa.Value, at ssa.Instruction, d int)
	visit = func(v ssa.Value, at ssa.Instruction, d int) {
		if d > 4 {
			return
		}
		if k, ok := eqKey(v); ok {
			out = append(out, k)
			return
		}
		switch x := v.(type) {
		case *ssa.Const:
			if x.Value != nil && x.Value.Kind() == constant.Bool && constant.BoolVal(x.Value) && at != nil {
				// constant true: the keys whose equality edge leads here
				for _, g := range flow.Guards(at) {
					if g.Taken {
						if k, ok := eqKey(g.If.Cond); ok {
							out = append(out, k)
						}
					}
				}
			}
		case *ssa.Phi:
			for i, e := range x.Edges {
				pred := x.Block().Preds[i]
				if k, isK := e.(*ssa.Const); isK && k.Value != nil && k.Value.Kind() == constant.Bool && constant.BoolVal(k.Value) {
					// true arriving over the taken edge of "p == K"
					if ifi, ok := pred.Instrs[len(pred.Instrs)-1].(*ssa.If); ok && pred.Succs[0] == x.Block() {
						if kk, ok := eqKey(ifi.Cond); ok {
							out = append(out, kk)
						}
					}
					for _, g := range flow.Guards(pred.Instrs[len(pred.Instrs)-1]) {
						if g.Taken {
							if kk, ok := eqKey(g.If.Cond); ok {
								out = append(out, kk)
							}
						}
					}
					continue
				}
				visit(e, nil, d+1)
			}
		}
	}
	flow.Instrs(h, func(in ssa.Instruction) {
		if ret, ok := in.(*ssa.Return); ok && len(ret.Results) == 1 {
			visit(ret.Results[0], ret, 0)
		}
	})
	return out
}

func keys(m map[string]bool) []string {
	var out []string
	for k := range m {
		out = append(out, k)
	}
	sort.Strings(out)
	return out
}

// globalStructLit evaluates the composite-literal initialiser of a package-level struct
// variable from the AST (constant fields only). Unkeyed fields default to zero values.
func (c *Ctx) globalStructLit(g *ssa.Global) (map[string]constant.Value, bool) {
	obj := g.Object()
	if obj == nil {
		return nil, false
	}
	for _, pkg := range c.P.Pkgs {
		if pkg.Types != obj.Pkg() {
			continue
		}
		for _, file := range pkg.Syntax {
			for _, d := range file.Decls {
				gd, ok := d.(*ast.GenDecl)
				if !ok || gd.Tok != token.VAR {
					continue
				}
				for _, sp := range gd.Specs {
					vs := sp.(*ast.ValueSpec)
					for i, n := range vs.Names {
						if pkg.TypesInfo.Defs[n] != obj || i >= len(vs.Values) {
							continue
						}
						cl, ok := vs.Values[i].(*ast.CompositeLit)
						if !ok {
							return nil, false
						}
						st, ok := obj.Type().Underlying().(*types.Struct)
						if !ok {
							return nil, false
						}
						out := map[string]constant.Value{}
						for fi := 0; fi < st.NumFields(); fi++ {
							f := st.Field(fi)
							switch b := f.Type().Underlying().(type) {
							case *types.Basic:
								if b.Info()&types.IsBoolean != 0 {
									out[f.Name()] = constant.MakeBool(false)
								} else if b.Info()&types.IsNumeric != 0 {
									out[f.Name()] = constant.MakeInt64(0)
								}
							}
						}
						for ei, e := range cl.Elts {
							var name string
							var val ast.Expr
							if kv, ok := e.(*ast.KeyValueExpr); ok {
								name = kv.Key.(*ast.Ident).Name
								val = kv.Value
							} else {
								name = st.Field(ei).Name()
								val = e
							}
							tv, ok := pkg.TypesInfo.Types[val]
							if !ok || tv.Value == nil {
								return nil, false
							}
							out[name] = tv.Value
						}
						return out, true
					}
				}
			}
		}
	}
	return nil, false
}

// peerKnownTest: cond (negations already peeled) is "the peer has completed the capabilities exchange": the ok
// result of smpeer.FromContext(ctx), or a package-local predicate that returns exactly that for its argument.
// It returns the context expression the test is applied to.
func peerKnownTest(cond ssa.Value, depth int) (ssa.Value, bool) {
	switch x := cond.(type) {
	case *ssa.Extract:
		if x.Index != 1 {
			return nil, false
		}
		fc, ok := x.Tuple.(*ssa.Call)
		if !ok || !flow.IsCallTo(fc, pkgSMPeer, "", "FromContext") {
			return nil, false
		}
		return fc.Call.Args[0], true
	case *ssa.Call:
		h := flow.StaticCallee(x)
		if h == nil || h.Blocks == nil || depth > 1 || pkgOf(h) == nil || pkgOf(h).Path() != pkgSM {
			return nil, false
		}
		rvs := flow.ReturnValues(h, 0)
		if len(rvs) != 1 {
			return nil, false
		}
		inner, ok := peerKnownTest(rvs[0], depth+1)
		if !ok {
			return nil, false
		}
		// the context inside the helper: one of its parameters, or Context() of one of them
		if p, isP := flow.Peel(inner).(*ssa.Parameter); isP && p.Parent() == h {
			if i := paramIndex(h, p); i < len(x.Call.Args) {
				return x.Call.Args[i], true
			}
		}
		if ic, isC := inner.(*ssa.Call); isC && ic.Call.IsInvoke() && ic.Call.Method.Name() == "Context" {
			if p, isP := flow.Peel(ic.Call.Value).(*ssa.Parameter); isP && p.Parent() == h {
				if i := paramIndex(h, p); i < len(x.Call.Args) {
					return connContextOf(x.Call.Args[i]), true
				}
			}
		}
	}
	return nil, false
}

// connContextOf marks "Context() of this connection value" for callers that compare against a connection.
type ctxOfConn struct{ ssa.Value }

func connContextOf(conn ssa.Value) ssa.Value { return ctxOfConn{conn} }

// contextIsOfConn: ctx is conn.Context().
func contextIsOfConn(ctx, conn ssa.Value) bool {
	if w, ok := ctx.(ctxOfConn); ok {
		return w.Value == conn
	}
	ac, ok := ctx.(*ssa.Call)
	return ok && ac.Call.IsInvoke() && ac.Call.Method.Name() == "Context" && ac.Call.Value == conn
}

// writerSwallowsWriteError: g writes a message (a (*Message).WriteTo* call) and has a return, reachable after a failed
// write, whose error result neither derives from that write's error nor is a freshly constructed error. It returns
// the offending return and the write, or nil. A return that can only be reached over the nil-error edge of the
// tested write error may return anything (the write succeeded there).
func (c *Ctx) writerSwallowsWriteError(g *ssa.Function) (*ssa.Return, *ssa.Call) {
	res := g.Signature.Results()
	idx := -1
	for i := 0; i < res.Len(); i++ {
		if isErrorType(res.At(i).Type()) {
			idx = i
		}
	}
	if idx < 0 {
		return nil, nil
	}
	for _, ci := range flow.CallInstrs(g) {
		w, ok := ci.(*ssa.Call)
		if !ok {
			continue
		}
		o := flow.CalleeObj(w)
		if o == nil || flow.RecvTypeName(o.Type().(*types.Signature)) != "Message" || !strings.HasPrefix(o.Name(), "WriteTo") {
			continue
		}
		werr := errorResult(w)
		if werr == nil {
			continue
		}
		tested := errEdgeTested(w)
		for _, b := range g.Blocks {
			if len(b.Instrs) == 0 {
				continue
			}
			ret, ok := b.Instrs[len(b.Instrs)-1].(*ssa.Return)
			if !ok || idx >= len(ret.Results) {
				continue
			}
			if flow.PathAvoiding(g, w, func(in ssa.Instruction) bool { return in == ssa.Instruction(ret) }, nil) == nil {
				continue
			}
			if tested && pathFromErrEdge(g, w, ret) == nil {
				continue
			}
			if !errCarries(ret.Results[idx], w, map[ssa.Value]bool{}, 0) {
				return ret, w
			}
		}
	}
	return nil, nil
}

// errCarries: v is, on every merge input, either derived from call w's results (directly, wrapped by a call that
// takes it as an argument, or moved through a local cell) or a freshly constructed error (a call into fmt / errors,
// a concrete value converted to the interface).
func errCarries(v ssa.Value, w *ssa.Call, seen map[ssa.Value]bool, depth int) bool {
	if v == ssa.Value(w) {
		return true
	}
	if seen[v] || depth > 12 {
		return seen[v]
	}
	seen[v] = true
	switch x := v.(type) {
	case *ssa.Extract:
		return x.Tuple == ssa.Value(w)
	case *ssa.Phi:
		for _, e := range x.Edges {
			if !errCarries(e, w, seen, depth+1) {
				return false
			}
		}
		return len(x.Edges) > 0
	case *ssa.MakeInterface:
		return true
	case *ssa.ChangeInterface:
		return errCarries(x.X, w, seen, depth+1)
	case *ssa.ChangeType:
		return errCarries(x.X, w, seen, depth+1)
	case *ssa.Call:
		if f := flow.StaticCallee(x); f != nil && f.Pkg != nil {
			if p := f.Pkg.Pkg.Path(); p == "fmt" || p == "errors" {
				return true
			}
		}
		for _, a := range x.Call.Args {
			if isErrorType(a.Type()) && errCarries(a, w, seen, depth+1) {
				return true
			}
		}
		return false
	case *ssa.UnOp:
		if x.Op == token.MUL {
			if _, ok := x.X.(*ssa.Alloc); ok {
				srcs := flow.SpillSources(x)
				if len(srcs) == 0 {
					return false
				}
				// a cell is flow-insensitive here: accept when some stored value carries the write's error
				for _, s := range srcs {
					if s != v && errCarries(s, w, seen, depth+1) {
						return true
					}
				}
			}
		}
		return false
	}
	return false
}
