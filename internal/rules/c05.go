package rules

import (
	"fmt"
	"go/token"
	"go/types"
	"strings"

	"golang.org/x/tools/go/ssa"

	"verif/internal/flow"
)

func init() {
	register(&RuleSet{
		Property:  "C05",
		Title:     "Message boundaries in a byte stream follow the declared message length",
		Run:       runC05,
		Technique: "consumption-site census on the read path (full-read combinators only), provenance of the body length, interprocedural guard dominance, error-origin tracing",
		Explanation: "Decides on the current source, for every function reachable by plain calls from ReadMessage: R1 the message source (every io.Reader / MultistreamReader value) is consumed only through io.ReadFull, io.ReadAtLeast / MultistreamReader.ReadAtLeast with min = len(buffer), or io.CopyN — never a bare Read or a buffering wrapper; " +
			"R2 the buffer of the header read is the one handed to the header decoder and has constant length HeaderLength (20); " +
			"R3 the body is read either in one full read of a buffer whose length is, by provenance, MessageLength − HeaderLength of the decoded header, or in a chunk loop that continues exactly while len(b) < that value, reads into b[len(b):cap(b)], and only allocates capacities ≤ that value (so exactly the declared length is consumed); " +
			"R4 the unsigned subtraction MessageLength − HeaderLength is reached only after a guard rejecting MessageLength < HeaderLength whose failing edge returns an error before any further read (followed through the caller); " +
			"R5 when the header read fails, ReadMessage returns the read combinator's error itself (or a %w wrapping), so io.EOF between messages stays recognisable, and a failed body read returns a non-nil error; " +
			"R6 read-path functions store to no package-level variable (no cursor carried between messages). " +
			"R5 also: in every library function that calls the read path and tests its error, no path leads from the error edge of a message read back to a read of the same connection (after a failed or partial read the stream position is inside a message; reading on would attribute its bytes to another message), and the header decode error and the length-guard error are propagated. " +
			"R5 also: the error of a body read is never returned unconverted — a full-read combinator reports io.EOF when the stream ends exactly where a body read starts (right after the header, at a chunk boundary), and handed on as it is a message cut short would read as a clean end of stream. " +
			"With io.ReadFull's contract these imply the statement for every fragmentation; the fragmentation quantifier itself is discharged by that contract, not enumerated. Not decided: bufio.Reader internals, SCTP stream selection (C19).",
		Rules: map[string]string{
			"R1": "reader consumed only through full-read combinators with min = len(buffer)",
			"R2": "header read buffer = header decode input, constant length 20",
			"R3": "total body length = MessageLength − HeaderLength by provenance (single read or exact chunk loop)",
			"R4": "MessageLength ≥ HeaderLength guard dominates the subtraction / body read; failing edge returns an error",
			"R5": "header-read error returned unmodified (or %w); body-read failure returns non-nil error",
			"R6": "no stores to package-level state on the read path",
		},
		MinInstances: map[string]int{"R1": 2, "R2": 1, "R3": 1, "R4": 1, "R5": 2, "R6": 1},
		Assumptions:  []string{"io.ReadFull / io.ReadAtLeast(min=len(p)) return nil only when exactly len(p) bytes were read, io.EOF only when none were (package io contract)", "MultistreamReader.ReadAtLeast has the io.ReadAtLeast contract per stream"},
	})
}

func isReaderType(t types.Type) bool {
	return flow.TypeIs(t, "io", "Reader") || flow.TypeIs(t, pkgDiam, "MultistreamReader") || flow.TypeIs(t, pkgDiam, "MultistreamConn")
}

type readSite struct {
	fn   *ssa.Function
	call ssa.CallInstruction
	buf  ssa.Value
	min  ssa.Value // nil for ReadFull
	kind string
	// inner: the read calls inside helpers when the site has been lifted to the helper's call site
	inner []ssa.CallInstruction
}

func (c *Ctx) readPath() map[*ssa.Function]bool {
	rm := c.P.Func("diam", "ReadMessage")
	if rm == nil {
		return nil
	}
	rp := c.reach([]*ssa.Function{rm}, false, false, false)
	// function values created on the read path (method values, closures handed to walk helpers) run on it too
	for changed := true; changed; {
		changed = false
		var extra []*ssa.Function
		for f := range rp {
			flow.Instrs(f, func(in ssa.Instruction) {
				if mc, ok := in.(*ssa.MakeClosure); ok {
					if g := flow.Unwrap(mc.Fn.(*ssa.Function)); g != nil && !rp[g] && c.P.IsLibrary(g) {
						extra = append(extra, g)
					}
				}
			})
		}
		if len(extra) > 0 {
			for g := range c.reach(extra, false, false, false) {
				if !rp[g] {
					rp[g] = true
					changed = true
				}
			}
		}
	}
	for f := range rp {
		if !c.P.IsLibrary(f) || pkgOf(f).Path() != pkgDiam {
			delete(rp, f)
		}
	}
	return rp
}

func (c *Ctx) c05Sites(rp map[*ssa.Function]bool) (sites []readSite) {
	r := c.R
	for _, f := range c.P.LibraryFuncs() {
		if !rp[f] {
			continue
		}
		for _, ci := range flow.CallInstrs(f) {
			com := ci.Common()
			key := fmt.Sprintf("%s:%s", fname(f), calleeLabel(ci))
			if com.IsInvoke() && isReaderType(com.Value.Type()) {
				switch com.Method.Name() {
				case "Read", "ReadAny", "ReadStream":
					r.Fail("R1", key, c.pos(ci), "the message source is consumed with a bare "+com.Method.Name()+": a short read truncates the message and shifts every following boundary")
				case "ReadAtLeast":
					sites = append(sites, readSite{fn: f, call: ci, buf: com.Args[0], min: com.Args[1], kind: "MultistreamReader.ReadAtLeast"})
				default:
					// non-consuming control methods (SetCurrentStream, ...)
				}
				continue
			}
			g := flow.StaticCallee(ci)
			hasReaderArg := false
			for _, a := range com.Args {
				if isReaderType(a.Type()) {
					hasReaderArg = true
				}
			}
			if !hasReaderArg || g == nil {
				continue
			}
			if c.P.InModule(pkgOf(g)) {
				continue // analysed as part of the read path
			}
			o := flow.CalleeObj(ci)
			switch {
			case flow.IsFuncObj(o, "io", "", "ReadFull"):
				sites = append(sites, readSite{fn: f, call: ci, buf: com.Args[1], min: nil, kind: "io.ReadFull"})
			case flow.IsFuncObj(o, "io", "", "ReadAtLeast"):
				sites = append(sites, readSite{fn: f, call: ci, buf: com.Args[1], min: com.Args[2], kind: "io.ReadAtLeast"})
			case flow.IsFuncObj(o, "io", "", "CopyN"):
				sites = append(sites, readSite{fn: f, call: ci, buf: nil, min: com.Args[2], kind: "io.CopyN"})
			default:
				r.Fail("R1", key, c.pos(ci), fmt.Sprintf("the message source is handed to %s, which may read fewer or more bytes than the declared length", o.FullName()))
			}
		}
	}
	// a read whose buffer is handed in by the caller is a read of the caller's buffer: lift the site to the
	// helper's call sites (each of them, when a shared full-read helper serves the header and the body), so
	// that the helper counts where it is used
	for d := 0; d < 2; d++ {
		var next []readSite
		for _, s := range sites {
			bp, isP := flow.Peel(s.buf).(*ssa.Parameter)
			if s.buf == nil || !isP || bp.Parent() != s.fn || s.fn.Object() != nil && s.fn.Object().Exported() {
				next = append(next, s)
				continue
			}
			css := c.librarySites(s.fn)
			if s.fn.Parent() != nil {
				// a read closure: its call sites are the calls of the function value
				css = c.closureCallSites(s.fn)
			}
			if len(css) == 0 || len(css) > 4 {
				next = append(next, s)
				continue
			}
			// the minimum, if any, must be expressible at the call site
			min := s.min
			if min != nil {
				if x, ok := builtinOf(min, "len"); ok && flow.Peel(x) == ssa.Value(bp) {
					min = nil // min == len(buffer) inside the helper: a full read of whatever is handed in
				} else if _, isK := flow.ConstInt(min); !isK {
					next = append(next, s)
					continue
				}
			}
			for _, cs := range css {
				ls := s
				ls.min = min
				ls.inner = append(append([]ssa.CallInstruction{}, s.inner...), s.call)
				ls.buf = cs.Common().Args[paramIndex(s.fn, bp)]
				ls.fn, ls.call = cs.Parent(), cs
				next = append(next, ls)
			}
		}
		sites = next
	}
	for _, s := range sites {
		key := fmt.Sprintf("%s:%s", fname(s.fn), s.kind)
		if s.min == nil || s.kind == "io.CopyN" {
			r.Ok("R1", key, c.pos(s.call), s.kind+" reads exactly the requested bytes")
			continue
		}
		// min == len(buf)
		good := false
		if x, ok := builtinOf(s.min, "len"); ok && x == s.buf {
			good = true
		}
		if k, ok := flow.ConstInt(s.min); ok {
			if n, ok2 := sliceConstLen(s.buf); ok2 && n == k {
				good = true
			}
		}
		r.Check(good, "R1", key, c.pos(s.call), s.kind+" with min = len(buffer): a full read", s.kind+" is called with a minimum that is not the buffer length: fewer bytes than the declared length may be consumed")
	}
	return sites
}

func runC05(c *Ctx) {
	r := c.R
	rp := c.readPath()
	if len(rp) == 0 {
		r.Undecided("R1", "role:ReadPath", "-", "diam.ReadMessage not found")
		return
	}
	r.Role("ReadPath", fmt.Sprint(sortedFuncNames(rp)))
	sites := c.c05Sites(rp)
	if len(sites) == 0 {
		r.Fail("R1", "role:read-sites", "-", "no full-read call on the read path")
		return
	}

	// ---- header decode call ----
	var hdec ssa.CallInstruction
	for f := range rp {
		for _, ci := range flow.CallInstrs(f) {
			if flow.IsCallTo(ci, pkgDiam, "", "DecodeHeader") || flow.IsCallTo(ci, pkgDiam, "Header", "DecodeFromBytes") {
				if hdec == nil || fname(ci.Parent()) < fname(hdec.Parent()) {
					if flow.IsCallTo(ci, pkgDiam, "", "DecodeHeader") || hdec == nil {
						hdec = ci
					}
				}
			}
		}
	}
	// prefer the call outside DecodeHeader itself
	for f := range rp {
		if f.Name() == "DecodeHeader" {
			continue
		}
		for _, ci := range flow.CallInstrs(f) {
			if flow.IsCallTo(ci, pkgDiam, "", "DecodeHeader") || flow.IsCallTo(ci, pkgDiam, "Header", "DecodeFromBytes") {
				hdec = ci
			}
		}
	}
	if hdec == nil {
		r.Undecided("R2", "role:header-decode", "-", "no header decode call on the read path")
		return
	}
	hbuf := hdec.Common().Args[len(hdec.Common().Args)-1]
	// the decode step may sit in a helper that is handed the bytes: the header buffer is then the caller's
	hdecChain := []ssa.CallInstruction{hdec} // innermost first
	for d := 0; d < 2; d++ {
		here := false
		for _, s := range sites {
			if s.fn == hdec.Parent() && s.buf == hbuf {
				here = true
			}
		}
		bp, isP := flow.Peel(hbuf).(*ssa.Parameter)
		if here || !isP || bp.Parent() != hdec.Parent() || (bp.Parent().Object() != nil && bp.Parent().Object().Exported()) {
			break
		}
		cs := c.uniqueSite(bp.Parent())
		if cs == nil || !rp[cs.Parent()] {
			break
		}
		hbuf = cs.Common().Args[paramIndex(bp.Parent(), bp)]
		hdec = cs
		hdecChain = append(hdecChain, cs)
	}
	var headerSites, bodySites []readSite
	for _, s := range sites {
		if s.fn == hdec.Parent() && s.buf == hbuf {
			headerSites = append(headerSites, s)
		} else {
			bodySites = append(bodySites, s)
		}
	}
	// ---- R2 ----
	key := fname(hdec.Parent()) + ":header-buffer"
	if len(headerSites) == 0 {
		r.Fail("R2", key, c.pos(hdec), "the buffer given to the header decoder is not the buffer filled by a full read")
	} else {
		n, ok := sliceConstLen(hbuf)
		r.Check(ok && n == 20, "R2", key, c.pos(hdec), fmt.Sprintf("%d full read(s) fill the 20-byte buffer that is decoded as header", len(headerSites)),
			"the header read buffer does not have the constant length HeaderLength (20)")
		for _, s := range headerSites {
			if !flow.Dominates(s.call, hdec) && s.call.Block() != hdec.Block() {
				// reads are in sibling branches joining before the decode: require every path entry->decode passes one of them
			}
		}
		isHS := func(in ssa.Instruction) bool {
			for _, s := range headerSites {
				if ssa.Instruction(s.call) == in {
					return true
				}
			}
			return false
		}
		// read and decode may both sit in one helper handed the buffer: they are then ordered inside it — look at
		// the outermost level at which the read and the decode are different instructions
		ordFn, ordDec := hdec.Parent(), ssa.Instruction(hdec)
		ordHS := isHS
		for k := len(hdecChain) - 1; k >= 0; k-- {
			fk := hdecChain[k].Parent()
			var at []ssa.Instruction
			same := false
			for _, s := range headerSites {
				for _, x := range append(append([]ssa.CallInstruction{}, s.inner...), s.call) {
					if x.Parent() == fk {
						at = append(at, x)
						if x == hdecChain[k] {
							same = true
						}
					}
				}
			}
			if !same && len(at) > 0 {
				ordFn, ordDec = fk, hdecChain[k]
				ordHS = func(in ssa.Instruction) bool {
					for _, x := range at {
						if x == in {
							return true
						}
					}
					return false
				}
				break
			}
		}
		if p := flow.PathAvoiding(ordFn, nil, func(in ssa.Instruction) bool { return in == ordDec }, ordHS); p != nil {
			r.Fail("R2", fname(hdec.Parent())+":header-read-before-decode", c.pos(hdec), "a path reaches the header decode without a full header read", c.witness(p)...)
		} else {
			r.Ok("R2", fname(hdec.Parent())+":header-read-before-decode", c.pos(hdec), "every path to the header decode passes a full header read")
		}
	}

	// ---- R3 ----
	var bodyLen ssa.Value // the value that must be MessageLength-HeaderLength
	if len(bodySites) == 0 {
		r.Fail("R3", "role:body-read", "-", "no body read on the read path")
	}
	for _, s := range bodySites {
		key := fmt.Sprintf("%s:body-length@%s", fname(s.fn), s.kind)
		l, how, why := c.bodyTotal(s)
		if l == nil {
			r.Fail("R3", key, c.pos(s.call), why)
			continue
		}
		if !isMsgLenMinusHeader(l) && isMsgLenMinusHeader(c.up(l)) {
			l = c.up(l)
		}
		// the length handed out by a helper of the header, (n, ok): every return that reports ok carries
		// MessageLength − HeaderLength (the not-ok return is the length guard's business, R4)
		if ex, isEx := flow.Peel(l).(*ssa.Extract); isEx && !isMsgLenMinusHeader(l) {
			if hc, isCall := ex.Tuple.(*ssa.Call); isCall {
				if h := flow.StaticCallee(hc); h != nil && h.Blocks != nil && c.P.IsLibrary(h) && len(flow.Loops(h)) == 0 {
					var good ssa.Value
					okAll := true
					flow.Instrs(h, func(in ssa.Instruction) {
						ret, isRet := in.(*ssa.Return)
						if !isRet || ret.Block() == h.Recover || len(ret.Results) <= ex.Index {
							return
						}
						declined := false
						for i, rv := range ret.Results {
							if k, isK := rv.(*ssa.Const); isK && i != ex.Index && k.Value != nil && k.Value.String() == "false" {
								declined = true
							}
						}
						if declined {
							return
						}
						if isMsgLenMinusHeader(ret.Results[ex.Index]) {
							good = ret.Results[ex.Index]
						} else {
							okAll = false
						}
					})
					if okAll && good != nil {
						l = good
					}
				}
			}
		}
		if !isMsgLenMinusHeader(l) {
			r.Fail("R3", key, c.pos(s.call), fmt.Sprintf("the number of body bytes read (%s) is not MessageLength − HeaderLength of the decoded header", short(l.String(), 50)))
			continue
		}
		bodyLen = l
		r.Ok("R3", key, c.pos(s.call), how+"; total = int(m.Header.MessageLength − 20) by provenance")
	}

	// ---- R4 ----
	c.c05Guard(rp, bodyLen)

	// ---- R5 ----
	c.c05Errors(headerSites, bodySites)

	// ---- R5 (continued): a failed read ends the reading of that stream — it is never retried ----
	// After ReadMessage failed, an unknown number of bytes of the current message have been consumed; reading
	// again starts in the middle of a message and attributes its bytes to another one. In every library function
	// that calls into the read path (directly or through a helper), no path leads from the error edge of such a
	// call back to such a call.
	{
		rm := c.P.Func("diam", "ReadMessage")
		memo := map[*ssa.Function]bool{}
		reads := func(g *ssa.Function) bool {
			if g == nil {
				return false
			}
			if v, ok := memo[g]; ok {
				return v
			}
			v := g == rm || c.reachesFunc(g, rm, map[*ssa.Function]bool{})
			memo[g] = v
			return v
		}
		n := 0
		for _, f := range c.P.LibraryFuncs() {
			if pkgOf(f).Path() != pkgDiam || rp[f] {
				continue
			}
			var calls []*ssa.Call
			for _, ci := range flow.CallInstrs(f) {
				if call, ok := ci.(*ssa.Call); ok && reads(flow.StaticCallee(call)) && errorResult(call) != nil {
					calls = append(calls, call)
				}
			}
			if len(calls) == 0 {
				continue
			}
			isRead := func(in ssa.Instruction) bool {
				for _, x := range calls {
					if ssa.Instruction(x) == in {
						return true
					}
				}
				return false
			}
			for _, call := range calls {
				n++
				key := fmt.Sprintf("%s:no-retry-after-%s-error", fname(f), calleeLabel(call))
				var w []ssa.Instruction
				for b := range errorEdgeBlocks(call) {
					if isRead(b.Instrs[0]) {
						w = []ssa.Instruction{b.Instrs[0]}
						break
					}
					if p := flow.PathAvoiding(f, b.Instrs[0], isRead, nil); p != nil {
						w = p
						break
					}
				}
				if w != nil {
					r.Fail("R5", key, c.pos(call), "after a failed read the same stream is read again: the next read starts in the middle of the interrupted message and its bytes are attributed to another message", c.witness(w)...)
				} else {
					r.Ok("R5", key, c.pos(call), "no path from the read's error edge back to a read")
				}
			}
		}
		if n == 0 {
			r.Undecided("R5", "role:read-callers", "-", "no library function calls the read path and tests its error")
		}
	}

	// ---- R6 ----
	nStores := 0
	for f := range rp {
		flow.Instrs(f, func(in ssa.Instruction) {
			st, ok := in.(*ssa.Store)
			if !ok {
				return
			}
			root := st.Addr
			for {
				switch x := root.(type) {
				case *ssa.FieldAddr:
					root = x.X
					continue
				case *ssa.IndexAddr:
					root = x.X
					continue
				}
				break
			}
			if g, ok := root.(*ssa.Global); ok {
				nStores++
				r.Fail("R6", fname(f)+":store-global-"+g.Name(), c.pos(st), "the read path writes package-level state: framing state can leak from one message (or connection) to the next")
			}
		})
		flow.Instrs(f, func(in ssa.Instruction) {
			mu, ok := in.(*ssa.MapUpdate)
			if !ok {
				return
			}
			root := mu.Map
			for i := 0; i < 8; i++ {
				switch x := root.(type) {
				case *ssa.FieldAddr:
					root = x.X
					continue
				case *ssa.Field:
					root = x.X
					continue
				case *ssa.UnOp:
					root = x.X
					continue
				}
				break
			}
			if g, ok := root.(*ssa.Global); ok {
				nStores++
				r.Fail("R6", fname(f)+":update-global-map-"+g.Name(), c.pos(mu), "the read path updates a package-level map: what one message (or connection) left there shapes how the next is read")
			}
		})
	}
	if nStores == 0 {
		r.Ok("R6", "ReadPath:no-global-stores", "-", fmt.Sprintf("%d read-path functions store to no package-level variable", len(rp)))
	}
}

func isMsgLenMinusHeader(v ssa.Value) bool {
	v = flow.Peel(v)
	bo, ok := v.(*ssa.BinOp)
	if !ok || bo.Op != token.SUB {
		return false
	}
	k, ok := flow.ConstInt(bo.Y)
	if !ok || k != 20 {
		return false
	}
	tn, fld, _, ok := flow.FieldOf(flow.Peel(bo.X))
	return ok && tn == "Header" && fld == "MessageLength"
}

// bodyTotal determines the total number of bytes the body read consumes on success.
func (c *Ctx) bodyTotal(s readSite) (total ssa.Value, how, why string) {
	if s.kind == "io.CopyN" {
		return s.min, "io.CopyN of n bytes", ""
	}
	f := s.fn
	loops := flow.Loops(f)
	l := flow.InnermostLoop(loops, s.call)
	if l == nil {
		// shape A: single read; buffer length
		switch b := s.buf.(type) {
		case *ssa.MakeSlice:
			return b.Len, "single full read into make([]byte, n)", ""
		case *ssa.Slice:
			if b.Low == nil && b.High != nil {
				return b.High, "single full read into x[:n]", ""
			}
		case *ssa.Call:
			// helper returning a buffer of length l (e.g. readerBufferSlice(buf, l)): every return is make(l) or x[:l]
			if g := flow.StaticCallee(b); g != nil && c.P.InModule(pkgOf(g)) {
				var idx = -1
				for _, rv := range flow.ReturnValues(g, 0) {
					var n ssa.Value
					switch x := rv.(type) {
					case *ssa.MakeSlice:
						n = x.Len
					case *ssa.Slice:
						if x.Low == nil {
							n = x.High
						}
					}
					p, ok := n.(*ssa.Parameter)
					if !ok {
						return nil, "", "cannot determine the length of the body buffer returned by " + g.Name()
					}
					for i, gp := range g.Params {
						if gp == p {
							if idx >= 0 && idx != i {
								return nil, "", "body buffer helper returns buffers of different lengths"
							}
							idx = i
						}
					}
				}
				if idx >= 0 {
					return b.Call.Args[idx], "single full read into the buffer of length n returned by " + g.Name(), ""
				}
			}
		}
		return nil, "", "cannot determine the length of the body read buffer"
	}
	// shape B: chunk loop. buffer must be b[len(b):cap(b)] (or High <= cap) of a loop-carried b
	sl, ok := s.buf.(*ssa.Slice)
	if !ok {
		return nil, "", "chunked body read: the chunk is not a slice of the accumulated buffer"
	}
	if x, ok := builtinOf(sl.Low, "len"); !ok || x != sl.X {
		return nil, "", "chunked body read: the chunk does not start at len(b)"
	}
	if x, ok := builtinOf(sl.High, "cap"); !ok || x != sl.X {
		return nil, "", "chunked body read: the chunk does not end at cap(b)"
	}
	// loop condition: len(b) < L on the edge into the body, b the header phi
	var bound ssa.Value
	var bphi *ssa.Phi
	for _, g := range flow.Guards(s.call) {
		if !l.Blocks[g.If.Block()] {
			continue
		}
		rl, ok := condRel(g.If.Cond, g.Taken)
		if !ok {
			continue
		}
		if x, ok := builtinOf(rl.a, "len"); ok && rl.op == token.LSS {
			if ph, ok := x.(*ssa.Phi); ok && ph.Block() == l.Head {
				bound, bphi = rl.b, ph
			}
		}
		if x, ok := builtinOf(rl.b, "len"); ok && rl.op == token.GTR {
			if ph, ok := x.(*ssa.Phi); ok && ph.Block() == l.Head {
				bound, bphi = rl.a, ph
			}
		}
	}
	if bound == nil {
		return nil, "", "chunked body read: the loop is not guarded by len(b) < total"
	}
	// the slice base derives from bphi (possibly through the grow step)
	// every allocation feeding b has capacity <= bound
	okCap := true
	var visit func(v ssa.Value, depth int)
	seen := map[ssa.Value]bool{}
	visit = func(v ssa.Value, depth int) {
		if seen[v] || depth > 8 {
			return
		}
		seen[v] = true
		switch x := v.(type) {
		case *ssa.Phi:
			for _, e := range x.Edges {
				visit(e, depth+1)
			}
		case *ssa.Slice:
			// b[:len(b)+n] keeps capacity; b[lo:hi:max] caps it at max-lo <= max
			if x.Max != nil {
				capOK := leq(x.Max, bound, 0)
				if bo, ok := x.Max.(*ssa.BinOp); ok && bo.Op == token.ADD && x.Low != nil {
					// cap = max - low: max = low + v with v <= bound
					if sameVal(bo.X, x.Low) && leq(bo.Y, bound, 0) || sameVal(bo.Y, x.Low) && leq(bo.X, bound, 0) {
						capOK = true
					}
				}
				if !capOK {
					okCap = false
				}
				return
			}
			visit(x.X, depth+1)
		case *ssa.MakeSlice:
			if !leq(x.Cap, bound, 0) {
				okCap = false
			}
		case *ssa.Call:
			// a grow helper: every slice it returns has a capacity ≤ the parameter that receives the bound
			// (or derives from the slice handed in)
			g := flow.StaticCallee(x)
			okCall := false
			if g != nil && g.Blocks != nil && c.P.IsLibrary(g) {
				for j, a := range x.Call.Args {
					if _, isInt := a.Type().Underlying().(*types.Basic); !isInt || j >= len(g.Params) || !(sameVal(a, bound) || leq(a, bound, 0)) {
						continue
					}
					pj := g.Params[j]
					okCall = true
					for _, rv := range flow.ReturnValues(g, 0) {
						switch y := rv.(type) {
						case *ssa.MakeSlice:
							if !leq(y.Cap, pj, 0) {
								okCall = false
							}
						case *ssa.Parameter:
							// returns the slice it was given: capacity judged at the argument
							if i := paramIndex(g, y); i < len(x.Call.Args) {
								visit(x.Call.Args[i], depth+1)
							}
						default:
							okCall = false
						}
					}
				}
				// the slice handed in keeps flowing through the loop
				for _, a := range x.Call.Args {
					if isByteSlice(a.Type()) {
						visit(a, depth+1)
					}
				}
			}
			if !okCall {
				okCap = false
			}
		default:
			okCap = false
		}
	}
	visit(sl.X, 0)
	if !seen[bphi] {
		return nil, "", "chunked body read: the chunk is not taken from the loop-carried buffer"
	}
	if !okCap {
		return nil, "", "chunked body read: a buffer feeding the loop may have a capacity above the declared body length (more bytes than declared could be consumed)"
	}
	// the loop must not leave with len(b) < bound on the success path: exits are (len>=bound) or err != nil;
	// accepted structurally: the only exits of the loop are the header condition's false edge and an error test.
	return bound, "chunk loop: continues while len(b) < total, reads b[len(b):cap(b)], capacities ≤ total", ""
}

// c05Guard: R4.
func (c *Ctx) c05Guard(rp map[*ssa.Function]bool, bodyLen ssa.Value) { c.lengthGuard(rp, "R4") }

// lengthGuard checks that every MessageLength − HeaderLength subtraction on the read path is
// protected by a MessageLength >= HeaderLength guard (in the function or, one level up, through
// an establishing callee on every caller).
func (c *Ctx) lengthGuard(rp map[*ssa.Function]bool, rule string) {
	r := c.R
	// subtraction sites
	var subs []*ssa.BinOp
	for f := range rp {
		flow.Instrs(f, func(in ssa.Instruction) {
			if bo, ok := in.(*ssa.BinOp); ok && isMsgLenMinusHeader(bo) {
				subs = append(subs, bo)
			}
		})
	}
	if len(subs) == 0 {
		r.Undecided(rule, "role:length-subtraction", "-", "no MessageLength − HeaderLength computation on the read path")
		return
	}
	isGuardOn := func(g flow.Guard) bool {
		rl, ok := condRel(g.If.Cond, g.Taken)
		if !ok {
			return false
		}
		isML := func(v ssa.Value) bool {
			tn, fld, _, ok := flow.FieldOf(flow.Peel(v))
			return ok && tn == "Header" && fld == "MessageLength"
		}
		k20 := func(v ssa.Value) bool { k, ok := flow.ConstInt(v); return ok && k >= 20 }
		// passing: ML >= 20, ML > 19, 20 <= ML
		if isML(rl.a) && k20(rl.b) && rl.op == token.GEQ {
			return true
		}
		if isML(rl.a) && rl.op == token.GTR {
			if k, ok := flow.ConstInt(rl.b); ok && k >= 19 {
				return true
			}
		}
		if isML(rl.b) && k20(rl.a) && rl.op == token.LEQ {
			return true
		}
		if isML(rl.b) && rl.op == token.LSS {
			if k, ok := flow.ConstInt(rl.a); ok && k >= 19 {
				return true
			}
		}
		return false
	}
	guardedAt := func(in ssa.Instruction) (bool, string) {
		for _, g := range flow.Guards(in) {
			if isGuardOn(g) {
				failIdx := 0
				if g.Taken {
					failIdx = 1
				}
				if returnsNonNilError(g.If.Block().Succs[failIdx]) {
					return true, c.pos(g.If)
				}
			}
		}
		return false, ""
	}
	// establishing functions: every nil-error return is dominated by the guard
	var establishes func(h *ssa.Function) (bool, string)
	estDepth := 0
	establishes = func(h *ssa.Function) (bool, string) {
		at := ""
		n := 0
		okAll := true
		flow.Instrs(h, func(in ssa.Instruction) {
			ret, ok := in.(*ssa.Return)
			if !ok || len(ret.Results) == 0 || ret.Block() == h.Recover {
				return
			}
			e := ret.Results[len(ret.Results)-1]
			isNil := false
			srcsE := flow.SpillSources(e)
			for _, s := range srcsE {
				if flow.IsNilConst(s) {
					isNil = true
				}
			}
			if len(srcsE) == 1 {
				e = srcsE[0] // a named result kept in memory: the one value that reaches this return
			}
			if !isNil {
				// error may be a non-constant that is nil at run time (e.g. `return cmd, stream, err`): treat conservatively
				if _, isConst := e.(*ssa.Const); !isConst && !definitelyNonNilError(e) {
					// the error is what a checking helper returned (return …, h.checkLength()): nil only if that
					// helper's nil returns are behind the guard
					if hc, isCall := flow.Peel(e).(*ssa.Call); isCall && estDepth < 2 {
						if h2 := flow.StaticCallee(hc); h2 != nil && h2.Blocks != nil && c.P.IsLibrary(h2) && h2 != h {
							estDepth++
							ok2, where := establishes(h2)
							estDepth--
							if ok2 {
								n++
								at = where
								return
							}
						}
					}
					// non-constant error result: only fine if it is on an error edge (cannot tell) — require guard too
					if g, where := guardedAt(ret); g {
						// may be nil at run time, and lies behind the guard: counts as an established success return
						n++
						at = where
					} else if !onErrEdge(ret, e) {
						okAll = false
					}
				}
				return
			}
			n++
			g, where := guardedAt(ret)
			if !g && estDepth < 2 {
				// … or the guard sits in a step this function runs first: the return lies on the nil-error edge of a
				// call whose own nil-error returns are behind the guard
				for _, cj := range flow.CallInstrs(h) {
					hc, isCall := cj.(*ssa.Call)
					if !isCall || g {
						continue
					}
					h2 := flow.StaticCallee(hc)
					if h2 == nil || h2.Blocks == nil || !c.P.IsLibrary(h2) || h2 == h {
						continue
					}
					eb := errorEdgeBlocks(hc)
					if len(eb) == 0 || !flow.Dominates(hc, ret) || eb[ret.Block()] || pathFromErrEdge(h, hc, ret) != nil {
						continue
					}
					estDepth++
					ok2, w2 := establishes(h2)
					estDepth--
					if ok2 {
						g, where = true, w2
					}
				}
			}
			if !g {
				okAll = false
			} else {
				at = where
			}
		})
		return okAll && n > 0, at
	}
	for _, sub := range subs {
		f := sub.Parent()
		key := fname(f) + ":MessageLength-HeaderLength"
		if g, where := guardedAt(sub); g {
			r.Ok(rule, key, c.pos(sub), "dominated in the same function by the MessageLength ≥ HeaderLength guard at "+where+" whose failing edge returns an error")
			continue
		}
		// caller search
		found, all := 0, 0
		why := ""
		for _, caller := range c.P.LibraryFuncs() {
			for _, ci := range flow.CallInstrs(caller) {
				if flow.StaticCallee(ci) != f {
					continue
				}
				all++
				okSite := false
				for _, cj := range flow.CallInstrs(caller) {
					hc, isCall := cj.(*ssa.Call)
					if !isCall {
						continue
					}
					h := flow.StaticCallee(hc)
					if h == nil || !rp[h] || h == f {
						continue
					}
					if !flow.Dominates(hc, ci) || errorEdgeBlocks(hc)[ci.Block()] || len(errorEdgeBlocks(hc)) == 0 {
						continue
					}
					if pathFromErrEdge(caller, hc, ci) != nil {
						continue
					}
					if e, where := establishes(h); e {
						okSite = true
						why = fmt.Sprintf("every caller reaches it on the nil-error edge of %s, whose nil-error returns are dominated by the guard at %s", fname(h), where)
					}
				}
				if okSite {
					found++
				}
			}
		}
		if all > 0 && found == all {
			r.Ok(rule, key, c.pos(sub), why)
		} else {
			r.Fail(rule, key, c.pos(sub), "the unsigned subtraction MessageLength − HeaderLength is not protected by a guard rejecting MessageLength < 20: a declared length of 0..19 wraps to ~4 GiB and the reader consumes/allocates far beyond the message")
		}
	}
}

// onErrEdge: the return sits on an edge where its error operand was tested non-nil.
func onErrEdge(ret *ssa.Return, e ssa.Value) bool {
	one := func(v ssa.Value) ssa.Value {
		if s := flow.SpillSources(v); len(s) == 1 {
			return s[0]
		}
		return v
	}
	e = one(e)
	for _, g := range flow.Guards(ret) {
		rl, ok := condRel(g.If.Cond, g.Taken)
		if !ok {
			continue
		}
		rl.a, rl.b = one(rl.a), one(rl.b)
		if rl.op == token.NEQ && ((sameVal(rl.a, e) && flow.IsNilConst(rl.b)) || (sameVal(rl.b, e) && flow.IsNilConst(rl.a))) {
			return true
		}
	}
	return false
}

// c05Errors: R5.
func (c *Ctx) c05Errors(headerSites, bodySites []readSite) {
	r := c.R
	rm := c.P.Func("diam", "ReadMessage")
	// error values of header reads
	src := map[ssa.Value]bool{}
	var hf *ssa.Function
	for _, s := range headerSites {
		hf = s.fn
		if call, ok := s.call.(*ssa.Call); ok {
			for _, ref := range flow.Referrers(call) {
				if ex, ok := ref.(*ssa.Extract); ok && isErrorType(ex.Type()) {
					src[ex] = true
				}
			}
		}
	}
	if hf == nil {
		return
	}
	// closure under phi
	changed := true
	for changed {
		changed = false
		flow.Instrs(hf, func(in ssa.Instruction) {
			if ph, ok := in.(*ssa.Phi); ok && !src[ph] {
				for _, e := range ph.Edges {
					if src[e] {
						src[ph] = true
						changed = true
					}
				}
			}
			// the memory counterpart of a phi: a read of a local cell the error was stored into
			if ld, ok := in.(*ssa.UnOp); ok && ld.Op == token.MUL && !src[ld] {
				if _, isAl := ld.X.(*ssa.Alloc); isAl {
					for _, sv := range flow.SpillSources(ld) {
						if sv != ssa.Value(ld) && src[sv] {
							src[ld] = true
							changed = true
						}
					}
				}
			}
		})
	}
	// in hf: the return on the error edge of the header read returns a src value (or %w wrap)
	key := fname(hf) + ":header-read-error-returned-as-is"
	transparent := func(f *ssa.Function, srcs map[ssa.Value]bool) (bool, string) {
		// find If testing a src value != nil; its error edge returns
		found := false
		for _, b := range f.Blocks {
			ifi, ok := b.Instrs[len(b.Instrs)-1].(*ssa.If)
			if !ok {
				continue
			}
			rl, ok := condRel(ifi.Cond, true)
			if !ok || !(rl.op == token.NEQ || rl.op == token.EQL) {
				continue
			}
			var tested ssa.Value
			if srcs[rl.a] && flow.IsNilConst(rl.b) {
				tested = rl.a
			} else if srcs[rl.b] && flow.IsNilConst(rl.a) {
				tested = rl.b
			}
			if tested == nil {
				continue
			}
			idx := 0
			if rl.op == token.EQL {
				idx = 1
			}
			eb := b.Succs[idx]
			if !flow.EdgeDominates(b, idx, eb) {
				continue // not a proper error region (e.g. `if err == nil { ... }` joining again)
			}
			found = true
			// all returns reachable from that edge without leaving the error region
			okRet := true
			why := ""
			seen := map[*ssa.BasicBlock]bool{}
			var visit func(x *ssa.BasicBlock)
			visit = func(x *ssa.BasicBlock) {
				if seen[x] {
					return
				}
				seen[x] = true
				if ret, ok := x.Instrs[len(x.Instrs)-1].(*ssa.Return); ok && len(ret.Results) == 0 {
					// a function without results cannot hand the error on
					okRet, why = false, "the function returns nothing on the path that follows the failed read"
				} else if ok {
					e := ret.Results[len(ret.Results)-1]
					good := false
					for _, s := range flow.SpillSources(e) {
						if srcs[s] || isWrapOf(s, srcs) {
							good = true
						} else {
							good = false
							why = "the error returned when the header read fails is " + short(s.String(), 60) + ", not the read's own error: io.EOF between messages is no longer recognisable"
							break
						}
					}
					if !good {
						okRet = false
						if why == "" {
							why = "header read error is replaced"
						}
					}
					return
				}
				for _, s := range x.Succs {
					if eb.Dominates(s) {
						visit(s)
					}
				}
			}
			visit(eb)
			if !okRet {
				return false, why
			}
		}
		if !found {
			// a plain forwarder: every return hands the error on untouched
			fwd, n := true, 0
			flow.Instrs(f, func(in ssa.Instruction) {
				ret, ok := in.(*ssa.Return)
				if !ok || len(ret.Results) == 0 {
					return
				}
				n++
				for _, s := range flow.SpillSources(ret.Results[len(ret.Results)-1]) {
					if !srcs[s] && !isWrapOf(s, srcs) {
						fwd = false
					}
				}
			})
			if fwd && n > 0 {
				return true, ""
			}
			return false, "the header read's error is never tested"
		}
		return true, ""
	}
	ok1, why1 := transparent(hf, src)
	r.Check(ok1, "R5", key, c.fpos(hf), "the error edge of the header read returns the read combinator's own error value", why1)
	// up the call chain to ReadMessage: every function in between returns the callee's error value as is
	cur := hf
	for hop := 0; rm != nil && cur != rm && hop < 4; hop++ {
		var caller *ssa.Function
		src2 := map[ssa.Value]bool{}
		for _, ci := range c.librarySites(cur) {
			if call, ok := ci.(*ssa.Call); ok {
				if e := errorResult(call); e != nil {
					src2[e] = true
					caller = call.Parent()
				}
			}
		}
		if caller == nil {
			break
		}
		ok2, why2 := transparent(caller, src2)
		key := fname(caller) + ":header-error-propagated-as-is"
		r.Check(ok2, "R5", key, c.fpos(caller), fname(caller)+" returns the header reader's error value unmodified", why2)
		cur = caller
	}
	// body read failure: non-nil error
	for _, s := range bodySites {
		call, ok := s.call.(*ssa.Call)
		if !ok {
			continue
		}
		key := fmt.Sprintf("%s:body-read-error@%s", fname(s.fn), s.kind)
		e := errorResult(call)
		if e == nil {
			r.Fail("R5", key, c.pos(call), "the body read's error result is discarded: a stream ending inside a message is not reported")
			continue
		}
		// the error must reach a test != nil whose true edge returns non-nil error
		srcs := map[ssa.Value]bool{e: true}
		changed := true
		for changed {
			changed = false
			flow.Instrs(s.fn, func(in ssa.Instruction) {
				if ph, ok := in.(*ssa.Phi); ok && !srcs[ph] {
					for _, x := range ph.Edges {
						if srcs[x] {
							srcs[ph] = true
							changed = true
						}
					}
				}
			})
		}
		good := false
		for _, b := range s.fn.Blocks {
			ifi, ok := b.Instrs[len(b.Instrs)-1].(*ssa.If)
			if !ok {
				continue
			}
			rl, ok := condRel(ifi.Cond, true)
			if !ok {
				continue
			}
			var idx = -1
			if (srcs[rl.a] && flow.IsNilConst(rl.b)) || (srcs[rl.b] && flow.IsNilConst(rl.a)) {
				if rl.op == token.NEQ {
					idx = 0
				} else if rl.op == token.EQL {
					idx = 1
				}
			}
			if idx >= 0 && returnsNonNilError(b.Succs[idx]) {
				good = true
			}
		}
		r.Check(good, "R5", key, c.pos(call), "a failed body read leads to a non-nil error return", "a failed body read does not lead to an error return: a stream ending inside a message goes unreported")
		// … and that error is not the read's own error value: a full-read combinator reports io.EOF when the
		// stream ends before the first byte of *this* read, which inside a body (chunk boundary, or right after
		// the header) still is a message cut short — handed on as it is, it reads as a clean end of stream
		if good {
			// followed up the call chain: an unexported helper may hand the raw error to its caller, which then
			// has to convert it; what must not happen is that it leaves the read path's entry point unconverted
			var rawAt ssa.Instruction
			var escapes func(fn *ssa.Function, src map[ssa.Value]bool, depth int)
			escapes = func(fn *ssa.Function, src map[ssa.Value]bool, depth int) {
				if rawAt != nil || depth > 3 {
					return
				}
				// close over phis
				for changed := true; changed; {
					changed = false
					flow.Instrs(fn, func(in ssa.Instruction) {
						if ph, ok := in.(*ssa.Phi); ok && !src[ph] {
							for _, x := range ph.Edges {
								if src[x] {
									src[ph] = true
									changed = true
								}
							}
						}
					})
				}
				var rets []*ssa.Return
				flow.Instrs(fn, func(in ssa.Instruction) {
					ret, ok := in.(*ssa.Return)
					if !ok || len(ret.Results) == 0 {
						return
					}
					last := ret.Results[len(ret.Results)-1]
					if !isErrorType(last.Type()) {
						return
					}
					for _, sv := range flow.SpillSources(last) {
						if src[sv] {
							rets = append(rets, ret)
							return
						}
					}
				})
				if len(rets) == 0 {
					return
				}
				css := c.librarySites(fn)
				if fn.Object() != nil && fn.Object().Exported() || len(css) == 0 {
					rawAt = rets[0]
					return
				}
				for _, cs := range css {
					call, ok := cs.(*ssa.Call)
					if !ok {
						continue
					}
					if ev := errorResult(call); ev != nil {
						escapes(cs.Parent(), map[ssa.Value]bool{ev: true}, depth+1)
					}
				}
			}
			escapes(s.fn, srcs, 0)
			rkey := fmt.Sprintf("%s:body-read-error-not-eof@%s", fname(s.fn), s.kind)
			if rawAt != nil {
				r.Fail("R5", rkey, c.pos(rawAt), "the error of a body read is returned as it is: when the stream ends exactly where a body read starts (right after the header, or at a chunk boundary) that error is io.EOF, and a message cut short is reported as a clean end of the stream")
			} else {
				r.Ok("R5", rkey, c.pos(call), "the body read's error is never returned unconverted (it cannot surface as io.EOF)")
			}
		}
	}
}

// isWrapOf: fmt.Errorf with a %w verb and one of srcs among its operands.
func isWrapOf(v ssa.Value, srcs map[ssa.Value]bool) bool {
	call, ok := v.(*ssa.Call)
	if !ok || !flow.IsCallTo(call, "fmt", "", "Errorf") {
		return false
	}
	f, ok := flow.ConstString(call.Call.Args[0])
	if !ok || !strings.Contains(f, "%w") {
		return false
	}
	// operands: stores into the varargs array
	found := false
	if sl, ok := call.Call.Args[1].(*ssa.Slice); ok {
		if arr, ok := sl.X.(*ssa.Alloc); ok {
			for _, ref := range flow.Referrers(arr) {
				if ia, ok := ref.(*ssa.IndexAddr); ok {
					for _, r2 := range flow.Referrers(ia) {
						if st, ok := r2.(*ssa.Store); ok {
							if srcs[flow.PeelNoConvert(st.Val)] {
								found = true
							}
						}
					}
				}
			}
		}
	}
	return found
}

// definitelyNonNilError: a freshly constructed error value.
func definitelyNonNilError(v ssa.Value) bool {
	switch x := v.(type) {
	case *ssa.Call:
		if flow.IsCallTo(x, "fmt", "", "Errorf") || flow.IsCallTo(x, "errors", "", "New") {
			return true
		}
		// an error constructor of the module: every value it returns is itself a constructed error
		if g := flow.StaticCallee(x); g != nil && g.Blocks != nil && g.Signature.Results().Len() == 1 && isErrorType(g.Signature.Results().At(0).Type()) && len(flow.Loops(g)) == 0 {
			rvs := flow.ReturnValues(g, 0)
			for _, rv := range rvs {
				inner, isCall := rv.(*ssa.Call)
				_, isMI := rv.(*ssa.MakeInterface)
				if !(isMI || (isCall && (flow.IsCallTo(inner, "fmt", "", "Errorf") || flow.IsCallTo(inner, "errors", "", "New")))) {
					return false
				}
			}
			return len(rvs) > 0
		}
	case *ssa.MakeInterface:
		return true
	}
	return false
}

// mayReturnNilError: the error result of ret (its last result) can be nil on this return — it is not a
// constructed error, not an Err* global and not a value tested non-nil on a dominating edge.
func mayReturnNilError(ret *ssa.Return) bool {
	if len(ret.Results) == 0 {
		return true
	}
	v := ret.Results[len(ret.Results)-1]
	if !isErrorType(v.Type()) {
		return true
	}
	for _, src := range flow.SpillSources(v) {
		if flow.IsNilConst(src) {
			return true
		}
		if definitelyNonNilError(src) || loadedGlobal(src) != nil {
			continue
		}
		nonNil := false
		for _, g := range flow.Guards(ret) {
			if rl, ok := condRel(g.If.Cond, g.Taken); ok && rl.op == token.NEQ && ((rl.a == src && flow.IsNilConst(rl.b)) || (rl.b == src && flow.IsNilConst(rl.a))) {
				nonNil = true
			}
		}
		if !nonNil {
			return true
		}
	}
	return false
}
