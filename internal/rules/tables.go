package rules

import (
	"go/constant"
	"go/types"

	"golang.org/x/tools/go/ssa"

	"verif/internal/flow"
)

// mapEntry is one key/value of a package-level map composite literal.
type mapEntry struct {
	Key   constant.Value
	KeyV  ssa.Value
	Value ssa.Value
	At    ssa.Instruction
}

// globalMapLiteral extracts the entries of a package-level map variable initialised with a
// composite literal, from the package initialiser's SSA (MakeMap + MapUpdate + store to global).
func (c *Ctx) globalMapLiteral(rel, name string) ([]mapEntry, bool) {
	pk := c.P.Pkg(rel)
	if pk == nil {
		return nil, false
	}
	g, ok := pk.Members[name].(*ssa.Global)
	if !ok {
		return nil, false
	}
	initf := pk.Func("init")
	if initf == nil {
		return nil, false
	}
	var mk ssa.Value
	flow.Instrs(initf, func(in ssa.Instruction) {
		if st, ok := in.(*ssa.Store); ok && st.Addr == ssa.Value(g) {
			mk = st.Val
		}
	})
	if mk == nil {
		return nil, false
	}
	if _, ok := mk.(*ssa.MakeMap); !ok {
		return nil, false
	}
	var out []mapEntry
	for _, ref := range flow.Referrers(mk) {
		mu, ok := ref.(*ssa.MapUpdate)
		if !ok || mu.Map != mk {
			continue
		}
		e := mapEntry{KeyV: mu.Key, Value: mu.Value, At: mu}
		if k, ok := flow.PeelNoConvert(mu.Key).(*ssa.Const); ok {
			e.Key = k.Value
		}
		out = append(out, e)
	}
	return out, true
}

// funcOfValue resolves a function-typed SSA value to the function (through changetype).
func funcOfValue(v ssa.Value) *ssa.Function {
	v = flow.PeelNoConvert(v)
	switch x := v.(type) {
	case *ssa.Function:
		return x
	case *ssa.MakeClosure:
		return x.Fn.(*ssa.Function)
	}
	return nil
}

// constOfType lists the package-level constants of a named type: name -> value.
func (c *Ctx) constsOfType(rel, typeName string) map[string]constant.Value {
	out := map[string]constant.Value{}
	pk := c.P.Pkg(rel)
	if pk == nil {
		return out
	}
	for name, m := range pk.Members {
		nc, ok := m.(*ssa.NamedConst)
		if !ok {
			continue
		}
		if n, ok := nc.Type().(*types.Named); ok && n.Obj().Name() == typeName && n.Obj().Pkg() == pk.Pkg {
			out[name] = nc.Value.Value
		}
	}
	return out
}

// typeMethodConst: the constant returned by method `name` of type T (nil if not a single constant).
func (c *Ctx) methodConstResult(T types.Type, name string) (constant.Value, bool) {
	ms := c.P.SSA.MethodSets.MethodSet(T)
	sel := ms.Lookup(nil, name)
	if sel == nil {
		// unexported? try with package
		for i := 0; i < ms.Len(); i++ {
			if ms.At(i).Obj().Name() == name {
				sel = ms.At(i)
			}
		}
	}
	if sel == nil {
		return nil, false
	}
	fn := c.P.SSA.MethodValue(sel)
	if fn == nil {
		return nil, false
	}
	if fn.Synthetic != "" {
		if obj, ok := sel.Obj().(*types.Func); ok {
			if d := c.P.SSA.FuncValue(obj); d != nil {
				fn = d
			}
		}
	}
	var val constant.Value
	okAll := true
	n := 0
	flow.Instrs(fn, func(in ssa.Instruction) {
		ret, ok := in.(*ssa.Return)
		if !ok || len(ret.Results) != 1 {
			return
		}
		n++
		k, ok := flow.PeelNoConvert(ret.Results[0]).(*ssa.Const)
		if !ok || k.Value == nil {
			okAll = false
			return
		}
		if val != nil && val.ExactString() != k.Value.ExactString() {
			okAll = false
		}
		val = k.Value
	})
	return val, okAll && n > 0
}
