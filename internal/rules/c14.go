package rules

import (
	"fmt"
	"go/token"
	"go/types"
	"sort"
	"strings"

	"golang.org/x/tools/go/ssa"

	"verif/internal/flow"
	"verif/internal/prog"
)

func init() {
	register(&RuleSet{
		Property:  "C14",
		Title:     "CloseNotify fires exactly once when, and only when, the connection is gone",
		Run:       runC14,
		Technique: "who-may-close / who-may-write census with must-held lock sets, all-paths (must-pass-through) queries on the loop's exit chain and the copier, select-case exit analysis of library goroutines",
		Explanation: "Decides on the current source: R1 every close() of the connection's notify channel runs with the connection mutex held, is dominated by a test of the gone flag (or closes a channel freshly made under the nil test) and sets the flag in the same critical section (just before or after the close); the channel field is assigned only under the mutex on the nil edge; " +
			"R2 every exit of the connection loop (return, error, panic — through the deferred closure that dominates the function) passes on all paths a call chain that reaches a close site of R1; " +
			"R3 every path through the pipe copier ends with PipeWriter.CloseWithError followed by the notifier, and the loop's exit chain closes a started pipe's read side so the copier cannot stay blocked; " +
			"R4 the function handing out the channel tests a terminated flag that the exit chain sets under the connection mutex and, on that edge, closes the channel it returns; the gone flag itself — which silences every later notification — is stored true only where a channel exists (a != nil guard or a dominating make stored to the field) unless the hand-out function consults it; " +
			"R5 the reader switch's source field is written only in the switch's Read under the switch mutex (and in constructors), every other switch field only under that mutex, and the copier is started by `go` at most once (the func field is cleared in the same critical section); " +
			"R6 each library goroutine exits on termination: the connection loop leaves on read error, the copier has no loop of its own, the watchdog's every loop has a select case on the CloseNotify channel whose edge returns. " +
			"R7 every call of the notifier lies on the loop's exit chain or behind a Close of the transport / of the pipe fed from it on every path of its function, and the Conn implementation's Close closes the transport on every path. " +
			"R7 the notifier is called only after the transport was closed or its end observed (no notification while the peer can still be served), and a local Close closes the transport on every path so that the loop, hence the notification, follows. " +
			"R7 also: Close takes no mutex that another function of the library holds while it writes to the transport (a writer stuck on a peer that stopped reading must not keep Close, and with it the termination, from happening). " +
			"R8 the library's mutexes, abstracted to classes (owner type and field), are never acquired in a cyclic order: for every place where a lock is taken — directly or inside a function reached by plain calls — while another may be held, no chain of such places leads back (a cycle lets two goroutines block each other, so that neither the reader exits nor the notification fires). " +
			"Not decided: event orderings as executed schedules, io.Pipe/io.Copy internals, SCTP error-handler delivery.",
		Rules: map[string]string{
			"R1": "close(notify channel): mutex held, gone-flag test (or fresh channel), flag set after; channel assigned only under mutex when nil",
			"R2": "every exit of the connection loop must-reaches a close site",
			"R3": "copier: CloseWithError then notifier on every path; exit chain closes the pipe reader",
			"R4": "CloseNotify after termination returns an already closed channel (terminated flag set by the exit chain under the mutex); the gone flag becomes true only where a channel exists",
			"R5": "reader switch ownership: source swapped only inside Read under the switch mutex; copier started at most once",
			"R6": "library goroutines (loop, copier, watchdog) exit on connection termination",
			"R7": "the notifier runs only after the transport was closed / its end observed; a local Close closes the transport on every path",
			"R8": "lock order: among the library's mutex classes (owner type + field) no cycle of 'acquired while the other may be held'",
		},
		MinInstances: map[string]int{"R1": 2, "R2": 1, "R3": 2, "R4": 2, "R5": 3, "R6": 3, "R7": 3, "R8": 1},
		Assumptions:  []string{"io.Pipe: a closed PipeReader makes PipeWriter.Write return; io.Copy returns when the source fails", "close of a nil or closed channel panics (Go semantics)"},
	})
}

type c14roles struct {
	connT      *types.Named
	notifyFld  string
	goneFld    string
	muFld      string
	closeSites []*ssa.Call
	notifiers  map[*ssa.Function]bool // functions containing a close site
	// closeAddr: for a close of a channel kept in a local (ch := make(…); c.field = ch; close(ch)), the address
	// of the field it was stored into
	closeAddr map[*ssa.Call]ssa.Value
}

func structOf(n *types.Named) *types.Struct {
	if n == nil {
		return nil
	}
	s, _ := n.Underlying().(*types.Struct)
	return s
}

// fieldBasePath: for a FieldAddr, the path of its base plus field name.
func basePathOf(v ssa.Value) (string, string, bool) {
	for {
		if u, ok := v.(*ssa.UnOp); ok && u.Op == token.MUL {
			v = u.X
			continue
		}
		break
	}
	fa, ok := v.(*ssa.FieldAddr)
	if !ok {
		return "", "", false
	}
	bp, ok := flow.Path(fa.X)
	_, fld, _, _ := flow.FieldOf(fa)
	return bp, fld, ok
}

func (c *Ctx) c14Roles(loopFn *ssa.Function) *c14roles {
	ro := &c14roles{notifiers: map[*ssa.Function]bool{}, closeAddr: map[*ssa.Call]ssa.Value{}}
	if loopFn.Signature.Recv() == nil {
		return nil
	}
	ro.connT = flow.NamedOf(loopFn.Signature.Recv().Type())
	st := structOf(ro.connT)
	if st == nil {
		return nil
	}
	// close sites: close(load of field of conn type)
	for _, f := range c.P.LibraryFuncs() {
		for _, ci := range flow.CallInstrs(f) {
			call, ok := ci.(*ssa.Call)
			if !ok || !isBuiltinCall(call, "close") {
				continue
			}
			tn, fld, base, ok := flow.FieldOf(call.Call.Args[0])
			if !ok || tn != ro.connT.Obj().Name() || flow.NamedOf(base.Type()) == nil || flow.NamedOf(base.Type()).Obj() != ro.connT.Obj() {
				continue
			}
			ro.notifyFld = fld
			ro.closeSites = append(ro.closeSites, call)
			ro.notifiers[f] = true
		}
	}
	for i := 0; i < st.NumFields(); i++ {
		if flow.TypeIs(st.Field(i).Type(), "sync", "Mutex") {
			ro.muFld = st.Field(i).Name()
		}
	}
	// the channel made, stored into the field and closed through a local of the same function
	if ro.notifyFld != "" {
		for _, f := range c.P.LibraryFuncs() {
			for _, ci := range flow.CallInstrs(f) {
				call, ok := ci.(*ssa.Call)
				if !ok || !isBuiltinCall(call, "close") {
					continue
				}
				mk, ok := flow.Peel(call.Call.Args[0]).(*ssa.MakeChan)
				if !ok {
					continue
				}
				for _, ref := range flow.Referrers(mk) {
					stv, ok := ref.(*ssa.Store)
					if !ok || stv.Val != ssa.Value(mk) {
						continue
					}
					if tn, fld, base, ok := flow.FieldOf(stv.Addr); ok && tn == ro.connT.Obj().Name() && fld == ro.notifyFld && flow.NamedOf(base.Type()) != nil && flow.NamedOf(base.Type()).Obj() == ro.connT.Obj() {
						ro.closeSites = append(ro.closeSites, call)
						ro.closeAddr[call] = stv.Addr
						ro.notifiers[f] = true
					}
				}
			}
		}
	}
	// a close-and-mark helper (no lock of its own, unexported): the functions calling it notify as well
	for f := range ro.notifiers {
		if f.Object() != nil && f.Object().Exported() || len(lockOps(f)) > 0 {
			continue
		}
		for _, cs := range c.librarySites(f) {
			ro.notifiers[cs.Parent()] = true
		}
	}
	return ro
}

// mustPass: every path entry->return of f passes a call satisfying pred (directly) or a static
// call to a module function g with mustPass(g).
func (c *Ctx) mustPass(f *ssa.Function, pred func(ssa.CallInstruction) bool, memo map[*ssa.Function]int) bool {
	if f == nil || f.Blocks == nil {
		return false
	}
	switch memo[f] {
	case 1:
		return true
	case 2, 3:
		return false
	}
	memo[f] = 3
	hit := func(in ssa.Instruction) bool {
		ci, ok := in.(ssa.CallInstruction)
		if !ok {
			return false
		}
		if _, isGo := ci.(*ssa.Go); isGo {
			return false
		}
		if _, isDefer := ci.(*ssa.Defer); isDefer {
			// a deferred call runs at exit: counts when it dominates the exits; handled below
			return false
		}
		if pred(ci) {
			return true
		}
		if g := flow.StaticCallee(ci); g != nil && c.P.InModule(pkgOf(g)) {
			return c.mustPass(g, pred, memo)
		}
		return false
	}
	ok := flow.PathAvoiding(f, nil, flow.IsReturn, hit) == nil
	if !ok {
		// deferred calls that dominate every return
		for _, ci := range flow.CallInstrs(f) {
			d, isD := ci.(*ssa.Defer)
			if !isD {
				continue
			}
			good := pred(d)
			if g := flow.StaticCallee(d); !good && g != nil && c.P.InModule(pkgOf(g)) {
				good = c.mustPass(g, pred, memo)
			}
			if !good {
				continue
			}
			all := true
			flow.Instrs(f, func(in ssa.Instruction) {
				if flow.IsReturn(in) && !flow.Dominates(d, in) {
					all = false
				}
			})
			if all {
				ok = true
			}
		}
	}
	if ok {
		memo[f] = 1
	} else {
		memo[f] = 2
	}
	return ok
}

func runC14(c *Ctx) {
	r := c.R
	loopFn := c.connLoop()
	if loopFn == nil {
		r.Undecided("R2", "role:ConnLoop", "-", "cannot resolve the connection loop")
		return
	}
	ro := c.c14Roles(loopFn)
	if ro == nil || len(ro.closeSites) == 0 {
		r.Fail("R1", "role:notify-channel", "-", "no close() of a channel field of the connection type found in the library: CloseNotify can never fire")
		return
	}
	r.Role("ConnType", ro.connT.Obj().Name())
	r.Role("NotifyChannelField", ro.notifyFld)
	r.Role("ConnMutexField", ro.muFld)

	// ---- R1 ----
	goneFlds := map[string]bool{}
	for i, cs := range ro.closeSites {
		f := cs.Parent()
		key := fmt.Sprintf("%s:close(%s)#%d", fname(f), ro.notifyFld, i+1)
		closed := cs.Call.Args[0]
		if a, viaLocal := ro.closeAddr[cs]; viaLocal {
			closed = a
		}
		bp, _, ok := basePathOf(closed)
		if !ok {
			r.Undecided("R1", key, c.pos(cs), "cannot determine the access path of the closed channel")
			continue
		}
		mu := bp + "." + ro.muFld
		// where the lock is held and the once-test is made: here — or, when close-and-mark was extracted into an
		// unexported helper that runs with the lock held, at each of the helper's call sites
		type anchor struct {
			fn *ssa.Function
			at ssa.Instruction
			mu string
		}
		anchors := []anchor{{f, cs, mu}}
		if !mustHeldAt(f, cs, mu, true) && !(f.Object() != nil && f.Object().Exported()) {
			if css := c.librarySites(f); len(css) > 0 && len(css) <= 6 {
				anchors = nil
				for _, site := range css {
					abp := "?"
					if args := site.Common().Args; len(args) > 0 {
						if p, ok := flow.Path(args[0]); ok {
							abp = p
						}
					}
					anchors = append(anchors, anchor{site.Parent(), site, abp + "." + ro.muFld})
				}
			}
		}
		unlocked := false
		for _, a := range anchors {
			if !mustHeldAt(a.fn, a.at, a.mu, true) {
				r.Fail("R1", key, c.pos(a.at), "the notify channel is closed without holding "+a.mu+": two closers can race and close it twice")
				unlocked = true
				break
			}
		}
		if unlocked {
			continue
		}
		// after the close, before any unlock / exit: store true to a bool field of conn
		var flagStore *ssa.Store
		ops := lockOps(f)
		isUnlock := func(in ssa.Instruction) bool {
			for _, o := range ops {
				if !o.acquire && !o.deferred && o.path == mu && o.in == in {
					return true
				}
			}
			return false
		}
		isFlagStore := func(in ssa.Instruction) bool {
			st, ok := in.(*ssa.Store)
			if !ok {
				return false
			}
			tn, fld, _, ok := flow.FieldOf(st.Addr)
			if !ok || tn != ro.connT.Obj().Name() {
				return false
			}
			cst, isC := st.Val.(*ssa.Const)
			if isC && cst.Value != nil && cst.Value.String() == "true" {
				flagStore = st
				goneFlds[fld] = true
				return true
			}
			return false
		}
		if p := flow.PathAvoiding(f, cs, func(in ssa.Instruction) bool { return flow.IsExit(in) || isUnlock(in) || isRunDefers(in) }, isFlagStore); p != nil {
			// … or the flag was set just before the close, in the same critical section (the two orders are
			// indistinguishable to anyone who needs the mutex to look)
			before := false
			flow.Instrs(f, func(in ssa.Instruction) {
				if before || !flow.Dominates(in, cs) || !isFlagStore(in) {
					return
				}
				if flow.PathAvoiding(f, in, func(x ssa.Instruction) bool { return x == ssa.Instruction(cs) }, isUnlock) == nil && mustHeldAt(f, in, mu, true) {
					// every path from the store to the close passes an unlock: not the same section
					return
				}
				if mustHeldAt(f, in, mu, true) {
					before = true
				}
			})
			if !before {
				r.Fail("R1", key, c.pos(cs), "after closing the channel the gone flag is not set before the mutex is released: a second notifier closes the channel again (panic)", c.witness(p)...)
				continue
			}
		}
		_, goneFld, _, _ := flow.FieldOf(flagStore.Addr)
		// guard: dominated by !gone, or fresh channel
		guarded := true
		how := ""
		for _, a := range anchors {
			aGuarded := false
			for _, g := range flow.Guards(a.at) {
				cond, neg := flow.Cond(g.If.Cond, g.Taken)
				if tn, fld, _, ok := flow.FieldOf(cond); ok && tn == ro.connT.Obj().Name() && fld == goneFld && neg {
					aGuarded, how = true, "dominated by the !"+goneFld+" edge"
				}
				if bo, ok := cond.(*ssa.BinOp); ok {
					if tn, fld, _, ok := flow.FieldOf(bo.X); ok && tn == ro.connT.Obj().Name() && fld == ro.notifyFld && flow.IsNilConst(bo.Y) && ((bo.Op == token.EQL) != neg) {
						// channel was nil: fresh if a make is stored to the field between the guard and the close
						fresh := false
						flow.Instrs(a.fn, func(in ssa.Instruction) {
							if st, ok := in.(*ssa.Store); ok {
								if _, sf, _, ok := flow.FieldOf(st.Addr); ok && sf == ro.notifyFld {
									if _, isMk := st.Val.(*ssa.MakeChan); isMk && flow.Dominates(st, a.at) {
										fresh = true
									}
								}
							}
						})
						if fresh {
							aGuarded, how = true, "closes the channel freshly made under the "+ro.notifyFld+" == nil edge"
						}
					}
				}
			}
			if !aGuarded {
				guarded = false
			}
		}
		if !guarded {
			r.Fail("R1", key, c.pos(cs), "the close is not dominated by a test of the gone flag (nor is the channel fresh): it can run twice")
			continue
		}
		r.Ok("R1", key, c.pos(cs), mu+" held; "+how+"; "+goneFld+" set before unlock")
	}
	// assignments of the channel field
	for _, f := range c.P.LibraryFuncs() {
		flow.Instrs(f, func(in ssa.Instruction) {
			st, ok := in.(*ssa.Store)
			if !ok {
				return
			}
			tn, fld, base, ok := flow.FieldOf(st.Addr)
			if !ok || tn != ro.connT.Obj().Name() || fld != ro.notifyFld || flow.NamedOf(base.Type()) == nil || flow.NamedOf(base.Type()).Obj() != ro.connT.Obj() {
				return
			}
			key := fname(f) + ":store-" + ro.notifyFld
			bp, _, _ := basePathOf(st.Addr)
			mu := bp + "." + ro.muFld
			if !mustHeldAt(f, st, mu, true) {
				r.Fail("R1", key, c.pos(st), "the notify channel field is assigned without holding "+mu)
				return
			}
			nilEdge := false
			for _, g := range flow.Guards(st) {
				cond, neg := flow.Cond(g.If.Cond, g.Taken)
				if bo, ok := cond.(*ssa.BinOp); ok {
					if _, gf, _, ok := flow.FieldOf(bo.X); ok && gf == ro.notifyFld && flow.IsNilConst(bo.Y) && ((bo.Op == token.EQL) != neg) {
						nilEdge = true
					}
				}
			}
			r.Check(nilEdge, "R1", key, c.pos(st), "assigned under "+mu+" on the == nil edge only", "the notify channel is re-assigned although one may already have been handed out: earlier receivers are never notified")
		})
	}

	// ---- R2 ----
	isNotifierCall := func(ci ssa.CallInstruction) bool {
		g := flow.StaticCallee(ci)
		return g != nil && ro.notifiers[g]
	}
	memo := map[*ssa.Function]int{}
	key := fname(loopFn) + ":exit-notifies"
	// deferred closures of the loop that dominate all calls
	var exitFns []*ssa.Function
	okR2 := false
	for _, ci := range flow.CallInstrs(loopFn) {
		d, ok := ci.(*ssa.Defer)
		if !ok {
			continue
		}
		dominatesAll := true
		for _, cj := range flow.CallInstrs(loopFn) {
			if cj != ssa.CallInstruction(d) && !flow.Dominates(d, cj) {
				dominatesAll = false
			}
		}
		if !dominatesAll {
			continue
		}
		g := flow.StaticCallee(d)
		if g == nil {
			continue
		}
		exitFns = append(exitFns, g)
		if isNotifierCall(d) || c.mustPass(g, isNotifierCall, memo) {
			okR2 = true
		}
	}
	if !okR2 {
		// alternatively: every return of the loop passes a notifier call explicitly
		if flow.PathAvoiding(loopFn, nil, flow.IsReturn, func(in ssa.Instruction) bool {
			ci, ok := in.(ssa.CallInstruction)
			if !ok {
				return false
			}
			if isNotifierCall(ci) {
				return true
			}
			g := flow.StaticCallee(ci)
			return g != nil && c.P.InModule(pkgOf(g)) && c.mustPass(g, isNotifierCall, memo)
		}) == nil && len(exitFns) > 0 {
			// still misses the panic exit
			r.Fail("R2", key, c.fpos(loopFn), "the loop notifies on its returns but not on the panic exit (the deferred closure does not reach a close site)")
		} else {
			r.Fail("R2", key, c.fpos(loopFn), "an exit of the connection loop does not reach a close of the notify channel: CloseNotify never fires when no further read happens (undecodable buffered data, local Close)")
		}
	} else {
		r.Ok("R2", key, c.fpos(loopFn), "the deferred closure that dominates the loop function reaches a close site on every path (return, error and panic exits)")
	}
	// exit chain = functions must-called from the deferred closures
	exitChain := c.reach(exitFns, false, false, true)

	// ---- R5 roles: reader switch ----
	var switchRead *ssa.Function
	var switchT *types.Named
	var copierFld, srcFld string
	// the swap function: a method that starts a func-typed field of its receiver with go; its receiver type
	// is the reader switch when it also implements io.Reader. The swap may live in Read itself or in an
	// unexported helper that only Read calls.
	var swapFn *ssa.Function
	for _, f := range c.P.LibraryFuncs() {
		if f.Signature.Recv() == nil {
			continue
		}
		for _, ci := range flow.CallInstrs(f) {
			g, ok := ci.(*ssa.Go)
			if !ok {
				continue
			}
			if _, fld, _, ok := flow.FieldOf(g.Call.Value); ok {
				nt := flow.NamedOf(f.Signature.Recv().Type())
				if nt == nil {
					continue
				}
				rd := c.P.Method(strings.TrimPrefix(nt.Obj().Pkg().Path(), prog.ModPath+"/"), nt.Obj().Name(), "Read")
				if rd == nil {
					continue
				}
				swapFn, switchRead, copierFld, switchT = f, rd, fld, nt
			}
		}
	}
	if swapFn != nil && swapFn != switchRead {
		key := fname(swapFn) + ":swap-only-from-Read"
		bad := ""
		n := 0
		for _, f := range c.P.LibraryFuncs() {
			for _, ci := range flow.CallInstrs(f) {
				if flow.StaticCallee(ci) == swapFn {
					n++
					if f != switchRead {
						bad = fname(f)
					}
					if _, isGo := ci.(*ssa.Go); isGo {
						bad = fname(f) + " (go)"
					}
				}
			}
		}
		if swapFn.Object() != nil && swapFn.Object().Exported() {
			bad = "exported method, callable by anyone"
		}
		r.Check(bad == "" && n > 0, "R5", key, c.fpos(swapFn), "the helper that swaps the source is unexported and called only from the switch's Read", "the source swap can run outside the switch's Read ("+bad+"): an in-flight Read on the old source races with the new one")
	}
	if switchRead == nil {
		r.Undecided("R5", "role:reader-switch", "-", "no Read method starting a func-typed field with go found")
	} else {
		// source field: the io.Reader field read from in Read
		st := structOf(switchT)
		swMu := ""
		for i := 0; i < st.NumFields(); i++ {
			if flow.TypeIs(st.Field(i).Type(), "io", "Reader") {
				srcFld = st.Field(i).Name()
			}
			if flow.TypeIs(st.Field(i).Type(), "sync", "Mutex") {
				swMu = st.Field(i).Name()
			}
		}
		r.Role("ReaderSwitch", switchT.Obj().Name()+"{src:"+srcFld+", copier:"+copierFld+", mutex:"+swMu+"}")
		c.c14Switch(ro, switchT, swapFn, srcFld, copierFld, swMu)
		// the switch's Read passes the source's verdict on: one Read of the source per call, outside any loop, its
		// error handed back as it is. The copier reads the same source directly and ends the connection's
		// notification on the first error it sees; a Read that swallowed or retried an error would leave the loop
		// running on a connection already announced as gone.
		{
			key := fname(switchRead) + ":source-read-once-error-passed-on"
			loops := flow.Loops(switchRead)
			var reads []*ssa.Call
			flow.Instrs(switchRead, func(in ssa.Instruction) {
				if call, ok := in.(*ssa.Call); ok && call.Call.IsInvoke() && call.Call.Method.Name() == "Read" && flow.TypeIs(call.Call.Value.Type(), "io", "Reader") {
					reads = append(reads, call)
				}
			})
			switch {
			case len(reads) == 0:
				r.Undecided("R5", key, c.fpos(switchRead), "the switch's Read does not read an io.Reader source")
			default:
				bad := ""
				var at ssa.Instruction = reads[0]
				for _, rd := range reads {
					if flow.InnermostLoop(loops, rd) != nil {
						bad, at = "the source is read inside a loop of the switch's Read: an error the copier also sees (and announces as the end of the connection) can be retried here, so the loop outlives the notification", rd
					}
				}
				if bad == "" {
					isRd := func(v ssa.Value) bool {
						for _, rd := range reads {
							if v == ssa.Value(rd) {
								return true
							}
						}
						return false
					}
					flow.Instrs(switchRead, func(in ssa.Instruction) {
						ret, ok := in.(*ssa.Return)
						if !ok || ret.Block() == switchRead.Recover || len(ret.Results) != 2 || bad != "" {
							return
						}
						// only returns that follow a source read matter
						after := false
						for _, rd := range reads {
							if flow.Dominates(rd, ret) {
								after = true
							}
						}
						if !after {
							return
						}
						var srcs []ssa.Value
						e := ret.Results[1]
						if ld, isLd := e.(*ssa.UnOp); isLd && ld.Op == token.MUL {
							srcs = flow.SpillSources(ld)
						} else {
							srcs = []ssa.Value{e}
						}
						for _, sv := range srcs {
							ex, isEx := sv.(*ssa.Extract)
							if !isEx || !isRd(ex.Tuple) {
								bad, at = "after reading the source the switch's Read returns an error that is not the source's ("+short(sv.String(), 40)+")", ret
							}
						}
					})
				}
				r.Check(bad == "", "R5", key, c.pos(at), "one source Read per call, outside loops; its error is returned unchanged", bad)
			}
		}
	}

	// ---- R3 ----
	// copier closures: closures stored into the copier field
	var copiers []*ssa.Function
	for _, f := range c.P.LibraryFuncs() {
		flow.Instrs(f, func(in ssa.Instruction) {
			st, ok := in.(*ssa.Store)
			if !ok || switchT == nil {
				return
			}
			tn, fld, _, ok := flow.FieldOf(st.Addr)
			if !ok || tn != switchT.Obj().Name() || fld != copierFld {
				return
			}
			if mc, ok := st.Val.(*ssa.MakeClosure); ok {
				copiers = append(copiers, flow.Unwrap(mc.Fn.(*ssa.Function)))
			}
		})
	}
	if len(copiers) == 0 {
		r.Undecided("R3", "role:copier", "-", "no closure stored into the reader switch's copier field")
	}
	for _, cp := range copiers {
		key := fname(cp) + ":close-then-notify"
		// every path: CloseWithError, then notifier
		var cwe []ssa.CallInstruction
		for _, ci := range flow.CallInstrs(cp) {
			if o := flow.CalleeObj(ci); o != nil && o.Pkg() != nil && o.Pkg().Path() == "io" && flow.RecvTypeName(o.Type().(*types.Signature)) == "PipeWriter" && strings.HasPrefix(o.Name(), "Close") {
				cwe = append(cwe, ci)
			}
		}
		isCWE := func(in ssa.Instruction) bool {
			for _, x := range cwe {
				if ssa.Instruction(x) == in {
					return true
				}
			}
			return false
		}
		isNotif := func(in ssa.Instruction) bool {
			ci, ok := in.(ssa.CallInstruction)
			if !ok {
				return false
			}
			if isNotifierCall(ci) {
				return true
			}
			g := flow.StaticCallee(ci)
			return g != nil && c.P.InModule(pkgOf(g)) && c.mustPass(g, isNotifierCall, memo)
		}
		if p := flow.PathAvoiding(cp, nil, flow.IsReturn, isCWE); p != nil {
			r.Fail("R3", key, c.fpos(cp), "a path through the copier does not close the pipe writer: the reader loop would block forever on the pipe", c.witness(p)...)
		} else if p := flow.PathAvoiding(cp, nil, flow.IsReturn, isNotif); p != nil {
			r.Fail("R3", key, c.fpos(cp), "a path through the copier does not notify: CloseNotify does not fire on peer close / read error", c.witness(p)...)
		} else {
			// order: notifier after CloseWithError on every path: no path from entry to notifier avoiding CWE
			if p := flow.PathAvoiding(cp, nil, isNotif, isCWE); p != nil {
				r.Fail("R3", key, c.fpos(cp), "the copier notifies before closing the pipe writer", c.witness(p)...)
			} else {
				r.Ok("R3", key, c.fpos(cp), "every path: PipeWriter.CloseWithError, then the notifier")
			}
		}
	}
	// exit chain closes the pipe reader
	{
		key := "exit-chain:closes-pipe-reader"
		var site ssa.CallInstruction
		var siteFn *ssa.Function
		for f := range exitChain {
			for _, ci := range flow.CallInstrs(f) {
				if o := flow.CalleeObj(ci); o != nil && o.Pkg() != nil && o.Pkg().Path() == "io" && flow.RecvTypeName(o.Type().(*types.Signature)) == "PipeReader" && strings.HasPrefix(o.Name(), "Close") {
					site, siteFn = ci, f
				}
			}
		}
		if site == nil {
			r.Fail("R3", key, c.fpos(loopFn), "nothing on the loop's exit path closes the pipe's read side: a started copier stays blocked in PipeWriter.Write after the loop has gone (goroutine and notification lost)")
		} else {
			// guards: only type-assert ok
			good := true
			for _, g := range flow.Guards(site) {
				cond, neg := flow.Cond(g.If.Cond, g.Taken)
				ex, isEx := cond.(*ssa.Extract)
				if isEx && !neg && ex.Index == 1 {
					if _, isTA := ex.Tuple.(*ssa.TypeAssert); isTA {
						continue
					}
				}
				good = false
			}
			// and siteFn must be must-called from an exit function
			must := false
			for _, ef := range exitFns {
				if ef == siteFn || c.mustPass(ef, func(ci ssa.CallInstruction) bool { return flow.StaticCallee(ci) == siteFn }, map[*ssa.Function]int{}) {
					must = true
				}
			}
			r.Check(good && must, "R3", key, c.pos(site), "the exit chain closes the pipe reader whenever the source is a pipe (guarded only by the type test)", "the pipe reader is closed only conditionally on the exit path")
		}
	}

	// ---- R4 ----
	{
		// the function handing out the channel: returns a load of notify field
		var hand *ssa.Function
		for _, f := range c.P.LibraryFuncs() {
			if f.Signature.Recv() == nil || flow.NamedOf(f.Signature.Recv().Type()) == nil || flow.NamedOf(f.Signature.Recv().Type()).Obj() != ro.connT.Obj() {
				continue
			}
			if f.Signature.Results().Len() != 1 {
				continue
			}
			for _, rv := range flow.ReturnValues(f, 0) {
				if _, fld, _, ok := flow.FieldOf(flow.Peel(rv)); ok && fld == ro.notifyFld {
					hand = f
				}
			}
		}
		key := "CloseNotify:after-termination"
		if hand == nil {
			r.Undecided("R4", key, "-", "cannot find the method returning the notify channel")
		} else {
			r.Role("HandOut", fname(hand))
			// terminated flags: bool fields of conn stored true on the exit chain under mu
			term := map[string]bool{}
			for f := range exitChain {
				flow.Instrs(f, func(in ssa.Instruction) {
					st, ok := in.(*ssa.Store)
					if !ok {
						return
					}
					tn, fld, _, ok := flow.FieldOf(st.Addr)
					if !ok || tn != ro.connT.Obj().Name() {
						return
					}
					if cst, isC := st.Val.(*ssa.Const); isC && cst.Value != nil && cst.Value.String() == "true" {
						bp, _, _ := basePathOf(st.Addr)
						if mustHeldAt(f, st, bp+"."+ro.muFld, true) {
							term[fld] = true
						}
					}
				})
			}
			// is the flag store must-executed on the exit path? (the function storing it is must-called)
			good := false
			why := "CloseNotify requested after the connection terminated returns a channel that is never closed: no terminated flag set by the loop's exit path is consulted"
			var handCloses []ssa.Instruction
			for _, cs := range ro.closeSites {
				if cs.Parent() == hand {
					handCloses = append(handCloses, cs)
					continue
				}
				// close-and-mark helper called from the hand-out function
				for _, ci := range flow.CallInstrs(hand) {
					if flow.StaticCallee(ci) == cs.Parent() {
						handCloses = append(handCloses, ci)
					}
				}
			}
			for _, cs := range handCloses {
				for _, g := range flow.Guards(cs) {
					cond, neg := flow.Cond(g.If.Cond, g.Taken)
					if tn, fld, _, ok := flow.FieldOf(cond); ok && tn == ro.connT.Obj().Name() && term[fld] && !neg {
						good = true
						why = "on the " + fld + " edge (set by the exit chain under the mutex) the returned channel is closed"
					}
				}
			}
			// must-set: some exit function must-passes the store's function
			if good {
				mustSet := false
				for _, ef := range exitFns {
					for f := range exitChain {
						sets := false
						flow.Instrs(f, func(in ssa.Instruction) {
							if st, ok := in.(*ssa.Store); ok {
								if _, fld, _, ok := flow.FieldOf(st.Addr); ok && term[fld] {
									if flow.PathAvoiding(f, nil, flow.IsReturn, func(x ssa.Instruction) bool { return x == ssa.Instruction(st) }) == nil {
										sets = true
									}
								}
							}
						})
						if sets && (f == ef || c.mustPass(ef, func(ci ssa.CallInstruction) bool { return flow.StaticCallee(ci) == f }, map[*ssa.Function]int{})) {
							mustSet = true
						}
					}
				}
				if !mustSet {
					good, why = false, "the terminated flag is not set on every path of the loop's exit chain"
				}
			}
			r.Check(good, "R4", key, c.fpos(hand), why, why)
			// the gone flag stops every later notification, so it may only become true while a channel exists
			// (which the same critical section closes) — unless the hand-out function consults that very flag
			// before it creates a channel: otherwise a channel requested after the flag was latched is never closed
			for _, f := range c.P.LibraryFuncs() {
				flow.Instrs(f, func(in ssa.Instruction) {
					st, ok := in.(*ssa.Store)
					if !ok {
						return
					}
					tn, fld, _, ok := flow.FieldOf(st.Addr)
					if !ok || tn != ro.connT.Obj().Name() || !goneFlds[fld] {
						return
					}
					if cst, isC := st.Val.(*ssa.Const); !isC || cst.Value == nil || cst.Value.String() != "true" {
						return
					}
					k := fmt.Sprintf("%s:%s-only-with-channel", fname(f), fld)
					// existsAt: at instruction at of fn a channel is known to exist
					existsAt := func(fn *ssa.Function, at ssa.Instruction) bool {
						for _, g := range flow.Guards(at) {
							cond, neg := flow.Cond(g.If.Cond, g.Taken)
							if bo, ok := cond.(*ssa.BinOp); ok {
								if _, bf, _, ok := flow.FieldOf(bo.X); ok && bf == ro.notifyFld && flow.IsNilConst(bo.Y) && ((bo.Op == token.NEQ) != neg) {
									return true
								}
							}
						}
						found := false
						flow.Instrs(fn, func(x ssa.Instruction) {
							if ms, ok := x.(*ssa.Store); ok && flow.Dominates(ms, at) {
								if _, sf, _, ok := flow.FieldOf(ms.Addr); ok && sf == ro.notifyFld {
									if _, isMk := ms.Val.(*ssa.MakeChan); isMk {
										found = true
									}
								}
							}
						})
						return found
					}
					exists := existsAt(f, st)
					if !exists && f.Parent() == nil && (f.Object() == nil || !f.Object().Exported()) && !c.addressTaken(f) {
						// a close-and-mark helper: the channel exists at every one of its call sites
						css := c.librarySites(f)
						exists = len(css) > 0
						for _, cs := range css {
							if !existsAt(cs.Parent(), cs) {
								exists = false
							}
						}
					}
					consulted := false
					flow.Instrs(hand, func(x ssa.Instruction) {
						if ifi, ok := x.(*ssa.If); ok {
							cond, _ := flow.Cond(ifi.Cond, true)
							if _, cf, _, ok := flow.FieldOf(cond); ok && cf == fld {
								consulted = true
							}
						}
					})
					r.Check(exists || consulted, "R4", k, c.pos(st), "the flag that silences later notifications is set only where a channel exists (or the hand-out function consults it)", "the flag "+fld+" that silences every later notification can be set while no notify channel exists, and "+hand.Name()+" does not consult it: a channel requested afterwards is never closed although the connection is gone")
				})
			}
		}
	}

	// ---- R8: lock order ----
	c.lockOrder("R8")

	// ---- R6 (exit chain): the clean-up the connection loop runs when it ends does not wait for anybody ----
	// A wait there (WaitGroup, condition, channel) keeps the loop's goroutine alive after the connection is gone
	// whenever the party waited for has nothing left to do.
	{
		nWait := 0
		var fs []*ssa.Function
		for f := range exitChain {
			fs = append(fs, f)
		}
		sort.Slice(fs, func(i, j int) bool { return fname(fs[i]) < fname(fs[j]) })
		for _, f := range fs {
			if !c.P.IsLibrary(f) {
				continue
			}
			flow.Instrs(f, func(in ssa.Instruction) {
				what := ""
				switch x := in.(type) {
				case *ssa.Send:
					what = "a blocking channel send"
				case *ssa.UnOp:
					if x.Op == token.ARROW {
						what = "a blocking channel receive"
					}
				case *ssa.Select:
					if x.Blocking {
						what = "a blocking select"
					}
				case *ssa.Call:
					if flow.IsCallTo(x, "sync", "WaitGroup", "Wait") || flow.IsCallTo(x, "sync", "Cond", "Wait") {
						what = "a wait (" + calleeLabel(x) + ")"
					}
				}
				if what != "" {
					nWait++
					r.Fail("R6", fname(f)+":exit-chain-waits", c.pos(in), what+" in the clean-up that runs when the connection loop ends: if the awaited party never acts (a copier that was armed but never started, a peer that is gone) the loop's goroutine never exits")
				}
			})
		}
		if nWait == 0 {
			r.Ok("R6", "ExitChain:no-waits", "-", fmt.Sprintf("%d functions of the loop's exit chain contain no channel operation or wait", len(fs)))
		}
	}

	// ---- R6 ----
	readLoopFn, _ := c.connReadLoop(loopFn)
	c.c14Goroutines(readLoopFn, copiers)

	// ---- R7: only when the connection is gone ----
	// (a) the notifier is called only where termination is certain: on the loop's exit chain, or after a call
	// that ends the transport / observed its end (Close of the connection, CloseWithError of the pipe fed
	// from it) on every path of the calling function
	isTerm := func(in ssa.Instruction) bool {
		ci, ok := in.(ssa.CallInstruction)
		if !ok {
			return false
		}
		com := ci.Common()
		if com.IsInvoke() && com.Method.Name() == "Close" {
			t := com.Value.Type()
			if flow.TypeIs(t, "net", "Conn") || flow.TypeIs(t, pkgDiam, "MultistreamConn") {
				return true
			}
		}
		if o := flow.CalleeObj(ci); o != nil && o.Pkg() != nil && o.Pkg().Path() == "io" && flow.RecvTypeName(o.Type().(*types.Signature)) == "PipeWriter" && strings.HasPrefix(o.Name(), "Close") {
			return true
		}
		return false
	}
	for nf := range ro.notifiers {
		// the function that hands the channel out closes it only on its terminated-flag edge (R4): calling it
		// is requesting a notification, not delivering one
		handsOut := false
		if nf.Signature.Results().Len() == 1 {
			for _, rv := range flow.ReturnValues(nf, 0) {
				if _, fld, _, ok := flow.FieldOf(flow.Peel(rv)); ok && fld == ro.notifyFld {
					handsOut = true
				}
			}
		}
		if handsOut {
			continue
		}
		for _, cs := range c.librarySites(nf) {
			f := cs.Parent()
			key := fname(f) + ":notifies-only-after-termination"
			if exitChain[f] || ro.notifiers[f] {
				r.Ok("R7", key, c.pos(cs), "on the connection loop's exit chain (the transport was closed by the deferred closure)")
				continue
			}
			if p := flow.PathAvoiding(f, nil, func(in ssa.Instruction) bool { return in == ssa.Instruction(cs) }, isTerm); p != nil {
				r.Fail("R7", key, c.pos(cs), "CloseNotify channels are closed on a path on which the connection has not been terminated (no Close of the transport, no end of its byte stream observed): the notification fires while messages are still being dispatched", c.witness(p)...)
			} else {
				r.Ok("R7", key, c.pos(cs), "every path to the notifier passes a Close of the transport or of the pipe fed from it")
			}
		}
	}
	// (b) a local Close terminates: the Conn implementation's Close closes the transport on every path
	for _, f := range c.P.LibraryFuncs() {
		if f.Name() != "Close" || f.Signature.Recv() == nil || pkgOf(f).Path() != pkgDiam || f.Signature.Params().Len() != 0 {
			continue
		}
		rt := f.Signature.Recv().Type()
		connI := c.P.NamedType("diam", "Conn")
		if connI == nil {
			continue
		}
		iface, _ := connI.Underlying().(*types.Interface)
		if iface == nil || !types.Implements(rt, iface) {
			continue
		}
		// only the implementation that wraps a transport (has a path to a net.Conn Close at all or not)
		if n := flow.NamedOf(rt); n == nil || n.Obj().Pkg() == nil || strings.Contains(n.Obj().Name(), "SCTP") {
			continue
		}
		key := fname(f) + ":local-close-closes-transport"
		isTransportClose := func(in ssa.Instruction) bool {
			ci, ok := in.(ssa.CallInstruction)
			if !ok {
				return false
			}
			com := ci.Common()
			return com.IsInvoke() && com.Method.Name() == "Close" && (flow.TypeIs(com.Value.Type(), "net", "Conn") || flow.TypeIs(com.Value.Type(), pkgDiam, "MultistreamConn"))
		}
		if p := flow.PathAvoiding(f, nil, flow.IsReturn, isTransportClose); p != nil {
			r.Fail("R7", key, c.fpos(f), "Close of the connection does not close the transport on every path: after a local Close the connection may never terminate (reader goroutine and CloseNotify channels stay)", c.witness(p)...)
		} else {
			r.Ok("R7", key, c.fpos(f), "every path through Close closes the transport")
		}
		// … and gets there without waiting for a writer: Close does not take a mutex that another function of the
		// library holds while it writes to the transport (a writer stuck on a peer that stopped reading would keep
		// Close, and with it the termination, from ever happening)
		ioMutex := map[string]string{}
		for _, g := range c.P.LibraryFuncs() {
			if pkgOf(g).Path() != pkgDiam || g == f {
				continue
			}
			ops := lockOps(g)
			if len(ops) == 0 {
				continue
			}
			for _, ci := range flow.CallInstrs(g) {
				com := ci.Common()
				isIO := false
				if com.IsInvoke() {
					switch com.Method.Name() {
					case "Write", "WriteStream", "Flush":
						isIO = true
					}
				} else if o := flow.CalleeObj(ci); o != nil && o.Pkg() != nil && o.Pkg().Path() == "bufio" && (o.Name() == "Write" || o.Name() == "Flush") {
					isIO = true
				}
				if !isIO {
					continue
				}
				for _, op := range ops {
					if op.acquire && mustHeldAt(g, ci, op.path, op.exclusive) {
						if mf := mutexField(op.in); mf != "" {
							ioMutex[mf] = fname(g)
						}
					}
				}
			}
		}
		wkey := fname(f) + ":close-does-not-wait-for-writers"
		var waits ssa.Instruction
		holder := ""
		for _, op := range lockOps(f) {
			if op.acquire {
				if h, ok := ioMutex[mutexField(op.in)]; ok {
					waits, holder = op.in, h
				}
			}
		}
		if waits != nil {
			r.Fail("R7", wkey, c.pos(waits), "Close takes "+mutexField(waits.(ssa.CallInstruction))+", which "+holder+" holds while writing to the transport: a Close issued while a write is stuck (the peer stopped reading) blocks forever, the transport is never closed and CloseNotify never fires")
		} else {
			r.Ok("R7", wkey, c.fpos(f), "Close takes no mutex that is held across transport writes")
		}
	}
}

func isRunDefers(in ssa.Instruction) bool {
	_, ok := in.(*ssa.RunDefers)
	return ok
}

func (c *Ctx) c14Switch(ro *c14roles, switchT *types.Named, read *ssa.Function, srcFld, copierFld, swMu string) {
	r := c.R
	for _, f := range c.P.LibraryFuncs() {
		flow.Instrs(f, func(in ssa.Instruction) {
			st, ok := in.(*ssa.Store)
			if !ok {
				return
			}
			tn, fld, base, ok := flow.FieldOf(st.Addr)
			if !ok || tn != switchT.Obj().Name() || flow.NamedOf(base.Type()) == nil || flow.NamedOf(base.Type()).Obj() != switchT.Obj() {
				return
			}
			key := fname(f) + ":store-" + switchT.Obj().Name() + "." + fld
			bp, _, okp := basePathOf(st.Addr)
			// constructor: base is (a field of) a freshly allocated object
			if isFreshBase(st.Addr) {
				r.Ok("R5", key, c.pos(st), "initialisation of a freshly allocated connection")
				return
			}
			// an initialisation helper of the constructor: the object is a parameter of an unexported function and
			// every library call site hands it an object allocated right there
			if root, _, okr := fieldPath(st.Addr); okr {
				if p, isP := flow.Peel(root).(*ssa.Parameter); isP && (f.Object() == nil || !f.Object().Exported()) {
					css := c.librarySites(f)
					allFresh := len(css) > 0
					for _, cs := range css {
						i := paramIndex(f, p)
						if i >= len(cs.Common().Args) {
							allFresh = false
							continue
						}
						a := flow.Peel(cs.Common().Args[i])
						if al, isAl := a.(*ssa.Alloc); !isAl || !al.Heap {
							allFresh = false
						}
					}
					if allFresh {
						r.Ok("R5", key, c.pos(st), "initialisation helper: every call site hands it a connection allocated right there")
						return
					}
				}
			}
			if !okp {
				r.Undecided("R5", key, c.pos(st), "cannot determine the access path of the switch")
				return
			}
			mu := bp + "." + swMu
			held := mustHeldAt(f, st, mu, true)
			if fld == srcFld {
				if f != read {
					r.Fail("R5", key, c.pos(st), "the reader switch's source is replaced outside the switch's Read: an in-flight Read on the old source races with the new one (messages lost or reordered)")
					return
				}
				r.Check(held, "R5", key, c.pos(st), "source swapped inside Read with "+mu+" held", "the source is swapped without holding "+mu)
				return
			}
			r.Check(held, "R5", key, c.pos(st), "written with "+mu+" held", "switch field written without holding "+mu)
		})
	}
	// go at most once
	for _, ci := range flow.CallInstrs(read) {
		g, ok := ci.(*ssa.Go)
		if !ok {
			continue
		}
		key := fname(read) + ":go-copier-once"
		bp, _, _ := basePathOf(g.Call.Value)
		mu := bp + "." + swMu
		if !mustHeldAt(read, g, mu, true) {
			r.Fail("R5", key, c.pos(g), "the copier is started without holding "+mu+": two Reads can start it twice")
			continue
		}
		ops := lockOps(read)
		isUnlock := func(in ssa.Instruction) bool {
			for _, o := range ops {
				if !o.acquire && o.path == mu && o.in == in {
					return true
				}
			}
			return flow.IsExit(in)
		}
		clears := func(in ssa.Instruction) bool {
			st, ok := in.(*ssa.Store)
			if !ok {
				return false
			}
			_, fld, _, ok := flow.FieldOf(st.Addr)
			return ok && fld == copierFld && flow.IsNilConst(st.Val)
		}
		// cleared just before the go, in the same critical section, is as good as just after it
		clearedBefore := false
		flow.Instrs(read, func(in ssa.Instruction) {
			if clears(in) && flow.Dominates(in, g) && mustHeldAt(read, in, mu, true) &&
				flow.PathAvoiding(read, in, isUnlock, func(x ssa.Instruction) bool { return x == ssa.Instruction(g) }) == nil {
				clearedBefore = true
			}
		})
		if clearedBefore {
			r.Ok("R5", key, c.pos(g), "go copier under "+mu+", field cleared in the same critical section just before")
		} else if p := flow.PathAvoiding(read, g, isUnlock, clears); p != nil {
			r.Fail("R5", key, c.pos(g), "after starting the copier the func field is not cleared in the same critical section: the next Read starts a second copier (duplicated / reordered inbound data)", c.witness(p)...)
		} else {
			r.Ok("R5", key, c.pos(g), "go copier under "+mu+", field cleared before unlock")
		}
	}
}

// isFreshBase: the field address chain roots in an object allocated in the same function
// (constructor / composite literal), not in a parameter or a loaded pointer.
func isFreshBase(v ssa.Value) bool {
	for i := 0; i < 16; i++ {
		switch x := v.(type) {
		case *ssa.FieldAddr:
			v = x.X
		case *ssa.Alloc:
			_, isStruct := x.Type().(*types.Pointer).Elem().Underlying().(*types.Struct)
			return isStruct
		case *ssa.UnOp:
			if x.Op != token.MUL {
				return false
			}
			a, ok := x.X.(*ssa.Alloc)
			if !ok {
				return false
			}
			n := 0
			for _, ref := range flow.Referrers(a) {
				if st, ok := ref.(*ssa.Store); ok && st.Addr == ssa.Value(a) {
					n++
					if !isFreshBase(st.Val) {
						return false
					}
				}
			}
			return n > 0
		case *ssa.Phi:
			for _, e := range x.Edges {
				if !isFreshBase(e) {
					return false
				}
			}
			return true
		default:
			return false
		}
	}
	return false
}

func (c *Ctx) c14Goroutines(loopFn *ssa.Function, copiers []*ssa.Function) {
	r := c.R
	// connection loop: every loop cycle passes the read; read error leaves (C15 R4 re-evaluated here under C14)
	rm := c.P.Func("diam", "ReadMessage")
	loops := flow.Loops(loopFn)
	for i, l := range loops {
		key := fmt.Sprintf("%s:loop#%d-exits-on-read-error", fname(loopFn), i+1)
		var read *ssa.Call
		for b := range l.Blocks {
			for _, in := range b.Instrs {
				if call, ok := in.(*ssa.Call); ok {
					if g := flow.StaticCallee(call); g != nil && (g == rm || c.reachesFunc(g, rm, map[*ssa.Function]bool{})) {
						read = call
					}
				}
			}
		}
		if read == nil {
			r.Fail("R6", key, c.pos(l.Head.Instrs[0]), "a loop of the connection goroutine does not read from the connection: it has no termination-dependent exit")
			continue
		}
		eb := errorEdgeBlocks(read)
		if len(eb) == 0 {
			// the read made by a step helper that reports a failed read as ok == false
			if inner, _ := c.boolStepReader(flow.StaticCallee(read)); inner != nil {
				eb = falseEdgeBlocks(read)
			}
		}
		bad := len(eb) == 0
		for b := range eb {
			if p := flow.PathAvoiding(loopFn, b.Instrs[0], func(in ssa.Instruction) bool { return in == ssa.Instruction(read) }, nil); p != nil {
				bad = true
			}
		}
		// every cycle passes the read
		if p := flow.PathAvoiding(loopFn, l.Head.Instrs[0], func(in ssa.Instruction) bool { return in == l.Head.Instrs[0] }, func(in ssa.Instruction) bool { return in == ssa.Instruction(read) }); p != nil && l.Head.Instrs[0] != ssa.Instruction(read) {
			bad = true
		}
		r.Check(!bad, "R6", key, c.pos(read), "every cycle passes the read and the read-error edge leaves the loop", "the reader goroutine can keep looping after the connection has terminated")
	}
	if len(loops) == 0 {
		r.Undecided("R6", fname(loopFn)+":loop", c.fpos(loopFn), "connection goroutine has no loop")
	}
	// copier: no own loops
	for _, cp := range copiers {
		cl := flow.Loops(cp)
		if len(cl) == 0 {
			r.Ok("R6", fname(cp)+":copy-terminates", c.fpos(cp), "the copier is a single io.Copy that ends when the source fails")
			continue
		}
		c.c14CopierLoops(cp, cl)
	}
	// watchdog-like goroutines: go targets in package sm (library) with loops
	nW := 0
	for _, f := range c.P.LibraryFuncs() {
		if pkgOf(f) == nil || pkgOf(f).Path() != pkgSM {
			continue
		}
		for _, ci := range flow.CallInstrs(f) {
			g, ok := ci.(*ssa.Go)
			if !ok {
				continue
			}
			t := flow.StaticCallee(g)
			if t == nil || !c.P.IsLibrary(t) {
				continue
			}
			nW++
			wl := flow.Loops(t)
			if len(wl) == 0 {
				r.Ok("R6", fname(t)+":no-loop", c.fpos(t), "goroutine without a loop")
				continue
			}
			for i, l := range wl {
				key := fmt.Sprintf("%s:loop#%d-disconnect-case", fname(t), i+1)
				good := false
				why := "a loop of the background goroutine has no select case on the CloseNotify channel whose edge returns: the goroutine outlives the connection"
				for b := range l.Blocks {
					for _, in := range b.Instrs {
						sel, ok := in.(*ssa.Select)
						if !ok {
							continue
						}
						for si, st := range sel.States {
							if st.Dir != types.RecvOnly {
								continue
							}
							if !derivesFromCloseNotify(st.Chan) {
								continue
							}
							// edge index == si returns without passing the loop head
							if selectCaseReturns(t, sel, si, l) {
								good = true
								why = fmt.Sprintf("select case #%d receives from the CloseNotify channel and its edge leaves the loop", si)
							}
						}
					}
				}
				if !good {
					// the select may live in a boolean wait helper: the loop must be left on the edge where the
					// helper reports its CloseNotify case
					for b := range l.Blocks {
						for _, in := range b.Instrs {
							hc, ok := in.(*ssa.Call)
							if !ok {
								continue
							}
							h := flow.StaticCallee(hc)
							if h == nil || !c.P.IsLibrary(h) {
								continue
							}
							hs, vals := selectHelper(h)
							if hs == nil || len(vals) != len(hs.States) {
								continue
							}
							rl := &retransLoop{fn: t, sel: hs, waitCall: hc, caseVal: vals}
							for si, st := range hs.States {
								if st.Dir != types.RecvOnly || !derivesFromCloseNotify(rl.chanInFn(si)) {
									continue
								}
								cb := rl.caseBlock(si)
								if cb == nil {
									continue
								}
								head := l.Head.Instrs[0]
								first := cb.Instrs[0]
								if first != head && flow.PathAvoiding(t, first, func(x ssa.Instruction) bool { return x == head }, nil) == nil {
									good = true
									why = fmt.Sprintf("the wait helper %s reports its CloseNotify case and that edge leaves the loop", h.Name())
								}
							}
						}
					}
				}
				r.Check(good, "R6", key, c.pos(l.Head.Instrs[0]), why, why)
			}
		}
	}
	if nW == 0 {
		r.Note("no background goroutine started in package sm")
	}
}

func derivesFromCloseNotify(v ssa.Value) bool {
	v = flow.Peel(v)
	if call, ok := v.(*ssa.Call); ok && call.Call.IsInvoke() && call.Call.Method.Name() == "CloseNotify" {
		return true
	}
	return false
}

// selectCaseReturns: on the edge index==si of the select, every path leaves the loop (reaches an
// exit or a block outside the loop) without returning to the loop head.
func selectCaseReturns(f *ssa.Function, sel *ssa.Select, si int, l *flow.Loop) bool {
	var idx ssa.Value
	for _, ref := range flow.Referrers(sel) {
		if ex, ok := ref.(*ssa.Extract); ok && ex.Index == 0 {
			idx = ex
		}
	}
	if idx == nil {
		return false
	}
	for _, b := range f.Blocks {
		ifi, ok := b.Instrs[len(b.Instrs)-1].(*ssa.If)
		if !ok {
			continue
		}
		bo, ok := ifi.Cond.(*ssa.BinOp)
		if !ok || bo.Op != token.EQL || bo.X != idx {
			continue
		}
		if k, ok := flow.ConstInt(bo.Y); !ok || int(k) != si {
			continue
		}
		first := b.Succs[0].Instrs[0]
		head := l.Head.Instrs[0]
		if first == head {
			return false
		}
		// no path from the case body back to the loop head
		return flow.PathAvoiding(f, first, func(in ssa.Instruction) bool { return in == head }, nil) == nil
	}
	return false
}

// c14CopierLoops: a hand-written copy loop is accepted when every cycle passes a Read on the
// source whose error leaves the loop, and the bytes a Read returned are forwarded whether or not
// the same Read also returned an error (io.Reader contract: n > 0 with err != nil is legal).
func (c *Ctx) c14CopierLoops(cp *ssa.Function, loops []*flow.Loop) {
	r := c.R
	for i, l := range loops {
		key := fmt.Sprintf("%s:loop#%d", fname(cp), i+1)
		var read *ssa.Call
		for b := range l.Blocks {
			for _, in := range b.Instrs {
				if call, ok := in.(*ssa.Call); ok && call.Call.IsInvoke() && call.Call.Method.Name() == "Read" {
					read = call
				}
			}
		}
		if read == nil {
			r.Fail("R6", key+"-reads-source", c.pos(l.Head.Instrs[0]), "a loop of the copier does not read from the source: it has no termination-dependent exit")
			continue
		}
		head := l.Head.Instrs[0]
		if p := flow.PathAvoiding(cp, head, func(in ssa.Instruction) bool { return in == head }, func(in ssa.Instruction) bool { return in == ssa.Instruction(read) }); p != nil && head != ssa.Instruction(read) {
			r.Fail("R6", key+"-reads-source", c.pos(read), "a cycle of the copier loop does not pass the Read of the source")
			continue
		}
		// error values derived from the read
		var rerr, rn ssa.Value
		for _, ref := range flow.Referrers(read) {
			if ex, ok := ref.(*ssa.Extract); ok {
				if isErrorType(ex.Type()) {
					rerr = ex
				} else {
					rn = ex
				}
			}
		}
		errs := map[ssa.Value]bool{rerr: true}
		changed := true
		for changed {
			changed = false
			flow.Instrs(cp, func(in ssa.Instruction) {
				if ph, ok := in.(*ssa.Phi); ok && !errs[ph] {
					for _, e := range ph.Edges {
						if errs[e] {
							errs[ph] = true
							changed = true
						}
					}
				}
			})
		}
		// some exit edge of the loop is the non-nil edge of a test on such an error
		exits := false
		for b := range l.Blocks {
			ifi, ok := b.Instrs[len(b.Instrs)-1].(*ssa.If)
			if !ok {
				continue
			}
			for si, s := range b.Succs {
				if l.Blocks[s] {
					continue
				}
				rl, ok := condRel(ifi.Cond, si == 0)
				if ok && rl.op == token.NEQ && ((errs[rl.a] && flow.IsNilConst(rl.b)) || (errs[rl.b] && flow.IsNilConst(rl.a))) {
					exits = true
				}
			}
		}
		r.Check(exits, "R6", key+"-exits-on-read-error", c.pos(read), "every cycle reads the source and a non-nil read error leaves the loop", "the copier loop does not leave when the source read fails: the goroutine outlives the connection")
		// forwarded bytes not conditional on the read's error
		for b := range l.Blocks {
			for _, in := range b.Instrs {
				w, ok := in.(*ssa.Call)
				if !ok {
					continue
				}
				o := flow.CalleeObj(w)
				if o == nil || o.Name() != "Write" {
					continue
				}
				_ = rn
				bad := false
				for _, g := range flow.Guards(w) {
					if !l.Blocks[g.If.Block()] {
						continue
					}
					rl, ok := condRel(g.If.Cond, g.Taken)
					if ok && rl.op == token.EQL && ((rl.a == rerr && flow.IsNilConst(rl.b)) || (rl.b == rerr && flow.IsNilConst(rl.a))) {
						bad = true
					}
				}
				r.Check(!bad, "R3", key+"-forwards-bytes-read-with-error", c.pos(w), "the bytes a Read returned are forwarded regardless of the error returned with them", "the copier forwards a chunk only when the Read returned no error: bytes delivered together with EOF/an error (legal for io.Reader, usual for TLS close_notify) are dropped — the last inbound message is lost once CloseNotify was requested")
			}
		}
	}
}
