// Package rules holds one rule set per property (DESIGN.md §5).
package rules

import (
	"golang.org/x/tools/go/ssa"

	"sort"

	"verif/internal/core"
	"verif/internal/prog"
)

// RuleSet is the static decision procedure of one property.
type RuleSet struct {
	Property string
	Title    string
	// Run evaluates every rule on one loaded build configuration.
	Run func(c *Ctx)
	// Explanation says what is decided and what is not (goes to evidence coverage.explanation).
	Explanation string
	// Rules maps rule id -> rule text (for replay files and evidence).
	Rules map[string]string
	// MinInstances: a rule whose instance count falls below this fails (vacuity guard).
	MinInstances map[string]int
	Assumptions  []string
	Technique    string
}

// Ctx is what a rule set sees.
type Ctx struct {
	P    *prog.Program
	R    *core.Result
	Tier string
	// Depth is the interprocedural search depth (quick 3 / thorough 6).
	Depth int

	taken map[*ssa.Function]bool // functions used as values (lazily computed by addressTaken)
}

var registry = map[string]*RuleSet{}

func register(rs *RuleSet) { registry[rs.Property] = rs }

// Get returns the rule set of a property.
func Get(id string) *RuleSet { return registry[id] }

// All returns the registered property ids, sorted.
func All() []string {
	var out []string
	for k := range registry {
		out = append(out, k)
	}
	sort.Strings(out)
	return out
}
