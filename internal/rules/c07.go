package rules

import (
	"fmt"
	"go/constant"
	"go/token"
	"go/types"
	"strings"

	"golang.org/x/tools/go/ssa"

	"verif/internal/flow"
)

func init() {
	register(&RuleSet{
		Property:  "C07",
		Title:     "Concurrent and retried writes deliver each message whole, exactly once",
		Run:       runC07,
		Technique: "who-may-write census with must-held lock sets, critical-section path queries, provenance of the resumed slice and of the retry conditions in the write loops",
		Explanation: "Decides on the current source: R1 every call of a bufio.Writer method and every Write on a net.Conn in package diam's connection code happens with the Conn implementation's mutex held (MultistreamConn.WriteStream is exempt: message-oriented transport, one send per message); " +
			"R2 after the buffered Write of a message succeeded, no path returns without Flush, both inside the critical section of the same Lock, and the Unlock is deferred (or on every exit); " +
			"R3 in the message write function SerializeTo(b) with b = buf[0:m.Len()] dominates the hand-off, exactly one of the two retry helpers receives exactly b (mutually exclusive branches), and each iteration of a retry loop performs exactly one Write/WriteStream; " +
			"R4 the slice written on a retry is b_prev[wn:] (or b_prev when wn == 0) with wn the count the immediately preceding write returned, the retry edge is taken only under err != nil ∧ retries != 0 ∧ err is a net.Error ∧ Temporary(), the returned count accumulates wn and the loop leaves on err == nil; " +
			"R5 the pooled serialisation buffer is released only by a deferred call. " +
			"R2 also: no library function calls Reset on a connection's bufio.Writer (Reset drops the unflushed tail of a message, or rebinds a writer still held by another Conn to a different transport). R4 also: every retry consumes the retry budget (the counter moves toward its bound on the retry edge), and the resume position is applied once (either the slice is re-based or the offset is advanced, never both). " +
			"Not decided: interleavings as executed, bufio.Writer's sticky error after a failed write, transports' partial-write behaviour.",
		Rules: map[string]string{
			"R1": "every transport write happens under the connection's write mutex",
			"R2": "Write+Flush of one message in one critical section; Flush on every success path; Unlock deferred",
			"R3": "serialise once, hand exactly that buffer to exactly one writer; one write per loop iteration",
			"R4": "retry resumes at b[wn:], only for temporary net.Errors with retries left; count accumulates",
			"R5": "serialisation buffer released by defer only",
		},
		MinInstances: map[string]int{"R1": 3, "R2": 2, "R3": 2, "R4": 2, "R5": 1},
		Assumptions:  []string{"io.Writer contract: Write returns 0 <= n <= len(p)", "sync.Mutex provides mutual exclusion"},
	})
}

func runC07(c *Ctx) {
	r := c.R
	// ---- R1 ----
	var bufWrite, bufFlush *ssa.Call
	var writeFn *ssa.Function
	for _, f := range c.P.LibraryFuncs() {
		if pkgOf(f).Path() != pkgDiam {
			continue
		}
		for _, ci := range flow.CallInstrs(f) {
			o := flow.CalleeObj(ci)
			isBufio := o != nil && o.Pkg() != nil && o.Pkg().Path() == "bufio" && flow.RecvTypeName(o.Type().(*types.Signature)) == "Writer"
			com := ci.Common()
			isConnWrite := com.IsInvoke() && com.Method.Name() == "Write" && (flow.TypeIs(com.Value.Type(), "net", "Conn") || flow.TypeIs(com.Value.Type(), pkgDiam, "MultistreamConn"))
			if !isBufio && !isConnWrite {
				continue
			}
			if isBufio {
				switch o.Name() {
				case "Write", "WriteString", "ReadFrom", "Flush", "WriteByte", "WriteRune":
				default:
					continue
				}
			}
			// SCTP adaptor internals write to their own socket, not to a shared diam.Conn
			if f.Signature.Recv() != nil && strings.Contains(flow.RecvTypeName(f.Signature), "SCTP") {
				continue
			}
			key := fmt.Sprintf("%s:%s-under-lock", fname(f), calleeLabel(ci))
			held := ""
			for _, op := range lockOps(f) {
				if op.acquire && op.exclusive && !op.deferred && mustHeldAt(f, ci, op.path, true) {
					held = op.path
				}
			}
			if held == "" {
				if on := c.heldOnEntry(f); len(on) > 0 {
					held = "(held by every caller) ." + on[0]
				}
			}
			if held == "" {
				r.Fail("R1", key, c.pos(ci), "the transport is written without holding the connection's write mutex: bytes of messages written from different goroutines can interleave on the wire")
				continue
			}
			r.Ok("R1", key, c.pos(ci), "called with "+held+" held on every path")
			if call, ok := ci.(*ssa.Call); ok && isBufio {
				if o.Name() == "Write" {
					bufWrite, writeFn = call, f
				}
				if o.Name() == "Flush" {
					bufFlush = call
				}
			}
		}
	}

	// ---- R2 ----
	if bufWrite == nil || bufFlush == nil || bufFlush.Parent() != writeFn {
		r.Fail("R2", "role:buffered-write", "-", "no function writes and flushes the connection's bufio.Writer")
	} else {
		key := fname(writeFn) + ":write-then-flush"
		// success paths after Write pass Flush
		eb := errorEdgeBlocks(bufWrite)
		p := flow.PathAvoiding(writeFn, bufWrite, func(in ssa.Instruction) bool {
			return flow.IsReturn(in) && !eb[in.Block()] && mayReturnNilError(in.(*ssa.Return))
		},
			func(in ssa.Instruction) bool { return in == ssa.Instruction(bufFlush) || eb[in.Block()] })
		if p != nil {
			r.Fail("R2", key, c.pos(bufWrite), "after the buffered Write succeeded a path returns without Flush: the message stays in the buffer and is sent (or lost) with a later one", c.witness(p)...)
		} else {
			r.Ok("R2", key, c.pos(bufFlush), "every success path after Write passes Flush")
		}
		// same critical section: no Unlock between Write and Flush, and unlock deferred
		key = fname(writeFn) + ":one-critical-section"
		ops := lockOps(writeFn)
		var lockPath string
		for _, op := range ops {
			if op.acquire && op.exclusive && mustHeldAt(writeFn, bufWrite, op.path, true) && mustHeldAt(writeFn, bufFlush, op.path, true) {
				lockPath = op.path
			}
		}
		deferred := false
		plainUnlockBetween := false
		for _, op := range ops {
			if op.acquire || op.path != lockPath {
				continue
			}
			if op.deferred {
				deferred = true
			} else if flow.PathAvoiding(writeFn, bufWrite, func(in ssa.Instruction) bool { return in == ssa.Instruction(op.in) }, func(in ssa.Instruction) bool { return in == ssa.Instruction(bufFlush) }) != nil {
				plainUnlockBetween = true
			}
		}
		allExitsUnlock := deferred
		if !deferred && lockPath != "" {
			// every return passes an unlock
			isUnlock := func(in ssa.Instruction) bool {
				for _, op := range ops {
					if !op.acquire && op.path == lockPath && op.in == in {
						return true
					}
				}
				return false
			}
			allExitsUnlock = flow.PathAvoiding(writeFn, bufFlush, flow.IsReturn, isUnlock) == nil
		}
		if lockPath == "" {
			if on := c.heldOnEntry(writeFn); len(on) > 0 {
				// the whole function runs inside the callers' critical section; it must not release it itself
				releases := false
				for _, op := range ops {
					if !op.acquire && strings.HasSuffix(op.path, "."+on[0]) {
						releases = true
					}
				}
				if !releases {
					lockPath, allExitsUnlock = "(caller's) ."+on[0], true
				}
			}
		}
		r.Check(lockPath != "" && !plainUnlockBetween && allExitsUnlock, "R2", key, c.pos(bufWrite), "Write and Flush under the same "+lockPath+" acquisition; released by defer / on every exit", "Write and Flush of one message are not inside one critical section (or the mutex is not released on every exit): another writer's bytes can land between them")
	}

	// the connection's buffered writer is never reset: Reset drops the bytes it still holds, i.e. the tail of
	// a message whose head may already be on the wire
	{
		nReset := 0
		for _, f := range c.P.LibraryFuncs() {
			for _, ci := range flow.CallInstrs(f) {
				if !flow.IsCallTo(ci, "bufio", "Writer", "Reset") {
					continue
				}
				if isFreshBase(ci.Common().Args[0]) {
					continue
				}
				nReset++
				r.Fail("R2", fname(f)+":writer-reset", c.pos(ci), "the connection's bufio.Writer is Reset on the write path: bytes of a message that were buffered but not yet flushed are dropped while its first bytes may already have been sent — the peer sees a truncated message followed by the next one")
			}
		}
		if nReset == 0 {
			r.Ok("R2", "ConnWriter:never-reset", "-", "no library function resets a connection's buffered writer")
		}
	}

	// ---- R3 / R4 ----
	c.c07HandOff()

	// ---- R5 ----
	n := 0
	for _, f := range c.P.LibraryFuncs() {
		if pkgOf(f).Path() != pkgDiam {
			continue
		}
		for _, ci := range flow.CallInstrs(f) {
			g := flow.StaticCallee(ci)
			if g == nil || !c.P.IsLibrary(g) {
				continue
			}
			puts := false
			for _, cj := range flow.CallInstrs(g) {
				if flow.IsCallTo(cj, "sync", "Pool", "Put") {
					if p, ok := flow.Path(cj.Common().Args[0]); ok && strings.Contains(strings.ToLower(p), "writer") {
						puts = true
					}
				}
			}
			if !puts {
				continue
			}
			n++
			_, isDefer := ci.(*ssa.Defer)
			r.Check(isDefer, "R5", fname(f)+":release-"+g.Name(), c.pos(ci), "the pooled serialisation buffer is released by a deferred call, after the write returned", "the pooled serialisation buffer is released by a plain call: it can be reused by another writer while this message is still being written")
		}
	}
	if n == 0 {
		r.Note("no pooled writer buffer release found")
		r.Ok("R5", "no-pooled-writer-buffer", "-", "serialisation does not use a pooled buffer")
	}
}

func (c *Ctx) c07HandOff() {
	r := c.R
	wf := c.P.Method("diam", "Message", "WriteToStreamWithRetry")
	if wf == nil {
		r.Undecided("R3", "role:write-function", "-", "(*Message).WriteToStreamWithRetry not found")
		return
	}
	var ser *ssa.Call
	var hand []*ssa.Call
	for _, ci := range flow.CallInstrs(wf) {
		call, ok := ci.(*ssa.Call)
		if !ok {
			continue
		}
		if flow.IsCallTo(call, pkgDiam, "Message", "SerializeTo") {
			ser = call
		}
		if g := flow.StaticCallee(call); g != nil && c.P.IsLibrary(g) && c.hasWriteLoop(g) {
			hand = append(hand, call)
		}
	}
	// the serialisation may be a step of its own: a helper that serialises the message into buf[0:size] and
	// returns exactly that slice (with the error); the buffer is then the helper's result here and size its
	// argument
	var serBuf, serLen, serMsg ssa.Value
	if ser != nil {
		serBuf, serMsg = ser.Call.Args[1], ser.Call.Args[0]
		switch x := serBuf.(type) {
		case *ssa.Slice:
			serLen = x.High
		case *ssa.MakeSlice:
			serLen = x.Len
		}
	} else {
		for _, ci := range flow.CallInstrs(wf) {
			call, ok := ci.(*ssa.Call)
			if !ok {
				continue
			}
			g := flow.StaticCallee(call)
			if g == nil || g.Blocks == nil || !c.P.IsLibrary(g) || g.Signature.Results().Len() != 2 {
				continue
			}
			var inner *ssa.Call
			for _, cj := range flow.CallInstrs(g) {
				if ic, ok := cj.(*ssa.Call); ok && flow.IsCallTo(ic, pkgDiam, "Message", "SerializeTo") {
					inner = ic
				}
			}
			if inner == nil {
				continue
			}
			sl, isSl := inner.Call.Args[1].(*ssa.Slice)
			if !isSl || sl.High == nil {
				continue
			}
			// every non-nil buffer the helper returns is the slice it serialised into
			okRet := true
			for _, rv := range flow.ReturnValues(g, 0) {
				if flow.IsNilConst(rv) {
					continue
				}
				if rv != ssa.Value(sl) {
					okRet = false
				}
			}
			mp, isMP := flow.Peel(inner.Call.Args[0]).(*ssa.Parameter)
			if !okRet || !isMP || mp.Parent() != g {
				continue
			}
			var lenArg ssa.Value
			if hp, isP := flow.Peel(sl.High).(*ssa.Parameter); isP && hp.Parent() == g {
				if i := paramIndex(g, hp); i < len(call.Call.Args) {
					lenArg = call.Call.Args[i]
				}
			} else {
				lenArg = sl.High // m.Len() computed in the helper itself
			}
			for _, ref := range flow.Referrers(call) {
				if ex, ok := ref.(*ssa.Extract); ok && ex.Index == 0 {
					serBuf = ex
				}
			}
			if serBuf != nil {
				ser, serLen = call, lenArg
				if i := paramIndex(g, mp); i < len(call.Call.Args) {
					serMsg = call.Call.Args[i]
				}
			}
		}
	}
	key := fname(wf) + ":serialise-once-hand-off-once"
	switch {
	case ser == nil:
		r.Fail("R3", key, c.fpos(wf), "the message is not serialised into one buffer before being written")
		return
	case len(hand) == 0:
		r.Fail("R3", key, c.fpos(wf), "the serialised message is not handed to a retry-capable writer")
		return
	}
	b := serBuf
	okAll := true
	why := ""
	// b = buf[0:m.Len()]
	if serLen == nil {
		okAll, why = false, "cannot relate the write buffer to m.Len()"
	} else {
		lc, isCall := flow.Peel(serLen).(*ssa.Call)
		if !isCall || !flow.IsCallTo(lc, pkgDiam, "Message", "Len") || serMsg != nil && flow.Peel(lc.Call.Args[0]) != flow.Peel(serMsg) {
			okAll, why = false, "the write buffer's length is not m.Len() of the message being serialised"
		}
	}
	for i, h := range hand {
		if !flow.Dominates(ser, h) {
			okAll, why = false, "a writer is called before the message was serialised"
		}
		found := false
		for _, a := range h.Call.Args {
			if a == b {
				found = true
			}
		}
		if !found {
			okAll, why = false, "the writer "+calleeLabel(h)+" does not receive exactly the serialised buffer"
		}
		for j, h2 := range hand {
			if i != j && flow.PathAvoiding(wf, h, func(in ssa.Instruction) bool { return in == ssa.Instruction(h2) }, nil) != nil {
				okAll, why = false, "both writers can run for one message (the message is written twice)"
			}
		}
	}
	// a write hand-off on every path after successful serialisation
	eb := errorEdgeBlocks(ser)
	isHand := func(in ssa.Instruction) bool {
		for _, h := range hand {
			if ssa.Instruction(h) == in {
				return true
			}
		}
		return eb[in.Block()]
	}
	if okAll {
		if p := flow.PathAvoiding(wf, ser, func(in ssa.Instruction) bool { return flow.IsReturn(in) && !eb[in.Block()] }, isHand); p != nil {
			okAll, why = false, "a path returns after serialising without writing the message"
		}
	}
	r.Check(okAll, "R3", key, c.pos(ser), fmt.Sprintf("SerializeTo(buf[0:m.Len()]) dominates %d mutually exclusive hand-offs of exactly that buffer", len(hand)), why)

	// loops
	seen := map[*ssa.Function]bool{}
	for _, h := range hand {
		for _, g := range c.writeLoopFns(flow.StaticCallee(h), 0) {
			if seen[g] {
				continue
			}
			seen[g] = true
			c.c07Loop(g)
		}
	}
}

// writeLoopFns: every function holding a transport write loop that g hands its byte parameter to (g itself
// included).
func (c *Ctx) writeLoopFns(g *ssa.Function, depth int) []*ssa.Function {
	if g == nil || g.Blocks == nil || depth > 2 {
		return nil
	}
	loops := flow.Loops(g)
	found := false
	flow.Instrs(g, func(in ssa.Instruction) {
		if isTransportWriteInvoke(in) && flow.InnermostLoop(loops, in) != nil {
			found = true
		}
	})
	if found {
		return []*ssa.Function{g}
	}
	var out []*ssa.Function
	bp := byteParam(g)
	for _, ci := range flow.CallInstrs(g) {
		h := flow.StaticCallee(ci)
		if h == nil || !c.P.IsLibrary(h) {
			continue
		}
		for _, a := range ci.Common().Args {
			if bp != nil && a == ssa.Value(bp) {
				out = append(out, c.writeLoopFns(h, depth+1)...)
				break
			}
		}
	}
	return out
}

// isTransportWriteInvoke: w.Write(b) / w.WriteStream(b, s) on an interface, or a call of a
// func([]byte) (int, error) parameter (a write function handed to a shared retry helper).
func isTransportWriteInvoke(in ssa.Instruction) bool {
	call, ok := in.(*ssa.Call)
	if !ok {
		return false
	}
	if call.Call.IsInvoke() {
		n := call.Call.Method.Name()
		return n == "Write" || n == "WriteStream"
	}
	if p, isP := call.Call.Value.(*ssa.Parameter); isP {
		if sig, ok := p.Type().Underlying().(*types.Signature); ok && sig.Params().Len() == 1 && sig.Results().Len() == 2 && isByteSlice(sig.Params().At(0).Type()) && isErrorType(sig.Results().At(1).Type()) {
			return true
		}
	}
	return false
}

// writeLoopFn: the function that actually contains the write loop for hand-off callee g: g
// itself, or a helper g delegates to with its buffer parameter (depth 2).
func (c *Ctx) writeLoopFn(g *ssa.Function, depth int) *ssa.Function {
	if g == nil || g.Blocks == nil || depth > 2 {
		return nil
	}
	loops := flow.Loops(g)
	found := false
	flow.Instrs(g, func(in ssa.Instruction) {
		if isTransportWriteInvoke(in) && flow.InnermostLoop(loops, in) != nil {
			found = true
		}
	})
	if found {
		return g
	}
	bp := byteParam(g)
	for _, ci := range flow.CallInstrs(g) {
		h := flow.StaticCallee(ci)
		if h == nil || !c.P.IsLibrary(h) {
			continue
		}
		passes := false
		for _, a := range ci.Common().Args {
			if bp != nil && a == ssa.Value(bp) {
				passes = true
			}
		}
		if passes {
			if f := c.writeLoopFn(h, depth+1); f != nil {
				return f
			}
		}
	}
	return nil
}

func (c *Ctx) hasWriteLoop(g *ssa.Function) bool { return c.writeLoopFn(g, 0) != nil }

func (c *Ctx) c07Loop(g *ssa.Function) {
	r := c.R
	loops := flow.Loops(g)
	var writes []*ssa.Call
	flow.Instrs(g, func(in ssa.Instruction) {
		if isTransportWriteInvoke(in) && flow.InnermostLoop(loops, in) != nil {
			writes = append(writes, in.(*ssa.Call))
		}
	})
	key := fname(g) + ":one-write-per-iteration"
	if len(writes) != 1 {
		r.Fail("R3", key, c.fpos(g), fmt.Sprintf("the retry loop contains %d transport writes, expected exactly one per iteration", len(writes)))
		return
	}
	w := writes[0]
	l := flow.InnermostLoop(loops, w)
	head := l.Head.Instrs[0]
	if p := flow.PathAvoiding(g, w, func(in ssa.Instruction) bool { return in == head }, nil); p == nil {
		r.Fail("R3", key, c.pos(w), "the write is not inside a retry cycle")
		return
	}
	r.Ok("R3", key, c.pos(w), "exactly one Write/WriteStream in the loop")

	// ---- R4 ----
	results := func(call *ssa.Call) (n, e ssa.Value) {
		for _, ref := range flow.Referrers(call) {
			if ex, ok := ref.(*ssa.Extract); ok {
				if isErrorType(ex.Type()) {
					e = ex
				} else if ex.Index == 0 {
					n = ex
				}
			}
		}
		return
	}
	wn1, werr1 := results(w)
	key = fname(g) + ":resume-arithmetic"
	inLoop := func(i int, ph *ssa.Phi) bool { return l.Blocks[ph.Block().Preds[i]] }
	isHeadPhi := func(v ssa.Value) (*ssa.Phi, bool) {
		ph, ok := v.(*ssa.Phi)
		return ph, ok && ph.Block() == l.Head
	}
	// peeled form: the first attempt is written out in front of the loop (same transport, same method, the
	// buffer handed in) and the loop body ends with the retry's write; the count and the error of "the
	// preceding write" are then loop-head merges of the two writes' results
	var w0 *ssa.Call
	nOutside := 0
	flow.Instrs(g, func(in ssa.Instruction) {
		if !isTransportWriteInvoke(in) || flow.InnermostLoop(loops, in) != nil {
			return
		}
		nOutside++
		c0 := in.(*ssa.Call)
		same := c0.Call.Value == w.Call.Value && c0.Call.IsInvoke() == w.Call.IsInvoke() && (!w.Call.IsInvoke() || c0.Call.Method == w.Call.Method)
		if _, isP := flow.Peel(c0.Call.Args[0]).(*ssa.Parameter); same && isP && c0.Block().Dominates(l.Head) {
			w0 = c0
		}
	})
	if nOutside != 1 {
		w0 = nil
	}
	var wn0, werr0 ssa.Value
	if w0 != nil {
		wn0, werr0 = results(w0)
	}
	// mergeOf: v is the loop-head merge of the peeled write's result (entry) and the loop write's result (back)
	mergeOf := func(v, first, again ssa.Value) bool {
		ph, isHead := isHeadPhi(v)
		if !isHead || w0 == nil || first == nil || again == nil {
			return false
		}
		for i, e := range ph.Edges {
			if inLoop(i, ph) && e != again || !inLoop(i, ph) && e != first {
				return false
			}
		}
		return true
	}
	isWn := func(v ssa.Value) bool { return v != nil && (v == wn1 && w0 == nil || mergeOf(v, wn0, wn1)) }
	isWerr := func(v ssa.Value) bool { return v != nil && (v == werr1 && w0 == nil || mergeOf(v, werr0, werr1)) }
	wn, werr := wn1, werr1
	// alternatives of a value through merge phis inside the loop
	var alts func(v ssa.Value, d int) []ssa.Value
	alts = func(v ssa.Value, d int) []ssa.Value {
		if ph, ok := v.(*ssa.Phi); ok && ph.Block() != l.Head && d < 4 {
			var out []ssa.Value
			for _, e := range ph.Edges {
				out = append(out, alts(e, d+1)...)
			}
			return out
		}
		return []ssa.Value{v}
	}
	// stepOK: on the back edges phi advances by exactly wn (or stays, for the wn == 0 arm); entry value as wanted
	stepOK := func(ph *ssa.Phi, entryOK func(ssa.Value) bool, advanced func(ssa.Value) bool) (bool, string) {
		sawAdvance := false
		for i, e := range ph.Edges {
			if !inLoop(i, ph) {
				if !entryOK(e) {
					return false, "the first write does not send the buffer handed in from its first byte"
				}
				continue
			}
			if why := keepOnlyWhenNothingWritten(e, ph, l.Head, isWn, 0); why != "" {
				return false, why
			}
			for _, a := range alts(e, 0) {
				if a == ssa.Value(ph) {
					continue // wn == 0 arm keeps the position
				}
				if !advanced(a) {
					return false, "on a retry the remaining bytes are not those after the count the preceding write returned"
				}
				sawAdvance = true
			}
		}
		if !sawAdvance {
			return false, "a retry writes the same bytes again although the transport accepted part of them: the accepted bytes are sent twice"
		}
		return true, ""
	}
	arg := w.Call.Args[0]
	okSlice, why := false, "the buffer written in the loop is neither carried from one iteration to the next as b[wn:] nor addressed as b[sent:] with sent advanced by each write's count: a retry re-sends bytes the transport already accepted (or sends the wrong ones)"
	var offsetPhi *ssa.Phi
	if ph, isHead := isHeadPhi(arg); isHead {
		// reslice form: b = b[wn:]
		okSlice, why = stepOK(ph,
			func(e ssa.Value) bool { _, isP := flow.Peel(e).(*ssa.Parameter); return isP },
			func(a ssa.Value) bool {
				sl, ok := a.(*ssa.Slice)
				return ok && sl.X == ssa.Value(ph) && isWn(sl.Low) && sl.High == nil
			})
	} else if ph := c07PeeledCarry(arg, alts, isHeadPhi); ph != nil && w0 != nil {
		// peeled reslice form: the loop's write sends the carried buffer, re-sliced after the preceding write's count
		backOK := true
		for i, e := range ph.Edges {
			if inLoop(i, ph) && e != arg {
				backOK = false
			}
		}
		if !backOK {
			okSlice, why = false, "the buffer carried to the next iteration is not the one the retry wrote"
		} else {
			okSlice, why = stepOK(ph,
				func(e ssa.Value) bool { return flow.Peel(e) == flow.Peel(w0.Call.Args[0]) },
				func(a ssa.Value) bool {
					sl, ok := a.(*ssa.Slice)
					return ok && sl.X == ssa.Value(ph) && isWn(sl.Low) && sl.High == nil
				})
		}
	} else if sl, isSl := arg.(*ssa.Slice); isSl && sl.High == nil && sl.Low != nil {
		// offset form: write(b[sent:]); sent += wn
		if _, isP := flow.Peel(sl.X).(*ssa.Parameter); isP {
			if ph, isHead := isHeadPhi(sl.Low); isHead {
				offsetPhi = ph
				okSlice, why = stepOK(ph, isZeroConst,
					func(a ssa.Value) bool {
						bo, ok := a.(*ssa.BinOp)
						return ok && bo.Op == token.ADD && ((bo.X == ssa.Value(ph) && isWn(bo.Y)) || (bo.Y == ssa.Value(ph) && isWn(bo.X)))
					})
			}
		}
	}
	r.Check(okSlice, "R4", key, c.pos(w), "next write starts at the byte after those the preceding writes reported (b[wn:] carried, or b[sent:] with sent += wn)", why)

	// retry conditions on the back edge
	key = fname(g) + ":retry-conditions"
	var back *ssa.BasicBlock
	for _, p := range l.Head.Preds {
		if l.Blocks[p] {
			back = p
		}
	}
	if back == nil || werr == nil {
		r.Undecided("R4", key, c.pos(w), "cannot find the loop's back edge / the write's error")
		return
	}
	// the retry budget: a counter counted down from the retries parameter to 0, or up from 0 to it
	var budget *ssa.Phi
	budgetUp := false
	for _, in := range l.Head.Instrs {
		rp, ok := in.(*ssa.Phi)
		if !ok || rp == offsetPhi {
			continue
		}
		if bt, isB := rp.Type().Underlying().(*types.Basic); !isB || bt.Info()&types.IsInteger == 0 {
			continue
		}
		down, up := true, true
		for i, e := range rp.Edges {
			if !inLoop(i, rp) {
				if _, isP := flow.Peel(e).(*ssa.Parameter); !isP {
					down = false
				}
				if !isZeroConst(e) {
					up = false
				}
				continue
			}
			bo, ok := e.(*ssa.BinOp)
			k := int64(0)
			if ok {
				k, _ = flow.ConstInt(bo.Y)
			}
			if !ok || bo.X != ssa.Value(rp) || k != 1 {
				down, up = false, false
				continue
			}
			if bo.Op != token.SUB {
				down = false
			}
			if bo.Op != token.ADD {
				up = false
			}
		}
		if down || up {
			budget, budgetUp = rp, up
		}
	}
	conds := map[string]bool{}
	for _, gd := range flow.Guards(back.Instrs[len(back.Instrs)-1]) {
		cond, neg := flow.Cond(gd.If.Cond, gd.Taken)
		switch x := cond.(type) {
		case *ssa.BinOp:
			rl, _ := condRel(gd.If.Cond, gd.Taken)
			if budget != nil && flow.Peel(rl.a) == ssa.Value(budget) {
				if !budgetUp && isZeroConst(rl.b) && (rl.op == token.NEQ || rl.op == token.GTR) {
					conds["retries left"] = true
				}
				if _, isP := flow.Peel(rl.b).(*ssa.Parameter); budgetUp && isP && (rl.op == token.NEQ || rl.op == token.LSS) {
					conds["retries left"] = true
				}
			}
			if _, isP := flow.Peel(rl.b).(*ssa.Parameter); budget != nil && budgetUp && isP && flow.Peel(rl.a) != ssa.Value(budget) {
				// attempt+1 < retries style comparisons are not recognised: leave undecided below
				_ = isP
			}
		case *ssa.Extract:
			if ta, ok := x.Tuple.(*ssa.TypeAssert); ok && x.Index == 1 && !neg && isWerr(ta.X) && flow.TypeIs(ta.AssertedType, "net", "Error") {
				conds["err is net.Error"] = true
			}
		case *ssa.Call:
			if x.Call.IsInvoke() && x.Call.Method.Name() == "Temporary" && !neg {
				conds["Temporary()"] = true
			}
			// a package-local predicate over the write's error
			if h := flow.StaticCallee(x); h != nil && h.Blocks != nil && c.P.IsLibrary(h) && !neg {
				for i, a := range x.Call.Args {
					if isWerr(a) && i < len(h.Params) && impliesTemporaryNetError(h, h.Params[i]) {
						conds["err is net.Error"], conds["Temporary()"] = true, true
					}
				}
			}
		}
	}
	var missing []string
	for _, k := range []string{"retries left", "err is net.Error", "Temporary()"} {
		if !conds[k] {
			missing = append(missing, k)
		}
	}
	r.Check(len(missing) == 0, "R4", key, c.pos(w), "the retry edge requires retries left ∧ err is a net.Error ∧ Temporary()", fmt.Sprintf("a write is retried without requiring %v: permanent errors are retried / the retry budget is ignored", missing))
	r.Check(budget != nil, "R4", fname(g)+":retry-budget-consumed", c.pos(w), "each retry consumes one unit of the retry budget (counter stepped by one per iteration, from/to the retries parameter)", "retries are not counted: a persistently failing transport is retried forever")
	// n accumulates
	accOK := false
	for _, rv := range flow.ReturnValues(g, 0) {
		if bo, ok := rv.(*ssa.BinOp); ok && bo.Op == token.ADD && (bo.Y == wn || bo.X == wn) && w0 == nil {
			accOK = true
		}
		// peeled form: total = (first count) on entry, total + (retry's count) on every back edge
		if ph, isHead := isHeadPhi(rv); isHead && w0 != nil {
			good := true
			for i, e := range ph.Edges {
				if !inLoop(i, ph) {
					if e != wn0 {
						good = false
					}
					continue
				}
				bo, ok := e.(*ssa.BinOp)
				if !ok || bo.Op != token.ADD || !((bo.X == ssa.Value(ph) && bo.Y == wn1) || (bo.Y == ssa.Value(ph) && bo.X == wn1)) {
					good = false
				}
			}
			if good {
				accOK = true
			}
		}
	}
	r.Check(accOK, "R4", fname(g)+":count-accumulates", c.pos(w), "the returned byte count is the sum of the counts of all writes", "the returned byte count does not accumulate the counts of the individual writes")
}

// c07PeeledCarry: arg (the buffer the loop's write sends) is made, through merges inside the loop, of a
// loop-head phi and re-slicings of that phi; returns the phi.
func c07PeeledCarry(arg ssa.Value, alts func(ssa.Value, int) []ssa.Value, isHeadPhi func(ssa.Value) (*ssa.Phi, bool)) *ssa.Phi {
	var ph *ssa.Phi
	for _, a := range alts(arg, 0) {
		var cand ssa.Value = a
		if sl, ok := a.(*ssa.Slice); ok {
			cand = sl.X
		}
		p, isHead := isHeadPhi(cand)
		if !isHead || (ph != nil && p != ph) {
			return nil
		}
		ph = p
	}
	if ph != nil && ssa.Value(ph) == arg {
		return nil // the plain head-phi form is handled by the caller
	}
	return ph
}

// impliesTemporaryNetError: the boolean function h returns true only when its parameter p is a net.Error whose
// Temporary() is true: every returned value is false, or the result of Temporary() invoked on p asserted to
// net.Error (merged through phis).
func impliesTemporaryNetError(h *ssa.Function, p *ssa.Parameter) bool {
	var okv func(v ssa.Value, d int) bool
	okv = func(v ssa.Value, d int) bool {
		if d > 4 {
			return false
		}
		switch x := v.(type) {
		case *ssa.Const:
			return x.Value != nil && x.Value.Kind() == constant.Bool && !constant.BoolVal(x.Value)
		case *ssa.Phi:
			for _, e := range x.Edges {
				if !okv(e, d+1) {
					return false
				}
			}
			return true
		case *ssa.Call:
			if !x.Call.IsInvoke() || x.Call.Method.Name() != "Temporary" {
				return false
			}
			recv := x.Call.Value
			if ex, ok := recv.(*ssa.Extract); ok {
				recv = ex.Tuple
			}
			ta, ok := recv.(*ssa.TypeAssert)
			return ok && ta.X == ssa.Value(p) && flow.TypeIs(ta.AssertedType, "net", "Error")
		}
		return false
	}
	rvs := flow.ReturnValues(h, 0)
	if len(rvs) == 0 {
		return false
	}
	for _, rv := range rvs {
		if !okv(rv, 0) {
			return false
		}
	}
	return true
}

// keepOnlyWhenNothingWritten: v is what a loop-head position phi ph receives on a back edge. Where v merges "the
// position advanced" with "the position kept" (an inner phi with ph itself on one edge), the kept edge must be
// taken only when the preceding write reported no bytes (wn <= 0): a position kept after bytes were accepted —
// on a further condition such as wn < len(b) — makes the retry send those bytes again. Returns a reason, or "".
func keepOnlyWhenNothingWritten(v ssa.Value, ph *ssa.Phi, head *ssa.BasicBlock, isWn func(ssa.Value) bool, depth int) string {
	m, ok := v.(*ssa.Phi)
	if !ok || m.Block() == head || depth > 4 {
		return ""
	}
	nothingWritten := func(rl rel) bool {
		for _, pr := range [][2]ssa.Value{{rl.a, rl.b}, {rl.b, rl.a}} {
			a, b := pr[0], pr[1]
			if !isWn(a) {
				continue
			}
			op := rl.op
			if a == rl.b { // b op' a
				switch op {
				case token.LSS:
					op = token.GTR
				case token.GTR:
					op = token.LSS
				case token.LEQ:
					op = token.GEQ
				case token.GEQ:
					op = token.LEQ
				}
			}
			if isZeroConst(b) && (op == token.LEQ || op == token.EQL) {
				return true
			}
			if k, isK := flow.ConstInt(b); isK && k == 1 && op == token.LSS {
				return true
			}
		}
		return false
	}
	for i, e := range m.Edges {
		if e != ssa.Value(ph) {
			if why := keepOnlyWhenNothingWritten(e, ph, head, isWn, depth+1); why != "" {
				return why
			}
			continue
		}
		if i >= len(m.Block().Preds) {
			continue
		}
		ok := false
		for _, rl := range edgeRels(m.Block().Preds[i], m.Block()) {
			if nothingWritten(rl) {
				ok = true
			}
		}
		if !ok {
			return "the position is kept for the retry on an edge that does not establish that the preceding write accepted nothing (count <= 0): bytes the transport took are sent again"
		}
	}
	return ""
}
