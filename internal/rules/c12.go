package rules

import (
	"fmt"
	"go/token"
	"go/types"
	"strings"

	"golang.org/x/tools/go/ssa"

	"verif/internal/flow"
)

func init() {
	register(&RuleSet{
		Property:  "C12",
		Title:     "Client handshake: bounded retransmission, definite outcome, stable afterwards",
		Run:       runC12,
		Technique: "loop-bound normalisation, cycle/path queries on the retransmission loop and its select, must-pass-through Close on failure exits, range-loop content checks, channel-hygiene census of handler closures",
		Explanation: "Decides on the current source, in the client handshake function (the function of package sm that registers the CEA handler): R1 the CER is written in a loop whose counter runs from 0 in steps of 1 while < int(MaxRetransmits)+1 (or an equivalent form), i.e. at most MaxRetransmits+1 transmissions; " +
			"R2 every cycle through the write passes a blocking select whose only case leading back to the write is a timer on RetransmitInterval; " +
			"R3 every return with a non-nil error is preceded on all paths by Close() of the connection, the only return with a nil error lies on the CEA-channel case, and the message written is loop-invariant and is the result of the CER builder; " +
			"R4 the CER builder adds Origin-Host/Origin-Realm from the settings, one Host-IP-Address per address and — in unconditional range loops — every element of AuthApplicationID, AcctApplicationID and VendorSpecificApplicationID; " +
			"R5 the CEA handler is registered before the first write; " +
			"R7 in smparser.CEA.Parse every return that can carry a nil error is preceded on all paths by each error-returning validation step (unmarshal, mandatory AVPs, applications), is unreachable from their error edges, and is guarded by Result-Code == 2001; and (contradiction rule) in smparser.CEA.Parse and what it calls, no rejection (return of an Err* cause) is guarded by a nil test on the result of a module function that can never produce the tested outcome; " +
			"R6 no handler closure of package sm (they run on the connection's only reader goroutine for every matching message) performs a blocking channel operation, and every close() of a captured channel is protected by a once-mechanism (the handshake-complete test that the same path then sets). " +
			"R7 the client's CEA handler reports success only on the path that passed CEA.Parse with a nil error, whose own accepting return is dominated by the nil-error edges of Unmarshal and the sanity check and by the Result-Code == 2001 edge, each rejection test being live; R8 every transport deadline the handshake arms is armed per operation or disarmed again, for each direction it covers, before the connection is handed to the application. " +
			"R3 also: between transmissions nothing is stored into the CER's identifiers and no AVP is added to it (every transmission is the same request, so an answer to any of them matches). " +
			"Not decided: real timing, the CEA acceptance predicate (value-level parser logic).",
		Rules: map[string]string{
			"R1": "at most MaxRetransmits+1 transmissions",
			"R2": "retransmission only after the RetransmitInterval timer",
			"R3": "Close on every failure return; success only via the CEA case; same CER retransmitted",
			"R4": "CER content: identity, addresses, every application the client was told to advertise",
			"R5": "CEA handler registered before the first write",
			"R6": "handler hygiene: no blocking channel op, close only once-protected",
			"R8": "transport deadlines: armed per operation, or disarmed again for every direction they cover",
			"R7": "CEA acceptance skeleton: every validation step precedes acceptance, Result-Code == 2001, rejection guards live",
		},
		MinInstances: map[string]int{"R1": 1, "R2": 1, "R3": 3, "R4": 5, "R5": 1, "R6": 3, "R7": 1, "R8": 1},
		Assumptions:  []string{"time.After(d) fires no earlier than d", "a handler registered on the mux runs on the connection's reader goroutine (C08)"},
	})
}

// handshakeFn: library function of package sm with a ServeMux registration under the constant key "CEA".
func (c *Ctx) handshakeFn() (*ssa.Function, ssa.CallInstruction) {
	for _, f := range c.P.LibraryFuncs() {
		if pkgOf(f).Path() != pkgSM {
			continue
		}
		for _, ci := range flow.CallInstrs(f) {
			if _, ok := isMuxRegistration(ci); !ok || len(ci.Common().Args) < 3 {
				continue
			}
			if s, ok := flow.ConstString(ci.Common().Args[1]); ok && s == "CEA" {
				if c.findRetransLoop(f) != nil {
					return f, ci
				}
				// the registration may sit in a set-up helper: the handshake function is then the caller that
				// holds the transmission loop, and the "registration" is its call of the helper
				for _, g := range c.P.LibraryFuncs() {
					if pkgOf(g).Path() != pkgSM {
						continue
					}
					for _, cj := range flow.CallInstrs(g) {
						if flow.StaticCallee(cj) == f && c.findRetransLoop(g) != nil {
							return g, cj
						}
					}
				}
				// … or the handshake is a pipeline: the caller runs the set-up helper and then a helper that
				// holds the transmission loop; the handshake function is the latter, the "registration" the
				// former's call (it has to precede the loop helper's call, see R5)
				for _, g := range c.P.LibraryFuncs() {
					if pkgOf(g).Path() != pkgSM {
						continue
					}
					for _, cj := range flow.CallInstrs(g) {
						if flow.StaticCallee(cj) != f {
							continue
						}
						for _, ck := range flow.CallInstrs(g) {
							if h := flow.StaticCallee(ck); h != nil && h != f && c.P.IsLibrary(h) && pkgOf(h).Path() == pkgSM && c.findRetransLoop(h) != nil {
								return h, cj
							}
						}
					}
				}
				return f, ci
			}
		}
	}
	return nil, nil
}

func runC12(c *Ctx) {
	r := c.R
	hs, reg := c.handshakeFn()
	if hs == nil {
		r.Undecided("R1", "role:HandshakeFn", "-", "no function in package sm registers a CEA handler")
		return
	}
	r.Role("HandshakeFn", fname(hs))
	rl := c.findRetransLoop(hs)
	if rl == nil {
		r.Fail("R1", fname(hs)+":transmission-loop", c.fpos(hs), "the handshake function does not write the CER inside a loop")
		return
	}
	c.checkRetransBound(rl, "R1", fname(hs)+":transmissions")
	c.checkTimerSpacing(rl, "RetransmitInterval", "R2", fname(hs)+":retransmit-spacing")

	// ---- R3 ----
	// the conn parameter
	var connP *ssa.Parameter
	for _, p := range hs.Params {
		if flow.TypeIs(p.Type(), pkgDiam, "Conn") {
			connP = p
		}
	}
	nRet := 0
	flow.Instrs(hs, func(in ssa.Instruction) {
		ret, ok := in.(*ssa.Return)
		if !ok || len(ret.Results) != 2 {
			return
		}
		nRet++
		errv := ret.Results[1]
		key := fmt.Sprintf("%s:return#%d", fname(hs), nRet)
		if flow.IsNilConst(errv) {
			// success: only via the errc (non-timer) case
			okCase := false
			if rl.idx != nil || rl.waitCall != nil {
				for k := range rl.sel.States {
					if k == rl.timerK {
						continue
					}
					if rl.caseDominates(k, ret.Block()) {
						okCase = true
					}
				}
			}
			r.Check(okCase, "R3", key+"-success", c.pos(ret), "the nil-error return lies on the CEA-channel case of the select", "a usable connection is returned on a path that did not receive a CEA (not on the answer case of the select)")
			// returns the dialled connection
			if connP != nil {
				r.Check(flow.Peel(ret.Results[0]) == ssa.Value(connP), "R3", key+"-returns-conn", c.pos(ret), "returns the connection the handshake ran on", "the success return does not hand back the handshaken connection")
			}
			return
		}
		// failure: Close on all paths
		if p := flow.PathAvoiding(hs, nil, func(x ssa.Instruction) bool { return x == ssa.Instruction(ret) }, isConnClose); p != nil {
			r.Fail("R3", key+"-closes", c.pos(ret), "a failure return of the handshake is reachable without closing the transport: Dial returns an error but the connection (and its reader goroutine) stays open", c.witness(p)...)
		} else {
			r.Ok("R3", key+"-closes", c.pos(ret), "failure return preceded by c.Close() on every path")
		}
	})
	// same CER retransmitted
	{
		key := fname(hs) + ":same-cer"
		recv := rl.msgArg()
		inLoop := false
		if in, ok := recv.(ssa.Instruction); ok && rl.loop.Blocks[in.Block()] {
			inLoop = true
		}
		_, isCall := flow.Peel(c.up(recv)).(*ssa.Call)
		// … and it is not given new identifiers or new AVPs between transmissions: no store to the message's
		// Hop-by-Hop / End-to-End identifier and no AVP added to it inside the loop
		flow.Instrs(hs, func(in ssa.Instruction) {
			if !rl.loop.Blocks[in.Block()] {
				return
			}
			switch x := in.(type) {
			case *ssa.Store:
				root, fields, ok := fieldPathThrough(x.Addr, flow.Peel(recv))
				if ok && root == flow.Peel(recv) && len(fields) > 0 {
					switch fields[len(fields)-1] {
					case "HopByHopID", "EndToEndID", "AVP", "CommandCode", "ApplicationID":
						inLoop = true
					}
				}
			case *ssa.Call:
				if (flow.IsCallTo(x, pkgDiam, "Message", "NewAVP") || flow.IsCallTo(x, pkgDiam, "Message", "AddAVP") || flow.IsCallTo(x, pkgDiam, "Message", "InsertAVP")) && len(x.Call.Args) > 0 && flow.Peel(x.Call.Args[0]) == flow.Peel(recv) {
					inLoop = true
				}
			}
		})
		r.Check(!inLoop && isCall, "R3", key, c.pos(rl.write), "the message written in the loop is built once before the loop (same CER, same identifiers, retransmitted)", "the CER is rebuilt inside the retransmission loop (each retransmission carries new identifiers, so an answer to an earlier transmission no longer matches) or is not the result of the CER builder")
	}

	// ---- R5 ----
	regFirst := flow.Dominates(reg, rl.writeAt())
	if reg.Parent() != hs {
		// pipeline form: the registration (helper call) precedes every call of the loop helper in their caller
		regFirst = false
		for _, cs := range c.librarySites(hs) {
			if cs.Parent() == reg.Parent() {
				regFirst = flow.Dominates(reg, cs)
				if !regFirst {
					break
				}
			}
		}
	}
	r.Check(regFirst, "R5", fname(hs)+":cea-registered-before-write", c.pos(reg), "the CEA handler registration dominates the first write", "the CER can be written before the CEA handler is registered: a fast answer is dispatched to nobody")

	// ---- R4 ----
	c.c12CER(hs, rl)

	// ---- R6 ----
	c.handlerHygiene("R6")

	// ---- R8: stable afterwards — no transport deadline armed for the dial outlives it ----
	c.deadlineDiscipline("R8")

	// ---- R7 ----
	c.rejectionGuardsLive("R7", "CEA")
	c.acceptSkeleton("R7", "CEA", true)
}

// c12CER: content of the CER builder.
func (c *Ctx) c12CER(hs *ssa.Function, rl *retransLoop) {
	r := c.R
	call, ok := flow.Peel(c.up(rl.msgArg())).(*ssa.Call)
	if !ok {
		r.Undecided("R4", fname(hs)+":cer-builder", c.pos(rl.write), "the written message is not the result of a builder call")
		return
	}
	mk := flow.StaticCallee(call)
	if mk == nil || mk.Blocks == nil {
		r.Undecided("R4", fname(hs)+":cer-builder", c.pos(call), "cannot resolve the CER builder")
		return
	}
	r.Role("CERBuilder", fname(mk))
	// request bit + command 257
	okReq := false
	for _, ci := range flow.CallInstrs(mk) {
		if flow.IsCallTo(ci, pkgDiam, "", "NewRequest") {
			if k, ok := flow.ConstInt(ci.Common().Args[0]); ok && k == 257 {
				if a, ok := flow.ConstInt(ci.Common().Args[1]); ok && a == 0 {
					okReq = true
				}
			}
		}
	}
	r.Check(okReq, "R4", fname(mk)+":cer-command", c.fpos(mk), "NewRequest(CapabilitiesExchange=257, application 0)", "the handshake message is not a Capabilities-Exchange request of the base application")
	c.checkIdentityAVPs(mk, "R4", "Settings")
	// host addresses: NewAVP(257 HostIPAddress) in a loop over the addresses parameter
	c.checkRangeAdd(mk, "R4", "host-ip-address", func(src ssa.Value) bool {
		_, isP := flow.Peel(src).(*ssa.Parameter)
		return isP
	}, 257)
	for _, fld := range []string{"AuthApplicationID", "AcctApplicationID", "VendorSpecificApplicationID"} {
		f := fld
		c.checkRangeAdd(mk, "R4", f, func(src ssa.Value) bool { return clientFieldLoad(src, f) }, -1)
	}
}

// checkIdentityAVPs: NewAVP(264, …, cfg.OriginHost) and NewAVP(296, …, cfg.OriginRealm), unconditional.
func (c *Ctx) checkIdentityAVPs(f *ssa.Function, rule, settingsType string) {
	r := c.R
	for _, want := range []struct {
		code int64
		fld  string
	}{{264, "OriginHost"}, {296, "OriginRealm"}} {
		key := fmt.Sprintf("%s:%s-from-settings", fname(f), want.fld)
		found := false
		// the function itself plus package-local helpers it calls unconditionally (helper extraction)
		fns := []*ssa.Function{f}
		for _, hc := range flow.CallInstrs(f) {
			if g := flow.StaticCallee(hc); g != nil && g != f && g.Blocks != nil && pkgOf(g) == pkgOf(f) && onlyNilErrorGuards(hc) {
				if _, isGo := hc.(*ssa.Go); !isGo {
					fns = append(fns, g)
				}
			}
		}
		var cis []ssa.CallInstruction
		for _, g := range fns {
			cis = append(cis, flow.CallInstrs(g)...)
		}
		for _, ci := range cis {
			if !flow.IsCallTo(ci, pkgDiam, "Message", "NewAVP") || len(ci.Common().Args) < 5 {
				continue
			}
			code, ok := flow.ConstInt(ci.Common().Args[1])
			if !ok || code != want.code {
				continue
			}
			tn, fld, _, ok := flow.FieldOf(flow.Peel(ci.Common().Args[4]))
			if ok && tn == settingsType && fld == want.fld && onlyNilErrorGuards(ci) {
				found = true
			}
		}
		r.Check(found, rule, key, c.fpos(f), fmt.Sprintf("adds AVP %d with the value of Settings.%s, unconditionally", want.code, want.fld),
			fmt.Sprintf("the message does not (unconditionally) carry %s from the local settings", want.fld))
	}
}

// checkRangeAdd: a range loop over a slice accepted by isSrc whose body, on every iteration,
// adds the element (AddAVP(elem) or NewAVP(code, …, elem)).
func (c *Ctx) checkRangeAdd(f *ssa.Function, rule, name string, isSrc func(ssa.Value) bool, code int64) {
	r := c.R
	key := fmt.Sprintf("%s:adds-every-%s", fname(f), name)
	found, cond := c.rangeAdds(f, isSrc, code, 0)
	why := "the builder does not add every element of " + name + " to the message"
	if cond != "" {
		why = "not every element of " + name + " is added (" + cond + "): some of what the client was told to advertise is left out"
	}
	r.Check(found, rule, key, c.fpos(f), "range loop adding every element, no condition inside the loop", why)
}

// rangeAdds: the analysis behind checkRangeAdd, following the slice into package-local helpers.
func (c *Ctx) rangeAdds(f *ssa.Function, isSrc func(ssa.Value) bool, code int64, depth int) (bool, string) {
	loops := flow.Loops(f)
	found, cond := false, ""
	for _, ci := range flow.CallInstrs(f) {
		isAdd := flow.IsCallTo(ci, pkgDiam, "Message", "AddAVP")
		isNew := flow.IsCallTo(ci, pkgDiam, "Message", "NewAVP")
		if !isAdd && !isNew {
			continue
		}
		var elem ssa.Value
		if isAdd {
			elem = ci.Common().Args[1]
		} else {
			if k, ok := flow.ConstInt(ci.Common().Args[1]); !ok || k != code {
				continue
			}
			elem = ci.Common().Args[4]
		}
		// elem = *(&s[i]) with s accepted
		u, ok := flow.Peel(elem).(*ssa.UnOp)
		if !ok || u.Op != token.MUL {
			continue
		}
		ia, ok := u.X.(*ssa.IndexAddr)
		if !ok || !isSrc(ia.X) {
			continue
		}
		l := flow.InnermostLoop(loops, ci)
		if l == nil {
			continue
		}
		// every iteration adds the element: no cycle through the loop head avoids the call
		head := l.Head.Instrs[0]
		var bodyFirst ssa.Instruction
		for _, s := range l.Head.Succs {
			if l.Blocks[s] {
				bodyFirst = s.Instrs[0]
			}
		}
		extra := ""
		if bodyFirst != nil && bodyFirst != ssa.Instruction(ci) {
			if p := flow.PathAvoiding(f, l.Head.Instrs[len(l.Head.Instrs)-1], func(x ssa.Instruction) bool { return x == head }, func(x ssa.Instruction) bool {
				return x == ssa.Instruction(ci) || !l.Blocks[x.Block()]
			}); p != nil {
				extra = "an iteration can skip the element"
			}
		}
		// guards outside the loop may only test the source slice itself (nil / length)
		for _, g := range flow.Guards(ci) {
			if l.Blocks[g.If.Block()] {
				continue
			}
			isHead := false
			for _, ol := range loops {
				if ol.Head == g.If.Block() {
					isHead = true // exit edge of an earlier loop
				}
			}
			if isHead {
				continue
			}
			rl, ok := condRel(g.If.Cond, g.Taken)
			okG := false
			if ok {
				if isSrc(rl.a) && flow.IsNilConst(rl.b) {
					okG = true
				}
				if x, isLen := builtinOf(rl.a, "len"); isLen && isSrc(x) {
					okG = true
				}
			}
			if !okG {
				extra = "the loop runs only under " + short(g.If.Cond.String(), 40)
			}
		}
		if extra != "" {
			cond = extra
			continue
		}
		found = true
	}
	if !found && depth < 2 {
		// the loop may live in a package-local helper that receives the slice
		for _, ci := range flow.CallInstrs(f) {
			h := flow.StaticCallee(ci)
			if h == nil || h.Blocks == nil || !c.P.IsLibrary(h) {
				continue
			}
			for i, a := range ci.Common().Args {
				if !isSrc(a) || i >= len(h.Params) {
					continue
				}
				// the call itself only under tests of the source
				okCall := true
				for _, g := range flow.Guards(ci) {
					isHead := false
					for _, ol := range loops {
						if ol.Head == g.If.Block() {
							isHead = true // exit edge of an earlier loop
						}
					}
					if isHead {
						continue
					}
					rl, ok := condRel(g.If.Cond, g.Taken)
					okG := false
					if ok {
						if isSrc(rl.a) && flow.IsNilConst(rl.b) {
							okG = true
						}
						if x, isLen := builtinOf(rl.a, "len"); isLen && isSrc(x) {
							okG = true
						}
					}
					if !okG {
						okCall = false
					}
				}
				if !okCall {
					cond = "the helper adding them is called only under another condition"
					continue
				}
				hp := h.Params[i]
				if ok, hc := c.rangeAdds(h, func(v ssa.Value) bool { return flow.Peel(v) == ssa.Value(hp) }, code, depth+1); ok {
					found = true
				} else if hc != "" {
					cond = hc
				}
			}
		}
	}
	return found, cond
}

// handlerHygiene: closures with the handler signature created in package sm (library) must not
// block on channels; close() of a captured channel must be once-protected.
func (c *Ctx) handlerHygiene(rule string) {
	r := c.R
	n := 0
	for _, f := range c.P.LibraryFuncs() {
		if pkgOf(f).Path() != pkgSM || f.Synthetic != "" {
			continue
		}
		// handlers: closures and named functions / methods with the handler signature
		if !isHandlerSig(types.NewSignatureType(nil, nil, nil, f.Signature.Params(), f.Signature.Results(), false)) {
			continue
		}
		n++
		key := fname(f) + ":channel-hygiene"
		bad := ""
		var badAt ssa.Instruction
		flow.Instrs(f, func(in ssa.Instruction) {
			if bad != "" {
				return
			}
			switch x := in.(type) {
			case *ssa.Send:
				bad, badAt = "a blocking channel send: if nobody receives (e.g. the dialer already returned) the connection's reader goroutine blocks forever and no further message is dispatched", x
			case *ssa.UnOp:
				if x.Op == token.ARROW {
					bad, badAt = "a blocking channel receive on the reader goroutine", x
				}
			case *ssa.Select:
				if x.Blocking {
					bad, badAt = "a blocking select on the reader goroutine", x
				}
			case *ssa.Call:
				if isBuiltinCall(x, "close") {
					if !c.closeOnceProtected(f, x) {
						bad, badAt = "close() of a captured channel that is not protected against running twice: a duplicate message makes the handler panic (close of closed channel) and the connection is torn down", x
					}
				}
			}
		})
		if bad == "" {
			bad, badAt = c.sendAfterClose(f)
		}
		if bad != "" {
			r.Fail(rule, key, c.pos(badAt), "handler closure contains "+bad)
		} else {
			r.Ok(rule, key, c.fpos(f), "no blocking channel operation; every close() is once-protected")
		}
	}
	if n == 0 {
		r.Undecided(rule, "role:sm-handler-closures", "-", "no handler closures found in package sm")
	}
}

// closeOnceProtected: the close is dominated by the negative edge of a state test T and by an
// operation that makes T true (so a second run takes the other edge), or uses sync.Once.
func (c *Ctx) closeOnceProtected(f *ssa.Function, cl *ssa.Call) bool {
	// sync.Once.Do wrapping: the closure is passed to Do
	if f.Parent() != nil {
		for _, ci := range flow.CallInstrs(f.Parent()) {
			if flow.IsCallTo(ci, "sync", "Once", "Do") {
				if mc, ok := ci.Common().Args[1].(*ssa.MakeClosure); ok && mc.Fn == ssa.Value(f) {
					return true
				}
			}
		}
	}
	// handshake-complete test: !ok of smpeer.FromContext(c.Context()) dominates, and SetContext(NewContext(..)) dominates the close
	tested := false
	for _, g := range flow.Guards(cl) {
		cond, neg := flow.Cond(g.If.Cond, g.Taken)
		if _, ok := peerKnownTest(cond, 0); ok && neg {
			tested = true
		}
	}
	if !tested {
		return false
	}
	setsPeer := func(ci ssa.CallInstruction) bool {
		com := ci.Common()
		if com.IsInvoke() && com.Method.Name() == "SetContext" {
			a, ok := com.Args[0].(*ssa.Call)
			return ok && flow.IsCallTo(a, pkgSMPeer, "", "NewContext")
		}
		return false
	}
	for _, ci := range flow.CallInstrs(f) {
		if !flow.Dominates(ci, cl) {
			continue
		}
		if setsPeer(ci) {
			return true
		}
		// … or a helper of the package that does so on every path
		if g := flow.StaticCallee(ci); g != nil && g.Blocks != nil && c.P.IsLibrary(g) && pkgOf(g).Path() == pkgSM {
			isSet := func(in ssa.Instruction) bool {
				cj, ok := in.(ssa.CallInstruction)
				return ok && setsPeer(cj)
			}
			has := false
			for _, cj := range flow.CallInstrs(g) {
				if setsPeer(cj) {
					has = true
				}
			}
			if has && flow.PathAvoiding(g, nil, flow.IsReturn, isSet) == nil {
				return true
			}
		}
	}
	return false
}

// onlyNilErrorGuards: the instruction is guarded by nothing but "some error == nil" edges.
func onlyNilErrorGuards(in ssa.Instruction) bool {
	for _, g := range flow.Guards(in) {
		rl, ok := condRel(g.If.Cond, g.Taken)
		if !ok || rl.op != token.EQL {
			return false
		}
		if !(isErrorType(rl.a.Type()) && flow.IsNilConst(rl.b)) && !(isErrorType(rl.b.Type()) && flow.IsNilConst(rl.a)) {
			return false
		}
	}
	return true
}

// sendAfterClose: a handler (including closures it runs) closes a captured channel and, on
// another path, sends on the same channel without that send being excluded once the close has
// happened (dominated by the negative edge of the handshake-complete test).
func (c *Ctx) sendAfterClose(f *ssa.Function) (string, ssa.Instruction) {
	chanKey := func(v ssa.Value) string {
		if p, ok := flow.Path(v); ok {
			return p
		}
		return ""
	}
	fns := append([]*ssa.Function{f}, flow.Closures(f)...)
	closed := map[string]bool{}
	for _, g := range fns {
		flow.Instrs(g, func(in ssa.Instruction) {
			if call, ok := in.(*ssa.Call); ok && isBuiltinCall(call, "close") {
				if k := chanKey(call.Call.Args[0]); k != "" {
					closed[k] = true
				}
			}
		})
	}
	if len(closed) == 0 {
		return "", nil
	}
	var bad ssa.Instruction
	for _, g := range fns {
		flow.Instrs(g, func(in ssa.Instruction) {
			var ch ssa.Value
			switch x := in.(type) {
			case *ssa.Send:
				ch = x.Chan
			case *ssa.Select:
				for _, st := range x.States {
					if st.Dir == types.SendOnly {
						ch = st.Chan
					}
				}
			}
			if ch == nil || !closed[chanKey(ch)] {
				return
			}
			// excluded after completion: dominated by !ok of smpeer.FromContext
			okGuard := false
			for _, gd := range flow.Guards(in) {
				cond, neg := flow.Cond(gd.If.Cond, gd.Taken)
				if _, ok := peerKnownTest(cond, 0); ok && neg {
					okGuard = true
				}
			}
			if !okGuard {
				bad = in
			}
		})
	}
	if bad != nil {
		return "a send on a channel that the same handler closes, not excluded once the close has happened: a message arriving after the handshake makes the handler panic (send on closed channel) and the connection is torn down", bad
	}
	return "", nil
}

// deadlineDiscipline: a deadline set on the transport either bounds the operation that follows it in the same
// function (armed per read / per write, re-armed by the next one), or is taken off again: for every direction a
// non-per-operation Set*Deadline arms, the library must contain a zero-time Set*Deadline covering that direction.
// (A dial timeout that stays armed makes the established connection fail later with i/o timeout.)
// isConnIO: ci performs transport I/O — a Read / Write / Flush-like invoke or call, ReadMessage, or a library
// function that (transitively, bounded) does.
func (c *Ctx) isConnIO(ci ssa.CallInstruction, depth int) bool {
	com := ci.Common()
	if com.IsInvoke() {
		switch com.Method.Name() {
		case "Read", "Write", "Flush", "ReadAtLeast", "WriteStream", "ReadStream":
			return true
		}
		return false
	}
	g := flow.StaticCallee(ci)
	if g == nil {
		return false
	}
	switch g.Name() {
	case "ReadMessage", "Flush", "Write", "ReadFull", "ReadAtLeast":
		return true
	}
	if depth >= 1 || g.Blocks == nil || !c.P.IsLibrary(g) {
		return false
	}
	for _, cj := range flow.CallInstrs(g) {
		if c.isConnIO(cj, depth+1) {
			return true
		}
	}
	return false
}

// ioFollows: some transport I/O is reachable after instruction at in f; if none is and f is a helper, the same
// must hold after the call of f at every library call site.
func (c *Ctx) ioFollows(f *ssa.Function, at ssa.Instruction, depth int) bool {
	for _, cj := range flow.CallInstrs(f) {
		cj := cj
		if ssa.Instruction(cj) == at || !c.isConnIO(cj, 0) {
			continue
		}
		if flow.PathAvoiding(f, at, func(x ssa.Instruction) bool { return x == ssa.Instruction(cj) }, nil) != nil {
			return true
		}
	}
	if depth >= 2 {
		return false
	}
	// only a helper that does nothing but arm the deadline stands for "the arming" at its call sites
	for _, cj := range flow.CallInstrs(f) {
		name := ""
		if cj.Common().IsInvoke() {
			name = cj.Common().Method.Name()
		} else if o := flow.CalleeObj(cj); o != nil {
			name = o.Name()
			if o.Pkg() != nil && o.Pkg().Path() == "time" {
				continue
			}
		}
		switch name {
		case "SetDeadline", "SetReadDeadline", "SetWriteDeadline":
		default:
			return false
		}
	}
	sites := c.librarySites(f)
	if len(sites) == 0 {
		return false
	}
	for _, cs := range sites {
		if !c.ioFollows(cs.Parent(), cs, depth+1) {
			return false
		}
	}
	return true
}

func (c *Ctx) deadlineDiscipline(rule string) {
	r := c.R
	type site struct {
		ci    ssa.CallInstruction
		dirs  string // "R", "W" or "RW"
		clear bool
	}
	var sites []site
	for _, f := range c.P.LibraryFuncs() {
		if pkgOf(f).Path() != pkgDiam {
			continue
		}
		for _, ci := range flow.CallInstrs(f) {
			name := ""
			if ci.Common().IsInvoke() {
				name = ci.Common().Method.Name()
			} else if o := flow.CalleeObj(ci); o != nil {
				name = o.Name()
			}
			dirs := map[string]string{"SetDeadline": "RW", "SetReadDeadline": "R", "SetWriteDeadline": "W"}[name]
			if dirs == "" {
				continue
			}
			args := ci.Common().Args
			if len(args) == 0 {
				continue
			}
			t := args[len(args)-1]
			// the zero time: a load of a zero-initialised local struct (time.Time{})
			isZero := false
			if k, ok := t.(*ssa.Const); ok && k.Value == nil {
				isZero = true // the zero value of time.Time
			}
			if u, ok := t.(*ssa.UnOp); ok && u.Op == token.MUL {
				if al, ok := u.X.(*ssa.Alloc); ok {
					stores := 0
					for _, ref := range flow.Referrers(al) {
						if _, isSt := ref.(*ssa.Store); isSt {
							stores++
						}
						if _, isFA := ref.(*ssa.FieldAddr); isFA {
							stores++
						}
					}
					isZero = stores == 0
				}
			}
			sites = append(sites, site{ci, dirs, isZero})
		}
	}
	cleared := ""
	for _, s := range sites {
		if s.clear {
			cleared += s.dirs
		}
	}
	n := 0
	for _, s := range sites {
		if s.clear {
			continue
		}
		n++
		f := s.ci.Parent()
		key := fmt.Sprintf("%s:%s-armed", fname(f), calleeLabel(s.ci))
		// per operation: an I/O call on the connection follows in the same function — or, when the arming sits
		// in a small helper, after the helper's call at every library call site
		perOp := c.ioFollows(f, s.ci, 0)
		if perOp {
			r.Ok(rule, key, c.pos(s.ci), "armed immediately before the operation it bounds (re-armed by the next one)")
			continue
		}
		missing := ""
		for _, d := range s.dirs {
			if !strings.ContainsRune(cleared, d) {
				missing += string(d)
			}
		}
		r.Check(missing == "", rule, key, c.pos(s.ci), "a zero-time Set*Deadline for each armed direction exists in the library", fmt.Sprintf("a deadline armed here for direction(s) %s is never taken off again (no zero-time Set*Deadline covers %s): once it expires every later read/write on the established connection fails with i/o timeout", s.dirs, missing))
	}
	if n == 0 {
		r.Trivial(rule, "transport:no-deadlines-armed", "-", "the library arms no transport deadline")
	}
}
