package rules

import (
	"fmt"
	"go/constant"
	"go/token"
	"go/types"
	"sort"
	"strings"

	"golang.org/x/tools/go/ssa"

	"verif/internal/flow"
)

func init() {
	register(&RuleSet{
		Property:  "C11",
		Title:     "A CER is accepted exactly when a common application exists",
		Run:       runC11,
		Technique: "must-pass-through Close on the rejection path, result-code table extraction from the error switch, construction checks on both CEA builders (sibling agreement), guard identification in the CER parser",
		Explanation: "Decides on the current source: R1 in the CER handler every path from the error edge of CER.Parse to the return passes Close() of the connection, and no path from the nil-error edge does; " +
			"R2 the error-CEA builder answers ErrNoCommonSecurity with 5017, ErrNoCommonApplication with 5010 and everything else with 5012, and the success builder answers 2001; " +
			"R3 both CEA builders (sibling cross-check) add Origin-Host and Origin-Realm from the settings, one Host-IP-Address per element of the configured addresses or else of the connection's local addresses, and copy the request's hop-by-hop and end-to-end ids verbatim; " +
			"R4 the metadata stored on success is FromCER of the very CER that was parsed, and the success CEA's application loop adds an application AVP for every locally supported application on every iteration; " +
			"R5 in CER.Parse ErrNoCommonSecurity is returned only on the edge Inband-Security-Id present ∧ ≠ 0 and the missing-origin errors only on the empty-field edges. " +
			"Also decided: R3 both CEA builders draw the host addresses from the same source (settings first, else the connection); R4 no metadata is stored on any rejection path; R5 the acceptance skeleton: the accepting return of CER.Parse is dominated by the nil-error edges of Unmarshal, the sanity check and the application check, every rejection test is live (its failing edge reaches an error return and is not overridden), and the application scan visits every member of each list before it can accept. " +
			"R2 also (contradiction rule): where an error type of the state-machine packages wraps another error (has Unwrap), the failure cause must not be selected by comparing the error value with the sentinels. " +
			"R6 also: the list of locally supported applications is built from every dictionary application except id 0 (the append is conditioned on nothing else), and every dictionary lookup of an advertised id is guarded — in its function or at each call site — by the relay id 0xffffffff having been excluded (accepted) first. " +
			"NOT decided (not applicable to static analysis): the acceptance predicate over all multisets and orders of application AVPs (validateAll / handleGroup / chooseErr are value-level logic).",
		Rules: map[string]string{
			"R1": "rejection closes the connection; acceptance does not",
			"R2": "result-code table 5017 / 5010 / 5012 / 2001",
			"R3": "every CEA: identity from settings, host addresses, request's ids",
			"R4": "metadata = FromCER(parsed CER); success CEA advertises every supported application",
			"R5": "each failure cause is reported only on the edge where it applies",
			"R6": "every advertised application is examined (no early exit from the loops that feed the collector) and judged on its own (the validation keeps no memory but the result list)",
		},
		MinInstances: map[string]int{"R1": 2, "R2": 4, "R3": 8, "R4": 2, "R5": 3, "R6": 2},
		Assumptions:  []string{"the application-matching predicate itself (smparser.Application.Parse) is out of scope"},
	})
}

func runC11(c *Ctx) {
	r := c.R
	c.c11Applications()
	c.c11Advertised()
	// CER handler closure
	var h *ssa.Function
	var parse *ssa.Call
	for _, f := range c.P.LibraryFuncs() {
		if pkgOf(f).Path() != pkgSM {
			continue
		}
		for _, ci := range flow.CallInstrs(f) {
			if call, ok := ci.(*ssa.Call); ok && flow.IsCallTo(call, pkgSMParser, "CER", "Parse") {
				h, parse = f, call
			}
		}
	}
	if h == nil {
		r.Undecided("R1", "role:cer-handler", "-", "no function in package sm parses a CER")
		return
	}
	r.Role("CERHandler", fname(h))
	eb := errorEdgeBlocks(parse)
	if len(eb) == 0 {
		r.Fail("R1", fname(h)+":parse-error-tested", c.pos(parse), "the result of CER.Parse is not tested")
		return
	}
	// ---- R1 ----
	{
		key := fname(h) + ":reject-closes"
		var bad []ssa.Instruction
		for b := range eb {
			// region heads only: blocks whose predecessor is outside the region
			isHead := false
			for _, p := range b.Preds {
				if !eb[p] {
					isHead = true
				}
			}
			if !isHead {
				continue
			}
			first := b.Instrs[0]
			if isConnClose(first) {
				continue
			}
			if p := flow.PathAvoiding(h, first, flow.IsReturn, isConnClose); p != nil {
				bad = p
			} else if flow.IsReturn(first) {
				bad = []ssa.Instruction{first}
			}
		}
		if bad != nil {
			r.Fail("R1", key, c.pos(parse), "after a rejected CER a path returns without closing the connection: the peer stays connected although no capabilities were agreed", c.witness(bad)...)
		} else {
			r.Ok("R1", key, c.pos(parse), "every path from the error edge of CER.Parse to the return passes c.Close()")
		}
		key = fname(h) + ":accept-keeps-open"
		closes := false
		flow.Instrs(h, func(in ssa.Instruction) {
			if isConnClose(in) && !eb[in.Block()] {
				closes = true
			}
		})
		r.Check(!closes, "R1", key, c.pos(parse), "no Close() outside the rejection path", "the connection can be closed although the CER was accepted")
	}
	// builders
	var okB, errB *ssa.Function
	var okCall, errCall *ssa.Call
	var errArgs []ssa.Value
	for _, ci := range flow.CallInstrs(h) {
		call, ok := ci.(*ssa.Call)
		if !ok {
			continue
		}
		g := flow.StaticCallee(call)
		if g == nil || pkgOf(g) == nil || pkgOf(g).Path() != pkgSM {
			continue
		}
		if !c.writesMessage(g) {
			// the builder may be called from a step helper of the handler (rejectCER → errorCEA): the builder is
			// the function that writes, the call judged for its arguments the helper's own when it only hands its
			// parameters on
			var inner *ssa.Function
			var innerCall *ssa.Call
			if g.Blocks != nil {
				for _, cj := range flow.CallInstrs(g) {
					if ic, ok := cj.(*ssa.Call); ok {
						if g2 := flow.StaticCallee(ic); g2 != nil && pkgOf(g2) != nil && pkgOf(g2).Path() == pkgSM && c.writesMessage(g2) {
							inner, innerCall = g2, ic
						}
					}
				}
			}
			if inner == nil {
				continue
			}
			// arguments of the inner call: parameters of the helper are replaced by the outer arguments
			liftedArgs := make([]ssa.Value, len(innerCall.Call.Args))
			for i, a := range innerCall.Call.Args {
				liftedArgs[i] = a
				if pp, isP := flow.Peel(a).(*ssa.Parameter); isP && pp.Parent() == g {
					if j := paramIndex(g, pp); j < len(call.Call.Args) {
						liftedArgs[i] = call.Call.Args[j]
					}
				}
			}
			if eb[call.Block()] {
				errB, errCall, errArgs = inner, call, liftedArgs
			} else {
				okB, okCall = inner, call
			}
			continue
		}
		if eb[call.Block()] {
			errB, errCall, errArgs = g, call, call.Call.Args
		} else {
			okB, okCall = g, call
		}
	}
	if okB == nil || errB == nil {
		r.Undecided("R2", "role:cea-builders", c.fpos(h), "cannot find the success and error CEA builders in the CER handler")
		return
	}
	// the writer may obtain the answer from an assembling function of the same package that it hands its own
	// parameters: what the CEA contains is then decided there
	asm := func(g *ssa.Function) *ssa.Function {
		for _, ci := range flow.CallInstrs(g) {
			if flow.IsCallTo(ci, pkgDiam, "Message", "Answer") {
				return g
			}
		}
		for _, ci := range flow.CallInstrs(g) {
			h := flow.StaticCallee(ci)
			if h == nil || h.Blocks == nil || pkgOf(h) != pkgOf(g) || h.Signature.Results().Len() < 1 || !isMsgPtr(h.Signature.Results().At(0).Type()) {
				continue
			}
			through := true
			for i, a := range ci.Common().Args {
				pp, isP := flow.Peel(a).(*ssa.Parameter)
				if !isP || pp.Parent() != g || paramIndex(g, pp) != i {
					through = false
				}
			}
			answers := false
			for _, cj := range flow.CallInstrs(h) {
				if flow.IsCallTo(cj, pkgDiam, "Message", "Answer") {
					answers = true
				}
			}
			if through && answers {
				return h
			}
		}
		return g
	}
	writerOf := map[*ssa.Function]*ssa.Function{}
	if a := asm(okB); a != okB {
		writerOf[a] = okB
		okB = a
	}
	if a := asm(errB); a != errB {
		writerOf[a] = errB
		errB = a
	}
	r.Role("SuccessCEA", fname(okB))
	r.Role("ErrorCEA", fname(errB))
	_ = okCall

	// ---- R2 ----
	{
		// success code
		codes := answerCodes(okB)
		r.Check(len(codes) == 1 && codes[0].code == 2001 && codes[0].cause == "", "R2", fname(okB)+":result-code", c.fpos(okB), "success CEA = Answer(2001)", fmt.Sprintf("the success CEA does not answer with 2001 (%v)", codes))
		// error table
		want := map[string]int64{"ErrNoCommonSecurity": 5017, "ErrNoCommonApplication": 5010, "": 5012}
		got := map[string]int64{}
		for _, ac := range answerCodes(errB) {
			if prev, dup := got[ac.cause]; dup && prev != ac.code {
				got[ac.cause] = -2 // conflicting codes for one cause
				continue
			}
			got[ac.cause] = ac.code
		}
		for cause, code := range got {
			if strings.HasPrefix(cause, "?") {
				r.Fail("R2", fname(errB)+":result-code-other-condition", c.fpos(errB), fmt.Sprintf("result code %d is chosen under a condition other than the failure cause reported by the parser: a cause that does not apply can be answered", code))
			}
		}
		var causes []string
		for k := range want {
			causes = append(causes, k)
		}
		sort.Strings(causes)
		for _, cause := range causes {
			name := cause
			if name == "" {
				name = "default"
			}
			key := fname(errB) + ":result-code-" + name
			g, ok := got[cause]
			r.Check(ok && g == want[cause], "R2", key, c.fpos(errB), fmt.Sprintf("%s → %d", name, want[cause]), fmt.Sprintf("the failure cause %s is answered with result code %d instead of %d", name, g, want[cause]))
		}
		// the error passed to the builder is Parse's error
		if errCall != nil {
			pe := errorResult(parse)
			okArg := false
			for _, a := range errArgs {
				if a == pe {
					okArg = true
				}
			}
			r.Check(okArg, "R2", fname(h)+":cause-passed", c.pos(errCall), "the error CEA is built from the error CER.Parse returned", "the error CEA is not built from the cause CER.Parse reported")
		}
		// contradiction rule: where the parser package has an error type that wraps another error (an Unwrap
		// method), a cause selected by comparing the error value itself with the sentinels is wrong for the
		// wrapped form — it has to be errors.Is
		{
			var wrapper string
			for _, f := range c.P.LibraryFuncs() {
				if f.Name() != "Unwrap" || f.Signature.Recv() == nil || pkgOf(f) == nil || !strings.HasPrefix(pkgOf(f).Path(), pkgSM) {
					continue
				}
				if f.Signature.Params().Len() == 0 && f.Signature.Results().Len() == 1 && isErrorType(f.Signature.Results().At(0).Type()) {
					wrapper = flow.RecvTypeName(f.Signature)
				}
			}
			key := fname(errB) + ":cause-selection-sees-through-wrapping"
			if wrapper == "" {
				r.Ok("R2", key, c.fpos(errB), "no error type of the state machine packages wraps another error: comparing the cause by identity is exact")
			} else {
				var ident ssa.Instruction
				flow.Instrs(errB, func(in ssa.Instruction) {
					bo, ok := in.(*ssa.BinOp)
					if !ok || bo.Op != token.EQL && bo.Op != token.NEQ || !isErrorType(bo.X.Type()) {
						return
					}
					for _, side := range []ssa.Value{bo.X, bo.Y} {
						if gl := loadedGlobal(side); gl != nil && strings.HasPrefix(gl.Name(), "Err") {
							ident = bo
						}
					}
				})
				if ident != nil {
					r.Fail("R2", key, c.pos(ident), "the failure cause is selected by comparing the error value with the sentinel errors, but "+wrapper+" wraps such an error (Unwrap): a wrapped ErrNoCommonApplication / ErrNoCommonSecurity falls through to the default result code 5012")
				} else {
					r.Ok("R2", key, c.fpos(errB), "the cause is not selected by identity comparison although wrapping error types exist")
				}
			}
		}
	}

	// ---- R3 ----
	// sibling agreement: the success and the failure CEA take their configured addresses from the same
	// settings fields (a builder that consults fewer fields answers with other addresses than its sibling)
	{
		sets := map[*ssa.Function]string{}
		for _, b := range []*ssa.Function{okB, errB} {
			fields := map[string]bool{}
			for _, ci := range flow.CallInstrs(b) {
				if !flow.IsCallTo(ci, pkgDiam, "Message", "NewAVP") {
					continue
				}
				if k, ok := flow.ConstInt(ci.Common().Args[1]); ok && k == 257 {
					c.settingsFieldsOf(ci.Common().Args[4], fields, 0, map[ssa.Value]bool{})
				}
			}
			// helpers that add the Host-IP-Address AVPs for the builder
			for _, ci := range flow.CallInstrs(b) {
				if h := flow.StaticCallee(ci); h != nil && h.Blocks != nil && pkgOf(h) != nil && pkgOf(h).Path() == pkgSM {
					for _, cj := range flow.CallInstrs(h) {
						if flow.IsCallTo(cj, pkgDiam, "Message", "NewAVP") {
							if k, ok := flow.ConstInt(cj.Common().Args[1]); ok && k == 257 {
								c.settingsFieldsOf(cj.Common().Args[4], fields, 0, map[ssa.Value]bool{})
							}
						}
					}
				}
			}
			var fl []string
			for f := range fields {
				fl = append(fl, f)
			}
			sort.Strings(fl)
			sets[b] = strings.Join(fl, ",")
		}
		r.Check(sets[okB] == sets[errB], "R3", "CEA-builders:same-address-source", c.fpos(errB), "success and failure CEA read the configured addresses from the same settings fields ["+sets[okB]+"]",
			fmt.Sprintf("the success CEA takes its configured host addresses from Settings.[%s] but the failure CEA from Settings.[%s]: one of them answers with other addresses than configured", sets[okB], sets[errB]))
	}
	for _, b := range []*ssa.Function{okB, errB} {
		c.checkIdentityAVPs(b, "R3", "Settings")
		c.c11HostAddresses(b)
		// ids
		var ans *ssa.Call
		var write ssa.CallInstruction
		for _, ci := range flow.CallInstrs(b) {
			if call, ok := ci.(*ssa.Call); ok && flow.IsCallTo(call, pkgDiam, "Message", "Answer") {
				ans = call
			}
			if isMessageWrite(ci) {
				write = ci
			}
		}
		key := fname(b) + ":ids"
		// an assembler hands the finished CEA to its writer: the state that counts is the one it returns, and the
		// writer has to send exactly that object
		var at ssa.Instruction
		var obj ssa.Value
		connFn := b
		if w := writerOf[b]; w != nil && write == nil && ans != nil {
			var ret *ssa.Return
			nret := 0
			flow.Instrs(b, func(in ssa.Instruction) {
				if rt, ok := in.(*ssa.Return); ok && len(rt.Results) >= 1 && !flow.IsNilConst(rt.Results[0]) && rt.Block() != b.Recover {
					ret = rt
					nret++
				}
			})
			for _, ci := range flow.CallInstrs(w) {
				if !isMessageWrite(ci) {
					continue
				}
				mv := flow.Peel(ci.Common().Args[0])
				if ex, isEx := mv.(*ssa.Extract); isEx && ex.Index == 0 {
					mv = ex.Tuple
				}
				if mc, isCall := mv.(*ssa.Call); isCall && flow.StaticCallee(mc) == b {
					write = ci
				}
			}
			if nret == 1 && write != nil {
				at, obj, connFn = ret, flow.Peel(ret.Results[0]), w
			}
		} else if write != nil {
			at, obj = write, flow.Peel(write.Common().Args[0])
		}
		if ans == nil || write == nil || at == nil {
			r.Fail("R3", key, c.fpos(b), "the builder does not build its CEA with Answer() and write it")
			continue
		}
		se := c.newSymEval(b, c.Depth)
		st, ok := se.objectState(obj, at, c.Depth)
		req := se.eval(ans.Call.Args[0])
		if !ok || req.Op != "param" {
			r.Undecided("R3", key, c.pos(write), "cannot summarise the CEA written here")
			continue
		}
		c.checkMirrorRule("R3", st, req.Leaf, fname(b)+":cea", c.pos(write), false, false)
		// written to the connection parameter
		var connP *ssa.Parameter
		for _, p := range connFn.Params {
			if flow.TypeIs(p.Type(), pkgDiam, "Conn") {
				connP = p
			}
		}
		r.Check(connP != nil && flow.Peel(write.Common().Args[1]) == ssa.Value(connP), "R3", fname(b)+":written-to-conn", c.pos(write), "the CEA is written to the connection the CER arrived on", "the CEA is not written to the requesting connection")
	}

	// ---- R4 ----
	{
		key := fname(h) + ":metadata-from-parsed-cer"
		good := false
		cerObj := parse.Call.Args[0]
		isFromParsed := func(v ssa.Value) bool {
			fc, ok := flow.Peel(v).(*ssa.Call)
			return ok && flow.IsCallTo(fc, pkgSMPeer, "", "FromCER") && fc.Call.Args[0] == cerObj
		}
		for _, ci := range flow.CallInstrs(h) {
			if flow.IsCallTo(ci, pkgSMPeer, "", "NewContext") {
				if isFromParsed(ci.Common().Args[1]) {
					good = true
				}
				continue
			}
			// the metadata may be stored by a helper that receives it: NewContext(…, param) inside, FromCER(cer) here
			g := flow.StaticCallee(ci)
			if g == nil || g.Blocks == nil || !c.P.IsLibrary(g) {
				continue
			}
			for _, cj := range flow.CallInstrs(g) {
				if !flow.IsCallTo(cj, pkgSMPeer, "", "NewContext") {
					continue
				}
				if mp, isP := flow.Peel(cj.Common().Args[1]).(*ssa.Parameter); isP && mp.Parent() == g {
					if i := paramIndex(g, mp); i < len(ci.Common().Args) && isFromParsed(ci.Common().Args[i]) {
						good = true
					}
				}
				// … or the helper is handed the parsed CER and derives the metadata itself: FromCER(param)
				if fc, isCall := flow.Peel(cj.Common().Args[1]).(*ssa.Call); isCall && flow.IsCallTo(fc, pkgSMPeer, "", "FromCER") {
					if cp, isP := flow.Peel(fc.Call.Args[0]).(*ssa.Parameter); isP && cp.Parent() == g {
						if i := paramIndex(g, cp); i < len(ci.Common().Args) && ci.Common().Args[i] == cerObj {
							good = true
						}
					}
				}
			}
		}
		r.Check(good, "R4", key, c.pos(parse), "metadata = smpeer.FromCER(the CER object that was parsed)", "the stored metadata is not built from the CER that was just validated")
		// and never on the rejection path (shared clause with C10 R3)
		onReject := false
		var at ssa.Instruction
		for _, ci := range flow.CallInstrs(h) {
			com := ci.Common()
			sets := com.IsInvoke() && com.Method.Name() == "SetContext"
			if g := flow.StaticCallee(ci); !sets && g != nil && g.Blocks != nil && c.P.IsLibrary(g) && pkgOf(g).Path() == pkgSM {
				for _, cj := range flow.CallInstrs(g) {
					if cj.Common().IsInvoke() && cj.Common().Method.Name() == "SetContext" {
						sets = true
					}
				}
			}
			if sets {
				if eb[ci.Block()] || pathFromErrEdge(h, parse, ci) != nil {
					onReject, at = true, ci
				}
			}
		}
		if onReject {
			r.Fail("R4", fname(h)+":no-metadata-on-rejection", c.pos(at), "the connection's context (peer metadata) is set on the path of a rejected CER: a peer whose capabilities exchange failed is treated as having completed it")
		} else {
			r.Ok("R4", fname(h)+":no-metadata-on-rejection", c.pos(parse), "SetContext is unreachable from the error edge of CER.Parse")
		}
		c.c11Apps(okB)
	}

	// ---- R5 ----
	c.c11Causes(parse)
	c.rejectionGuardsLive("R5", "CER")
	c.anyApplicationSuffices("R5")
	c.acceptSkeleton("R5", "CER", false)
}

type ansCode struct {
	cause string
	code  int64
}

// answerCodes: the constants passed to Answer() in g, with the error global whose equality edge guards each.
func answerCodes(g *ssa.Function) []ansCode {
	var out []ansCode
	for _, ci := range flow.CallInstrs(g) {
		if !flow.IsCallTo(ci, pkgDiam, "Message", "Answer") {
			continue
		}
		code, ok := flow.ConstInt(ci.Common().Args[1])
		if !ok {
			// the code may be chosen by a package-local helper from the error: one constant per return,
			// keyed by the Err* global its path compares a parameter with
			if hc, isCall := flow.Peel(ci.Common().Args[1]).(*ssa.Call); isCall {
				if hf := flow.StaticCallee(hc); hf != nil && hf.Blocks != nil {
					flow.Instrs(hf, func(in ssa.Instruction) {
						ret, isRet := in.(*ssa.Return)
						if !isRet || len(ret.Results) != 1 {
							return
						}
						k, isK := flow.ConstInt(ret.Results[0])
						if !isK {
							out = append(out, ansCode{"?", -1})
							return
						}
						cause := ""
						extra := false
						for _, gd := range flow.Guards(ret) {
							if ic, isC := gd.If.Cond.(*ssa.Call); isC {
								if g := flow.StaticCallee(ic); g != nil && g.Pkg != nil && g.Pkg.Pkg.Path() == "errors" && g.Name() == "Is" && len(ic.Call.Args) == 2 {
									if gl := loadedGlobal(ic.Call.Args[1]); gl != nil && strings.HasPrefix(gl.Name(), "Err") {
										if gd.Taken {
											cause = gl.Name()
										}
										continue
									}
								}
							}
							rl, ok := condRel(gd.If.Cond, gd.Taken)
							if ok && rl.op == token.EQL {
								if gl := loadedGlobal(rl.b); gl != nil && strings.HasPrefix(gl.Name(), "Err") {
									cause = gl.Name()
									continue
								}
							}
							if ok && rl.op == token.NEQ {
								if gl := loadedGlobal(rl.b); gl != nil && strings.HasPrefix(gl.Name(), "Err") {
									continue // fell through an earlier case
								}
							}
							extra = true
						}
						if extra && cause == "" && k != 5012 {
							cause = "?guarded-by-something-else"
						}
						out = append(out, ansCode{cause, k})
					})
					continue
				}
			}
			out = append(out, ansCode{"?", -1})
			continue
		}
		cause := ""
		for _, gd := range flow.Guards(ci) {
			rl, ok := condRel(gd.If.Cond, gd.Taken)
			if !ok || rl.op != token.EQL {
				continue
			}
			if gl := loadedGlobal(rl.b); gl != nil && strings.HasPrefix(gl.Name(), "Err") {
				cause = gl.Name()
			}
		}
		out = append(out, ansCode{cause, code})
	}
	return out
}

// c11HostAddresses: Host-IP-Address (257) added once per element of phi(cfg.HostIPAddresses, getLocalAddresses(c)).
// builderFamily: the builder b and the package-local helpers it hands a *diam.Message to (they add AVPs to
// the message on b's behalf), two levels deep.
func (c *Ctx) builderFamily(b *ssa.Function) []*ssa.Function {
	fam := []*ssa.Function{b}
	seen := map[*ssa.Function]bool{b: true}
	for i := 0; i < len(fam) && i < 8; i++ {
		for _, ci := range flow.CallInstrs(fam[i]) {
			h := flow.StaticCallee(ci)
			if h == nil || h.Blocks == nil || seen[h] || pkgOf(h) == nil || pkgOf(h).Path() != pkgSM {
				continue
			}
			takesMsg := false
			for _, a := range ci.Common().Args {
				if isMsgPtr(a.Type()) {
					takesMsg = true
				}
			}
			if takesMsg {
				seen[h] = true
				fam = append(fam, h)
			}
		}
	}
	return fam
}

// addrSources classifies where a list of host addresses comes from: "settings:<field>", "local:<fn>" (computed
// from the connection), "other:<what>" (anything kept elsewhere).
func (c *Ctx) addrSources(v ssa.Value, srcs map[string]bool, d int, seen map[ssa.Value]bool) {
	if v == nil || d > 10 || seen[v] {
		return
	}
	seen[v] = true
	switch x := v.(type) {
	case *ssa.Phi:
		for _, e := range x.Edges {
			if !flow.IsNilConst(e) {
				c.addrSources(e, srcs, d+1, seen)
			}
		}
	case *ssa.Extract:
		if call, ok := x.Tuple.(*ssa.Call); ok {
			c.addrCall(call, x.Index, srcs, d, seen)
		}
	case *ssa.Call:
		c.addrCall(x, 0, srcs, d, seen)
	case *ssa.Parameter:
		sites := c.librarySites(x.Parent())
		if len(sites) == 0 {
			srcs["other:parameter of "+x.Parent().Name()] = true
		}
		for _, cs := range sites {
			if i := paramIndex(x.Parent(), x); i < len(cs.Common().Args) {
				c.addrSources(cs.Common().Args[i], srcs, d+1, seen)
			}
		}
	case *ssa.UnOp:
		if tn, fld, _, ok := flow.FieldOf(x); ok {
			if tn == "Settings" {
				srcs["settings:"+fld] = true
			} else {
				srcs["other:"+tn+"."+fld] = true
			}
			return
		}
		if al, ok := x.X.(*ssa.Alloc); ok {
			for _, ref := range flow.Referrers(al) {
				if st, ok := ref.(*ssa.Store); ok && st.Addr == ssa.Value(al) && !flow.IsNilConst(st.Val) {
					c.addrSources(st.Val, srcs, d+1, seen)
				}
			}
		}
	case *ssa.Slice:
		c.addrSources(x.X, srcs, d+1, seen)
	case *ssa.ChangeType:
		c.addrSources(x.X, srcs, d+1, seen)
	}
}

func (c *Ctx) addrCall(call *ssa.Call, idx int, srcs map[string]bool, d int, seen map[ssa.Value]bool) {
	g := flow.StaticCallee(call)
	if g == nil {
		srcs["other:dynamic-call"] = true
		return
	}
	takesConn := false
	for _, a := range call.Call.Args {
		if flow.TypeIs(a.Type(), pkgDiam, "Conn") {
			takesConn = true
		}
	}
	// a package-local helper: look at what it can return
	if g.Blocks != nil && pkgOf(g) != nil && pkgOf(g).Path() == pkgSM && d < 8 {
		sub := map[string]bool{}
		for _, rv := range flow.ReturnValues(g, idx) {
			if !flow.IsNilConst(rv) {
				c.addrSources(rv, sub, d+1, seen)
			}
		}
		hasSettings, hasLocal := false, false
		for k := range sub {
			if strings.HasPrefix(k, "settings:") {
				hasSettings = true
			}
			if strings.HasPrefix(k, "local:") {
				hasLocal = true
			}
		}
		// a helper that consults the settings or delegates to the local-address function: take its sources;
		// one that computes addresses from the connection alone is the local-address function itself
		if hasSettings || hasLocal || !takesConn {
			for k := range sub {
				srcs[k] = true
			}
			if len(sub) > 0 {
				return
			}
		}
	}
	if takesConn {
		srcs["local:"+g.Name()] = true
		return
	}
	srcs["other:result of "+g.Name()] = true
}

func (c *Ctx) c11HostAddresses(b *ssa.Function) {
	r := c.R
	key := fname(b) + ":host-ip-addresses"
	good, why := false, "the CEA does not carry one Host-IP-Address per configured / local address"
	for _, f := range c.builderFamily(b) {
		loops := flow.Loops(f)
		for _, ci := range flow.CallInstrs(f) {
			if !flow.IsCallTo(ci, pkgDiam, "Message", "NewAVP") {
				continue
			}
			if k, ok := flow.ConstInt(ci.Common().Args[1]); !ok || k != 257 {
				continue
			}
			u, ok := flow.Peel(ci.Common().Args[4]).(*ssa.UnOp)
			if !ok {
				continue
			}
			ia, ok := u.X.(*ssa.IndexAddr)
			if !ok || flow.InnermostLoop(loops, ci) == nil {
				continue
			}
			// source: phi(configured, local)
			srcs := map[string]bool{}
			c.addrSources(ia.X, srcs, 0, map[ssa.Value]bool{})
			hasCfg, hasLocal := false, false
			other := ""
			for k := range srcs {
				if strings.HasPrefix(k, "other:") {
					other = fmt.Sprintf("Host-IP-Address values can come from %s (state kept across connections): a CEA on one connection can carry another connection's local address", strings.TrimPrefix(k, "other:"))
				}
			}
			for k := range srcs {
				if strings.HasPrefix(k, "settings:HostIPAddress") {
					hasCfg = true
				}
				if strings.HasPrefix(k, "local:") {
					hasLocal = true
				}
			}
			if hasCfg && hasLocal && other == "" {
				good = true
			} else {
				why = fmt.Sprintf("Host-IP-Address values come from %v, expected the configured addresses or else the connection's local addresses", keys(srcs))
				if other != "" {
					why = other
				}
			}
		}
	}
	r.Check(good, "R3", key, c.fpos(b), "one Host-IP-Address per element of (configured addresses, else the connection's local addresses)", why)
}

// c11Apps: the loop over the supported applications adds an AVP on every iteration.
func (c *Ctx) c11Apps(b *ssa.Function) {
	r := c.R
	key := fname(b) + ":advertises-supported-apps"
	memo := map[*ssa.Function]int{}
	isAddCall := func(ci ssa.CallInstruction) bool {
		return flow.IsCallTo(ci, pkgDiam, "Message", "NewAVP") || flow.IsCallTo(ci, pkgDiam, "Message", "AddAVP")
	}
	for _, f := range c.builderFamily(b) {
		for _, l := range flow.Loops(f) {
			// loop ranging over StateMachine.supportedApps
			ranges := false
			for blk := range l.Blocks {
				for _, in := range blk.Instrs {
					if ia, ok := in.(*ssa.IndexAddr); ok {
						if tn, fld, _, ok := flow.FieldOf(ia.X); ok && tn == "StateMachine" && fld == "supportedApps" {
							ranges = true
						}
					}
				}
			}
			if !ranges {
				continue
			}
			l := l
			isAdd := func(in ssa.Instruction) bool {
				ci, ok := in.(ssa.CallInstruction)
				if !ok || !l.Blocks[in.Block()] {
					return false
				}
				if isAddCall(ci) {
					return true
				}
				// a helper that adds the application's AVP on every path
				h := flow.StaticCallee(ci)
				return h != nil && h.Blocks != nil && pkgOf(h) != nil && pkgOf(h).Path() == pkgSM && c.mustPass(h, isAddCall, memo)
			}
			head := l.Head.Instrs[0]
			p := flow.PathAvoiding(f, l.Head.Instrs[len(l.Head.Instrs)-1], func(x ssa.Instruction) bool { return x == head }, func(x ssa.Instruction) bool { return isAdd(x) || !l.Blocks[x.Block()] })
			r.Check(p == nil, "R4", key, c.pos(head), "every iteration over the supported applications adds an application AVP to the success CEA", "an iteration over the locally supported applications can add nothing: the success CEA does not advertise every shared application", c.witness(p)...)
			return
		}
	}
	r.Fail("R4", key, c.fpos(b), "the success CEA has no loop over the locally supported applications: it advertises none of them")
}

// c11Causes: R5 in (*CER).Parse and sanityCheck.
func (c *Ctx) c11Causes(parse *ssa.Call) {
	r := c.R
	pf := flow.StaticCallee(parse)
	if pf == nil {
		r.Undecided("R5", "role:CER.Parse", "-", "cannot resolve CER.Parse")
		return
	}
	fns := []*ssa.Function{pf}
	for _, ci := range flow.CallInstrs(pf) {
		if g := flow.StaticCallee(ci); g != nil && g.Signature.Recv() != nil && flow.RecvTypeName(g.Signature) == "CER" {
			fns = append(fns, g)
		}
	}
	seen := map[string]bool{}
	for _, f := range fns {
		flow.Instrs(f, func(in ssa.Instruction) {
			ret, ok := in.(*ssa.Return)
			if !ok || len(ret.Results) == 0 {
				return
			}
			gl := loadedGlobal(ret.Results[len(ret.Results)-1])
			if gl == nil {
				return
			}
			key := fname(f) + ":returns-" + gl.Name()
			seen[gl.Name()] = true
			var conds []string
			for _, g := range flow.Guards(ret) {
				rl, ok := condRel(g.If.Cond, g.Taken)
				if !ok {
					continue
				}
				conds = append(conds, relDesc(rl))
			}
			good, why := false, ""
			switch gl.Name() {
			case "ErrNoCommonSecurity":
				hasPresent, hasNonZero := false, false
				var rels []rel
				for _, g := range flow.Guards(ret) {
					if rl, ok := condRel(g.If.Cond, g.Taken); ok {
						rels = append(rels, rl)
						continue
					}
					// a boolean predicate of the same package on its true edge: what it returns true under
					cond, neg := flow.Cond(g.If.Cond, g.Taken)
					if call, isCall := cond.(*ssa.Call); isCall && !neg {
						if h := flow.StaticCallee(call); h != nil && h.Blocks != nil && pkgOf(h) != nil && pkgOf(h).Path() == pkgSMParser {
							rels = append(rels, trueRels(h)...)
						}
					}
				}
				for _, rl := range rels {
					ok := true
					if !ok {
						continue
					}
					if _, fld, _, okf := flow.FieldOf(flow.Peel(rl.a)); okf && fld == "InbandSecurityID" && flow.IsNilConst(rl.b) && rl.op == token.NEQ {
						hasPresent = true
					}
					if ta, okt := rl.a.(*ssa.TypeAssert); okt && isZeroConst(rl.b) && rl.op == token.NEQ {
						if _, fld, _, okf := flow.FieldOf(ta.X); okf && fld == "Data" {
							hasNonZero = true
						}
					}
				}
				good = hasPresent && hasNonZero
				why = "ErrNoCommonSecurity (5017) is returned on an edge other than Inband-Security-Id present ∧ ≠ 0 — edge conditions: " + strings.Join(conds, " ∧ ")
			case "ErrMissingOriginHost", "ErrMissingOriginRealm":
				fldWant := strings.TrimPrefix(gl.Name(), "ErrMissing")
				for _, g := range flow.Guards(ret) {
					rl, ok := condRel(g.If.Cond, g.Taken)
					if !ok {
						continue
					}
					if x, isLen := builtinOf(rl.a, "len"); isLen && isZeroConst(rl.b) && rl.op == token.EQL {
						if _, fld, _, okf := flow.FieldOf(flow.Peel(x)); okf && fld == fldWant {
							good = true
						}
					}
				}
				why = gl.Name() + " is returned on an edge other than len(" + fldWant + ") == 0 — edge conditions: " + strings.Join(conds, " ∧ ")
			default:
				return
			}
			r.Check(good, "R5", key, c.pos(ret), "returned only on the edge where the cause applies ("+strings.Join(conds, " ∧ ")+")", why)
		})
	}
	for _, n := range []string{"ErrNoCommonSecurity", "ErrMissingOriginHost", "ErrMissingOriginRealm"} {
		if !seen[n] {
			r.Fail("R5", "CER.Parse:returns-"+n, c.fpos(pf), "the CER parser never reports "+n+": that failure cause cannot be matched to its result code")
		}
	}
	_ = types.Identical
}

func relDesc(rl rel) string {
	d := func(v ssa.Value) string {
		if p, ok := flow.Path(v); ok {
			return p
		}
		return short(v.String(), 30)
	}
	return d(rl.a) + " " + rl.op.String() + " " + d(rl.b)
}

// rejectionGuardsLive: contradiction rule on the capabilities parsers. Every return of an Err* cause that is
// guarded by a nil test on the result of a module function needs that function to be able to produce the
// tested outcome; a test "f() == nil" where every return of f is a fresh allocation states a belief the
// callee contradicts, and the rejection it guards can never happen.
func (c *Ctx) rejectionGuardsLive(rule, typ string) {
	r := c.R
	root := c.P.Method("diam/sm/smparser", typ, "Parse")
	if root == nil {
		r.Undecided(rule, "role:"+typ+".Parse", "-", "cannot resolve smparser."+typ+".Parse")
		return
	}
	// functions of package smparser statically reachable from the parser
	seen := map[*ssa.Function]bool{root: true}
	work := []*ssa.Function{root}
	for len(work) > 0 {
		f := work[0]
		work = work[1:]
		for _, ci := range flow.CallInstrs(f) {
			g := flow.StaticCallee(ci)
			if g != nil && g.Blocks != nil && !seen[g] && pkgOf(g) != nil && pkgOf(g).Path() == pkgSMParser {
				seen[g] = true
				work = append(work, g)
			}
		}
	}
	var fns []*ssa.Function
	for f := range seen {
		fns = append(fns, f)
	}
	sort.Slice(fns, func(i, j int) bool { return fname(fns[i]) < fname(fns[j]) })
	n := 0
	for _, f := range fns {
		done := map[*ssa.If]bool{}
		flow.Instrs(f, func(in ssa.Instruction) {
			ret, ok := in.(*ssa.Return)
			if !ok || len(ret.Results) == 0 {
				return
			}
			gl := loadedGlobal(ret.Results[len(ret.Results)-1])
			if gl == nil || !strings.HasPrefix(gl.Name(), "Err") {
				return
			}
			for _, gd := range flow.Guards(ret) {
				if done[gd.If] {
					continue
				}
				rl, ok := condRel(gd.If.Cond, gd.Taken)
				if !ok || !flow.IsNilConst(rl.b) || (rl.op != token.EQL && rl.op != token.NEQ) {
					continue
				}
				call, isCall := flow.Peel(rl.a).(*ssa.Call)
				if !isCall {
					continue
				}
				g := flow.StaticCallee(call)
				if g == nil || g.Blocks == nil || !c.P.InModule(pkgOf(g)) {
					continue
				}
				done[gd.If] = true
				n++
				key := fname(f) + ":guard-live:" + g.Name() + "-" + gl.Name()
				never, always := true, true
				for _, rv := range flow.ReturnValues(g, 0) {
					if !freshNonNil(rv, 0) {
						never = false
					}
					if !flow.IsNilConst(rv) {
						always = false
					}
				}
				dead := (rl.op == token.EQL && never) || (rl.op == token.NEQ && always)
				r.Check(!dead, rule, key, c.pos(gd.If), "the tested outcome of "+fname(g)+" is producible: the rejection with "+gl.Name()+" can happen",
					"the rejection with "+gl.Name()+" is guarded by a nil test on "+fname(g)+"(), which can never produce that outcome (every return is a fresh allocation / always nil): a capabilities message that must be refused is accepted")
			}
		})
	}
	if n == 0 {
		r.Trivial(rule, "smparser."+typ+".Parse:guard-live", c.fpos(root), "no rejection is guarded by a nil test on a module function's result")
	}
}

// freshNonNil: v is a value that can never be nil (allocation, composite, conversion of one, or the result of
// appending to one; loop-carried values are judged coinductively).
func freshNonNil(v ssa.Value, d int) bool { return freshNonNilSeen(v, d, map[ssa.Value]bool{}) }

func freshNonNilSeen(v ssa.Value, d int, seen map[ssa.Value]bool) bool {
	if d > 8 {
		return false
	}
	if seen[v] {
		return true
	}
	seen[v] = true
	switch x := v.(type) {
	case *ssa.MakeSlice, *ssa.Alloc, *ssa.MakeMap, *ssa.MakeChan, *ssa.MakeClosure, *ssa.MakeInterface:
		return true
	case *ssa.Slice:
		return freshNonNilSeen(x.X, d+1, seen)
	case *ssa.ChangeType:
		return freshNonNilSeen(x.X, d+1, seen)
	case *ssa.Call:
		if b, ok := x.Call.Value.(*ssa.Builtin); ok && b.Name() == "append" && len(x.Call.Args) > 0 {
			return freshNonNilSeen(x.Call.Args[0], d+1, seen)
		}
		return false
	case *ssa.Phi:
		for _, e := range x.Edges {
			if !freshNonNilSeen(e, d+1, seen) {
				return false
			}
		}
		return true
	}
	return false
}

// acceptSkeleton: the control skeleton of the acceptance predicate in smparser.<typ>.Parse. A return that can
// carry a nil error (the message is accepted) must (a) lie behind every error-returning step of Parse — each
// is executed on every path to it and no path leads from a step's error edge to it — and (b), for the CEA,
// be guarded by Result-Code == 2001. It decides that no validation step is skipped or its verdict dropped,
// not what the steps compute.
func (c *Ctx) acceptSkeleton(rule, typ string, wantSuccessCode bool) {
	r := c.R
	f := c.P.Method("diam/sm/smparser", typ, "Parse")
	if f == nil {
		r.Undecided(rule, "role:"+typ+".Parse", "-", "cannot resolve smparser."+typ+".Parse")
		return
	}
	// error-returning steps
	var steps []*ssa.Call
	for _, ci := range flow.CallInstrs(f) {
		call, ok := ci.(*ssa.Call)
		if !ok || errorResult(call) == nil {
			continue
		}
		g := flow.StaticCallee(call)
		if g == nil || !c.P.InModule(pkgOf(g)) {
			continue
		}
		steps = append(steps, call)
	}
	// the two steps that cannot be written inline: unmarshalling the message and checking the applications
	hasUnm, hasApp := false, false
	for _, st := range steps {
		g := flow.StaticCallee(st)
		if g.Name() == "Unmarshal" {
			hasUnm = true
		}
		if flow.RecvTypeName(g.Signature) == "Application" {
			hasApp = true
		}
		// … or a helper of the parser that runs the application check
		if g.Blocks != nil && pkgOf(g) != nil && pkgOf(g).Path() == pkgSMParser {
			for _, cj := range flow.CallInstrs(g) {
				if h := flow.StaticCallee(cj); h != nil && h.Signature.Recv() != nil && flow.RecvTypeName(h.Signature) == "Application" {
					hasApp = true
				}
			}
		}
	}
	if !hasUnm || !hasApp {
		r.Fail(rule, fname(f)+":validation-steps", c.fpos(f), fmt.Sprintf("smparser.%s.Parse lacks a validation step (unmarshal: %v, application check: %v)", typ, hasUnm, hasApp))
	}
	nAcc := 0
	flow.Instrs(f, func(in ssa.Instruction) {
		ret, ok := in.(*ssa.Return)
		if !ok || len(ret.Results) == 0 {
			return
		}
		errIdx := len(ret.Results) - 1
		accepting := false
		for _, v := range flow.SpillSources(ret.Results[errIdx]) {
			if flow.IsNilConst(v) {
				accepting = true
				continue
			}
			if definitelyNonNilError(v) || loadedGlobal(v) != nil {
				continue
			}
			// the error of a step, returned on that step's error edge
			nonNil := false
			for _, st := range steps {
				if errorResult(st) == v && errorEdgeBlocks(st)[ret.Block()] {
					nonNil = true
				}
			}
			if !nonNil {
				accepting = true
			}
		}
		if !accepting {
			return
		}
		nAcc++
		for _, st := range steps {
			g := flow.StaticCallee(st)
			key := fmt.Sprintf("%s:accept#%d-after-%s", fname(f), nAcc, g.Name())
			// a return that hands the step's own error to the caller propagates its verdict
			propagates := false
			for _, v := range flow.SpillSources(ret.Results[errIdx]) {
				if v == errorResult(st) {
					propagates = true
				}
			}
			if propagates && flow.PathAvoiding(f, nil, func(x ssa.Instruction) bool { return x == ssa.Instruction(ret) }, func(x ssa.Instruction) bool { return x == ssa.Instruction(st) }) == nil {
				r.Ok(rule, key, c.pos(ret), "the return hands the step's own error to the caller (verdict propagated)")
				continue
			}
			if p := flow.PathAvoiding(f, nil, func(x ssa.Instruction) bool { return x == ssa.Instruction(ret) }, func(x ssa.Instruction) bool { return x == ssa.Instruction(st) }); p != nil {
				r.Fail(rule, key, c.pos(ret), "the message can be accepted without running the validation step "+fname(g), c.witness(p)...)
				continue
			}
			if p := pathFromErrEdge(f, st, ret); p != nil {
				r.Fail(rule, key, c.pos(ret), "the message can be accepted although the validation step "+fname(g)+" reported an error (its error edge reaches the accepting return)", c.witness(p)...)
				continue
			}
			if len(errorEdgeBlocks(st)) == 0 {
				r.Fail(rule, key, c.pos(st), "the error of the validation step "+fname(g)+" is never tested")
				continue
			}
			r.Ok(rule, key, c.pos(ret), "executed on every path to the accepting return; its error edge does not reach it")
		}
		if wantSuccessCode {
			key := fmt.Sprintf("%s:accept#%d-result-code-success", fname(f), nAcc)
			good := false
			for _, gd := range flow.Guards(ret) {
				if rl, ok := condRel(gd.If.Cond, gd.Taken); ok && rl.op == token.EQL {
					if _, fld, _, okf := flow.FieldOf(flow.Peel(rl.a)); okf && fld == "ResultCode" {
						if k, isK := flow.ConstInt(rl.b); isK && k == 2001 {
							good = true
						}
					}
					continue
				}
				// a boolean helper of the same package testing the field against 2001
				if call, isC := flow.Peel(condOperand(gd.If.Cond)).(*ssa.Call); isC {
					if g := flow.StaticCallee(call); g != nil && g.Blocks != nil && pkgOf(g) != nil && pkgOf(g).Path() == pkgSMParser {
						flow.Instrs(g, func(x ssa.Instruction) {
							if bo, isB := x.(*ssa.BinOp); isB && (bo.Op == token.EQL || bo.Op == token.NEQ) {
								if _, fld, _, okf := flow.FieldOf(flow.Peel(bo.X)); okf && fld == "ResultCode" {
									if k, isK := flow.ConstInt(bo.Y); isK && k == 2001 {
										good = true
									}
								}
							}
						})
					}
				}
			}
			r.Check(good, rule, key, c.pos(ret), "accepting return guarded by Result-Code == 2001", "a CEA can be accepted without its Result-Code being DIAMETER_SUCCESS (2001): the handshake succeeds on a refusal")
		}
	})
	if nAcc == 0 {
		r.Fail(rule, fname(f)+":accepting-return", c.fpos(f), "smparser."+typ+".Parse has no return that can carry a nil error: no capabilities message is ever accepted")
	}
}

// condOperand strips negations from a branch condition.
func condOperand(v ssa.Value) ssa.Value {
	for {
		u, ok := v.(*ssa.UnOp)
		if !ok || u.Op != token.NOT {
			return v
		}
		v = u.X
	}
}

// settingsFieldsOf collects the names of the Settings fields in the backward slice of v (through phis, slices,
// element loads, local arrays, helper results and helper parameters).
func (c *Ctx) settingsFieldsOf(v ssa.Value, out map[string]bool, d int, seen map[ssa.Value]bool) {
	if v == nil || d > 10 || seen[v] {
		return
	}
	seen[v] = true
	switch x := v.(type) {
	case *ssa.UnOp:
		if tn, fld, _, ok := flow.FieldOf(x); ok && tn == "Settings" {
			out[fld] = true
			return
		}
		c.settingsFieldsOf(x.X, out, d+1, seen)
	case *ssa.IndexAddr:
		c.settingsFieldsOf(x.X, out, d+1, seen)
	case *ssa.FieldAddr:
		c.settingsFieldsOf(x.X, out, d+1, seen)
	case *ssa.Slice:
		c.settingsFieldsOf(x.X, out, d+1, seen)
	case *ssa.ChangeType:
		c.settingsFieldsOf(x.X, out, d+1, seen)
	case *ssa.MakeInterface:
		c.settingsFieldsOf(x.X, out, d+1, seen)
	case *ssa.Phi:
		for _, e := range x.Edges {
			c.settingsFieldsOf(e, out, d+1, seen)
		}
	case *ssa.Alloc:
		for _, ref := range flow.Referrers(x) {
			switch y := ref.(type) {
			case *ssa.Store:
				if y.Addr == ssa.Value(x) {
					c.settingsFieldsOf(y.Val, out, d+1, seen)
				}
			case *ssa.IndexAddr:
				for _, r2 := range flow.Referrers(y) {
					if st, ok := r2.(*ssa.Store); ok && st.Addr == ssa.Value(y) {
						c.settingsFieldsOf(st.Val, out, d+1, seen)
					}
				}
			}
		}
	case *ssa.Extract:
		if call, ok := x.Tuple.(*ssa.Call); ok {
			if g := flow.StaticCallee(call); g != nil && g.Blocks != nil && c.P.IsLibrary(g) {
				for _, rv := range flow.ReturnValues(g, x.Index) {
					c.settingsFieldsOf(rv, out, d+1, seen)
				}
			}
		}
	case *ssa.Call:
		if g := flow.StaticCallee(x); g != nil && g.Blocks != nil && c.P.IsLibrary(g) {
			for _, rv := range flow.ReturnValues(g, 0) {
				c.settingsFieldsOf(rv, out, d+1, seen)
			}
		}
	case *ssa.Parameter:
		for _, cs := range c.librarySites(x.Parent()) {
			if i := paramIndex(x.Parent(), x); i < len(cs.Common().Args) {
				c.settingsFieldsOf(cs.Common().Args[i], out, d+1, seen)
			}
		}
	}
}

// anyApplicationSuffices: "at least one advertised application is supported" — wherever the application
// validator is applied to the members of a list in a loop, a member that fails must not end the scan: no return
// that can carry a non-nil error lies inside such a loop (a later member may still match).
func (c *Ctx) anyApplicationSuffices(rule string) {
	r := c.R
	val := c.P.Method("diam/sm/smparser", "Application", "validate")
	if val == nil {
		r.Trivial(rule, "smparser.Application:scan-all", "-", "no per-application validator method found")
		return
	}
	n := 0
	for _, f := range c.P.LibraryFuncs() {
		if pkgOf(f).Path() != pkgSMParser {
			continue
		}
		loops := flow.Loops(f)
		for _, ci := range flow.CallInstrs(f) {
			if flow.StaticCallee(ci) != val {
				continue
			}
			l := flow.InnermostLoop(loops, ci)
			if l == nil {
				// a call whose branch leaves the loop at once is still written in the loop body
				for _, cand := range loops {
					for b := range cand.Blocks {
						if b != cand.Head && b.Dominates(ci.Block()) {
							l = cand
						}
					}
				}
			}
			if l == nil {
				continue
			}
			n++
			key := fname(f) + ":scan-all-members"
			var bad ssa.Instruction
			flow.Instrs(f, func(in ssa.Instruction) {
				ret, ok := in.(*ssa.Return)
				if !ok || len(ret.Results) == 0 || bad != nil {
					return
				}
				// a return written inside the loop body: its block is dominated by a body block of the loop
				inBody := false
				for b := range l.Blocks {
					if b != l.Head && b.Dominates(ret.Block()) {
						inBody = true
					}
				}
				if !inBody {
					return
				}
				ev := ret.Results[len(ret.Results)-1]
				if !isErrorType(ev.Type()) {
					return
				}
				definitelyNil := true
				for _, s := range flow.SpillSources(ev) {
					if !flow.IsNilConst(s) {
						// nil on this edge?
						isNil := false
						for _, g := range flow.Guards(ret) {
							if rl, ok := condRel(g.If.Cond, g.Taken); ok && rl.op == token.EQL && ((rl.a == s && flow.IsNilConst(rl.b)) || (rl.b == s && flow.IsNilConst(rl.a))) {
								isNil = true
							}
						}
						if !isNil {
							definitelyNil = false
						}
					}
				}
				if !definitelyNil {
					bad = ret
				}
			})
			if bad != nil {
				r.Fail(rule, key, c.pos(bad), "the scan over the advertised applications returns with a possible failure before every member was examined: a CER whose first application is unknown is refused although a later one is common (and vice versa for metadata)")
			} else {
				r.Ok(rule, key, c.pos(ci), "no failing return inside the loop over the advertised applications")
			}
		}
	}
	if n == 0 {
		r.Trivial(rule, "smparser.Application:scan-all", "-", "the validator is not applied in a loop")
	}
}

// trueRels: the relations that hold whenever the boolean function h returns true — the guards of its
// "return true" / "return <comparison>" statements and the comparison itself (conjunctions only: a function with
// several ways to return true yields nothing).
func trueRels(h *ssa.Function) []rel {
	var out []rel
	n := 0
	flow.Instrs(h, func(in ssa.Instruction) {
		ret, ok := in.(*ssa.Return)
		if !ok || len(ret.Results) != 1 {
			return
		}
		v := ret.Results[0]
		if k, isK := v.(*ssa.Const); isK && k.Value != nil && k.Value.Kind() == constant.Bool && !constant.BoolVal(k.Value) {
			return // return false
		}
		n++
		for _, g := range flow.Guards(ret) {
			if rl, ok := condRel(g.If.Cond, g.Taken); ok {
				out = append(out, rl)
			}
		}
		if rl, ok := condRel(v, true); ok {
			out = append(out, rl)
		}
	})
	if n != 1 {
		return nil
	}
	return out
}

// c11Applications: R6 — "the shared application ids become the connection's metadata" and "accepted exactly when …
// at least one application the local dictionary supports with the same type". The collector is the method of
// smparser.Application that appends to the result list (field of type []uint32). Two structural necessary
// conditions on the methods that lead to it: (a) a loop that feeds application AVPs to the collector has no exit
// but exhaustion — leaving at the first hit keeps later shared ids out of the metadata; (b) the methods keep no
// memory from one AVP to the next other than the result list — a verdict recalled for "the same id" is the
// verdict of another AVP (another type) and makes acceptance depend on the order of the AVPs.
func (c *Ctx) c11Applications() {
	r := c.R
	appT := c.P.NamedType("diam/sm/smparser", "Application")
	if appT == nil {
		r.Undecided("R6", "role:smparser.Application", "-", "type smparser.Application not found")
		return
	}
	st := structOf(appT)
	listFld := ""
	for i := 0; i < st.NumFields(); i++ {
		if sl, ok := st.Field(i).Type().Underlying().(*types.Slice); ok {
			if b, ok := sl.Elem().Underlying().(*types.Basic); ok && b.Kind() == types.Uint32 {
				listFld = st.Field(i).Name()
			}
		}
	}
	if listFld == "" {
		r.Undecided("R6", "role:application-id-list", "-", "smparser.Application has no []uint32 result list")
		return
	}
	isAppMethod := func(f *ssa.Function) bool {
		return f.Signature.Recv() != nil && flow.NamedOf(f.Signature.Recv().Type()) != nil && flow.NamedOf(f.Signature.Recv().Type()).Obj() == appT.Obj()
	}
	var methods []*ssa.Function
	collects := map[*ssa.Function]bool{}
	for _, f := range c.P.LibraryFuncs() {
		if !isAppMethod(f) {
			continue
		}
		methods = append(methods, f)
		flow.Instrs(f, func(in ssa.Instruction) {
			if st, ok := in.(*ssa.Store); ok {
				if tn, fld, _, ok := flow.FieldOf(st.Addr); ok && tn == appT.Obj().Name() && fld == listFld {
					collects[f] = true
				}
			}
		})
	}
	if len(collects) == 0 {
		r.Undecided("R6", "role:collector", "-", "no method of smparser.Application stores to its id list")
		return
	}
	// chain: methods from which a collector is reached by plain calls
	chain := map[*ssa.Function]bool{}
	for f := range collects {
		chain[f] = true
	}
	for changed := true; changed; {
		changed = false
		for _, f := range methods {
			if chain[f] {
				continue
			}
			for _, ci := range flow.CallInstrs(f) {
				if g := flow.StaticCallee(ci); g != nil && chain[g] {
					chain[f] = true
					changed = true
				}
			}
		}
	}
	// the region also holds the helpers those methods call (bookkeeping split out of the collector)
	up := map[*ssa.Function]bool{}
	for f := range chain {
		up[f] = true
	}
	for changed := true; changed; {
		changed = false
		for _, f := range methods {
			if !chain[f] {
				continue
			}
			for _, ci := range flow.CallInstrs(f) {
				if g := flow.StaticCallee(ci); g != nil && isAppMethod(g) && !chain[g] {
					chain[g] = true
					changed = true
				}
			}
		}
	}
	sort.Slice(methods, func(i, j int) bool { return fname(methods[i]) < fname(methods[j]) })
	nLoops := 0
	for _, f := range methods {
		if !chain[f] {
			continue
		}
		loops := flow.Loops(f)
		seen := map[*flow.Loop]bool{}
		for _, ci := range flow.CallInstrs(f) {
			g := flow.StaticCallee(ci)
			if g == nil || !up[g] {
				continue
			}
			l := flow.InnermostLoop(loops, ci)
			if l == nil || seen[l] {
				continue
			}
			seen[l] = true
			nLoops++
			key := fmt.Sprintf("%s:loop-feeding-%s-runs-to-the-end", fname(f), g.Name())
			var early ssa.Instruction
			for b := range l.Blocks {
				if b == l.Head {
					continue
				}
				for _, s := range b.Succs {
					if !l.Blocks[s] && early == nil {
						early = b.Instrs[len(b.Instrs)-1]
					}
				}
			}
			if early != nil {
				r.Fail("R6", key, c.pos(early), "the loop that hands the advertised applications to "+g.Name()+" can be left before every one was examined: applications after that point are never checked, so shared ids are missing from the connection's metadata (or a later acceptable application is never found)")
			} else {
				r.Ok("R6", key, c.pos(ci), "the loop has no exit but exhaustion: every advertised application reaches "+g.Name())
			}
		}
		// (b) no memory but the result list
		flow.Instrs(f, func(in ssa.Instruction) {
			switch x := in.(type) {
			case *ssa.Store:
				if tn, fld, _, ok := flow.FieldOf(x.Addr); ok && tn == appT.Obj().Name() && fld != listFld {
					r.Fail("R6", fname(f)+":keeps-state-in-"+fld, c.pos(x), "the application check stores into Application."+fld+": a verdict or value remembered from one AVP is applied to another (same id, other type or position), so acceptance depends on the order in which the peer lists its applications")
				}
			case *ssa.MapUpdate:
				if tn, fld, _, ok := flow.FieldOf(flow.Peel(x.Map)); ok && tn == appT.Obj().Name() {
					r.Fail("R6", fname(f)+":keeps-state-in-"+fld, c.pos(x), "the application check updates the map Application."+fld+": a verdict remembered from one AVP is applied to another (same id, other type or position), so acceptance depends on the order in which the peer lists its applications")
				}
			}
		})
	}
	if nLoops == 0 {
		r.Undecided("R6", "role:application-loops", "-", "no loop feeds application AVPs to the collector")
	}
	r.Ok("R6", "Application:collector-chain", "-", fmt.Sprintf("%d methods lead to the collector; stores to Application fields on that chain go to %s only", len(chain), listFld))
}

// c11Advertised: two clauses about which applications take part in the exchange. (a) The list of locally supported
// applications (advertised in the CEA, compared with the peer's) holds every application of the dictionary but the
// base application: in the function that builds it from (*dict.Parser).Apps(), the append is conditioned, inside
// the loop, on nothing but the loop's own bound and ID != 0. (b) The relay application id is accepted wherever an
// advertised id is looked up: every call of (*dict.Parser).App in smparser is guarded by id != 0xffffffff in its
// function, or every call site of that function is guarded by a test against 0xffffffff.
func (c *Ctx) c11Advertised() {
	r := c.R
	const relay = 0xffffffff
	// (a)
	nA := 0
	for _, f := range c.P.LibraryFuncs() {
		if pkgOf(f).Path() != pkgSM || f.Signature.Results().Len() != 1 {
			continue
		}
		sl, ok := f.Signature.Results().At(0).Type().Underlying().(*types.Slice)
		if !ok || !flow.TypeIs(sl.Elem(), pkgSM, "SupportedApp") {
			continue
		}
		callsApps := false
		for _, ci := range flow.CallInstrs(f) {
			if flow.IsCallTo(ci, pkgDict, "Parser", "Apps") {
				callsApps = true
			}
		}
		if !callsApps {
			continue
		}
		loops := flow.Loops(f)
		for _, ci := range flow.CallInstrs(f) {
			call, isCall := ci.(*ssa.Call)
			if !isCall {
				continue
			}
			if b, isB := call.Call.Value.(*ssa.Builtin); !isB || b.Name() != "append" || !types.Identical(call.Type(), f.Signature.Results().At(0).Type()) {
				continue
			}
			l := flow.InnermostLoop(loops, call)
			if l == nil {
				continue
			}
			nA++
			key := fname(f) + ":every-dictionary-application-listed"
			bad := ""
			var at ssa.Instruction = call
			for _, g := range flow.Guards(call) {
				if !l.Blocks[g.If.Block()] {
					continue
				}
				if g.If.Block() == l.Head {
					continue // the loop's own bound
				}
				rl, ok := condRel(g.If.Cond, g.Taken)
				okGuard := false
				if ok {
					// the range loop's index against the length of the list (the loop may be rotated)
					if ba, isA := rl.a.Type().Underlying().(*types.Basic); isA && ba.Kind() == types.Int {
						if bb, isB := rl.b.Type().Underlying().(*types.Basic); isB && bb.Kind() == types.Int && rl.op != token.EQL && rl.op != token.NEQ {
							okGuard = true
						}
					}
				}
				if ok && rl.op == token.NEQ {
					for _, pr := range [][2]ssa.Value{{rl.a, rl.b}, {rl.b, rl.a}} {
						if _, fld, _, isF := flow.FieldOf(flow.Peel(pr[0])); isF && fld == "ID" && isZeroConst(pr[1]) {
							okGuard = true
						}
					}
				}
				if !okGuard {
					bad, at = short(g.If.Cond.String(), 50), g.If
				}
			}
			r.Check(bad == "", "R6", key, c.pos(at), "every application of the dictionary except id 0 is appended to the locally supported list",
				"the list of locally supported applications skips dictionary applications on a further condition ("+bad+"): an application the accept decision knows (same id under another type, say) is then missing from what the CEA advertises and from the comparison with the peer's list")
		}
	}
	if nA == 0 {
		r.Undecided("R6", "role:supported-apps-builder", "-", "no function of package sm builds a []*SupportedApp from (*dict.Parser).Apps()")
	}
	// (b)
	isRelayRel := func(g flow.Guard, wantEqual bool) bool {
		rl, ok := condRel(g.If.Cond, g.Taken)
		if !ok {
			return false
		}
		want := token.NEQ
		if wantEqual {
			want = token.EQL
		}
		if rl.op != want {
			return false
		}
		ka, isA := flow.ConstInt(rl.a)
		kb, isB := flow.ConstInt(rl.b)
		return isA && uint32(ka) == relay || isB && uint32(kb) == relay
	}
	mentionsRelay := func(h *ssa.Function) bool {
		found := false
		flow.Instrs(h, func(in ssa.Instruction) {
			if bo, ok := in.(*ssa.BinOp); ok && bo.Op == token.EQL {
				for _, v := range []ssa.Value{bo.X, bo.Y} {
					if k, isK := flow.ConstInt(v); isK && uint32(k) == relay && k != -1 {
						found = true
					}
				}
			}
		})
		return found
	}
	notRelayAt := func(in ssa.Instruction) bool {
		for _, g := range flow.Guards(in) {
			if isRelayRel(g, false) {
				return true
			}
			cond, neg := flow.Cond(g.If.Cond, g.Taken)
			if call, isCall := cond.(*ssa.Call); isCall && neg {
				if h := flow.StaticCallee(call); h != nil && h.Blocks != nil && c.P.IsLibrary(h) && mentionsRelay(h) {
					return true
				}
			}
		}
		return false
	}
	nB := 0
	for _, f := range c.P.LibraryFuncs() {
		if pkgOf(f).Path() != pkgSMParser {
			continue
		}
		for _, ci := range flow.CallInstrs(f) {
			if !flow.IsCallTo(ci, pkgDict, "Parser", "App") {
				continue
			}
			nB++
			key := fname(f) + ":relay-id-accepted-before-dictionary-lookup"
			if notRelayAt(ci) {
				r.Ok("R6", key, c.pos(ci), "the dictionary is asked only for ids other than the relay id 0xffffffff")
				continue
			}
			sites := c.librarySites(f)
			bad := len(sites) == 0
			var at ssa.Instruction = ci
			for _, cs := range sites {
				if !notRelayAt(cs) {
					bad, at = true, cs
				}
			}
			r.Check(!bad, "R6", key, c.pos(at), "every call that leads to the dictionary lookup is made only for ids other than the relay id",
				"an advertised application id reaches the dictionary lookup without the relay id 0xffffffff having been accepted first: a peer that advertises relay there (inside a Vendor-Specific-Application-Id group, say) is rejected with no common application")
		}
	}
	if nB == 0 {
		r.Undecided("R6", "role:application-lookup", "-", "no call of (*dict.Parser).App in smparser")
	}
}
