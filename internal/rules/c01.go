package rules

import (
	"fmt"
	"go/token"
	"go/types"
	"strings"

	"golang.org/x/tools/go/ssa"

	"verif/internal/cong"
	"verif/internal/flow"
)

func init() {
	register(&RuleSet{
		Property:  "C01",
		Title:     "Messages survive a wire round trip in both directions",
		Run:       runC01,
		Technique: "byte-lane layout extraction of both codec directions and comparison with each other; congruence-domain stride agreement; per-type pairing table of decoder / Serialize / Len / Padding facts",
		Explanation: "Decides on the current source that encoder and decoder agree with each other (the oracle is the other side of the codec, not a reference): R1 Header.SerializeTo and Header.DecodeFromBytes have identical offset → (field, byte) maps covering all 20 bytes exactly once; " +
			"R2 AVP.SerializeTo and the AVP decoder have identical maps for Code, Flags, Length and — under the same V-flag predicate on both sides — Vendor-Id, with payload offset 8/12 by that predicate; " +
			"R3 the length written is header length + Data.Len() with no padding term, matching the decoder's payload = data[hdr:Length]; " +
			"R4 every encoder walk (Message.SerializeTo, GroupedAVP.Serialize, Message.Len, GroupedAVP.Len) advances by (*AVP).Len(), which is header + Data.Len() + Data.Padding(), and for every data type Len()+Padding() is a multiple of 4 with Padding() < 4 (constants, or Padding() = round-up-4(x) − x for the same x Len() reports, decided for all x); " +
			"R5 for every entry of datatype.Decoder the decoder, Serialize, Len and Padding agree: fixed-width types decode / write / report the same constant width with the same byte order, string-kinded types are converted in both directions with Len = len, delegating types inherit their delegate's facts, and len(Serialize()) is provably Len(); " +
			"R6 AVPs unknown to the dictionary are carried as opaque data: the not-found exit yields the Unknown placeholder, its type decodes as the identity on bytes, and the AVP decoder gives up only when no dictionary entry at all was returned. " +
			"R4 also demands that every value Message.Len / GroupedAVP.Len can return is the constant start (20 / 0) plus the sum of (*AVP).Len() over the receiver's current list (a remembered total or a sum less some term is refused). " +
			"Not decided: equality of values and bytes as executed (NaN payloads, addresses whose family is neither 1 nor 2 but whose length is 4 or 16, generated dictionaries, 24-bit overflow).",
		Rules: map[string]string{
			"R1": "header: writer layout = reader layout",
			"R2": "AVP header: writer layout = reader layout, same V predicate",
			"R3": "Length field excludes padding on both sides",
			"R4": "encoder strides = AVP.Len(); Len()+Padding() ≡ 0 mod 4 for every type",
			"R5": "per-type pairing of decoder / Serialize / Len / Padding",
			"R6": "unknown AVPs carried as opaque bytes",
		},
		MinInstances: map[string]int{"R1": 1, "R2": 2, "R3": 1, "R4": 10, "R5": 15, "R6": 3},
		Assumptions:  []string{"encoding/binary semantics; []byte↔string conversions copy bytes verbatim"},
	})
}

func runC01(c *Ctx) {
	r := c.R
	// ---- R1 ----
	hw := c.P.Method("diam", "Header", "SerializeTo")
	hr := c.P.Method("diam", "Header", "DecodeFromBytes")
	if hw == nil || hr == nil {
		r.Undecided("R1", "role:header-codec", "-", "Header.SerializeTo / DecodeFromBytes not found")
	} else {
		wl, _, wp := c.writerLayout(hw)
		rl, _, rp := c.readerLayout(hr, "Header")
		for _, p := range append(wp, rp...) {
			r.Undecided("R1", "header:layout-extraction", c.fpos(hw), "cannot interpret a header access: "+p)
		}
		d := diffLayout(wl, rl)
		ok := d == "" && len(wl) == 20
		why := "the header encoder and decoder disagree (written vs read): " + d
		if d == "" && len(wl) != 20 {
			why = fmt.Sprintf("only %d of the 20 header bytes are written and read", len(wl))
		}
		r.Check(ok, "R1", "header:writer=reader", c.fpos(hw), "20 bytes, identical offset→field maps: "+wl.String(), why)
	}
	// ---- R2 / R3 ----
	aw := c.P.Method("diam", "AVP", "SerializeTo")
	var ar *ssa.Function
	for _, f := range c.P.LibraryFuncs() {
		if pkgOf(f).Path() != pkgDiam || byteParam(f) == nil {
			continue
		}
		flow.Instrs(f, func(in ssa.Instruction) {
			if st, ok := in.(*ssa.Store); ok {
				if tn, fld, _, ok := flow.FieldOf(st.Addr); ok && tn == "AVP" && fld == "Length" {
					ar = f
				}
			}
		})
	}
	if ar != nil {
		// the header fields may be read by a first step of the decoder: the decoder is then the caller that
		// hands that step its own bytes
		ar, _ = c.liftDecoder(ar, byteParam(ar))
	}
	if aw == nil || ar == nil {
		r.Undecided("R2", "role:avp-codec", "-", "AVP.SerializeTo / the AVP decoder not found")
	} else {
		wl, wfacts, _ := c.writerLayout(aw)
		var lenSrc ssa.Value
		for off := 5; off <= 7; off++ {
			if ft, ok := wfacts[off]; ok {
				wl[off] = fmt.Sprintf("Length:%d", ft.Src.Lane)
				lenSrc = ft.Src.Val
			}
		}
		rl, rcond, rp := c.readerLayout(ar, "AVP")
		for _, p := range rp {
			r.Undecided("R2", "avp:layout-extraction", c.fpos(ar), "cannot interpret an AVP header read: "+p)
		}
		d := diffLayout(wl, rl)
		r.Check(d == "", "R2", "avp-header:writer=reader", c.fpos(aw), "identical offset→field maps: "+wl.String(), "the AVP header encoder and decoder disagree (written vs read): "+d)
		wv := ""
		if ft, ok := wfacts[8]; ok {
			wv = c.vbitEdge(ft.At)
		}
		r.Check(wv == rcond["VendorID"] && wv == "V", "R2", "avp-header:same-V-predicate", c.fpos(aw), "vendor id written and read under the same Flags&Vbit predicate", fmt.Sprintf("the vendor id is written on edge %q but read on edge %q", wv, rcond["VendorID"]))
		// R3: the written length
		key := "avp-header:length-excludes-padding"
		good, why := false, "cannot identify the value written into the Length field"
		if lenSrc != nil {
			txt := ""
			hasLen, hasPad, hasHdr := false, false, false
			var walk func(v ssa.Value, d int)
			walk = func(v ssa.Value, d int) {
				if d > 6 {
					return
				}
				switch x := v.(type) {
				case *ssa.BinOp:
					txt += x.Op.String()
					walk(x.X, d+1)
					walk(x.Y, d+1)
				case *ssa.Convert:
					walk(x.X, d+1)
				case *ssa.Call:
					if x.Call.IsInvoke() && x.Call.Method.Name() == "Len" {
						hasLen = true
					} else if x.Call.IsInvoke() && x.Call.Method.Name() == "Padding" {
						hasPad = true
					} else if g := flow.StaticCallee(x); g != nil && g.Signature.Recv() != nil && flow.RecvTypeName(g.Signature) == "AVP" {
						if g.Name() == "Len" {
							hasLen, hasPad = true, true // (*AVP).Len includes padding
						} else {
							hasHdr = true
						}
					}
				}
			}
			walk(lenSrc, 0)
			good = hasLen && hasHdr && !hasPad && !strings.ContainsAny(txt, "-*/")
			why = fmt.Sprintf("the Length field written is not header length + Data.Len() (uses Len:%v header:%v padding:%v): the decoder, which takes data[hdr:Length] as payload, reads a different payload than was written", hasLen, hasHdr, hasPad)
		}
		r.Check(good, "R3", key, c.fpos(aw), "Length = headerLen + Data.Len(), no padding term", why)
		// the padding bytes themselves are zero on both sides (re-serialising a read message must give the same bytes)
		c.paddingZeroed(aw, "R3")
	}

	// ---- R4 ----
	c.c01Strides()
	// ---- R5 ----
	c.c01Pairing()
	// ---- R6 ----
	if ar != nil {
		arTop, _ := c.liftDecoder(ar, byteParam(ar))
		c.c01Opaque(arTop)
	} else {
		c.c01Opaque(ar)
	}
}

func (c *Ctx) c01Strides() {
	r := c.R
	avpLen := c.P.Method("diam", "AVP", "Len")
	if avpLen == nil {
		r.Undecided("R4", "role:AVP.Len", "-", "(*AVP).Len not found")
		return
	}
	// AVP.Len = headerLen + Data.Len() + Data.Padding()
	{
		rv := singleReturn(avpLen)
		hasLen, hasPad, hasHdr, other := false, false, false, false
		var walk func(v ssa.Value, d int)
		walk = func(v ssa.Value, d int) {
			if d > 6 {
				return
			}
			switch x := v.(type) {
			case *ssa.BinOp:
				if x.Op != token.ADD {
					other = true
				}
				walk(x.X, d+1)
				walk(x.Y, d+1)
			case *ssa.Call:
				switch {
				case x.Call.IsInvoke() && x.Call.Method.Name() == "Len":
					hasLen = true
				case x.Call.IsInvoke() && x.Call.Method.Name() == "Padding":
					hasPad = true
				default:
					if g := flow.StaticCallee(x); g != nil && g.Signature.Recv() != nil {
						hasHdr = true
					} else {
						other = true
					}
				}
			default:
				other = true
			}
		}
		if rv != nil {
			walk(rv, 0)
		}
		r.Check(rv != nil && hasLen && hasPad && hasHdr && !other, "R4", fname(avpLen)+":hdr+len+padding", c.fpos(avpLen), "(*AVP).Len() = header length + Data.Len() + Data.Padding()", "(*AVP).Len() is not header length + Data.Len() + Data.Padding(): encoder walks and buffer sizes no longer match what SerializeTo writes")
	}
	// encoder walks
	for _, spec := range []struct{ typ, name string }{{"Message", "SerializeTo"}, {"GroupedAVP", "Serialize"}, {"Message", "Len"}, {"GroupedAVP", "Len"}} {
		f := c.P.Method("diam", spec.typ, spec.name)
		if f == nil {
			r.Undecided("R4", "role:"+spec.typ+"."+spec.name, "-", "encoder walk not found")
			continue
		}
		key := fname(f) + ":advances-by-AVP.Len"
		loops := flow.Loops(f)
		good := false
		for _, in := range allPhis(f) {
			if len(loops) == 0 || in.Block() != loops[0].Head && !isLoopHead(loops, in.Block()) {
				continue
			}
			for _, e := range in.Edges {
				bo, ok := e.(*ssa.BinOp)
				if !ok || bo.Op != token.ADD || bo.X != ssa.Value(in) {
					continue
				}
				if call, ok := bo.Y.(*ssa.Call); ok && flow.StaticCallee(call) == avpLen {
					good = true
				}
			}
		}
		if !good && spec.name == "Len" {
			// the total may be computed by a shared helper: k + Σ a.Len() over the receiver's own AVP list
			for _, rv := range flow.ReturnValues(f, 0) {
				if _, l, ok := c.lenSum(rv, 0); ok {
					if tn, fld, base, okf := flow.FieldOf(flow.Peel(l)); okf && tn == spec.typ && fld == "AVP" && flow.Peel(base) == ssa.Value(f.Params[0]) {
						good = true
					}
				}
			}
		}
		r.Check(good, "R4", key, c.fpos(f), "the running offset / total advances by (*AVP).Len() of each element", "the encoder does not advance by (*AVP).Len() per AVP: AVPs are written at offsets that differ from what the decoder walks")
		if spec.name == "Len" {
			// … and nothing else is ever returned: every return value is the constant start plus that sum over
			// the receiver's current list (a remembered total, or the sum less some term, is not)
			want := int64(0)
			if spec.typ == "Message" {
				want = 20
			}
			ok, why := c.lenIsSum(f, spec.typ, want)
			r.Check(ok, "R4", fname(f)+":every-return-is-the-sum", c.fpos(f), fmt.Sprintf("every return of %s.Len() is %d + Σ (*AVP).Len() over the receiver's current AVP list", spec.typ, want), fmt.Sprintf("%s.Len() can return something other than %d + Σ (*AVP).Len() of its current members (%s): the length written and the buffer sized from it no longer match what the walk serialises", spec.typ, want, why))
		}
	}
	// per-type alignment
	typs, _ := c.datatypeImplementors()
	for _, T := range typs {
		name := T.String()
		name = name[strings.LastIndex(name, "/")+1:]
		key := "alignment:" + name
		lenF, padF := c.methodOf(T, "Len"), c.methodOf(T, "Padding")
		if lenF == nil || padF == nil {
			r.Undecided("R4", key, "-", "Len/Padding not found")
			continue
		}
		tf := &typeFacts{T: T, LenConst: -1, PadConst: -1, SerSize: -1, DecLen: -1}
		lenF, padF = delegated(lenF), delegated(padF)
		c.fillLenPad(tf, lenF, padF)
		switch {
		case tf.LenConst >= 0 && tf.PadConst >= 0:
			r.Check((tf.LenConst+tf.PadConst)%4 == 0 && tf.PadConst < 4, "R4", key, c.fpos(lenF), fmt.Sprintf("Len()=%d Padding()=%d", tf.LenConst, tf.PadConst), fmt.Sprintf("Len()=%d and Padding()=%d do not add up to a multiple of 4: the next AVP starts unaligned and the decoder's walk lands elsewhere", tf.LenConst, tf.PadConst))
		case tf.PadIsRound:
			r.Ok("R4", key, c.fpos(padF), "Padding() = round-up-4(len) − len for the same len Len() reports (all lengths)")
		case tf.PadConst == 0 && (strings.HasPrefix(name, "*") || strings.Contains(name, "Grouped")):
			// containers of AVPs: sum of aligned Len()s, or raw grouped bytes
			r.Ok("R4", key, c.fpos(padF), "container: Len() is a sum of aligned AVP lengths / raw group bytes, Padding() = 0")
		case c.padOfSameLen(c.methodOfRaw(T, "Len"), padF):
			r.Ok("R4", key, c.fpos(padF), "Padding() = round-up-4(L) − L where L is the very expression Len() returns (all values)")
		case tf.PadWhy == "multi" || tf.LenDyn == "multi":
			// multi-branch (Address): every branch pairs a length with round-up-4 of it
			good := c.multiBranchAligned(lenF, padF)
			r.Check(good, "R4", key, c.fpos(padF), "each branch of Padding() pads the length the same branch of Len() reports", "Padding() and Len() branch differently: for some values the padded length is not a multiple of 4")
		default:
			why := tf.PadWhy
			if why == "" && tf.PadConst >= 0 {
				why = fmt.Sprintf("Padding() is the constant %d although Len() varies with the value (%s)", tf.PadConst, tf.LenDyn)
			}
			r.Fail("R4", key, c.fpos(padF), "cannot establish Len()+Padding() ≡ 0 mod 4: "+why+" — the next AVP would start unaligned and the decoder's walk lands elsewhere")
		}
	}
}

func allPhis(f *ssa.Function) []*ssa.Phi {
	var out []*ssa.Phi
	flow.Instrs(f, func(in ssa.Instruction) {
		if p, ok := in.(*ssa.Phi); ok {
			out = append(out, p)
		}
	})
	return out
}

func isLoopHead(loops []*flow.Loop, b *ssa.BasicBlock) bool {
	for _, l := range loops {
		if l.Head == b {
			return true
		}
	}
	return false
}

// fillLenPad fills the Len/Padding facts only.
func (c *Ctx) fillLenPad(tf *typeFacts, lenF, padF *ssa.Function) {
	sub := &typeFacts{T: tf.T, LenConst: -1, PadConst: -1, SerSize: -1, DecLen: -1, Decoder: nil}
	// reuse fillTypeFacts' logic for Len/Padding by a minimal copy
	if rv := singleReturn(lenF); rv != nil {
		switch e := lenExprOf(rv, ssa.Value(lenF.Params[0])); {
		case strings.HasPrefix(e, "const:"):
			fmt.Sscanf(e, "const:%d", &sub.LenConst)
		case e != "":
			sub.LenDyn = e
		default:
			sub.LenDyn = "other"
		}
	} else {
		sub.LenDyn = "multi"
	}
	tf.LenConst, tf.LenDyn = sub.LenConst, sub.LenDyn
	full := &typeFacts{T: tf.T, LenConst: tf.LenConst, LenDyn: tf.LenDyn, PadConst: -1, SerSize: -1, DecLen: -1}
	c.padFacts(full, padF)
	tf.PadConst, tf.PadIsRound, tf.PadWhy = full.PadConst, full.PadIsRound, full.PadWhy
}

// multiBranchAligned: Len() and Padding() have the same branch structure and in each Padding()
// return the value is pad(l) − l with l built like the corresponding Len() return.
func (c *Ctx) multiBranchAligned(lenF, padF *ssa.Function) bool {
	// Padding: single return of P(l) − l with l = phi(...) ; Len: returns of the same alternatives
	rv := singleReturn(padF)
	if rv == nil {
		return false
	}
	bo, ok := rv.(*ssa.BinOp)
	if !ok || bo.Op != token.SUB {
		return false
	}
	call, ok := bo.X.(*ssa.Call)
	if !ok || len(call.Call.Args) != 1 || call.Call.Args[0] != bo.Y {
		return false
	}
	// alternatives of l
	render := func(v ssa.Value) string {
		s := ""
		var w func(v ssa.Value, d int)
		w = func(v ssa.Value, d int) {
			if d > 5 {
				return
			}
			switch x := v.(type) {
			case *ssa.BinOp:
				s += "(" + x.Op.String()
				w(x.X, d+1)
				w(x.Y, d+1)
				s += ")"
			case *ssa.Const:
				s += x.Value.ExactString()
			case *ssa.Call:
				if b, ok := x.Call.Value.(*ssa.Builtin); ok {
					s += b.Name() + "("
					w(x.Call.Args[0], d+1)
					s += ")"
				} else if g := flow.StaticCallee(x); g != nil {
					s += g.Name() + "()"
				}
			case *ssa.Parameter:
				s += "recv"
			case *ssa.ChangeType:
				w(x.X, d+1)
			case *ssa.Convert:
				w(x.X, d+1)
			case *ssa.Extract:
				s += "x"
			default:
				s += "?"
			}
		}
		w(v, 0)
		return s
	}
	want := map[string]bool{}
	if ph, ok := bo.Y.(*ssa.Phi); ok {
		for _, e := range ph.Edges {
			want[render(e)] = true
		}
	} else {
		want[render(bo.Y)] = true
	}
	got := map[string]bool{}
	for _, lr := range flow.ReturnValues(lenF, 0) {
		got[render(lr)] = true
	}
	if len(want) != len(got) {
		return false
	}
	for k := range want {
		if !got[k] || strings.Contains(k, "?") {
			return false
		}
	}
	return true
}

func (c *Ctx) c01Pairing() {
	r := c.R
	facts := c.datatypeFacts()
	if len(facts) < 15 {
		r.Undecided("R5", "datatype:census", "-", fmt.Sprintf("only %d decoder entries could be analysed", len(facts)))
	}
	for _, tf := range facts {
		key := "pairing:" + strings.TrimSuffix(tf.Name, "Type")
		if len(tf.Problems) > 0 {
			r.Undecided("R5", key, c.fpos(tf.Decoder), strings.Join(tf.Problems, "; "))
			continue
		}
		var bad []string
		switch {
		case tf.LenConst >= 0 && tf.SerEndian != "conv" && tf.SerEndian != "other":
			// fixed width numeric
			if tf.SerSize != tf.LenConst {
				bad = append(bad, fmt.Sprintf("Serialize() writes %d bytes but Len() reports %d", tf.SerSize, tf.LenConst))
			}
			if tf.DecLen != tf.LenConst {
				bad = append(bad, fmt.Sprintf("the decoder decodes %d-byte payloads but Len() reports %d", tf.DecLen, tf.LenConst))
			}
			de := tf.DecEndian
			if de != tf.SerEndian {
				bad = append(bad, fmt.Sprintf("byte order differs: decoder %s, Serialize %s", de, tf.SerEndian))
			}
			if tf.Name == "TimeType" {
				// writer adds A; reader adds −A (era 0 in NTP terms) or 2^32 − A
				has := map[int64]bool{}
				for _, k := range tf.DecAdds {
					has[k] = true
				}
				if tf.DecAddNarrow {
					bad = append(bad, "the decoder's epoch arithmetic is performed in a 32-bit / unsigned type while Serialize works on int64 Unix times: values before 1970 do not read back as written")
				}
				if !has[-tf.SerAdd] || !has[4294967296-tf.SerAdd] {
					bad = append(bad, fmt.Sprintf("epoch arithmetic is not inverse: Serialize adds %d, decoder uses %v (needs %d and %d)", tf.SerAdd, tf.DecAdds, -tf.SerAdd, 4294967296-tf.SerAdd))
				}
			}
		case tf.LenConst >= 0:
			// fixed-width byte arrays (IPv4, IPv6): decoder accepts exactly Len() bytes
			if tf.DecLen != tf.LenConst {
				bad = append(bad, fmt.Sprintf("the decoder accepts %d-byte payloads but Len() reports %d", tf.DecLen, tf.LenConst))
			}
		case tf.LenDyn == "len(recv)":
			// variable length: Serialize must be a conversion of the receiver (or delegate), decoder a conversion of the input
			if tf.SerEndian != "conv" {
				bad = append(bad, "Len() is len(value) but Serialize() is not a plain conversion of the value ("+tf.SerEndian+")")
			}
			if !c.decoderIsConversion(tf.Decoder) {
				bad = append(bad, "the decoder does not convert its whole input (bytes would be dropped or altered)")
			}
		case tf.LenDyn == "multi":
			// Address: handled by alignment and, class by class, by addressRoundTrip (c01addr.go)
			c.addressRoundTrip(tf)
		default:
			bad = append(bad, "unrecognised Len() shape "+tf.LenDyn)
		}
		r.Check(len(bad) == 0, "R5", key, c.fpos(tf.Decoder), fmt.Sprintf("decoder / Serialize / Len agree (len=%d%s, ser=%s/%d, dec=%s/%d)", tf.LenConst, tf.LenDyn, tf.SerEndian, tf.SerSize, tf.DecEndian, tf.DecLen), "encoder and decoder of "+tf.Name+" disagree: "+strings.Join(bad, "; "))
	}
}

// decoderIsConversion: every non-nil value d returns is a conversion (possibly through a
// delegate decoder) of its whole parameter.
func (c *Ctx) decoderIsConversion(d *ssa.Function) bool {
	b := d.Params[0]
	ok := true
	n := 0
	for _, rv := range flow.ReturnValues(d, 0) {
		mi, isMI := rv.(*ssa.MakeInterface)
		if !isMI {
			continue
		}
		n++
		v := mi.X
		for i := 0; i < 6; i++ {
			switch x := v.(type) {
			case *ssa.Convert:
				v = x.X
				continue
			case *ssa.ChangeType:
				v = x.X
				continue
			}
			break
		}
		if v != ssa.Value(b) {
			ok = false
		}
	}
	return ok && n > 0
}

// c01DecodeContext: R6 — the application and dictionary a message is decoded with stay the same on the way down:
// every function of package diam that takes (application uint32, dictionary *dict.Parser) hands exactly those two
// on when it calls another such function (grouped members, wrappers). A group whose members are resolved under
// another application than the message's loses the definitions the more specific application declares: the bytes
// still round-trip but the members come back as Unknown blobs.
func (c *Ctx) c01DecodeContext() {
	r := c.R
	ctxOf := func(f *ssa.Function) (app, dic *ssa.Parameter) {
		if byteParam(f) == nil {
			return nil, nil // not a decode step: it is given no bytes
		}
		for i := 0; i+1 < len(f.Params); i++ {
			bt, isB := f.Params[i].Type().Underlying().(*types.Basic)
			pt, isP := f.Params[i+1].Type().(*types.Pointer)
			if isB && bt.Kind() == types.Uint32 && isP && flow.TypeIs(pt.Elem(), pkgDict, "Parser") {
				return f.Params[i], f.Params[i+1]
			}
		}
		return nil, nil
	}
	n := 0
	for _, f := range c.P.LibraryFuncs() {
		if pkgOf(f).Path() != pkgDiam {
			continue
		}
		fa, fd := ctxOf(f)
		if fa == nil {
			continue
		}
		for _, ci := range flow.CallInstrs(f) {
			g := flow.StaticCallee(ci)
			if g == nil || pkgOf(g) == nil || pkgOf(g).Path() != pkgDiam {
				continue
			}
			ga, gd := ctxOf(g)
			if ga == nil {
				continue
			}
			ia, id := paramIndex(g, ga), paramIndex(g, gd)
			args := ci.Common().Args
			if ia >= len(args) || id >= len(args) {
				continue
			}
			n++
			key := fmt.Sprintf("%s:context-handed-on-to-%s", fname(f), g.Name())
			okA := flow.Peel(args[ia]) == ssa.Value(fa) || (spilledParam(args[ia]) != nil && spilledParam(args[ia]) == fa)
			okD := flow.Peel(args[id]) == ssa.Value(fd) || (spilledParam(args[id]) != nil && spilledParam(args[id]) == fd)
			switch {
			case !okA:
				r.Fail("R6", key, c.pos(ci), "the application handed on to "+g.Name()+" is not the one this function was given ("+short(args[ia].String(), 40)+"): nested AVPs are resolved under another application than the message's, so definitions the message's application declares are missed and the members come back as Unknown")
			case !okD:
				r.Fail("R6", key, c.pos(ci), "the dictionary handed on to "+g.Name()+" is not the one this function was given")
			default:
				r.Ok("R6", key, c.pos(ci), "application and dictionary handed on unchanged")
			}
		}
	}
	if n == 0 {
		r.Trivial("R6", "decode-context:no-site", "-", "no decode function hands an (application, dictionary) pair on")
	}
}

func (c *Ctx) c01Opaque(ar *ssa.Function) {
	r := c.R
	c.c01DecodeContext()
	// placeholder on the not-found exit
	f := c.P.Method("diam/dict", "Parser", "FindAVPWithVendor")
	found := false
	if f != nil {
		// in the lookup itself or in a step function it delegates to (what it yields for each situation is
		// decided exhaustively by the chain interpreter, C17 R3 / R6 below)
		for g := range c.reach([]*ssa.Function{f}, false, false, false) {
			if pkgOf(g) == nil || pkgOf(g).Path() != pkgDict {
				continue
			}
			flow.Instrs(g, func(in ssa.Instruction) {
				if ret, ok := in.(*ssa.Return); ok && len(ret.Results) == 2 {
					if call, ok := ret.Results[0].(*ssa.Call); ok && flow.IsCallTo(call, pkgDict, "", "MakeUnknownAVP") {
						found = true
					}
				}
			})
		}
	}
	r.Check(found, "R6", "dict.FindAVPWithVendor:unknown-placeholder", c.fpos(f), "the not-found exit returns the Unknown placeholder AVP", "an AVP code unknown to the dictionary does not yield the opaque placeholder: such AVPs cannot be carried through a round trip")
	// no vendor-blind or code-only fallback: an AVP of a vendor the dictionary does not know must stay opaque
	c.dictLookupKeys("R6")
	// Unknown decodes as identity
	ents, _ := c.globalMapLiteral("diam/datatype", "Decoder")
	okId := false
	for _, e := range ents {
		if e.Key != nil && e.Key.ExactString() == "0" {
			if d := funcOfValue(e.Value); d != nil && c.decoderIsConversion(d) {
				okId = true
			}
		}
	}
	r.Check(okId, "R6", "datatype.Decoder[UnknownType]:identity", "-", "UnknownType decodes as a plain conversion of the payload bytes", "the Unknown data type does not carry its payload verbatim")
	// the AVP decoder gives up only when no dictionary AVP came back
	if ar != nil {
		key := fname(ar) + ":lookup-error-only-without-placeholder"
		good := false
		var lookup *ssa.Call
		lookupFn := ar
		cands := []*ssa.Function{ar}
		for _, ci := range flow.CallInstrs(ar) {
			// the dictionary step may be a method of its own (decodeData)
			if h := flow.StaticCallee(ci); h != nil && h.Blocks != nil && c.P.IsLibrary(h) && pkgOf(h).Path() == pkgDiam && !c.isAVPDecodeFn(h) {
				isStep := h.Signature.Recv() != nil && flow.RecvTypeName(h.Signature) == "AVP"
				// … or a plain helper wrapped around the lookup
				for _, cj := range flow.CallInstrs(h) {
					if flow.IsCallTo(cj, pkgDict, "Parser", "FindAVPWithVendor") {
						isStep = true
					}
				}
				if isStep {
					cands = append(cands, h)
				}
			}
		}
		for _, g := range cands {
			for _, ci := range flow.CallInstrs(g) {
				if call, ok := ci.(*ssa.Call); ok && flow.IsCallTo(call, pkgDict, "Parser", "FindAVPWithVendor") && lookup == nil {
					lookup, lookupFn = call, g
				}
			}
		}
		if lookup != nil {
			e := errorResult(lookup)
			var dv ssa.Value
			for _, ref := range flow.Referrers(lookup) {
				if ex, ok := ref.(*ssa.Extract); ok && ex.Index == 0 {
					dv = ex
				}
			}
			flow.Instrs(lookupFn, func(in ssa.Instruction) {
				ret, ok := in.(*ssa.Return)
				if !ok || len(ret.Results) == 0 || ret.Results[len(ret.Results)-1] != e {
					return
				}
				// guards: err != nil and dictAVP == nil
				hasNil := false
				for _, g := range flow.Guards(ret) {
					rl, ok := condRel(g.If.Cond, g.Taken)
					if ok && rl.op == token.EQL && rl.a == dv && flow.IsNilConst(rl.b) {
						hasNil = true
					}
				}
				good = hasNil
			})
		}
		r.Check(good, "R6", key, c.fpos(ar), "the lookup error aborts decoding only on the edge where no dictionary AVP (not even the placeholder) was returned", "the AVP decoder aborts on a dictionary miss even though an Unknown placeholder is available: messages with unknown AVPs cannot be read")
		// a lookup step that hands the definition back hands back what this lookup found (or nil) — not a
		// definition kept from an earlier AVP: codes are shared between vendors, and a remembered definition of
		// the same code decodes the payload with another AVP's data type
		if lookup != nil && lookupFn != ar && lookupFn.Signature.Results().Len() >= 1 {
			if pt, ok := lookupFn.Signature.Results().At(0).Type().(*types.Pointer); ok && flow.TypeIs(pt.Elem(), pkgDict, "AVP") {
				k2 := fname(lookupFn) + ":definition-is-this-lookup's"
				bad := ""
				var at ssa.Instruction = lookup
				var expand func(v ssa.Value, d int) []ssa.Value
				expand = func(v ssa.Value, d int) []ssa.Value {
					if ph, ok := v.(*ssa.Phi); ok && d < 5 {
						var out []ssa.Value
						for _, e := range ph.Edges {
							if e != ssa.Value(ph) {
								out = append(out, expand(e, d+1)...)
							}
						}
						return out
					}
					if ld, ok := v.(*ssa.UnOp); ok && ld.Op == token.MUL {
						if _, isAl := ld.X.(*ssa.Alloc); isAl {
							var out []ssa.Value
							for _, sv := range flow.SpillSources(ld) {
								out = append(out, expand(sv, d+1)...)
							}
							return out
						}
					}
					return []ssa.Value{v}
				}
				flow.Instrs(lookupFn, func(in ssa.Instruction) {
					ret, ok := in.(*ssa.Return)
					if !ok || len(ret.Results) == 0 || ret.Block() == lookupFn.Recover || bad != "" {
						return
					}
					for _, v := range expand(ret.Results[0], 0) {
						if flow.IsNilConst(v) {
							continue
						}
						if ex, ok := v.(*ssa.Extract); ok && ex.Index == 0 && ex.Tuple == ssa.Value(lookup) {
							continue
						}
						bad, at = "the lookup step "+lookupFn.Name()+" can hand back a definition that is not the result of this lookup ("+short(v.String(), 40)+"): a definition remembered from an earlier AVP of the same code — another vendor's, another type's — decodes this AVP's payload", ret
					}
				})
				r.Check(bad == "", "R6", k2, c.pos(at), "every definition the lookup step returns is the result of its own FindAVPWithVendor call", bad)
			}
		}
	}
}

// lenSum: v = k + Σ (*AVP).Len() over the elements of one []*AVP list — a loop-carried total that starts at the
// constant k and adds (*AVP).Len() of the ranged element each iteration, a helper computing such a sum for a
// list parameter, or such a value plus a constant. Returns k and the list expression.
func (c *Ctx) lenSum(v ssa.Value, depth int) (int64, ssa.Value, bool) {
	if depth > 3 || v == nil {
		return 0, nil, false
	}
	avpLen := c.P.Method("diam", "AVP", "Len")
	switch x := flow.Peel(v).(type) {
	case *ssa.Phi:
		var k int64
		var list ssa.Value
		hasStart, hasStep := false, false
		for _, e := range x.Edges {
			if kk, ok := flow.ConstInt(e); ok {
				k, hasStart = kk, true
				continue
			}
			bo, ok := e.(*ssa.BinOp)
			if !ok || bo.Op != token.ADD {
				return 0, nil, false
			}
			var add ssa.Value
			if bo.X == ssa.Value(x) {
				add = bo.Y
			} else if bo.Y == ssa.Value(x) {
				add = bo.X
			} else {
				return 0, nil, false
			}
			call, ok := add.(*ssa.Call)
			if !ok || flow.StaticCallee(call) != avpLen || len(call.Call.Args) != 1 {
				return 0, nil, false
			}
			// the element: *(&list[i])
			u, ok := call.Call.Args[0].(*ssa.UnOp)
			if !ok {
				return 0, nil, false
			}
			ia, ok := u.X.(*ssa.IndexAddr)
			if !ok {
				return 0, nil, false
			}
			list, hasStep = ia.X, true
		}
		if hasStart && hasStep {
			return k, list, true
		}
	case *ssa.BinOp:
		if x.Op != token.ADD {
			return 0, nil, false
		}
		for _, pr := range [][2]ssa.Value{{x.X, x.Y}, {x.Y, x.X}} {
			if kk, ok := flow.ConstInt(pr[0]); ok {
				if k, l, ok := c.lenSum(pr[1], depth+1); ok {
					return k + kk, l, true
				}
			}
		}
	case *ssa.Call:
		g := flow.StaticCallee(x)
		if g == nil || g.Blocks == nil || !c.P.IsLibrary(g) || g == avpLen {
			return 0, nil, false
		}
		rvs := flow.ReturnValues(g, 0)
		if len(rvs) != 1 {
			return 0, nil, false
		}
		k, l, ok := c.lenSum(rvs[0], depth+1)
		if !ok {
			return 0, nil, false
		}
		if p, isP := flow.Peel(l).(*ssa.Parameter); isP && p.Parent() == g {
			if i := paramIndex(g, p); i < len(x.Call.Args) {
				return k, x.Call.Args[i], true
			}
		}
	}
	return 0, nil, false
}

// lenIsSum: every value f (a Len method of typ, whose AVP list is the field "AVP") can return is
// want + Σ (*AVP).Len() over the receiver's own list.
func (c *Ctx) lenIsSum(f *ssa.Function, typ string, want int64) (bool, string) {
	rvs := flow.ReturnValues(f, 0)
	if len(rvs) == 0 {
		return false, "no return value found"
	}
	for _, rv := range rvs {
		k, l, ok := c.lenSum(rv, 0)
		if !ok {
			return false, "a return value is not a running total of (*AVP).Len() calls: " + rv.String()
		}
		if k != want {
			return false, fmt.Sprintf("the total starts at %d", k)
		}
		tn, fld, base, okf := flow.FieldOf(flow.Peel(l))
		if !okf || tn != typ || fld != "AVP" || flow.Peel(base) != ssa.Value(f.Params[0]) {
			return false, "the list summed is not the receiver's AVP field"
		}
	}
	return true, ""
}

// padOfSameLen: Len() returns h(recv) for a method h, and Padding() returns P(h(recv)) where P is, for all
// arguments, the distance to the next multiple of four: then Len()+Padding() ≡ 0 mod 4 for every value.
func (c *Ctx) padOfSameLen(lenF, padF *ssa.Function) bool {
	if lenF == nil || padF == nil || len(lenF.Params) != 1 || len(padF.Params) != 1 {
		return false
	}
	prv := singleReturn(padF)
	if prv == nil {
		return false
	}
	isRecv := func(f *ssa.Function, a ssa.Value) bool {
		a = flow.Peel(a)
		return a == ssa.Value(f.Params[0]) || spilledParam(a) == f.Params[0]
	}
	// the length Padding() works from: Len() itself, or the method Len() delegates to
	h := lenF
	hs := map[*ssa.Function]bool{lenF: true}
	if lc, ok := singleReturn(lenF).(*ssa.Call); ok {
		if g := flow.StaticCallee(lc); g != nil && g.Signature.Recv() != nil && len(lc.Call.Args) == 1 && isRecv(lenF, lc.Call.Args[0]) {
			hs[g] = true
		}
	}
	_ = h
	env := &cong.Env{MaxDepth: 4,
		IsSym: func(s ssa.Value) bool {
			call, ok := s.(*ssa.Call)
			return ok && hs[flow.StaticCallee(call)] && len(call.Call.Args) == 1 && isRecv(padF, call.Call.Args[0])
		},
		Callee: func(call *ssa.Call) *ssa.Function {
			g := flow.StaticCallee(call)
			if g == nil || g.Signature.Recv() != nil || !c.P.InModule(pkgOf(g)) {
				return nil
			}
			return g
		}}
	cv, err := env.Eval(prv)
	return err == nil && !cv.Div4 && cv.K == 0 && cv.T == [4]int64{0, 3, 2, 1}
}
