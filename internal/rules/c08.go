package rules

import (
	"fmt"
	"go/token"
	"go/types"

	"golang.org/x/tools/go/ssa"

	"verif/internal/flow"
)

func init() {
	register(&RuleSet{
		Property:  "C08",
		Title:     "On one connection handlers run one at a time, in arrival order",
		Run:       runC08,
		Technique: "path + goroutine census over the dispatch chain (SSA CFG dominance/path queries, call-graph closure, may-held lock sets)",
		Explanation: "Decides, for every path of the connection loop and every function on the dispatch chain of the current source, the structural clauses " +
			"R1 synchronous dispatch (the message returned by the per-iteration read is handed by a plain call — not go, not a channel send — to a function from which a handler invocation is reachable by plain calls, and every cycle through the read passes that call), " +
			"R2 no go statement on the dispatch chain whose target reaches a handler invocation, " +
			"R3 every connection constructor call site is followed on its success path by exactly one `go <connection loop>` and the loop is never called synchronously, " +
			"R4 no mutex that the library write-locks anywhere may be held — exclusively or shared — at a handler invocation or at a call leading to one (a shared hold across a handler is enough for Go's writer-preferring RWMutex to stall every other connection once a registration waits), " +
			"R5 no function of the dispatch closure performs a blocking channel send/receive/select or wait (only non-blocking selects), so no shared queue or semaphore can couple connections. " +
			"R6 no mutex that is not private to one connection (its owner type is allocated outside the connection constructor) is held by a library function across a write to a transport — directly or through lock/unlock wrapper functions — while the connection loop or a function of the dispatch chain acquires it: a peer that stops reading would stall the dispatch on every other connection. " +
			"These are necessary conditions of C08; the check does not decide actual schedules or handler durations. Roots of the chain are every Handler implementation and every handler-typed value the library invokes.",
		Rules: map[string]string{
			"R1": "in the connection loop the read message flows by a plain call to the dispatch chain; no cycle through the read avoids the dispatch call except via the read-error exit",
			"R2": "no `go` whose target reaches a handler invocation in any function of the dispatch closure",
			"R3": "each connection constructor site: exactly one `go loop()` on the success path; loop never called synchronously",
			"R4": "no mutex that the library also write-locks may be held — exclusively or shared — at a handler invocation (or at a call leading to one) on the dispatch chain",
			"R5": "no blocking channel operation / wait in any function of the dispatch closure",
			"R6": "no mutex shared between connections is both held across a transport write and acquired by the connection loop or the dispatch chain",
		},
		MinInstances: map[string]int{"R1": 1, "R2": 1, "R3": 1, "R4": 1, "R5": 1, "R6": 1},
		Assumptions:  []string{"application handlers are reached only through Handler.ServeDIAM invokes and calls of func(Conn,*Message) values"},
	})
}

func runC08(c *Ctx) {
	r := c.R
	loopFn := c.connLoop()
	if loopFn == nil {
		r.Undecided("R1", "role:ConnLoop", "-", "cannot resolve the connection loop: no `go F()` in (*Server).Serve whose target reaches diam.ReadMessage")
		return
	}
	r.Role("ConnLoop", fname(loopFn))
	rm := c.P.Func("diam", "ReadMessage")
	memoPlain := map[*ssa.Function]int{}

	// ---- R1 ----
	entryFn := loopFn
	loopFn, _ = c.connReadLoop(entryFn) // R1 is about the function that holds the read loop
	var readCalls []*ssa.Call
	for _, ci := range flow.CallInstrs(loopFn) {
		call, ok := ci.(*ssa.Call)
		if !ok {
			continue
		}
		g := flow.StaticCallee(ci)
		if g == nil {
			continue
		}
		if g == rm || c.reachesFunc(g, rm, map[*ssa.Function]bool{}) {
			readCalls = append(readCalls, call)
		}
	}
	if len(readCalls) == 0 {
		r.Undecided("R1", fname(loopFn)+":read", c.fpos(loopFn), "no per-iteration read call found in the connection loop")
	}
	loops := flow.Loops(loopFn)
	var dispatchCallees []*ssa.Function
	for _, rc := range readCalls {
		key := fname(loopFn) + ":dispatch-of-read"
		if flow.InnermostLoop(loops, rc) == nil {
			// peeled form: the first read is written out in front of the loop, whose body ends with the next read
			peeled := false
			for _, o := range readCalls {
				if l := flow.InnermostLoop(loops, o); o != rc && l != nil && rc.Block().Dominates(l.Head) {
					peeled = true
				}
			}
			if !peeled {
				r.Fail("R1", key, c.pos(rc), "the message read is not inside a loop")
				continue
			}
		}
		isRead := func(in ssa.Instruction) bool {
			for _, o := range readCalls {
				if ssa.Instruction(o) == in {
					return true
				}
			}
			return false
		}
		// the *Message result
		var msg ssa.Value
		for _, ref := range flow.Referrers(rc) {
			if ex, ok := ref.(*ssa.Extract); ok && isMsgPtr(ex.Type()) {
				msg = ex
			}
		}
		if msg == nil && isMsgPtr(rc.Type()) {
			msg = rc
		}
		if msg == nil {
			r.Undecided("R1", key, c.pos(rc), "cannot identify the *Message result of the read call")
			continue
		}
		// uses of the message
		var dispatch []*ssa.Call
		bad := ""
		var badAt ssa.Instruction
		// the message is the one this read took off the wire: on the way up from ReadMessage every function hands
		// back the callee's result (or nil), never a message kept in a field, slice or map — a buffer between
		// reading and dispatching is where arrival order gets lost
		if why, at := c.straightFromRead(msg, loopFn, rm, 0); why != "" {
			r.Fail("R1", fname(loopFn)+":message-straight-from-read", c.pos(at), why)
		} else {
			r.Ok("R1", fname(loopFn)+":message-straight-from-read", c.pos(rc), "the dispatched message is the result of the read chain down to ReadMessage, passed up unchanged")
		}
		// the uses of the message, also where it is first merged with the message of another read of the loop
		var uses []ssa.Instruction
		{
			seen := map[ssa.Value]bool{}
			var walk func(v ssa.Value)
			walk = func(v ssa.Value) {
				if seen[v] {
					return
				}
				seen[v] = true
				for _, ref := range flow.Referrers(v) {
					if ph, isPhi := ref.(*ssa.Phi); isPhi {
						walk(ph)
						continue
					}
					uses = append(uses, ref)
				}
			}
			walk(msg)
		}
		for _, ref := range uses {
			switch u := ref.(type) {
			case *ssa.Call:
				if isHandlerInvocation(u) {
					dispatch = append(dispatch, u)
					// the loop invokes the Handler interface itself: the chain continues in the library's own
					// Handler implementations (mux, state machine, gates)
					for _, hf := range c.P.LibraryFuncs() {
						if hf.Name() == "ServeDIAM" && hf.Signature.Recv() != nil && hf.Synthetic == "" && isHandlerSig(types.NewSignatureType(nil, nil, nil, hf.Signature.Params(), hf.Signature.Results(), false)) {
							dispatchCallees = append(dispatchCallees, hf)
						}
					}
					continue
				}
				if g := flow.StaticCallee(u); g != nil && c.reachesHandler(g, false, memoPlain) {
					dispatch = append(dispatch, u)
					dispatchCallees = append(dispatchCallees, g)
				}
				// the loop helper hands the message to a callback parameter: the dispatch is whatever its
				// callers pass there — closures that reach a handler by plain calls
				if cp, isP := u.Call.Value.(*ssa.Parameter); isP && cp.Parent() == loopFn {
					idx := paramIndex(loopFn, cp)
					all, any := true, false
					for _, cs := range c.librarySites(loopFn) {
						if _, isGo := cs.(*ssa.Go); isGo || idx >= len(cs.Common().Args) {
							all = false
							continue
						}
						mc, ok := cs.Common().Args[idx].(*ssa.MakeClosure)
						if !ok {
							all = false
							continue
						}
						fn := flow.Unwrap(mc.Fn.(*ssa.Function))
						if invokesHandler(fn) || c.reachesHandler(fn, false, memoPlain) {
							any = true
							dispatchCallees = append(dispatchCallees, fn)
						} else {
							all = false
						}
					}
					if all && any {
						dispatch = append(dispatch, u)
					}
				}
			case *ssa.Go:
				bad, badAt = "the read message is passed to a `go` statement (asynchronous dispatch)", u
			case *ssa.Send:
				bad, badAt = "the read message is sent on a channel (asynchronous dispatch)", u
			case *ssa.MakeClosure:
				// closure capturing the message: asynchronous if the closure is started with go
				for _, cr := range flow.Referrers(u) {
					if _, isGo := cr.(*ssa.Go); isGo {
						bad, badAt = "the read message is captured by a closure started with `go`", cr
					}
				}
			case *ssa.Store:
				// stored into a struct that is then sent / spawned: look one step
				if fa, ok := u.Addr.(*ssa.FieldAddr); ok {
					for _, sr := range flow.Referrers(fa.X) {
						switch x := sr.(type) {
						case *ssa.Send:
							bad, badAt = "the read message is stored in a value sent on a channel", x
						case *ssa.Go:
							bad, badAt = "the read message is stored in a value passed to `go`", x
						case *ssa.UnOp:
							for _, lr := range flow.Referrers(x) {
								if s, isSend := lr.(*ssa.Send); isSend {
									bad, badAt = "the read message is stored in a value sent on a channel", s
								}
							}
						}
					}
				}
			}
		}
		if bad != "" {
			r.Fail("R1", key, c.pos(badAt), bad)
			continue
		}
		if len(dispatch) != 1 {
			r.Fail("R1", key, c.pos(rc), fmt.Sprintf("expected exactly one plain call handing the read message to the dispatch chain, found %d", len(dispatch)))
			continue
		}
		d := dispatch[0]
		// every cycle read -> read passes the dispatch call
		if p := flow.PathAvoiding(loopFn, rc, isRead, func(in ssa.Instruction) bool { return in == ssa.Instruction(d) }); p != nil {
			r.Fail("R1", key, c.pos(rc), "a cycle through the per-iteration read avoids the dispatch call (a message can be read and never handed to a handler before the next read)", c.witness(p)...)
			continue
		}
		// dispatch happens before the next read: dispatch is in the same loop and reached from the read without re-reading
		if p := flow.PathAvoiding(loopFn, rc, func(in ssa.Instruction) bool { return in == ssa.Instruction(d) }, isRead); p == nil {
			r.Fail("R1", key, c.pos(d), "the dispatch call is not reachable from the read")
			continue
		}
		r.Ok("R1", key, c.pos(d), fmt.Sprintf("message of %s flows by plain call to %s; every cycle through the read passes it", short(flow.Describe(rc), 60), short(flow.Describe(d), 70)))
	}

	loopFn = entryFn // the remaining rules are about the goroutine's entry function
	// ---- dispatch closure ----
	roots := append([]*ssa.Function{}, dispatchCallees...)
	// handler-typed function values created by the library (closures wrapping application handlers, built-in
	// handlers) are invoked dynamically by the chain: they belong to it
	if len(roots) > 0 {
		for _, hf := range c.P.LibraryFuncs() {
			if hf.Synthetic == "" && hf.Signature.Recv() == nil && isHandlerSig(types.NewSignatureType(nil, nil, nil, hf.Signature.Params(), hf.Signature.Results(), false)) {
				roots = append(roots, hf)
			}
		}
	}
	closure := c.reach(roots, false, true, true)
	// keep library functions only
	for f := range closure {
		if !c.P.IsLibrary(f) {
			delete(closure, f)
		}
	}
	r.Role("DispatchClosure", fmt.Sprint(sortedFuncNames(closure)))

	// ---- R2 ----
	memoAny := map[*ssa.Function]int{}
	for _, f := range c.P.LibraryFuncs() {
		if !closure[f] {
			continue
		}
		nGo := 0
		for _, ci := range flow.CallInstrs(f) {
			g, isGo := ci.(*ssa.Go)
			if !isGo {
				continue
			}
			nGo++
			key := fname(f) + ":go"
			if isHandlerInvocation(g) {
				r.Fail("R2", key, c.pos(g), "handler invoked with `go` on the dispatch chain: handlers of one connection would run concurrently")
				continue
			}
			if t := flow.StaticCallee(g); t != nil && c.reachesHandler(t, true, memoAny) {
				r.Fail("R2", key, c.pos(g), fmt.Sprintf("`go %s` on the dispatch chain reaches a handler invocation", fname(t)))
				continue
			}
			if t := flow.StaticCallee(g); t == nil {
				// dynamic go target carrying a message
				carries := false
				for _, a := range g.Common().Args {
					if isMsgPtr(a.Type()) {
						carries = true
					}
				}
				if carries {
					r.Fail("R2", key, c.pos(g), "`go` of a dynamic function carrying the *Message on the dispatch chain")
					continue
				}
			}
			r.Ok("R2", key, c.pos(g), "go target does not reach a handler invocation")
		}
		if nGo == 0 {
			r.Trivial("R2", fname(f)+":no-go", c.fpos(f), "dispatch-chain function contains no go statement")
		}
		// channel sends of messages on the chain
		flow.Instrs(f, func(in ssa.Instruction) {
			if s, ok := in.(*ssa.Send); ok {
				if isMsgPtr(s.X.Type()) {
					r.Fail("R2", fname(f)+":send-message", c.pos(s), "a *Message is sent on a channel on the dispatch chain (hand-off to another goroutine)")
				}
			}
		})
	}

	// ---- R3 ----
	recvT := loopFn.Signature.Recv()
	// synchronous calls of the loop anywhere in the module
	for _, f := range c.P.ModuleFuncs() {
		for _, ci := range flow.CallInstrs(f) {
			if flow.StaticCallee(ci) != loopFn {
				continue
			}
			switch ci.(type) {
			case *ssa.Call:
				r.Fail("R3", fname(f)+":sync-call-of-loop", c.pos(ci), "the connection loop is called synchronously (the caller — e.g. the accept loop — is blocked by one connection and handlers run on its goroutine)")
			case *ssa.Defer:
				r.Fail("R3", fname(f)+":defer-call-of-loop", c.pos(ci), "the connection loop is deferred, not started with go")
			}
		}
	}
	if recvT != nil {
		nSites := 0
		for _, f := range c.P.LibraryFuncs() {
			floops := flow.Loops(f)
			for _, ci := range flow.CallInstrs(f) {
				call, ok := ci.(*ssa.Call)
				if !ok {
					continue
				}
				g := flow.StaticCallee(ci)
				if g == nil || !c.P.InModule(pkgOf(g)) || !returnsType(g, recvT.Type()) {
					continue
				}
				nSites++
				key := fname(f) + ":go-loop-after-" + g.Name()
				// Go instrs of loop in f
				var gos []*ssa.Go
				for _, cj := range flow.CallInstrs(f) {
					if gg, isGo := cj.(*ssa.Go); isGo && flow.StaticCallee(gg) == loopFn {
						gos = append(gos, gg)
					}
				}
				if len(gos) != 1 {
					r.Fail("R3", key, c.pos(call), fmt.Sprintf("expected exactly one `go %s` for the connection created here, found %d", fname(loopFn), len(gos)))
					continue
				}
				gg := gos[0]
				if !flow.Dominates(call, gg) {
					r.Fail("R3", key, c.pos(gg), "the go statement is not dominated by the constructor call")
					continue
				}
				if flow.InnermostLoop(floops, gg) != flow.InnermostLoop(floops, call) {
					r.Fail("R3", key, c.pos(gg), "the go statement sits in a different loop than the constructor call (the loop could be started more than once per connection)")
					continue
				}
				// receiver of the go must be the constructed conn
				if len(gg.Call.Args) > 0 && !derivesFromCall(gg.Call.Args[0], call) {
					r.Fail("R3", key, c.pos(gg), "the goroutine's receiver is not the connection returned by this constructor call")
					continue
				}
				// success path: every path from the constructor call to an exit or back to the call passes
				// the go, unless it takes the constructor's error edge
				errEdge := errorEdgeBlocks(call)
				avoid := func(in ssa.Instruction) bool {
					if in == ssa.Instruction(gg) {
						return true
					}
					return errEdge[in.Block()]
				}
				target := func(in ssa.Instruction) bool {
					return !errEdge[in.Block()] && (flow.IsExit(in) || in == ssa.Instruction(call))
				}
				if p := flow.PathAvoiding(f, call, target, avoid); p != nil {
					r.Fail("R3", key, c.pos(call), "a success path from the constructor leaves without starting the connection loop", c.witness(p)...)
					continue
				}
				r.Ok("R3", key, c.pos(gg), "exactly one `go loop()` dominated by the constructor, same loop nest, on every success path")
			}
		}
		if nSites == 0 {
			r.Undecided("R3", "role:conn-constructor-sites", "-", "no call site of a function returning the connection type found")
		}
	}

	// ---- R5: nothing on the dispatch chain blocks on state shared between connections ----
	nBlock := 0
	for _, f := range c.P.LibraryFuncs() {
		if !closure[f] {
			continue
		}
		flow.Instrs(f, func(in ssa.Instruction) {
			what := ""
			switch x := in.(type) {
			case *ssa.Send:
				what = "a blocking channel send"
			case *ssa.UnOp:
				if x.Op == token.ARROW {
					what = "a blocking channel receive"
				}
			case *ssa.Select:
				if x.Blocking {
					what = "a blocking select"
				}
			case *ssa.Call:
				if flow.IsCallTo(x, "sync", "WaitGroup", "Wait") || flow.IsCallTo(x, "sync", "Cond", "Wait") || flow.IsCallTo(x, "time", "", "Sleep") {
					what = "a blocking wait (" + calleeLabel(x) + ")"
				}
			}
			if what != "" {
				nBlock++
				r.Fail("R5", fname(f)+":blocking-op", c.pos(in), what+" on the dispatch chain: dispatch on one connection can be held up by handlers running on other connections (e.g. a shared semaphore or queue)")
			}
		})
	}
	if nBlock == 0 {
		r.Ok("R5", "DispatchClosure:no-blocking-ops", "-", fmt.Sprintf("%d dispatch-chain functions contain no blocking channel operation or wait", len(closure)))
	}

	// ---- R6: no mutex shared between connections is both held across a transport write and taken on the
	// way to the handlers ----
	{
		recv := entryFn.Signature.Recv()
		c.sharedLockAcrossWrite("R6", []*ssa.Function{entryFn, loopFn}, closure, func(f *ssa.Function) bool {
			return recv != nil && returnsType(f, recv.Type())
		})
	}

	// ---- R4 ----
	for _, f := range c.P.LibraryFuncs() {
		if !closure[f] {
			continue
		}
		for _, ci := range flow.CallInstrs(f) {
			if _, isGo := ci.(*ssa.Go); isGo {
				continue
			}
			leads := isHandlerInvocation(ci)
			if g := flow.StaticCallee(ci); g != nil && closure[g] && c.reachesHandler(g, false, memoPlain) {
				leads = true
			}
			if !leads {
				continue
			}
			key := fname(f) + ":locks-at-" + calleeLabel(ci)
			held := mayHeldAt(f, ci)
			var excl []string
			for _, h := range held {
				if h.exclusive {
					excl = append(excl, h.path)
				}
			}
			// a shared (read) lock is just as bad when the same mutex is write-locked anywhere in the library:
			// sync.RWMutex makes new readers wait behind a queued writer, so one blocked handler plus one
			// registration stalls every other connection's dispatch
			var sharedW []string
			for _, h := range held {
				if h.exclusive {
					continue
				}
				if mf := mutexField(h.in); mf != "" && c.writeLockedSomewhere(mf) != "" {
					sharedW = append(sharedW, mf+" (write-locked in "+c.writeLockedSomewhere(mf)+")")
				}
			}
			if len(excl) > 0 {
				r.Fail("R4", key, c.pos(ci), fmt.Sprintf("exclusive lock %v may be held while a handler runs: a handler blocking on one connection stalls dispatch on all others", excl))
			} else if len(sharedW) > 0 {
				r.Fail("R4", key, c.pos(ci), fmt.Sprintf("the read lock of %v is held while a handler runs: with a handler blocked on one connection, the next writer of that mutex waits for it and every other connection's dispatch queues behind the writer", sharedW))
			} else {
				r.Ok("R4", key, c.pos(ci), fmt.Sprintf("no exclusive lock may be held here (held: %d read locks)", len(held)))
			}
		}
	}
}

func calleeLabel(ci ssa.CallInstruction) string {
	if g := flow.StaticCallee(ci); g != nil {
		return g.Name()
	}
	if ci.Common().IsInvoke() {
		return "invoke-" + ci.Common().Method.Name()
	}
	return "dynamic-call"
}

func returnsType(g *ssa.Function, t types.Type) bool {
	res := g.Signature.Results()
	for i := 0; i < res.Len(); i++ {
		if types.Identical(res.At(i).Type(), t) {
			return true
		}
	}
	return false
}

// derivesFromCall: v is the call's result (or an extract of it), through loads of a spilled local.
func derivesFromCall(v ssa.Value, call *ssa.Call) bool {
	seen := map[ssa.Value]bool{}
	var rec func(v ssa.Value) bool
	rec = func(v ssa.Value) bool {
		if v == nil || seen[v] {
			return false
		}
		seen[v] = true
		v = flow.Peel(v)
		switch x := v.(type) {
		case *ssa.Call:
			return x == call
		case *ssa.Extract:
			return rec(x.Tuple)
		case *ssa.Phi:
			for _, e := range x.Edges {
				if rec(e) {
					return true
				}
			}
		case *ssa.UnOp:
			// load of an alloc: look at stores
			if a, ok := x.X.(*ssa.Alloc); ok {
				for _, ref := range flow.Referrers(a) {
					if st, ok := ref.(*ssa.Store); ok && st.Addr == ssa.Value(a) && rec(st.Val) {
						return true
					}
				}
			}
		}
		return false
	}
	return rec(v)
}

// errorEdgeBlocks returns the blocks entered on the `err != nil` edge of a call returning
// (T, error): blocks dominated by the true edge of `if err != nil` (or false edge of err == nil).
// straightFromRead: v (a *Message in fn) is nil, or the message result of a call that leads to ReadMessage and
// itself returns only such values, possibly passed through helpers that hand an argument back. Returns a reason
// and the offending instruction when v can come from somewhere else.
func (c *Ctx) straightFromRead(v ssa.Value, fn *ssa.Function, rm *ssa.Function, depth int) (string, ssa.Instruction) {
	at := func() ssa.Instruction {
		if in, ok := v.(ssa.Instruction); ok {
			return in
		}
		if len(fn.Blocks) > 0 {
			return fn.Blocks[0].Instrs[0]
		}
		return nil
	}
	if depth > 6 {
		return "cannot follow the message back to the read (call chain too deep)", at()
	}
	v = flow.PeelNoConvert(v)
	if flow.IsNilConst(v) {
		return "", nil
	}
	switch x := v.(type) {
	case *ssa.Phi:
		for _, e := range x.Edges {
			if e == ssa.Value(x) {
				continue
			}
			if why, a := c.straightFromRead(e, fn, rm, depth+1); why != "" {
				return why, a
			}
		}
		return "", nil
	case *ssa.UnOp:
		if x.Op == token.MUL {
			if _, isAl := x.X.(*ssa.Alloc); isAl {
				srcs := flow.SpillSources(x)
				if len(srcs) == 0 {
					return "the message handed to the dispatch is read from a local the analysis cannot resolve", x
				}
				for _, s := range srcs {
					if why, a := c.straightFromRead(s, fn, rm, depth+1); why != "" {
						return why, a
					}
				}
				return "", nil
			}
			return "the message handed to the dispatch is taken out of storage (" + short(x.X.String(), 40) + ") instead of being the result of the read: messages kept between reading and dispatching can be handed out in another order than they arrived", x
		}
	case *ssa.Extract, *ssa.Call:
		idx := 0
		var call *ssa.Call
		if ex, ok := x.(*ssa.Extract); ok {
			idx = ex.Index
			call, _ = ex.Tuple.(*ssa.Call)
		} else {
			call = x.(*ssa.Call)
		}
		if call == nil {
			break
		}
		h := flow.StaticCallee(call)
		if h == nil || h.Blocks == nil {
			return "the message handed to the dispatch is the result of a dynamic call, not of the read chain", call
		}
		if h == rm {
			return "", nil
		}
		rvs := flow.ReturnValues(h, idx)
		if c.reachesFunc(h, rm, map[*ssa.Function]bool{}) {
			for _, rv := range rvs {
				if why, a := c.straightFromRead(rv, h, rm, depth+1); why != "" {
					return why, a
				}
			}
			return "", nil
		}
		// a helper off the read chain: it may only hand an argument back (or nil)
		for _, rv := range rvs {
			rv = flow.PeelNoConvert(rv)
			if flow.IsNilConst(rv) {
				continue
			}
			p, isP := rv.(*ssa.Parameter)
			if !isP || p.Parent() != h {
				return "the message handed to the dispatch is produced by " + h.Name() + ", which is not on the read chain", call
			}
			if i := paramIndex(h, p); i < len(call.Call.Args) {
				if why, a := c.straightFromRead(call.Call.Args[i], fn, rm, depth+1); why != "" {
					return why, a
				}
			}
		}
		return "", nil
	}
	return "the message handed to the dispatch (" + short(v.String(), 40) + ") is not the result of the read chain", at()
}

func errorEdgeBlocks(call *ssa.Call) map[*ssa.BasicBlock]bool {
	out := map[*ssa.BasicBlock]bool{}
	errv := errorResult(call)
	if errv == nil {
		return out
	}
	f := call.Parent()
	for _, b := range f.Blocks {
		if len(b.Instrs) == 0 {
			continue
		}
		ifi, ok := b.Instrs[len(b.Instrs)-1].(*ssa.If)
		if !ok {
			continue
		}
		cond, neg := flow.Cond(ifi.Cond, true)
		bo, ok := cond.(*ssa.BinOp)
		if !ok {
			continue
		}
		isE := func(v ssa.Value) bool {
			if v == errv {
				return true
			}
			// the error merged with the errors of sibling branches (if multi { …, err = read1 } else { …, err = read2 })
			// and tested once after the join
			if ph, ok := v.(*ssa.Phi); ok {
				for _, e := range ph.Edges {
					if e == errv {
						return true
					}
				}
			}
			// the error kept in a variable that lives in memory (a named result kept in a cell because of a defer,
			// a captured local): the test loads a cell the error was stored into — the memory counterpart of the phi
			if ld, ok := v.(*ssa.UnOp); ok && ld.Op == token.MUL {
				if _, isAl := ld.X.(*ssa.Alloc); isAl {
					for _, src := range flow.SpillSources(ld) {
						if src == errv {
							return true
						}
					}
				}
			}
			return false
		}
		isErrCmp := (isE(bo.X) && flow.IsNilConst(bo.Y)) || (isE(bo.Y) && flow.IsNilConst(bo.X))
		if !isErrCmp {
			continue
		}
		// edge index on which err != nil
		idx := -1
		switch bo.Op.String() {
		case "!=":
			idx = 0
		case "==":
			idx = 1
		}
		if neg {
			idx = 1 - idx
		}
		if idx < 0 {
			continue
		}
		for _, x := range f.Blocks {
			if flow.EdgeDominates(b, idx, x) {
				out[x] = true
			}
		}
	}
	return out
}

// boolStepReader: h is a library helper that makes the per-iteration read for the connection loop and reports
// the outcome as a bool instead of an error: results (…, bool) without an error among them, exactly one call that
// reaches the message reader, the bool result is the constant false at every return on that call's error edge
// and the constant true at every other return, and no return of true can be reached from the error edge.
// Returns the inner read and its error-edge blocks.
func (c *Ctx) boolStepReader(h *ssa.Function) (*ssa.Call, map[*ssa.BasicBlock]bool) {
	rm := c.P.Func("diam", "ReadMessage")
	if h == nil || h.Blocks == nil || rm == nil || !c.P.IsLibrary(h) {
		return nil, nil
	}
	res := h.Signature.Results()
	if res.Len() < 2 {
		return nil, nil
	}
	for i := 0; i < res.Len(); i++ {
		if isErrorType(res.At(i).Type()) {
			return nil, nil
		}
	}
	bi := res.Len() - 1
	if b, ok := res.At(bi).Type().Underlying().(*types.Basic); !ok || b.Kind() != types.Bool {
		return nil, nil
	}
	var inner *ssa.Call
	n := 0
	for _, ci := range flow.CallInstrs(h) {
		if call, ok := ci.(*ssa.Call); ok {
			if g := flow.StaticCallee(call); g != nil && (g == rm || c.reachesFunc(g, rm, map[*ssa.Function]bool{})) {
				inner = call
				n++
			}
		}
	}
	if n != 1 || len(flow.Loops(h)) > 0 {
		return nil, nil
	}
	eb := errorEdgeBlocks(inner)
	if len(eb) == 0 {
		return nil, nil
	}
	good := true
	var trues []ssa.Instruction
	flow.Instrs(h, func(in ssa.Instruction) {
		ret, ok := in.(*ssa.Return)
		if !ok {
			return
		}
		if len(ret.Results) != res.Len() {
			good = false
			return
		}
		k, isK := ret.Results[bi].(*ssa.Const)
		if !isK || k.Value == nil {
			good = false
			return
		}
		isTrue := k.Value.String() == "true"
		if eb[ret.Block()] == isTrue {
			good = false
		}
		if isTrue {
			trues = append(trues, ret)
		}
	})
	if !good || len(trues) == 0 {
		return nil, nil
	}
	for b := range eb {
		if p := flow.PathAvoiding(h, b.Instrs[0], func(in ssa.Instruction) bool {
			for _, t := range trues {
				if in == t {
					return true
				}
			}
			return false
		}, nil); p != nil {
			return nil, nil
		}
	}
	return inner, eb
}

// falseEdgeBlocks: the blocks of call's function entered only after the bool (last) result of call — or the
// merge of that result with the same result of other calls of the same function — tested false.
func falseEdgeBlocks(call *ssa.Call) map[*ssa.BasicBlock]bool {
	out := map[*ssa.BasicBlock]bool{}
	callee := flow.StaticCallee(call)
	if callee == nil {
		return out
	}
	okOf := func(cl *ssa.Call) ssa.Value {
		for _, ref := range flow.Referrers(cl) {
			if ex, ok := ref.(*ssa.Extract); ok && ex.Index == callee.Signature.Results().Len()-1 {
				return ex
			}
		}
		return nil
	}
	okv := okOf(call)
	if okv == nil {
		return out
	}
	isOK := func(v ssa.Value) bool {
		if v == okv {
			return true
		}
		ph, isPhi := v.(*ssa.Phi)
		if !isPhi {
			return false
		}
		has := false
		for _, e := range ph.Edges {
			ex, isEx := e.(*ssa.Extract)
			if !isEx {
				return false
			}
			cl, isCall := ex.Tuple.(*ssa.Call)
			if !isCall || flow.StaticCallee(cl) != callee || okOf(cl) != e {
				return false
			}
			if e == okv {
				has = true
			}
		}
		return has
	}
	f := call.Parent()
	for _, b := range f.Blocks {
		if len(b.Instrs) == 0 {
			continue
		}
		ifi, ok := b.Instrs[len(b.Instrs)-1].(*ssa.If)
		if !ok {
			continue
		}
		cond, neg := flow.Cond(ifi.Cond, true)
		if !isOK(cond) {
			continue
		}
		idx := 1
		if neg {
			idx = 0
		}
		for _, x := range f.Blocks {
			if flow.EdgeDominates(b, idx, x) {
				out[x] = true
			}
		}
	}
	return out
}

func isErrorType(t types.Type) bool {
	n, ok := t.(*types.Named)
	return ok && n.Obj().Pkg() == nil && n.Obj().Name() == "error"
}

// errorResult returns the error-typed result value of a call (the call itself or an extract).
func errorResult(call *ssa.Call) ssa.Value {
	if isErrorType(call.Type()) {
		return call
	}
	for _, ref := range flow.Referrers(call) {
		if ex, ok := ref.(*ssa.Extract); ok && isErrorType(ex.Type()) {
			return ex
		}
	}
	return nil
}

// mutexField: "Struct.field" of the mutex a lock operation acts on ("" when it is not a struct field).
func mutexField(ci ssa.CallInstruction) string {
	args := ci.Common().Args
	if len(args) == 0 {
		return ""
	}
	fa, ok := args[0].(*ssa.FieldAddr)
	if !ok {
		return ""
	}
	tn, fld, ok := fieldAddrName(fa)
	if !ok || tn == "" {
		return ""
	}
	return tn + "." + fld
}

// writeLockedSomewhere: a library function that takes the exclusive lock of the mutex field mf ("" if none).
func (c *Ctx) writeLockedSomewhere(mf string) string {
	for _, f := range c.P.LibraryFuncs() {
		for _, op := range lockOps(f) {
			if op.acquire && op.exclusive && mutexField(op.in) == mf {
				return fname(f)
			}
		}
	}
	return ""
}
