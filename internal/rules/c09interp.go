package rules

import (
	"fmt"
	"go/constant"
	"go/token"
	"go/types"
	"strings"

	"golang.org/x/tools/go/ssa"

	"verif/internal/flow"
)

// Abstract interpreter for the ServeMux dispatch code (C09 R1/R2).
//
// For one assignment of the five lookup outcomes (FC: the dictionary knows the command; hitEXACT / hitNAME /
// hitALL: the respective handler map contains the key; REQ: the request bit of the message) the dispatch code
// is executed over abstract values. Every branch condition has to evaluate to a known boolean, so exactly one
// path is followed and the sequence of effects (handler invocations by key class, error reports, panics) on it
// is the dispatcher's behaviour for that assignment. Calls into library functions are interpreted (bounded
// depth), so the verdict does not depend on how the dispatch logic is split into helpers; maps, the handler
// field and keys are recognised by type and provenance, not by name.

type c9v struct {
	k      string // kind
	s      string // class / field / string constant
	b      bool   // boolean value, entry hit
	sym    string // what a boolean means: "REQ", "FC" (for diagnostics and the exact key)
	n      int64
	fields map[string]*c9v
	elems  []*c9v
	alloc  *ssa.Alloc    // addr of a local
	base   *c9v          // addr of a field of base
	fn     *ssa.Function // k == "closure": the function and the values bound to its free variables
	free   []*c9v
}

func c9unk(why string) *c9v { return &c9v{k: "unk", s: why} }

// c9zero: a field of a struct literal that was never set holds the zero value of its type.
func c9zero(t types.Type, f string) *c9v {
	if b, ok := t.Underlying().(*types.Basic); ok {
		switch {
		case b.Info()&types.IsBoolean != 0:
			return c9bool(false, "")
		case b.Info()&types.IsString != 0:
			return &c9v{k: "str", s: ""}
		case b.Info()&types.IsInteger != 0:
			return &c9v{k: "int", n: 0}
		}
	}
	return c9unk("unset field " + f)
}
func c9bool(b bool, sym string) *c9v {
	return &c9v{k: "bool", b: b, sym: sym}
}

type c9interp struct {
	c       *Ctx
	assign  map[string]bool
	effects []string
	bad     string // cannot interpret
	wrong   string // definite violation
	steps   int
	depth   int
	cells   map[*ssa.Alloc]*c9v
	// registration mode (R3)
	register bool
	locked   bool
	// facts for R2
	exactKeys   int
	nameSuffix  map[string]bool
	badExactKey string
}

func (it *c9interp) fail(why string) *c9v {
	if it.bad == "" {
		it.bad = why
	}
	return c9unk(why)
}

// isHandlerType: the diam.Handler interface.
func isHandlerIface(t types.Type) bool { return flow.TypeIs(t, pkgDiam, "Handler") }

func (it *c9interp) constVal(k *ssa.Const) *c9v {
	if k.Value == nil {
		return &c9v{k: "nil"}
	}
	switch k.Value.Kind() {
	case constant.Bool:
		return c9bool(constant.BoolVal(k.Value), "")
	case constant.String:
		return &c9v{k: "str", s: constant.StringVal(k.Value)}
	case constant.Int:
		n, _ := constant.Int64Val(k.Value)
		return &c9v{k: "int", n: n}
	}
	return c9unk("constant")
}

type c9frame struct {
	fn   *ssa.Function
	env  map[ssa.Value]*c9v
	prev *ssa.BasicBlock
}

func (it *c9interp) eval(fr *c9frame, v ssa.Value) *c9v {
	if k, ok := v.(*ssa.Const); ok {
		return it.constVal(k)
	}
	if x, ok := fr.env[v]; ok {
		return x
	}
	switch x := v.(type) {
	case *ssa.Global:
		return &c9v{k: "global", s: x.Name()}
	case *ssa.Function:
		return &c9v{k: "closure", s: x.Name(), fn: x}
	}
	return c9unk("value not computed on this path: " + short(v.String(), 40))
}

// load reads through an address value.
func (it *c9interp) load(a *c9v, t types.Type) *c9v {
	switch a.k {
	case "global":
		if a.s == "ALL_CMD_INDEX" {
			return &c9v{k: "key", s: "ALL"}
		}
		return c9unk("global " + a.s)
	case "addr":
		if a.alloc != nil {
			cell := it.cells[a.alloc]
			if cell == nil {
				return c9unk("uninitialised local")
			}
			if a.s == "" {
				return cell
			}
			if cell.k == "struct" {
				if f, ok := cell.fields[a.s]; ok {
					return f
				}
				return c9zero(t, a.s)
			}
			if cell.k == "entry" {
				return it.fieldOf(cell, a.s, t)
			}
			return c9unk("field of " + cell.k)
		}
		if a.base != nil {
			return it.fieldOf(a.base, a.s, t)
		}
	}
	return c9unk("load of " + a.k)
}

// fieldOf: field named f (of static type t) of a pointer/struct abstract value.
func (it *c9interp) fieldOf(base *c9v, f string, t types.Type) *c9v {
	switch base.k {
	case "msg":
		if flow.TypeIs(t, pkgDiam, "Header") {
			return &c9v{k: "hdr"}
		}
		return c9unk("message field " + f)
	case "hdr":
		return &c9v{k: "hfield", s: f}
	case "mux":
		if m, ok := t.Underlying().(*types.Map); ok {
			if flow.TypeIs(m.Key(), pkgDiam, "CommandIndex") {
				return &c9v{k: "mapref", s: "INDEX"}
			}
			if b, ok := m.Key().Underlying().(*types.Basic); ok && b.Kind() == types.String {
				return &c9v{k: "mapref", s: "NAME"}
			}
		}
		// the handler tables may live in a struct of their own inside the mux
		st := t
		if p, ok := st.Underlying().(*types.Pointer); ok {
			st = p.Elem()
		}
		if _, ok := st.Underlying().(*types.Struct); ok && !flow.TypeIs(st, "sync", "RWMutex") && !flow.TypeIs(st, "sync", "Mutex") {
			return &c9v{k: "mux", s: f}
		}
		return c9unk("mux field " + f)
	case "dcmd":
		if f == "Short" {
			return &c9v{k: "dshort"}
		}
		return c9unk("command field " + f)
	case "entry":
		if isHandlerIface(t) {
			return &c9v{k: "handler", s: base.s, b: base.b}
		}
		return c9unk("entry field " + f)
	case "struct":
		if x, ok := base.fields[f]; ok {
			return x
		}
		return c9zero(t, f)
	}
	return c9unk("field " + f + " of " + base.k)
}

// keyClass classifies a map key value.
func (it *c9interp) keyClass(k *c9v) (string, string) {
	switch k.k {
	case "key":
		return k.s, ""
	case "regname":
		return "REGNAME", ""
	case "namekey":
		return "NAME", k.s
	case "struct":
		app, code, req := k.fields["AppID"], k.fields["Code"], k.fields["Request"]
		if app != nil && code != nil && req != nil && app.k == "hfield" && app.s == "ApplicationID" && code.k == "hfield" && code.s == "CommandCode" && req.k == "bool" && req.sym == "REQ" {
			it.exactKeys++
			return "EXACT", ""
		}
		it.badExactKey = "an index key is not built from the message's (Header.ApplicationID, Header.CommandCode, request bit)"
		return "?", ""
	}
	return "?", ""
}

func (it *c9interp) binop(x *ssa.BinOp, a, b *c9v) *c9v {
	isNil := func(v *c9v) bool { return v.k == "nil" }
	switch x.Op {
	case token.AND:
		if a.k == "hfield" && a.s == "CommandFlags" && b.k == "int" {
			return &c9v{k: "fmask", n: b.n}
		}
		if b.k == "hfield" && b.s == "CommandFlags" && a.k == "int" {
			return &c9v{k: "fmask", n: a.n}
		}
	case token.ADD:
		if a.k == "dshort" && b.k == "str" {
			return &c9v{k: "namekey", s: b.s}
		}
		if a.k == "str" && b.k == "str" {
			return &c9v{k: "str", s: a.s + b.s}
		}
		if a.k == "int" && b.k == "int" {
			return &c9v{k: "int", n: a.n + b.n}
		}
	case token.EQL, token.NEQ:
		eq := x.Op == token.EQL
		res := func(v bool, sym string) *c9v {
			if !eq {
				v = !v
				if sym != "" {
					if strings.HasPrefix(sym, "!") {
						sym = sym[1:]
					} else {
						sym = "!" + sym
					}
				}
			}
			return c9bool(v, sym)
		}
		if a.k == "int" && b.k == "fmask" {
			a, b = b, a
		}
		if a.k == "fmask" && b.k == "int" {
			if a.n != 128 || (b.n != 128 && b.n != 0) {
				it.wrong = reqMaskMsg(a.n<<8 | b.n)
				it.bad = it.wrong
				return c9unk("flag test")
			}
			if b.n == 128 {
				r := res(it.assign["REQ"], "REQ")
				if !eq {
					r.sym = "!REQ"
				}
				return r
			}
			r := res(!it.assign["REQ"], "!REQ")
			if !eq {
				r.sym = "REQ"
			}
			return r
		}
		if isNil(b) || isNil(a) {
			o := a
			if isNil(a) {
				o = b
			}
			switch o.k {
			case "nil":
				return res(true, "")
			case "nonnil", "handler", "msg", "conn", "mux", "hdr", "dict":
				return res(false, "")
			case "err":
				// the error of FindCommand: nil iff the dictionary knows the command
				return res(it.assign["FC"], "FC")
			}
			return c9unk("nil test of " + o.k)
		}
		if a.k == "bool" && b.k == "bool" {
			return res(a.b == b.b, "")
		}
		// registration: the name being registered compared with the catch-all name
		if a.k == "str" && b.k == "regname" {
			a, b = b, a
		}
		if a.k == "regname" && b.k == "str" {
			if b.s == "ALL" {
				return res(a.b, "")
			}
			return res(false, "")
		}
		if a.k == "int" && b.k == "int" {
			return res(a.n == b.n, "")
		}
		if a.k == "str" && b.k == "str" {
			return res(a.s == b.s, "")
		}
	}
	if a.k == "int" && b.k == "int" {
		switch x.Op {
		case token.LSS:
			return c9bool(a.n < b.n, "")
		case token.LEQ:
			return c9bool(a.n <= b.n, "")
		case token.GTR:
			return c9bool(a.n > b.n, "")
		case token.GEQ:
			return c9bool(a.n >= b.n, "")
		case token.SUB:
			return &c9v{k: "int", n: a.n - b.n}
		}
	}
	return c9unk("operator " + x.Op.String() + " on " + a.k + "," + b.k)
}

// call interprets fn with the given arguments and returns its result.
func (it *c9interp) call(fn *ssa.Function, args []*c9v) *c9v { return it.callClosure(fn, args, nil) }

func (it *c9interp) callClosure(fn *ssa.Function, args []*c9v, free []*c9v) *c9v {
	if it.depth > 8 {
		return it.fail("call depth exceeded in the dispatch code")
	}
	it.depth++
	defer func() { it.depth-- }()
	fr := &c9frame{fn: fn, env: map[ssa.Value]*c9v{}}
	for i, p := range fn.Params {
		if i < len(args) {
			fr.env[p] = args[i]
		}
	}
	for i, fv := range fn.FreeVars {
		if i < len(free) {
			fr.env[fv] = free[i]
		}
	}
	blk := fn.Blocks[0]
	for it.bad == "" {
		var next *ssa.BasicBlock
		for _, in := range blk.Instrs {
			it.steps++
			if it.steps > 20000 {
				return it.fail("interpretation did not terminate (cycle in the dispatch code)")
			}
			switch x := in.(type) {
			case *ssa.Phi:
				for i, p := range blk.Preds {
					if p == fr.prev {
						fr.env[x] = it.eval(fr, x.Edges[i])
					}
				}
			case *ssa.Alloc:
				it.cells[x] = nil
				if st, ok := x.Type().Underlying().(*types.Pointer).Elem().Underlying().(*types.Struct); ok && st.NumFields() > 0 {
					it.cells[x] = &c9v{k: "struct", fields: map[string]*c9v{}}
				}
				if _, ok := x.Type().Underlying().(*types.Pointer).Elem().Underlying().(*types.Array); ok {
					it.cells[x] = &c9v{k: "struct", fields: map[string]*c9v{}}
				}
				fr.env[x] = &c9v{k: "addr", alloc: x}
			case *ssa.IndexAddr:
				// element of a local fixed-size array at a known index (a short list of keys to try in order)
				base, idx := it.eval(fr, x.X), it.eval(fr, x.Index)
				if _, isArr := x.X.Type().Underlying().(*types.Pointer); isArr && base.k == "addr" && base.alloc != nil && base.s == "" && idx.k == "int" {
					fr.env[x] = &c9v{k: "addr", alloc: base.alloc, s: fmt.Sprintf("[%d]", idx.n)}
				} else {
					fr.env[x] = c9unk("element address")
				}
			case *ssa.FieldAddr:
				base := it.eval(fr, x.X)
				fname := x.X.Type().Underlying().(*types.Pointer).Elem().Underlying().(*types.Struct).Field(x.Field).Name()
				if base.k == "addr" && base.base != nil {
					// address of a field of a field: &mux.tbl.indexes — continue from the inner object
					if o := it.load(base, x.X.Type().Underlying().(*types.Pointer).Elem()); o.k == "mux" {
						base = o
					}
				}
				if base.k == "addr" && base.alloc != nil && base.s == "" {
					fr.env[x] = &c9v{k: "addr", alloc: base.alloc, s: fname}
				} else {
					fr.env[x] = &c9v{k: "addr", base: base, s: fname}
				}
			case *ssa.Field:
				base := it.eval(fr, x.X)
				fname := x.X.Type().Underlying().(*types.Struct).Field(x.Field).Name()
				fr.env[x] = it.fieldOf(base, fname, x.Type())
			case *ssa.UnOp:
				a := it.eval(fr, x.X)
				switch x.Op {
				case token.MUL:
					fr.env[x] = it.load(a, x.Type())
				case token.NOT:
					if a.k == "bool" {
						sym := a.sym
						if sym != "" {
							if strings.HasPrefix(sym, "!") {
								sym = sym[1:]
							} else {
								sym = "!" + sym
							}
						}
						fr.env[x] = c9bool(!a.b, sym)
					} else {
						fr.env[x] = c9unk("negation of " + a.k)
					}
				default:
					fr.env[x] = c9unk("unary " + x.Op.String())
				}
			case *ssa.Store:
				a := it.eval(fr, x.Addr)
				v := it.eval(fr, x.Val)
				if a.k == "addr" && a.alloc != nil {
					if a.s == "" {
						it.cells[a.alloc] = v
					} else {
						cell := it.cells[a.alloc]
						if cell == nil || cell.k != "struct" {
							cell = &c9v{k: "struct", fields: map[string]*c9v{}}
							it.cells[a.alloc] = cell
						}
						cell.fields[a.s] = v
					}
				}
			case *ssa.BinOp:
				fr.env[x] = it.binop(x, it.eval(fr, x.X), it.eval(fr, x.Y))
			case *ssa.MakeClosure:
				cl := &c9v{k: "closure", s: x.Fn.Name(), fn: x.Fn.(*ssa.Function)}
				for _, b := range x.Bindings {
					cl.free = append(cl.free, it.eval(fr, b))
				}
				fr.env[x] = cl
			case *ssa.ChangeType:
				fr.env[x] = it.eval(fr, x.X)
			case *ssa.Convert:
				fr.env[x] = it.eval(fr, x.X)
			case *ssa.ChangeInterface:
				fr.env[x] = it.eval(fr, x.X)
			case *ssa.MakeInterface:
				v := it.eval(fr, x.X)
				if v.k == "unk" || v.k == "addr" || v.k == "struct" || v.k == "str" || v.k == "int" || v.k == "closure" {
					v = &c9v{k: "nonnil"}
				}
				fr.env[x] = v
			case *ssa.Lookup:
				m := it.eval(fr, x.X)
				key := it.eval(fr, x.Index)
				var res *c9v
				if m.k != "mapref" {
					res = c9unk("lookup in " + m.k)
				} else {
					cl, sfx := it.keyClass(key)
					switch {
					case it.register && (cl == "REGNAME" || cl == "REGIDX" || cl == "ALL"):
						res = &c9v{k: "regentry"}
					case cl == "?":
						res = it.fail("a handler lookup uses a key that is neither the exact index, the short name plus R/A, nor the catch-all (" + key.k + ")")
					case (cl == "NAME") != (m.s == "NAME"):
						res = it.fail("key class " + cl + " looked up in the " + m.s + " map")
					default:
						if cl == "NAME" {
							it.nameSuffix[sfx] = true
							want := "A"
							if it.assign["REQ"] {
								want = "R"
							}
							if sfx != want {
								it.wrong = fmt.Sprintf("the name key carries suffix %q on the path where the request bit is %v: requests are dispatched to the handler registered for answers (and vice versa)", sfx, it.assign["REQ"])
								it.bad = it.wrong
							}
						}
						res = &c9v{k: "entry", s: cl, b: it.assign["hit"+cl]}
					}
				}
				if x.CommaOk {
					hit := res.k == "entry" && res.b
					ok := c9bool(hit, "hit"+res.s)
					if res.k != "entry" {
						ok = c9unk("lookup")
					}
					if res.k == "regentry" {
						ok = &c9v{k: "reghit"}
					}
					fr.env[x] = &c9v{k: "tuple", elems: []*c9v{res, ok}}
				} else {
					fr.env[x] = res
				}
			case *ssa.Extract:
				t := it.eval(fr, x.Tuple)
				if t.k == "tuple" && x.Index < len(t.elems) {
					fr.env[x] = t.elems[x.Index]
				} else {
					fr.env[x] = c9unk("component of " + t.k)
				}
			case *ssa.TypeAssert:
				v := it.eval(fr, x.X)
				if x.CommaOk {
					fr.env[x] = &c9v{k: "tuple", elems: []*c9v{v, c9unk("type test")}}
				} else {
					fr.env[x] = v
				}
			case *ssa.Call:
				fr.env[x] = it.doCall(fr, x)
			case *ssa.MapUpdate:
				m, key, val := it.eval(fr, x.Map), it.eval(fr, x.Key), it.eval(fr, x.Value)
				if m.k != "mapref" {
					continue
				}
				cl, _ := it.keyClass(key)
				carries := false
				var walk func(v *c9v, d int)
				walk = func(v *c9v, d int) {
					if v == nil || d > 3 {
						return
					}
					if v.k == "handler" && v.s == "NEW" {
						carries = true
					}
					for _, f := range v.fields {
						walk(f, d+1)
					}
				}
				walk(val, 0)
				it.effects = append(it.effects, fmt.Sprintf("update map=%s key=%s handler=%v locked=%v", m.s, cl, carries, it.locked))
			case *ssa.Defer, *ssa.RunDefers, *ssa.DebugRef:
			case *ssa.Go:
				return it.fail("go statement in the dispatch code")
			case *ssa.Panic:
				it.effects = append(it.effects, "panic")
				return c9unk("panic")
			case *ssa.Return:
				switch len(x.Results) {
				case 0:
					return &c9v{k: "void"}
				case 1:
					return it.eval(fr, x.Results[0])
				}
				t := &c9v{k: "tuple"}
				for _, rv := range x.Results {
					t.elems = append(t.elems, it.eval(fr, rv))
				}
				return t
			case *ssa.If:
				cv := it.eval(fr, x.Cond)
				if cv.k == "reghit" {
					it.wrong = "the registration is conditional on the key's presence: registering a key again does not replace the earlier handler"
					return it.fail(it.wrong)
				}
				if cv.k != "bool" {
					return it.fail("a dispatch branch depends on something other than the classified lookups, the dictionary result and the request bit (" + cv.k + ": " + cv.s + ") at " + it.c.pos(x))
				}
				if cv.b {
					next = blk.Succs[0]
				} else {
					next = blk.Succs[1]
				}
			case *ssa.Jump:
				next = blk.Succs[0]
			case *ssa.Select:
				fr.env[x] = c9unk("select")
			default:
				if v, ok := in.(ssa.Value); ok {
					fr.env[v] = c9unk(fmt.Sprintf("%T", in))
				}
			}
		}
		if next == nil {
			return it.fail("block without successor in the dispatch code")
		}
		fr.prev, blk = blk, next
	}
	return c9unk(it.bad)
}

func (it *c9interp) doCall(fr *c9frame, x *ssa.Call) *c9v {
	com := x.Common()
	var args []*c9v
	for _, a := range com.Args {
		args = append(args, it.eval(fr, a))
	}
	if com.IsInvoke() {
		recv := it.eval(fr, com.Value)
		if com.Method.Name() == "ServeDIAM" {
			okArgs := len(args) == 2 && args[0].k == "conn" && args[1].k == "msg"
			switch {
			case recv.k != "handler":
				it.effects = append(it.effects, "invoke ?")
			case !okArgs:
				return it.fail("a handler is invoked with something other than the dispatched (conn, message)")
			case !recv.b:
				it.effects = append(it.effects, "invoke missing "+recv.s)
			default:
				it.effects = append(it.effects, "invoke "+recv.s)
			}
			return &c9v{k: "void"}
		}
		if isHandlerIface(com.Value.Type()) {
			it.effects = append(it.effects, "invoke ?")
		}
		return c9unk("interface call " + com.Method.Name())
	}
	g := flow.StaticCallee(x)
	if g == nil {
		// a call of a function value built in the dispatch code itself (closure, method value, function name)
		if fv := it.eval(fr, com.Value); fv.k == "closure" && fv.fn != nil && fv.fn.Blocks != nil && it.c.P.IsLibrary(fv.fn) {
			return it.callClosure(fv.fn, args, fv.free)
		}
		if isHandlerInvocation(x) {
			it.effects = append(it.effects, "invoke ?dynamic")
		}
		return c9unk("dynamic call")
	}
	if o := flow.CalleeObj(x); o != nil && o.Pkg() != nil && o.Pkg().Path() == "sync" {
		switch o.Name() {
		case "Lock":
			it.locked = true
		case "Unlock":
			it.locked = false
		}
		return &c9v{k: "void"}
	}
	switch {
	case flow.IsCallTo(x, pkgDiam, "ServeMux", "Error"):
		it.effects = append(it.effects, "error")
		return &c9v{k: "void"}
	case flow.IsCallTo(x, pkgDiam, "Message", "Dictionary"):
		if len(args) == 1 && args[0].k == "msg" {
			return &c9v{k: "dict"}
		}
		return c9unk("dictionary of another message")
	case flow.IsCallTo(x, pkgDict, "Parser", "FindCommand"):
		if len(args) == 3 && args[0].k == "dict" && args[1].k == "hfield" && args[1].s == "ApplicationID" && args[2].k == "hfield" && args[2].s == "CommandCode" {
			return &c9v{k: "tuple", elems: []*c9v{{k: "dcmd"}, {k: "err"}}}
		}
		return it.fail("the dictionary is asked for a command other than the message's (ApplicationID, CommandCode)")
	}
	if g.Pkg != nil && (g.Pkg.Pkg.Path() == "fmt" || g.Pkg.Pkg.Path() == "errors") {
		return &c9v{k: "nonnil"}
	}
	if g.Blocks != nil && it.c.P.IsLibrary(g) && pkgOf(g) != nil && pkgOf(g).Path() == pkgDiam {
		return it.call(g, args)
	}
	return c9unk("call of " + g.Name())
}

// c09Interpret runs the dispatcher for one assignment.
func (c *Ctx) c09Interpret(sd *ssa.Function, as map[string]bool) *c9interp {
	it := &c9interp{c: c, assign: as, cells: map[*ssa.Alloc]*c9v{}, nameSuffix: map[string]bool{}}
	args := []*c9v{{k: "mux"}, {k: "conn"}, {k: "msg"}}
	it.call(sd, args)
	return it
}

// c09Register runs a registration method: Handle(name, h) with the name being the catch-all name or not, or
// HandleIdx(idx, h). The handler argument is the abstract handler "NEW"; map updates are recorded as effects
// together with whether the exclusive lock was held.
func (c *Ctx) c09Register(f *ssa.Function, isALL bool) *c9interp {
	it := &c9interp{c: c, assign: map[string]bool{}, cells: map[*ssa.Alloc]*c9v{}, nameSuffix: map[string]bool{}, register: true}
	args := []*c9v{{k: "mux"}}
	if len(f.Params) == 3 {
		if b, ok := f.Params[1].Type().Underlying().(*types.Basic); ok && b.Info()&types.IsString != 0 {
			args = append(args, &c9v{k: "regname", b: isALL})
		} else {
			args = append(args, &c9v{k: "key", s: "REGIDX"})
		}
		args = append(args, &c9v{k: "handler", s: "NEW", b: true})
	}
	it.call(f, args)
	return it
}
