package rules

import (
	"go/token"
	"go/types"

	"golang.org/x/tools/go/ssa"

	"verif/internal/flow"
)

// Value resolution across package-local helpers. The rules reason about values inside one function; when a
// maintainer moves part of that function into a helper, the values the rule looks at become parameters of the
// helper, fields of a small struct handed to it, or results it returns. These functions map such a value back
// to the expression the enclosing logic supplies, so the rule decides the same question as before the move.

// librarySites: the call sites (call, go, defer) of f in library code.
func (c *Ctx) librarySites(f *ssa.Function) []ssa.CallInstruction {
	var out []ssa.CallInstruction
	for _, g := range c.P.LibraryFuncs() {
		for _, ci := range flow.CallInstrs(g) {
			if flow.StaticCallee(ci) == f {
				out = append(out, ci)
			}
		}
	}
	return out
}

// uniqueSite: the only library call site of f, when f is unexported and has exactly one.
func (c *Ctx) uniqueSite(f *ssa.Function) ssa.CallInstruction {
	if f == nil || (f.Object() != nil && f.Object().Exported()) {
		return nil
	}
	s := c.librarySites(f)
	if len(s) != 1 {
		return nil
	}
	return s[0]
}

// up resolves v to the value its producer is given from outside, as far as that is unambiguous:
//   - conversions are peeled;
//   - a parameter of an unexported helper with a single library call site becomes the argument;
//   - a field read from such a parameter (a small struct passed by value or pointer) becomes the value the
//     caller stored into that field of the struct it built.
func (c *Ctx) up(v ssa.Value) ssa.Value {
	for i := 0; i < 6 && v != nil; i++ {
		p := flow.Peel(v)
		switch x := p.(type) {
		case *ssa.Parameter:
			cs := c.uniqueSite(x.Parent())
			if cs == nil {
				return p
			}
			idx := paramIndex(x.Parent(), x)
			if idx >= len(cs.Common().Args) {
				return p
			}
			v = cs.Common().Args[idx]
			continue
		case *ssa.UnOp:
			if x.Op != token.MUL {
				return p
			}
			fa, ok := x.X.(*ssa.FieldAddr)
			if !ok {
				return p
			}
			// field of a parameter struct: spilled value receiver (Alloc storing the parameter) or pointer parameter
			var par *ssa.Parameter
			switch b := fa.X.(type) {
			case *ssa.Parameter:
				par = b
			case *ssa.Alloc:
				for _, ref := range flow.Referrers(b) {
					if st, ok := ref.(*ssa.Store); ok && st.Addr == ssa.Value(b) {
						if pp, ok := st.Val.(*ssa.Parameter); ok {
							par = pp
						}
					}
				}
			}
			if par == nil {
				return p
			}
			cs := c.uniqueSite(par.Parent())
			if cs == nil {
				return p
			}
			idx := paramIndex(par.Parent(), par)
			if idx >= len(cs.Common().Args) {
				return p
			}
			arg := cs.Common().Args[idx]
			// the caller's struct: a local built field by field (passed by value as a load, or by address)
			var al *ssa.Alloc
			switch a := arg.(type) {
			case *ssa.Alloc:
				al = a
			case *ssa.UnOp:
				if a.Op == token.MUL {
					al, _ = a.X.(*ssa.Alloc)
				}
			}
			if call, ok := arg.(*ssa.Call); ok && al == nil {
				if res := c.ctorField(call, fa); res != nil {
					v = res
					continue
				}
			}
			if al == nil {
				return p
			}
			var stored ssa.Value
			n := 0
			for _, ref := range flow.Referrers(al) {
				if f2, ok := ref.(*ssa.FieldAddr); ok && f2.Field == fa.Field {
					for _, r2 := range flow.Referrers(f2) {
						if st, ok := r2.(*ssa.Store); ok && st.Addr == ssa.Value(f2) {
							stored = st.Val
							n++
						}
					}
				}
			}
			if n == 0 {
				// the struct comes whole from a constructor: the field is what the constructor put there
				var whole ssa.Value
				nw := 0
				for _, ref := range flow.Referrers(al) {
					if st, ok := ref.(*ssa.Store); ok && st.Addr == ssa.Value(al) {
						whole = st.Val
						nw++
					}
				}
				if call, ok := whole.(*ssa.Call); ok && nw == 1 {
					if res := c.ctorField(call, fa); res != nil {
						v = res
						continue
					}
				}
				return p
			}
			if n != 1 {
				return p
			}
			v = stored
			continue
		}
		return p
	}
	return v
}

// derivesOnlyFrom: every alternative of v (phi edges, the arguments at every library call site of a parameter,
// every non-error return of a called helper, the stored field of a struct handed to a helper) is the target
// value or a constant; saw reports whether the target was among them. Used for "this is the stream the header
// read reported" (constants stand for the non-multistream branch).
func (c *Ctx) derivesOnlyFrom(v ssa.Value, isTarget func(ssa.Value) bool, depth int, seen map[ssa.Value]bool) (ok, saw bool) {
	if v == nil || depth > 10 {
		return false, false
	}
	v = flow.Peel(v)
	if isTarget(v) {
		return true, true
	}
	if seen[v] {
		return true, false
	}
	seen[v] = true
	switch x := v.(type) {
	case *ssa.Const:
		return true, false
	case *ssa.Phi:
		ok = true
		for _, e := range x.Edges {
			o, s := c.derivesOnlyFrom(e, isTarget, depth+1, seen)
			ok, saw = ok && o, saw || s
		}
		return ok, saw
	case *ssa.Extract:
		call, isCall := x.Tuple.(*ssa.Call)
		if !isCall {
			return false, false
		}
		return c.resultDerives(call, x.Index, isTarget, depth, seen)
	case *ssa.Call:
		return c.resultDerives(x, 0, isTarget, depth, seen)
	case *ssa.Parameter:
		sites := c.librarySites(x.Parent())
		if len(sites) == 0 {
			return false, false
		}
		idx := paramIndex(x.Parent(), x)
		ok = true
		for _, cs := range sites {
			if idx >= len(cs.Common().Args) {
				return false, false
			}
			o, s := c.derivesOnlyFrom(cs.Common().Args[idx], isTarget, depth+1, seen)
			ok, saw = ok && o, saw || s
		}
		return ok, saw
	case *ssa.UnOp:
		if u := c.up(x); u != ssa.Value(x) {
			return c.derivesOnlyFrom(u, isTarget, depth+1, seen)
		}
		if al, isAl := x.X.(*ssa.Alloc); isAl && x.Op == token.MUL {
			ok, n := true, 0
			for _, ref := range flow.Referrers(al) {
				if st, isSt := ref.(*ssa.Store); isSt && st.Addr == ssa.Value(al) {
					n++
					o, s := c.derivesOnlyFrom(st.Val, isTarget, depth+1, seen)
					ok, saw = ok && o, saw || s
				}
			}
			return ok && n > 0, saw
		}
	}
	return false, false
}

func (c *Ctx) resultDerives(call *ssa.Call, idx int, isTarget func(ssa.Value) bool, depth int, seen map[ssa.Value]bool) (ok, saw bool) {
	g := flow.StaticCallee(call)
	if g == nil || g.Blocks == nil || !c.P.IsLibrary(g) {
		return false, false
	}
	ok = true
	n := 0
	flow.Instrs(g, func(in ssa.Instruction) {
		ret, isRet := in.(*ssa.Return)
		if !isRet || idx >= len(ret.Results) {
			return
		}
		if len(ret.Results) > 1 && isErrorType(ret.Results[len(ret.Results)-1].Type()) && !mayReturnNilError(ret) {
			return // error return: the value is not used by callers that test the error
		}
		for _, src := range flow.SpillSources(ret.Results[idx]) {
			n++
			o, s := c.derivesOnlyFrom(src, isTarget, depth+1, seen)
			ok, saw = ok && o, saw || s
		}
	})
	return ok && n > 0, saw
}

// ctorField: call builds a struct in a library constructor; the field addressed by fa (on a value of that
// struct type) holds, on every return of the constructor, one of the constructor's parameters: the
// corresponding argument of call is returned.
func (c *Ctx) ctorField(call *ssa.Call, fa *ssa.FieldAddr) ssa.Value {
	g := flow.StaticCallee(call)
	if g == nil || g.Blocks == nil || !c.P.IsLibrary(g) {
		return nil
	}
	fname := fa.X.Type().Underlying().(*types.Pointer).Elem().Underlying().(*types.Struct).Field(fa.Field).Name()
	var res ssa.Value
	rvs := flow.ReturnValues(g, 0)
	for _, rv := range rvs {
		fs := structLitFields(rv)
		fv, has := fs[fname]
		if !has {
			return nil
		}
		gp, isP := flow.Peel(fv).(*ssa.Parameter)
		if !isP || gp.Parent() != g {
			return nil
		}
		i := paramIndex(g, gp)
		if i >= len(call.Call.Args) || (res != nil && res != call.Call.Args[i]) {
			return nil
		}
		res = call.Call.Args[i]
	}
	return res
}

// closureCallSites: where the anonymous function fn is called — calls, in the function that creates the
// closure, of a value that is this closure (directly or as one alternative of a phi), and, when the closure
// (or such a phi) is handed to a library function as an argument, the calls of the receiving parameter inside
// that function. nil if the closure escapes in a way this does not cover (stored, returned, sent).
func (c *Ctx) closureCallSites(fn *ssa.Function) []ssa.CallInstruction {
	par := fn.Parent()
	if par == nil {
		return nil
	}
	var out []ssa.CallInstruction
	var mcs []ssa.Value
	flow.Instrs(par, func(in ssa.Instruction) {
		if mc, ok := in.(*ssa.MakeClosure); ok && mc.Fn == ssa.Value(fn) {
			mcs = append(mcs, mc)
		}
	})
	// values the closure flows into within par: itself, phis, conversions; a closure returned by par (a
	// function that chooses a reader) continues at par's call sites
	vals := map[ssa.Value]bool{}
	var work []ssa.Value
	for _, m := range mcs {
		vals[m] = true
		work = append(work, m)
	}
	returned := false
	for len(work) > 0 {
		v := work[len(work)-1]
		work = work[:len(work)-1]
		for _, ref := range flow.Referrers(v) {
			switch x := ref.(type) {
			case *ssa.Phi:
				if !vals[x] {
					vals[x] = true
					work = append(work, x)
				}
			case *ssa.ChangeType:
				if !vals[x] {
					vals[x] = true
					work = append(work, x)
				}
			case *ssa.Return:
				returned = true
			case ssa.CallInstruction:
				com := x.Common()
				if vals[com.Value] && !com.IsInvoke() {
					out = append(out, x)
					continue
				}
				h := flow.StaticCallee(x)
				if h == nil || h.Blocks == nil || !c.P.IsLibrary(h) {
					return nil
				}
				for i, a := range com.Args {
					if !vals[a] || i >= len(h.Params) {
						continue
					}
					for _, cj := range flow.CallInstrs(h) {
						if cj.Common().Value == ssa.Value(h.Params[i]) && !cj.Common().IsInvoke() {
							out = append(out, cj)
						}
					}
				}
			case *ssa.Store, *ssa.Send, *ssa.MakeInterface:
				return nil
			}
		}
	}
	if returned && par.Signature.Results().Len() == 1 {
		// the chosen closure is par's result: follow it at par's call sites (one level)
		for _, cs := range c.librarySites(par) {
			v := cs.Value()
			if v == nil {
				return nil
			}
			for _, ref := range flow.Referrers(v) {
				ci, ok := ref.(ssa.CallInstruction)
				if !ok {
					continue
				}
				if ci.Common().Value == ssa.Value(v) && !ci.Common().IsInvoke() {
					out = append(out, ci)
					continue
				}
				h := flow.StaticCallee(ci)
				if h == nil || h.Blocks == nil || !c.P.IsLibrary(h) {
					continue
				}
				for i, a := range ci.Common().Args {
					if a != ssa.Value(v) || i >= len(h.Params) {
						continue
					}
					for _, cj := range flow.CallInstrs(h) {
						if cj.Common().Value == ssa.Value(h.Params[i]) && !cj.Common().IsInvoke() {
							out = append(out, cj)
						}
					}
				}
			}
		}
	}
	return out
}

// funcValueTargets: the library functions a function value can be — a closure or function made here, one
// alternative of a phi, the closures a library function returns, or (for a parameter of an unexported
// function) what its library call sites pass. nil when a source is not one of these.
func (c *Ctx) funcValueTargets(v ssa.Value, depth int) []*ssa.Function {
	if depth > 3 {
		return nil
	}
	switch x := v.(type) {
	case *ssa.MakeClosure:
		return []*ssa.Function{x.Fn.(*ssa.Function)}
	case *ssa.Function:
		return []*ssa.Function{x}
	case *ssa.ChangeType:
		return c.funcValueTargets(x.X, depth)
	case *ssa.Phi:
		var out []*ssa.Function
		for _, e := range x.Edges {
			if e == ssa.Value(x) {
				continue // carried round a loop unchanged
			}
			t := c.funcValueTargets(e, depth+1)
			if t == nil {
				return nil
			}
			out = append(out, t...)
		}
		return out
	case *ssa.Call:
		g := flow.StaticCallee(x)
		if g == nil || g.Blocks == nil || !c.P.IsLibrary(g) || g.Signature.Results().Len() != 1 {
			return nil
		}
		var out []*ssa.Function
		for _, rv := range flow.ReturnValues(g, 0) {
			t := c.funcValueTargets(rv, depth+1)
			if t == nil {
				return nil
			}
			out = append(out, t...)
		}
		return out
	case *ssa.Parameter:
		f := x.Parent()
		if f.Object() != nil && f.Object().Exported() {
			return nil
		}
		css := c.librarySites(f)
		if len(css) == 0 {
			return nil
		}
		var out []*ssa.Function
		for _, cs := range css {
			i := paramIndex(f, x)
			if i >= len(cs.Common().Args) {
				return nil
			}
			t := c.funcValueTargets(cs.Common().Args[i], depth+1)
			if t == nil {
				return nil
			}
			out = append(out, t...)
		}
		return out
	}
	return nil
}

// addressTaken: f is used somewhere in the module as a value (stored, passed, bound as a method value) rather
// than only as the target of a direct call, so its static call sites are not all of its callers.
func (c *Ctx) addressTaken(f *ssa.Function) bool {
	if c.taken == nil {
		c.taken = map[*ssa.Function]bool{}
		for _, g := range c.P.ModuleFuncs() {
			flow.Instrs(g, func(in ssa.Instruction) {
				var callee ssa.Value
				if ci, ok := in.(ssa.CallInstruction); ok && !ci.Common().IsInvoke() {
					callee = ci.Common().Value
				}
				for _, op := range in.Operands(nil) {
					if op == nil || *op == nil {
						continue
					}
					h, ok := (*op).(*ssa.Function)
					if !ok {
						continue
					}
					if *op == callee && op == &in.(ssa.CallInstruction).Common().Value {
						continue
					}
					c.taken[h] = true
				}
			})
		}
	}
	return c.taken[f]
}
