package rules

import (
	"go/token"

	"golang.org/x/tools/go/ssa"

	"verif/internal/flow"
)

// Value resolution across package-local helpers. The rules reason about values inside one function; when a
// maintainer moves part of that function into a helper, the values the rule looks at become parameters of the
// helper, fields of a small struct handed to it, or results it returns. These functions map such a value back
// to the expression the enclosing logic supplies, so the rule decides the same question as before the move.

// librarySites: the call sites (call, go, defer) of f in library code.
func (c *Ctx) librarySites(f *ssa.Function) []ssa.CallInstruction {
	var out []ssa.CallInstruction
	for _, g := range c.P.LibraryFuncs() {
		for _, ci := range flow.CallInstrs(g) {
			if flow.StaticCallee(ci) == f {
				out = append(out, ci)
			}
		}
	}
	return out
}

// uniqueSite: the only library call site of f, when f is unexported and has exactly one.
func (c *Ctx) uniqueSite(f *ssa.Function) ssa.CallInstruction {
	if f == nil || (f.Object() != nil && f.Object().Exported()) {
		return nil
	}
	s := c.librarySites(f)
	if len(s) != 1 {
		return nil
	}
	return s[0]
}

// up resolves v to the value its producer is given from outside, as far as that is unambiguous:
//   - conversions are peeled;
//   - a parameter of an unexported helper with a single library call site becomes the argument;
//   - a field read from such a parameter (a small struct passed by value or pointer) becomes the value the
//     caller stored into that field of the struct it built.
func (c *Ctx) up(v ssa.Value) ssa.Value {
	for i := 0; i < 6 && v != nil; i++ {
		p := flow.Peel(v)
		switch x := p.(type) {
		case *ssa.Parameter:
			cs := c.uniqueSite(x.Parent())
			if cs == nil {
				return p
			}
			idx := paramIndex(x.Parent(), x)
			if idx >= len(cs.Common().Args) {
				return p
			}
			v = cs.Common().Args[idx]
			continue
		case *ssa.UnOp:
			if x.Op != token.MUL {
				return p
			}
			fa, ok := x.X.(*ssa.FieldAddr)
			if !ok {
				return p
			}
			// field of a parameter struct: spilled value receiver (Alloc storing the parameter) or pointer parameter
			var par *ssa.Parameter
			switch b := fa.X.(type) {
			case *ssa.Parameter:
				par = b
			case *ssa.Alloc:
				for _, ref := range flow.Referrers(b) {
					if st, ok := ref.(*ssa.Store); ok && st.Addr == ssa.Value(b) {
						if pp, ok := st.Val.(*ssa.Parameter); ok {
							par = pp
						}
					}
				}
			}
			if par == nil {
				return p
			}
			cs := c.uniqueSite(par.Parent())
			if cs == nil {
				return p
			}
			idx := paramIndex(par.Parent(), par)
			if idx >= len(cs.Common().Args) {
				return p
			}
			arg := cs.Common().Args[idx]
			// the caller's struct: a local built field by field (passed by value as a load, or by address)
			var al *ssa.Alloc
			switch a := arg.(type) {
			case *ssa.Alloc:
				al = a
			case *ssa.UnOp:
				if a.Op == token.MUL {
					al, _ = a.X.(*ssa.Alloc)
				}
			}
			if al == nil {
				return p
			}
			var stored ssa.Value
			n := 0
			for _, ref := range flow.Referrers(al) {
				if f2, ok := ref.(*ssa.FieldAddr); ok && f2.Field == fa.Field {
					for _, r2 := range flow.Referrers(f2) {
						if st, ok := r2.(*ssa.Store); ok && st.Addr == ssa.Value(f2) {
							stored = st.Val
							n++
						}
					}
				}
			}
			if n != 1 {
				return p
			}
			v = stored
			continue
		}
		return p
	}
	return v
}
