package rules

import (
	"fmt"
	"go/token"
	"go/types"
	"sort"

	"golang.org/x/tools/go/ssa"

	"verif/internal/flow"
)

// Origin of a reference-typed value (engine E8 storage provenance).
type Origin struct {
	Kind string // make, pool, param, global, const, string-copy, extcall, field, unknown
	Desc string
	At   ssa.Value
}

type originCtx struct {
	c     *Ctx
	seen  map[ssa.Value]bool
	out   map[string]Origin
	depth int
	// binding of parameters to caller arguments along the current inlining chain
	binds []map[*ssa.Parameter]ssa.Value
	// parameters at which tracing stops (reported as kind "param")
	stopAt map[*ssa.Parameter]bool
}

// storageOrigins computes where the backing storage of a slice / buffer value may come from.
func (c *Ctx) storageOrigins(v ssa.Value, stopAt ...*ssa.Parameter) []Origin {
	oc := &originCtx{c: c, seen: map[ssa.Value]bool{}, out: map[string]Origin{}, depth: c.Depth + 3, stopAt: map[*ssa.Parameter]bool{}}
	for _, p := range stopAt {
		oc.stopAt[p] = true
	}
	oc.visit(v, 0)
	var keys []string
	for k := range oc.out {
		keys = append(keys, k)
	}
	sort.Strings(keys)
	var res []Origin
	for _, k := range keys {
		res = append(res, oc.out[k])
	}
	return res
}

func (oc *originCtx) add(kind, desc string, at ssa.Value) {
	oc.out[kind+"|"+desc] = Origin{kind, desc, at}
}

func (oc *originCtx) visit(v ssa.Value, d int) {
	if v == nil || oc.seen[v] {
		return
	}
	oc.seen[v] = true
	switch x := v.(type) {
	case *ssa.Slice:
		oc.visit(x.X, d)
	case *ssa.Phi:
		for _, e := range x.Edges {
			oc.visit(e, d)
		}
	case *ssa.ChangeType:
		oc.visit(x.X, d)
	case *ssa.MakeInterface:
		oc.visit(x.X, d)
	case *ssa.ChangeInterface:
		oc.visit(x.X, d)
	case *ssa.TypeAssert:
		oc.visit(x.X, d)
	case *ssa.Convert:
		// string <-> []byte conversions copy
		_, fromStr := x.X.Type().Underlying().(*types.Basic)
		_, toStr := x.Type().Underlying().(*types.Basic)
		if fromStr || toStr {
			oc.add("string-copy", "conversion copies the bytes", x)
			return
		}
		oc.visit(x.X, d)
	case *ssa.MakeSlice:
		oc.add("make", "make at "+oc.c.posV(x), x)
	case *ssa.Alloc:
		// local array/struct or spilled variable: follow stores
		n := 0
		for _, ref := range flow.Referrers(x) {
			if st, ok := ref.(*ssa.Store); ok && st.Addr == ssa.Value(x) {
				n++
				oc.visit(st.Val, d)
			}
		}
		if n == 0 {
			oc.add("make", "local allocation at "+oc.c.posV(x), x)
		}
	case *ssa.Const:
		if x.Value == nil {
			oc.add("nil", "nil (no storage)", x)
		} else {
			oc.add("const", "constant", x)
		}
	case *ssa.Global:
		oc.add("global", x.Name(), x)
	case *ssa.UnOp:
		if x.Op == token.MUL {
			switch a := x.X.(type) {
			case *ssa.Alloc:
				oc.visit(a, d)
				return
			case *ssa.Global:
				oc.add("global", a.Name(), a)
				return
			case *ssa.FieldAddr:
				tn, fld, _, _ := flow.FieldOf(a)
				oc.add("field", tn+"."+fld, x)
				return
			}
		}
		oc.add("unknown", short(x.String(), 50), x)
	case *ssa.Extract:
		if call, ok := x.Tuple.(*ssa.Call); ok {
			oc.visitCall(call, x.Index, d)
			return
		}
		oc.add("unknown", short(x.String(), 50), x)
	case *ssa.Call:
		oc.visitCall(x, 0, d)
	case *ssa.Parameter:
		if oc.stopAt[x] {
			oc.add("param", fmt.Sprintf("parameter %s of %s", x.Name(), fname(x.Parent())), x)
			return
		}
		// bound along the inlining chain?
		for i := len(oc.binds) - 1; i >= 0; i-- {
			if a, ok := oc.binds[i][x]; ok {
				saved := oc.binds
				oc.binds = oc.binds[:i]
				delete(oc.seen, a)
				oc.visit(a, d)
				oc.binds = saved
				return
			}
		}
		// all module call sites of the function
		f := x.Parent()
		idx := -1
		for i, p := range f.Params {
			if p == x {
				idx = i
			}
		}
		sites := 0
		if d < oc.depth {
			for _, caller := range oc.c.P.ModuleFuncs() {
				if !oc.c.P.IsLibrary(caller) {
					continue
				}
				for _, ci := range flow.CallInstrs(caller) {
					if flow.StaticCallee(ci) == f && idx < len(ci.Common().Args) {
						sites++
						oc.visit(ci.Common().Args[idx], d+1)
					}
				}
			}
		}
		if sites == 0 || f.Object() != nil && f.Object().Exported() {
			oc.add("param", fmt.Sprintf("parameter %s of %s (caller-supplied)", x.Name(), fname(f)), x)
		}
	case *ssa.FreeVar:
		if b := flow.BoundValue(x); b != nil {
			oc.visit(b, d)
			return
		}
		oc.add("unknown", "captured "+x.Name(), x)
	default:
		oc.add("unknown", short(v.String(), 50), v)
	}
}

func (oc *originCtx) visitCall(call *ssa.Call, resIdx int, d int) {
	com := call.Common()
	if b, ok := com.Value.(*ssa.Builtin); ok {
		switch b.Name() {
		case "append":
			oc.visit(com.Args[0], d)
			oc.add("make", "append may reallocate", call)
		default:
			oc.add("unknown", "builtin "+b.Name(), call)
		}
		return
	}
	o := flow.CalleeObj(call)
	switch {
	case flow.IsFuncObj(o, "sync", "Pool", "Get"):
		desc := "sync.Pool"
		if p, ok := flow.Path(com.Args[0]); ok {
			desc = p
		}
		oc.add("pool", desc+".Get() at "+oc.c.pos(call), call)
		return
	case flow.IsFuncObj(o, "bufio", "Reader", "Peek"):
		oc.add("global", "the connection's bufio.Reader buffer (Peek returns a view that the next read overwrites)", call)
		return
	case flow.IsFuncObj(o, "bytes", "Buffer", "Bytes"):
		oc.visit(com.Args[0], d)
		return
	case flow.IsFuncObj(o, "bytes", "", "NewBuffer"):
		oc.visit(com.Args[0], d)
		return
	}
	g := flow.StaticCallee(call)
	if g != nil && oc.c.P.InModule(pkgOf(g)) && g.Blocks != nil && d < oc.depth {
		bind := map[*ssa.Parameter]ssa.Value{}
		for i, p := range g.Params {
			if i < len(com.Args) {
				bind[p] = com.Args[i]
			}
		}
		oc.binds = append(oc.binds, bind)
		for _, rv := range flow.ReturnValues(g, resIdx) {
			oc.visit(rv, d+1)
		}
		oc.binds = oc.binds[:len(oc.binds)-1]
		return
	}
	name := "dynamic call"
	if o != nil {
		name = o.FullName()
	}
	oc.add("extcall", name, call)
}
