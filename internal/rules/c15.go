package rules

import (
	"fmt"
	"go/token"
	"go/types"
	"os"
	"strings"

	"golang.org/x/tools/go/ssa"

	"verif/internal/flow"
)

func init() {
	register(&RuleSet{
		Property:  "C15",
		Title:     "Faults on one connection stay on that connection",
		Run:       runC15,
		Technique: "recover/defer placement by dominance, accept-loop continuation and error-report edge by CFG path queries",
		Explanation: "Decides on the current source: R1 the connection loop function defers, before any other call, a closure that calls recover() itself, does not re-panic and closes the transport on every path, and the handler dispatch is a plain call inside that same function (a handler panic unwinds into this defer and no further); " +
			"R2 the connection loop is only ever started with go (handlers never run on the accept goroutine or a caller's goroutine); " +
			"R3 in (*Server).Serve no path from the temporary-accept-error edge or from a failed connection constructor reaches a return before the next Accept, and the accept loop makes no plain call that reads messages or invokes handlers; " +
			"R4 on the read-error edge the loop offers the error to ErrorReporter.Error guarded only by the EOF / UnexpectedEOF exclusions and the interface test, then leaves the loop; " +
			"R5 a lock that may be held while a handler runs is released by a deferred unlock (so a recovered handler panic cannot leave the shared mux locked), and every pooled read buffer is released exactly once by a defer of the acquiring function (so an error path cannot make two connections share a buffer). " +
			"R3 also: listeners of the library hand Accept errors on unwrapped, so the temporary-error test of the accept loop can see them; R4 also holds when the report is issued through a helper or through the handler's fallback reporter. " +
			"Not decided: fault placements as executions, behaviour of net.Listener implementations, panics outside the handler goroutine (e.g. in goroutines a handler starts).",
		Rules: map[string]string{
			"R1": "defer(recover + close transport) dominates every other call of the connection loop; dispatch is in the same function",
			"R2": "connection loop never called or deferred synchronously",
			"R3": "accept loop: temporary error edge and constructor failure edge return to Accept; no connection I/O on the accept goroutine",
			"R4": "read-error edge: ErrorReporter.Error offered unless EOF/UnexpectedEOF, then the loop exits",
			"R5": "state shared between connections survives a fault: locks held across handlers are released by defer; pooled read buffers are released exactly once",
		},
		MinInstances: map[string]int{"R1": 2, "R2": 1, "R3": 2, "R4": 2, "R5": 2},
		Assumptions:  []string{"recover() in a deferred closure of the goroutine's function stops any panic raised below it (Go language semantics)", "net.Conn.Close closes the transport"},
	})
}

func isBuiltinCall(in ssa.Instruction, name string) bool {
	ci, ok := in.(ssa.CallInstruction)
	if !ok {
		return false
	}
	b, ok := ci.Common().Value.(*ssa.Builtin)
	return ok && b.Name() == name
}

// isNetConnClose: invoke Close() on a value whose static type is net.Conn (or a module
// multistream conn interface embedding it).
func isTransportClose(in ssa.Instruction) bool {
	ci, ok := in.(ssa.CallInstruction)
	if !ok {
		return false
	}
	com := ci.Common()
	if !com.IsInvoke() || com.Method.Name() != "Close" {
		return false
	}
	t := com.Value.Type()
	if flow.TypeIs(t, "net", "Conn") || flow.TypeIs(t, pkgDiam, "MultistreamConn") {
		return true
	}
	return false
}

func runC15(c *Ctx) {
	r := c.R
	loopFn := c.connLoop()
	if loopFn == nil {
		r.Undecided("R1", "role:ConnLoop", "-", "cannot resolve the connection loop")
		return
	}
	r.Role("ConnLoop", fname(loopFn))
	memo := map[*ssa.Function]int{}

	// ---- R1 ----
	var recDefer *ssa.Defer
	var recClosure *ssa.Function
	for _, ci := range flow.CallInstrs(loopFn) {
		d, ok := ci.(*ssa.Defer)
		if !ok {
			continue
		}
		g := flow.StaticCallee(d)
		if g == nil {
			continue
		}
		has := false
		flow.Instrs(g, func(in ssa.Instruction) {
			if isBuiltinCall(in, "recover") {
				has = true
			}
		})
		if has {
			recDefer, recClosure = d, g
			break
		}
	}
	key := fname(loopFn) + ":defer-recover"
	if recDefer == nil {
		r.Fail("R1", key, c.fpos(loopFn), "the connection loop has no deferred function that calls recover() directly: a handler panic kills the whole process")
	} else {
		ok := true
		// closure must not re-panic
		flow.Instrs(recClosure, func(in ssa.Instruction) {
			if _, isP := in.(*ssa.Panic); isP && ok {
				r.Fail("R1", key, c.pos(in), "the recovering closure panics again")
				ok = false
			}
		})
		// closes the transport on all paths
		// ... or through a deferred close of its own, registered on every path that registers the recovering
		// closure (deferred calls all run, whatever their order, once the function is left or panics)
		ownDefer := false
		for _, ci := range flow.CallInstrs(loopFn) {
			if d, isD := ci.(*ssa.Defer); isD && d != recDefer && isTransportClose(d) && (flow.Dominates(d, recDefer) || (flow.Dominates(recDefer, d) && d.Block() == recDefer.Block())) {
				ownDefer = true
			}
		}
		if ok && !ownDefer {
			if p := flow.PathAvoiding(recClosure, nil, flow.IsReturn, isTransportClose); p != nil {
				r.Fail("R1", key, c.pos(recDefer), "a path through the recovering closure does not close the transport", c.witness(p)...)
				ok = false
			}
		}
		// recover must run on every path of the closure before close? (recover anywhere in closure is enough to stop the panic
		// only if it is executed): require recover on every path to return
		if ok {
			if p := flow.PathAvoiding(recClosure, nil, flow.IsReturn, func(in ssa.Instruction) bool { return isBuiltinCall(in, "recover") }); p != nil {
				r.Fail("R1", key, c.pos(recDefer), "a path through the deferred closure does not call recover()", c.witness(p)...)
				ok = false
			}
		}
		// dominates every other call
		if ok {
			for _, ci := range flow.CallInstrs(loopFn) {
				if ci == ssa.CallInstruction(recDefer) {
					continue
				}
				if isBuiltinCall(ci, "len") || isBuiltinCall(ci, "cap") {
					continue
				}
				if _, isD := ci.(*ssa.Defer); isD && flow.Dominates(ci, recDefer) {
					continue // a clean-up registered just before: nothing runs at this point
				}
				if !flow.Dominates(recDefer, ci) {
					r.Fail("R1", key, c.pos(ci), fmt.Sprintf("call %s is not dominated by the recovering defer: a panic or early return there leaves the connection open / unprotected", short(flow.Describe(ci), 80)))
					ok = false
					break
				}
			}
		}
		if ok {
			r.Ok("R1", key, c.pos(recDefer), "deferred closure calls recover() and closes the transport on every path, and dominates every other call of the loop function")
		}
	}
	// dispatch in the same function
	nDispatch := 0
	for _, ci := range flow.CallInstrs(loopFn) {
		call, ok := ci.(*ssa.Call)
		if !ok {
			continue
		}
		if isHandlerInvocation(call) {
			nDispatch++
		} else if g := flow.StaticCallee(call); g != nil && c.reachesHandler(g, false, memo) {
			nDispatch++
		} else if g != nil && g.Blocks != nil && c.P.IsLibrary(g) {
			// the dispatch is a closure of this function handed to a loop helper that calls it synchronously
			for i, a := range call.Call.Args {
				mc, ok := a.(*ssa.MakeClosure)
				if !ok || i >= len(g.Params) {
					continue
				}
				fn := mc.Fn.(*ssa.Function)
				if !invokesHandler(fn) && !c.reachesHandler(fn, false, memo) {
					continue
				}
				for _, cj := range flow.CallInstrs(g) {
					if cc, ok := cj.(*ssa.Call); ok && cc.Call.Value == ssa.Value(g.Params[i]) {
						nDispatch++
					}
				}
			}
		}
	}
	r.Check(nDispatch >= 1, "R1", fname(loopFn)+":dispatch-in-loop-function", c.fpos(loopFn),
		"handlers are reached by plain calls from the function that holds the recovering defer",
		"no plain call in the connection loop function reaches a handler invocation: handlers run where this function's recover cannot catch their panics")

	// ---- R2 ----
	nsync := 0
	for _, f := range c.P.ModuleFuncs() {
		for _, ci := range flow.CallInstrs(f) {
			if flow.StaticCallee(ci) != loopFn {
				continue
			}
			if _, isGo := ci.(*ssa.Go); !isGo {
				nsync++
				r.Fail("R2", fname(f)+":sync-call-of-loop", c.pos(ci), "the connection loop is run synchronously: a fault or a blocked handler on this connection stops its caller (accept loop / dialer)")
			} else {
				r.Ok("R2", fname(f)+":go-loop", c.pos(ci), "connection loop started on its own goroutine")
			}
		}
	}

	// ---- R3 ----
	serve := c.P.Method("diam", "Server", "Serve")
	if serve == nil {
		r.Undecided("R3", "role:Server.Serve", "-", "(*Server).Serve not found")
	} else {
		c.c15Accept(serve, loopFn, memo)
	}

	// ---- R4 ----
	readLoopFn, _ := c.connReadLoop(loopFn)
	c.c15Report(readLoopFn)

	// ---- R5: a handler panic must not leave shared state locked / shared buffers double-released ----
	var roots []*ssa.Function
	for _, ci := range flow.CallInstrs(loopFn) {
		if call, ok := ci.(*ssa.Call); ok {
			if g := flow.StaticCallee(call); g != nil && c.reachesHandler(g, false, memo) {
				roots = append(roots, g)
			}
		}
	}
	closure := c.reach(roots, false, true, true)
	nSites := 0
	for _, f := range c.P.LibraryFuncs() {
		if !closure[f] {
			continue
		}
		ops := lockOps(f)
		for _, ci := range flow.CallInstrs(f) {
			if _, isGo := ci.(*ssa.Go); isGo {
				continue
			}
			leads := isHandlerInvocation(ci)
			if g := flow.StaticCallee(ci); g != nil && closure[g] && c.reachesHandler(g, false, memo) {
				leads = true
			}
			if !leads {
				continue
			}
			for _, h := range mayHeldAt(f, ci) {
				nSites++
				key := fmt.Sprintf("%s:%s-released-by-defer@%s", fname(f), h.path, calleeLabel(ci))
				deferred := false
				for _, o := range ops {
					if !o.acquire && o.deferred && o.path == h.path && o.exclusive == h.exclusive && flow.Dominates(o.in, ci) {
						deferred = true
					}
				}
				r.Check(deferred, "R5", key, c.pos(ci), "the lock held across the handler call is released by a deferred unlock (a handler panic unwinds through it)",
					"lock "+h.path+" is held while a handler runs but is released by a plain call: a handler panic (recovered per connection) leaves it locked, and later registrations / dispatches on every other connection block forever")
			}
		}
	}
	if nSites == 0 {
		r.Ok("R5", "DispatchClosure:no-lock-across-handler", "-", "no lock is held across a handler invocation on the dispatch chain")
	}
	// pooled read buffers: one deferred release per acquisition, in the acquiring function
	rp := c.readPath()
	acq, rel := map[*ssa.Function]int{}, map[*ssa.Function]int{}
	relDeferred := true
	var relAt ssa.Instruction
	isGetter := func(g *ssa.Function) bool {
		if g == nil || !c.P.IsLibrary(g) {
			return false
		}
		for _, ci := range flow.CallInstrs(g) {
			if flow.IsCallTo(ci, "sync", "Pool", "Get") {
				return true
			}
		}
		return false
	}
	isPutter := func(g *ssa.Function) bool {
		if g == nil || !c.P.IsLibrary(g) {
			return false
		}
		for _, ci := range flow.CallInstrs(g) {
			if flow.IsCallTo(ci, "sync", "Pool", "Put") {
				return true
			}
		}
		return false
	}
	for f := range rp {
		for _, ci := range flow.CallInstrs(f) {
			g := flow.StaticCallee(ci)
			if isGetter(g) && !isPutter(f) {
				acq[f]++
			}
			if isPutter(g) && !isPutter(f) {
				rel[f]++
				relAt = ci
				if _, isD := ci.(*ssa.Defer); !isD {
					relDeferred = false
				}
			}
		}
	}
	okPool := relDeferred
	for f, n := range rel {
		if acq[f] != n {
			okPool = false
		}
	}
	for f, n := range acq {
		if rel[f] != n {
			okPool = false
		}
	}
	if len(acq) > 0 {
		at := "-"
		if relAt != nil {
			at = c.pos(relAt)
		}
		r.Check(okPool, "R5", "ReadPath:pooled-buffer-released-once", at, "every pooled read buffer is released exactly once, by a defer in the function that acquired it",
			"a pooled read buffer can be released more than once (or outside the acquiring function's defer), e.g. on an error path: two connections then share one buffer and a decode error on one connection corrupts the framing of another")
	}
}

func (c *Ctx) c15Accept(serve, loopFn *ssa.Function, memo map[*ssa.Function]int) {
	r := c.R
	// the accept call and the temporary-error handling: in Serve, or in a helper Serve calls for the next
	// connection (accept-with-retry)
	acceptLoop := serve
	findAccept := func(f *ssa.Function) *ssa.Call {
		for _, ci := range flow.CallInstrs(f) {
			if call, ok := ci.(*ssa.Call); ok && call.Call.IsInvoke() && call.Call.Method.Name() == "Accept" && flow.TypeIs(call.Call.Value.Type(), "net", "Listener") {
				return call
			}
		}
		return nil
	}
	accept := findAccept(serve)
	var helpers []*ssa.Function
	for _, ci := range flow.CallInstrs(serve) {
		if call, ok := ci.(*ssa.Call); ok {
			if g := flow.StaticCallee(call); g != nil && g.Blocks != nil && c.P.IsLibrary(g) && pkgOf(g).Path() == pkgDiam {
				helpers = append(helpers, g)
			}
		}
	}
	if accept == nil {
		for _, g := range helpers {
			if a := findAccept(g); a != nil {
				accept, serve = a, g
			}
		}
	}
	if accept == nil {
		r.Undecided("R3", fname(serve)+":accept", c.fpos(serve), "no net.Listener.Accept call found")
		return
	}
	defer func() {}()
	isAccept := func(in ssa.Instruction) bool { return in == ssa.Instruction(accept) }
	// temporary edge
	nTemp := 0
	for _, b := range serve.Blocks {
		ifi, ok := b.Instrs[len(b.Instrs)-1].(*ssa.If)
		if !ok {
			continue
		}
		if os.Getenv("DVERIF_DEBUG") != "" {
			fmt.Fprintf(os.Stderr, "c15 if %s cond %T %v\n", b, ifi.Cond, ifi.Cond)
		}
		cond, neg := flow.Cond(ifi.Cond, true)
		if phi, isPhi := cond.(*ssa.Phi); isPhi && !neg {
			// a && b evaluated as a value (a case of a tagless switch): true only when its last operand was
			var last ssa.Value
			n := 0
			for _, e := range phi.Edges {
				if k, isK := e.(*ssa.Const); isK && k.Value != nil && k.Value.String() == "false" {
					continue
				}
				last = e
				n++
			}
			if n == 1 {
				cond = last
			}
		}
		call, ok := cond.(*ssa.Call)
		if !ok {
			continue
		}
		isTemp := call.Call.IsInvoke() && call.Call.Method.Name() == "Temporary"
		if h := flow.StaticCallee(call); !isTemp && h != nil && h.Blocks != nil && c.P.IsLibrary(h) {
			// a package-local predicate over the accept error
			for i, a := range call.Call.Args {
				if a == errorResult(accept) && i < len(h.Params) && impliesTemporaryNetError(h, h.Params[i]) {
					isTemp = true
				}
			}
		}
		if !isTemp {
			continue
		}
		nTemp++
		idx := 0
		if neg {
			idx = 1
		}
		first := b.Succs[idx].Instrs[0]
		key := fname(serve) + ":temporary-accept-error"
		target := func(in ssa.Instruction) bool { return flow.IsExit(in) }
		var p []ssa.Instruction
		if target(first) {
			p = []ssa.Instruction{first}
		} else if isAccept(first) {
			p = nil
		} else {
			p = flow.PathAvoiding(serve, first, target, isAccept)
		}
		if p != nil {
			r.Fail("R3", key, c.pos(ifi), "a temporary accept error can make Serve return: the listener stops accepting", c.witness(p)...)
		} else {
			r.Ok("R3", key, c.pos(ifi), "every path from the Temporary() edge returns to Accept without leaving Serve")
		}
	}
	if nTemp == 0 {
		r.Fail("R3", fname(serve)+":temporary-accept-error", c.pos(accept), "Accept errors are not tested with net.Error.Temporary(): a transient accept error stops the server")
	}
	// the temporary test must be able to see the error: listeners of the library hand Accept errors on as they
	// are (a wrapped error no longer is a net.Error for the type assertion in the accept loop)
	for _, f := range c.P.LibraryFuncs() {
		if f.Name() != "Accept" || f.Signature.Recv() == nil || f.Signature.Results().Len() != 2 || !isErrorType(f.Signature.Results().At(1).Type()) || !flow.TypeIs(f.Signature.Results().At(0).Type(), "net", "Conn") {
			continue
		}
		key := fname(f) + ":accept-error-unwrapped"
		bad := ""
		var at ssa.Instruction
		flow.Instrs(f, func(in ssa.Instruction) {
			ret, ok := in.(*ssa.Return)
			if !ok || len(ret.Results) != 2 || bad != "" {
				return
			}
			for _, src := range flow.SpillSources(ret.Results[1]) {
				if flow.IsNilConst(src) {
					continue
				}
				if ex, ok := src.(*ssa.Extract); ok {
					if call, ok := ex.Tuple.(*ssa.Call); ok {
						name := ""
						if call.Call.IsInvoke() {
							name = call.Call.Method.Name()
						} else if o := flow.CalleeObj(call); o != nil {
							name = o.Name()
						}
						if strings.HasPrefix(name, "Accept") {
							continue
						}
					}
				}
				if call, ok := src.(*ssa.Call); ok && (flow.IsCallTo(call, "fmt", "", "Errorf") || flow.IsCallTo(call, "errors", "", "New")) {
					// a freshly made error on a path where the underlying Accept failed hides that error's type
					bad, at = "a library listener replaces / wraps the error of the underlying Accept ("+short(src.String(), 40)+"): Serve's net.Error Temporary() test no longer recognises transient accept errors and stops the server", ret
				}
			}
		})
		if bad != "" {
			// only when the function actually calls an underlying Accept on that path
			callsAccept := false
			for _, ci := range flow.CallInstrs(f) {
				n := ""
				if ci.Common().IsInvoke() {
					n = ci.Common().Method.Name()
				} else if o := flow.CalleeObj(ci); o != nil {
					n = o.Name()
				}
				if strings.HasPrefix(n, "Accept") {
					callsAccept = true
				}
			}
			if !callsAccept {
				bad = ""
			}
		}
		if bad != "" {
			r.Fail("R3", key, c.pos(at), bad)
		} else {
			r.Ok("R3", key, c.fpos(f), "errors of the underlying Accept are returned as they are")
		}
	}
	// constructor failure continues
	ctorFns := append([]*ssa.Function{acceptLoop}, helpers...)
	for _, cf := range ctorFns {
		for _, ci := range flow.CallInstrs(cf) {
			call, ok := ci.(*ssa.Call)
			if !ok {
				continue
			}
			g := flow.StaticCallee(call)
			if g == nil || loopFn.Signature.Recv() == nil || !returnsType(g, loopFn.Signature.Recv().Type()) {
				continue
			}
			key := fname(acceptLoop) + ":constructor-failure"
			eb := errorEdgeBlocks(call)
			bad := false
			for b := range eb {
				for _, in := range b.Instrs {
					// in a start-the-connection helper a return on the failure edge goes back to the accept loop
					if _, isRet := in.(*ssa.Return); isRet && cf != acceptLoop {
						continue
					}
					if flow.IsExit(in) {
						// reached only via error edge; is it reachable without passing accept? it is in the error region => yes unless accept dominates… check path
						bad = true
						r.Fail("R3", key, c.pos(in), "a failed connection constructor makes Serve return")
					}
				}
			}
			if !bad {
				r.Ok("R3", key, c.pos(call), "constructor failure edge contains no exit of the accept loop")
			}
		}
	}
	// no connection I/O on accept goroutine
	rm := c.P.Func("diam", "ReadMessage")
	for _, ci := range flow.CallInstrs(acceptLoop) {
		call, ok := ci.(*ssa.Call)
		if !ok {
			continue
		}
		g := flow.StaticCallee(call)
		if g == nil || !c.P.InModule(pkgOf(g)) {
			if isHandlerInvocation(call) {
				r.Fail("R3", fname(acceptLoop)+":handler-on-accept-goroutine", c.pos(call), "a handler is invoked on the accept goroutine")
			}
			continue
		}
		key := fname(acceptLoop) + ":call-" + g.Name()
		if (rm != nil && (g == rm || c.reachesFunc(g, rm, map[*ssa.Function]bool{}))) || c.reachesHandler(g, false, memo) {
			r.Fail("R3", key, c.pos(call), fmt.Sprintf("the accept loop calls %s synchronously, which reads messages / runs handlers: one connection can block or crash the listener", fname(g)))
		} else if io := c.reachesConnIO(g, map[*ssa.Function]bool{}); io != "" {
			r.Fail("R3", key, c.pos(call), fmt.Sprintf("the accept loop calls %s synchronously, which performs I/O on the accepted connection (%s): one stalled peer keeps the listener from accepting anyone else", fname(g), io))
		} else {
			r.Ok("R3", key, c.pos(call), "call on the accept goroutine neither reads messages nor reaches a handler")
		}
	}
}

func (c *Ctx) c15Report(loopFn *ssa.Function) {
	r := c.R
	rm := c.P.Func("diam", "ReadMessage")
	var read *ssa.Call
	for _, ci := range flow.CallInstrs(loopFn) {
		if call, ok := ci.(*ssa.Call); ok {
			if g := flow.StaticCallee(call); g != nil && (g == rm || c.reachesFunc(g, rm, map[*ssa.Function]bool{})) {
				read = call
			}
		}
	}
	if read == nil {
		r.Undecided("R4", fname(loopFn)+":read", c.fpos(loopFn), "no read call in the connection loop")
		return
	}
	errv := errorResult(read)
	eb := errorEdgeBlocks(read)
	if errv == nil {
		// the read, the close and the report moved into a step helper that answers (message, ok): the loop must
		// leave on ok == false, and the report is the helper's business, on the error edge of its own read
		if inner, ebh := c.boolStepReader(flow.StaticCallee(read)); inner != nil {
			h := flow.StaticCallee(read)
			feb := falseEdgeBlocks(read)
			key := fname(loopFn) + ":exit-on-read-error"
			bad := len(feb) == 0
			if bad {
				r.Fail("R4", key, c.pos(read), "the outcome "+h.Name()+" reports for the per-iteration read is not tested")
			}
			for b := range feb {
				if p := flow.PathAvoiding(loopFn, b.Instrs[0], func(in ssa.Instruction) bool { return in == ssa.Instruction(read) }, nil); p != nil && !bad {
					bad = true
					r.Fail("R4", key, c.pos(b.Instrs[0]), "after a read error the loop reads again from the same connection (undecodable input is not contained)", c.witness(p)...)
				}
			}
			if !bad {
				r.Ok("R4", key, c.pos(read), "no path from the edge on which "+h.Name()+" reported a failed read back to the read")
			}
			ok, at, why := c.reportOffered(h, errorResult(inner), func(b *ssa.BasicBlock) bool { return ebh[b] }, 0)
			if at == nil {
				at = inner
			}
			r.Check(ok, "R4", fname(loopFn)+":error-report", c.pos(at), "ErrorReporter.Error is offered the read error, guarded only by err!=nil, err!=io.EOF, err!=io.ErrUnexpectedEOF and the ErrorReporter interface test", why)
			return
		}
	}
	if errv == nil || len(eb) == 0 {
		r.Fail("R4", fname(loopFn)+":read-error-edge", c.pos(read), "the error result of the per-iteration read is not tested against nil")
		return
	}
	// loop exits on error: no path from error region back to the read
	key := fname(loopFn) + ":exit-on-read-error"
	bad := false
	for b := range eb {
		if p := flow.PathAvoiding(loopFn, b.Instrs[0], func(in ssa.Instruction) bool { return in == ssa.Instruction(read) }, nil); p != nil && !bad {
			// only count when b itself is entered from outside the region (region head)
			bad = true
			r.Fail("R4", key, c.pos(b.Instrs[0]), "after a read error the loop reads again from the same connection (undecodable input is not contained)", c.witness(p)...)
		}
	}
	if !bad {
		r.Ok("R4", key, c.pos(read), "no path from the read-error edge back to the read")
	}
	// several reads of the loop (a first read in front of it, the next one at the end of the body) whose errors
	// are merged and tested in one place: the merged value is the read error
	{
		readErrs := map[ssa.Value]bool{}
		for _, ci := range flow.CallInstrs(loopFn) {
			if call, ok := ci.(*ssa.Call); ok {
				if g := flow.StaticCallee(call); g != nil && (g == rm || c.reachesFunc(g, rm, map[*ssa.Function]bool{})) {
					if e := errorResult(call); e != nil {
						readErrs[e] = true
					}
				}
			}
		}
		for _, ref := range flow.Referrers(errv) {
			ph, isPhi := ref.(*ssa.Phi)
			if !isPhi || len(readErrs) < 2 {
				continue
			}
			all := true
			for _, e := range ph.Edges {
				if !readErrs[e] {
					all = false
				}
			}
			if all {
				errv = ph
				break
			}
		}
	}
	// the report (in the loop function's error region, or in a helper the error is handed to there)
	key = fname(loopFn) + ":error-report"
	ok, at, why := c.reportOffered(loopFn, errv, func(b *ssa.BasicBlock) bool { return eb[b] }, 0)
	if !ok {
		// a loop helper that ends by returning the read error (and only then): the report is its caller's
		// business, on everything that follows the helper's call
		onlyOnError := true
		flow.Instrs(loopFn, func(in ssa.Instruction) {
			ret, isRet := in.(*ssa.Return)
			if !isRet {
				return
			}
			if !eb[ret.Block()] || len(ret.Results) == 0 || ret.Results[len(ret.Results)-1] != errv {
				onlyOnError = false
			}
		})
		if onlyOnError {
			for _, cs := range c.librarySites(loopFn) {
				call, isCall := cs.(*ssa.Call)
				if !isCall {
					continue
				}
				if ev := errorResult(call); ev != nil {
					g := cs.Parent()
					ok2, at2, why2 := c.reportOffered(g, ev, func(b *ssa.BasicBlock) bool {
						return len(b.Instrs) > 0 && (b == call.Block() || flow.Dominates(call, b.Instrs[0]))
					}, 0)
					if ok2 {
						ok, at, why = true, at2, ""
					} else if why2 != "" {
						why = why2
					}
				}
			}
		}
	}
	if at == nil {
		at = read
	}
	r.Check(ok, "R4", key, c.pos(at), "ErrorReporter.Error is offered the read error, guarded only by err!=nil, err!=io.EOF, err!=io.ErrUnexpectedEOF and the ErrorReporter interface test", why)
}

// reportOffered: within the blocks of fn accepted by inRegion, ErrorReporter.Error is called with a report that
// carries errv, under no other conditions than err != nil, err != io.EOF, err != io.ErrUnexpectedEOF and the
// ErrorReporter type test — directly, or in a package-local helper that receives errv there.
func (c *Ctx) reportOffered(fn *ssa.Function, errv ssa.Value, inRegion func(*ssa.BasicBlock) bool, depth int) (bool, ssa.Instruction, string) {
	// conditions under which the value itself was produced are not conditions on the report
	before := map[*ssa.If]bool{}
	if in, ok := errv.(ssa.Instruction); ok {
		for _, g := range flow.Guards(in) {
			before[g.If] = true
		}
	}
	guardsOK := func(in ssa.Instruction) (bool, ssa.Instruction, string) {
		for _, g := range flow.Guards(in) {
			if before[g.If] {
				continue
			}
			cond, neg := flow.Cond(g.If.Cond, g.Taken)
			okGuard := false
			switch x := cond.(type) {
			case *ssa.BinOp:
				other := ssa.Value(nil)
				if x.X == errv {
					other = x.Y
				} else if x.Y == errv {
					other = x.X
				}
				if other != nil {
					if flow.IsNilConst(other) {
						okGuard = (x.Op == token.NEQ) != neg // err != nil holds
					} else if gl := loadedGlobal(other); gl != nil && gl.Pkg != nil && gl.Pkg.Pkg.Path() == "io" && (gl.Name() == "EOF" || gl.Name() == "ErrUnexpectedEOF") {
						okGuard = (x.Op == token.NEQ) != neg
					}
				}
			case *ssa.Extract:
				// ok of a typeassert to ErrorReporter
				if ta, isTA := x.Tuple.(*ssa.TypeAssert); isTA && x.Index == 1 && !neg && flow.TypeIs(ta.AssertedType, pkgDiam, "ErrorReporter") {
					okGuard = true
				}
				// … made in a helper that returns (reporter, ok) straight from that assertion
				if hc, isCall := x.Tuple.(*ssa.Call); isCall && !neg {
					if ta := c.reporterAssertIn(hc, x.Index); ta != nil {
						okGuard = true
					}
				}
			}
			if !okGuard {
				return false, g.If, fmt.Sprintf("the error report is additionally guarded by %s (taken=%v): some undecodable inputs are not reported", short(g.If.Cond.String(), 60), g.Taken)
			}
		}
		return true, nil, ""
	}
	var report *ssa.Call
	for _, b := range fn.Blocks {
		if !inRegion(b) {
			continue
		}
		for _, in := range b.Instrs {
			if call, ok := in.(*ssa.Call); ok && call.Call.IsInvoke() && call.Call.Method.Name() == "Error" && flow.TypeIs(call.Call.Value.Type(), pkgDiam, "ErrorReporter") {
				report = call
			}
		}
	}
	if report != nil {
		if ok, at, why := guardsOK(report); !ok {
			return false, at, why
		}
		// the reporter asked is the handler that serves the connection: the server's Handler or, when that is
		// nil, the default mux — not the bare field (a server without an explicit handler would lose its reports)
		if rv := report.Call.Value; rv != nil {
			src := rv
			if ex, ok := src.(*ssa.Extract); ok {
				src = ex.Tuple
			}
			if hc, isCall := src.(*ssa.Call); isCall {
				if ta := c.reporterAssertIn(hc, 1); ta != nil {
					src = ta
				}
			}
			if ta, ok := src.(*ssa.TypeAssert); ok {
				if !c.handlerWithFallback(ta.X, 0) {
					return false, ta, "the error reporter is looked for on the server's Handler field alone, without the DefaultServeMux fallback used for dispatch: a server or client running with the default mux is never offered the report"
				}
			}
		}
		carries := false
		if len(report.Call.Args) == 1 {
			if alloc, ok := report.Call.Args[0].(*ssa.Alloc); ok {
				for _, ref := range flow.Referrers(alloc) {
					if fa, ok := ref.(*ssa.FieldAddr); ok {
						for _, fr := range flow.Referrers(fa) {
							if st, ok := fr.(*ssa.Store); ok && st.Val == errv {
								carries = true
							}
						}
					}
				}
			}
		}
		if !carries {
			return false, report, "the ErrorReport passed to Error does not carry the read error"
		}
		return true, report, ""
	}
	if depth < 2 {
		for _, b := range fn.Blocks {
			if !inRegion(b) {
				continue
			}
			for _, in := range b.Instrs {
				call, ok := in.(*ssa.Call)
				if !ok {
					continue
				}
				h := flow.StaticCallee(call)
				if h == nil || h.Blocks == nil || !c.P.IsLibrary(h) {
					continue
				}
				for i, a := range call.Call.Args {
					if a != errv || i >= len(h.Params) {
						continue
					}
					if ok, at, why := guardsOK(call); !ok {
						return false, at, why
					}
					if ok, at, why := c.reportOffered(h, h.Params[i], func(*ssa.BasicBlock) bool { return true }, depth+1); ok || at != nil {
						return ok, at, why
					}
				}
			}
		}
	}
	return false, nil, "no ErrorReporter.Error call on the read-error edge: undecodable input is dropped silently"
}

// reporterAssertIn: call is a library helper returning (reporter, ok) where, on every return, ok (result okIdx) and
// the reporter (result 0) are the two results of one comma-ok assertion to ErrorReporter; returns that assertion.
func (c *Ctx) reporterAssertIn(call *ssa.Call, okIdx int) *ssa.TypeAssert {
	h := flow.StaticCallee(call)
	if h == nil || h.Blocks == nil || !c.P.IsLibrary(h) || h.Signature.Results().Len() != 2 || okIdx != 1 {
		return nil
	}
	var ta *ssa.TypeAssert
	for _, b := range h.Blocks {
		ret, ok := b.Instrs[len(b.Instrs)-1].(*ssa.Return)
		if !ok || b == h.Recover {
			continue
		}
		e0, ok0 := ret.Results[0].(*ssa.Extract)
		e1, ok1 := ret.Results[1].(*ssa.Extract)
		if !ok0 || !ok1 || e0.Tuple != e1.Tuple || e0.Index != 0 || e1.Index != 1 {
			return nil
		}
		t, isTA := e0.Tuple.(*ssa.TypeAssert)
		if !isTA || !t.CommaOk || !flow.TypeIs(t.AssertedType, pkgDiam, "ErrorReporter") || (ta != nil && ta != t) {
			return nil
		}
		ta = t
	}
	return ta
}

func loadedGlobal(v ssa.Value) *ssa.Global {
	if u, ok := v.(*ssa.UnOp); ok && u.Op == token.MUL {
		if g, ok := u.X.(*ssa.Global); ok {
			return g
		}
	}
	return nil
}

var _ = types.Identical

// reachesConnIO: g (or a library function it calls) performs blocking I/O on a connection: a TLS handshake, or
// Read / Write on a net.Conn, io.Reader, io.Writer or bufio wrapper. Returns a description ("" if none).
func (c *Ctx) reachesConnIO(g *ssa.Function, seen map[*ssa.Function]bool) string {
	if g == nil || g.Blocks == nil || seen[g] || !c.P.IsLibrary(g) {
		return ""
	}
	seen[g] = true
	for _, ci := range flow.CallInstrs(g) {
		if _, isGo := ci.(*ssa.Go); isGo {
			continue
		}
		com := ci.Common()
		if com.IsInvoke() {
			switch com.Method.Name() {
			case "Read", "Write", "Handshake", "ReadAtLeast", "ReadAny", "ReadStream", "WriteStream":
				t := com.Value.Type()
				if flow.TypeIs(t, "net", "Conn") || flow.TypeIs(t, "io", "Reader") || flow.TypeIs(t, "io", "Writer") || flow.TypeIs(t, pkgDiam, "MultistreamConn") {
					return com.Method.Name() + " on " + t.String()
				}
			}
			continue
		}
		if o := flow.CalleeObj(ci); o != nil && o.Pkg() != nil {
			if o.Pkg().Path() == "crypto/tls" && (o.Name() == "Handshake" || o.Name() == "HandshakeContext") {
				return "tls." + o.Name()
			}
			if o.Pkg().Path() == "io" && (o.Name() == "ReadFull" || o.Name() == "ReadAtLeast" || o.Name() == "Copy") {
				return "io." + o.Name()
			}
		}
		if h := flow.StaticCallee(ci); h != nil {
			if d := c.reachesConnIO(h, seen); d != "" {
				return d
			}
		}
	}
	return ""
}

// handlerWithFallback: v is the effective handler of a server — it can be the package's default mux when the
// Handler field is nil (a merge that includes DefaultServeMux, or the result of a helper computing that).
func (c *Ctx) handlerWithFallback(v ssa.Value, depth int) bool {
	if depth > 4 || v == nil {
		return false
	}
	switch x := v.(type) {
	case *ssa.Phi:
		for _, e := range x.Edges {
			if c.handlerWithFallback(e, depth+1) {
				return true
			}
		}
	case *ssa.MakeInterface:
		return c.handlerWithFallback(x.X, depth+1)
	case *ssa.ChangeInterface:
		return c.handlerWithFallback(x.X, depth+1)
	case *ssa.UnOp:
		if gl := loadedGlobal(x); gl != nil && gl.Name() == "DefaultServeMux" {
			return true
		}
		if al, ok := x.X.(*ssa.Alloc); ok {
			for _, ref := range flow.Referrers(al) {
				if st, ok := ref.(*ssa.Store); ok && st.Addr == ssa.Value(al) && c.handlerWithFallback(st.Val, depth+1) {
					return true
				}
			}
		}
	case *ssa.Call:
		if g := flow.StaticCallee(x); g != nil && g.Blocks != nil && c.P.IsLibrary(g) {
			for _, rv := range flow.ReturnValues(g, 0) {
				if c.handlerWithFallback(rv, depth+1) {
					return true
				}
			}
		}
	case *ssa.Parameter:
		for _, cs := range c.librarySites(x.Parent()) {
			if i := paramIndex(x.Parent(), x); i < len(cs.Common().Args) && c.handlerWithFallback(cs.Common().Args[i], depth+1) {
				return true
			}
		}
	}
	return false
}
