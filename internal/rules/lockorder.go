package rules

import (
	"fmt"
	"go/types"
	"sort"
	"strings"

	"golang.org/x/tools/go/ssa"

	"verif/internal/flow"
)

// Lock-order analysis (C14 R8). Mutexes are abstracted to classes "Type.field" (the struct type owning the
// mutex field; an embedded sync.Mutex is the field "Mutex"). An edge A → B records a place where a lock of
// class B is acquired — directly, or inside a function called by plain calls (bounded depth) — while a lock of
// class A may be held. Two goroutines taking two classes in opposite orders can block each other for ever;
// the check reports every cycle among the classes, with one witness site per edge.

type lockEdge struct {
	from, to string
	at       ssa.Instruction // where `to` is acquired (or the call leading to it) while `from` is held
	fn       *ssa.Function
	via      string
}

// lockClassOf: class of the mutex operated on by a sync lock call ("" if it is not a field of a named struct).
func lockClassOf(ci ssa.CallInstruction) string { return mutexField(ci) }

// acquiredClasses: lock classes f may acquire, itself or through plain static calls.
func (c *Ctx) acquiredClasses(f *ssa.Function, depth int, memo map[*ssa.Function]map[string]bool) map[string]bool {
	if m, ok := memo[f]; ok {
		return m
	}
	out := map[string]bool{}
	memo[f] = out
	if f == nil || f.Blocks == nil || depth > 3 || !c.P.IsLibrary(f) {
		return out
	}
	for _, o := range lockOps(f) {
		if o.acquire && !o.deferred {
			if cl := lockClassOf(o.in); cl != "" {
				out[cl] = true
			}
		}
	}
	for _, ci := range flow.CallInstrs(f) {
		if _, isGo := ci.(*ssa.Go); isGo {
			continue
		}
		if g := flow.StaticCallee(ci); g != nil && g != f {
			for cl := range c.acquiredClasses(g, depth+1, memo) {
				out[cl] = true
			}
		}
	}
	return out
}

func (c *Ctx) lockOrderEdges() []lockEdge {
	memo := map[*ssa.Function]map[string]bool{}
	var edges []lockEdge
	seen := map[string]bool{}
	add := func(e lockEdge) {
		k := e.from + ">" + e.to
		if e.from == "" || e.to == "" || e.from == e.to || seen[k] {
			return
		}
		seen[k] = true
		edges = append(edges, e)
	}
	for _, f := range c.P.LibraryFuncs() {
		ops := lockOps(f)
		hasAcq := false
		for _, o := range ops {
			if o.acquire && !o.deferred && lockClassOf(o.in) != "" {
				hasAcq = true
			}
		}
		if !hasAcq {
			continue
		}
		for _, ci := range flow.CallInstrs(f) {
			if _, isGo := ci.(*ssa.Go); isGo {
				continue
			}
			if _, isDefer := ci.(*ssa.Defer); isDefer {
				continue
			}
			var targets map[string]bool
			via := ""
			isAcq := false
			for _, o := range ops {
				if o.in == ci && o.acquire {
					isAcq = true
					targets = map[string]bool{lockClassOf(ci): true}
				}
			}
			if !isAcq {
				g := flow.StaticCallee(ci)
				if g == nil || g.Blocks == nil || !c.P.IsLibrary(g) {
					continue
				}
				targets = c.acquiredClasses(g, 1, memo)
				via = " through " + g.Name()
			}
			if len(targets) == 0 {
				continue
			}
			for _, h := range mayHeldAt(f, ci) {
				if h.in == ci {
					continue
				}
				from := lockClassOf(h.in)
				for to := range targets {
					add(lockEdge{from: from, to: to, at: ci, fn: f, via: via})
				}
			}
		}
	}
	sort.Slice(edges, func(i, j int) bool {
		if edges[i].from != edges[j].from {
			return edges[i].from < edges[j].from
		}
		return edges[i].to < edges[j].to
	})
	return edges
}

// lockOrder reports the lock-order graph and its cycles under the given rule.
func (c *Ctx) lockOrder(rule string) {
	r := c.R
	edges := c.lockOrderEdges()
	adj := map[string][]lockEdge{}
	for _, e := range edges {
		adj[e.from] = append(adj[e.from], e)
	}
	// reach[a][b]: b reachable from a
	reach := func(a, b string) []lockEdge {
		seen := map[string]bool{}
		var dfs func(x string, path []lockEdge) []lockEdge
		dfs = func(x string, path []lockEdge) []lockEdge {
			if seen[x] {
				return nil
			}
			seen[x] = true
			for _, e := range adj[x] {
				p := append(append([]lockEdge{}, path...), e)
				if e.to == b {
					return p
				}
				if q := dfs(e.to, p); q != nil {
					return q
				}
			}
			return nil
		}
		return dfs(a, nil)
	}
	if len(edges) == 0 {
		r.Trivial(rule, "lock-order:no-nesting", "-", "no lock is acquired while another is held")
		return
	}
	for _, e := range edges {
		key := fmt.Sprintf("lock-order:%s-before-%s", e.from, e.to)
		if back := reach(e.to, e.from); back != nil {
			desc := ""
			for _, b := range back {
				desc += fmt.Sprintf("; %s is taken while %s is held in %s%s (%s)", b.to, b.from, fname(b.fn), b.via, c.pos(b.at))
			}
			r.Fail(rule, key, c.pos(e.at), fmt.Sprintf("lock-order cycle: %s is taken while %s is held in %s%s%s — two goroutines taking them in opposite orders block each other for ever (the connection never terminates, its notification never fires)", e.to, e.from, fname(e.fn), e.via, desc))
		} else {
			r.Ok(rule, key, c.pos(e.at), fmt.Sprintf("%s taken while %s held in %s%s; no path of acquisitions leads back", e.to, e.from, fname(e.fn), e.via))
		}
	}
}

// ---- shared locks held across a transport write (C08 R6) ----

// isWireWrite: the call hands bytes to a transport: Write / WriteStream / Flush on a connection, writer or
// buffered writer.
func isWireWrite(ci ssa.CallInstruction) bool {
	com := ci.Common()
	if com.IsInvoke() {
		switch com.Method.Name() {
		case "Write", "WriteStream":
			t := com.Value.Type()
			return flow.TypeIs(t, "net", "Conn") || flow.TypeIs(t, "io", "Writer") || flow.TypeIs(t, pkgDiam, "MultistreamConn") || flow.TypeIs(t, pkgDiam, "MultistreamWriter")
		}
		return false
	}
	if o := flow.CalleeObj(ci); o != nil && o.Pkg() != nil && o.Pkg().Path() == "bufio" {
		if sig, ok := o.Type().(*types.Signature); ok && flow.RecvTypeName(sig) == "Writer" {
			switch o.Name() {
			case "Write", "Flush", "WriteString", "WriteByte", "ReadFrom":
				return true
			}
		}
	}
	return false
}

// lockWrappers: acq[h] = lock classes h returns holding (it locks and, on some path, does not unlock — neither
// directly nor by a deferred call); rel[h] = classes h unlocks without having locked them.
func (c *Ctx) lockWrappers() (acq, rel map[*ssa.Function][]string) {
	acq, rel = map[*ssa.Function][]string{}, map[*ssa.Function][]string{}
	for _, h := range c.P.LibraryFuncs() {
		ops := lockOps(h)
		if len(ops) == 0 {
			continue
		}
		for _, a := range ops {
			cl := lockClassOf(a.in)
			if cl == "" {
				continue
			}
			if a.acquire && !a.deferred {
				deferredRel := false
				for _, o := range ops {
					if !o.acquire && o.deferred && o.path == a.path {
						deferredRel = true
					}
				}
				isRel := func(in ssa.Instruction) bool {
					for _, o := range ops {
						if !o.acquire && !o.deferred && o.path == a.path && o.in == in {
							return true
						}
					}
					return false
				}
				if !deferredRel && flow.PathAvoiding(h, a.in, flow.IsReturn, isRel) != nil {
					acq[h] = append(acq[h], cl)
				}
			}
			if !a.acquire {
				locked := false
				for _, o := range ops {
					if o.acquire && o.path == a.path {
						locked = true
					}
				}
				if !locked {
					rel[h] = append(rel[h], cl)
				}
			}
		}
	}
	return acq, rel
}

// sharedLockAcrossWrite: R6 of C08. A mutex that is not private to one connection, held by some library function
// while it writes to a transport, must not be acquired by the connection loop or by anything on the dispatch
// chain: a peer that stops reading blocks that write, the write holds the mutex, and the dispatch of the other
// connections' messages waits for it. perConnCtor tells whether a function is a constructor of the connection
// object (the types it allocates are per-connection).
func (c *Ctx) sharedLockAcrossWrite(rule string, loopFns []*ssa.Function, closure map[*ssa.Function]bool, perConnCtor func(*ssa.Function) bool) {
	r := c.R
	acq, rel := c.lockWrappers()
	// per-connection owner types
	allocIn := map[string]map[*ssa.Function]bool{}
	var note func(t types.Type, f *ssa.Function, d int)
	note = func(t types.Type, f *ssa.Function, d int) {
		if d > 3 {
			return
		}
		if n, ok := t.(*types.Named); ok {
			if allocIn[n.Obj().Name()] == nil {
				allocIn[n.Obj().Name()] = map[*ssa.Function]bool{}
			}
			allocIn[n.Obj().Name()][f] = true
		}
		if st, ok := t.Underlying().(*types.Struct); ok {
			for i := 0; i < st.NumFields(); i++ {
				if _, isPtr := st.Field(i).Type().(*types.Pointer); !isPtr {
					note(st.Field(i).Type(), f, d+1)
				}
			}
		}
	}
	for _, f := range c.P.LibraryFuncs() {
		flow.Instrs(f, func(in ssa.Instruction) {
			if al, ok := in.(*ssa.Alloc); ok {
				note(al.Type().(*types.Pointer).Elem(), f, 0)
			}
		})
	}
	perConn := func(class string) bool {
		owner := class
		if i := strings.Index(class, "."); i >= 0 {
			owner = class[:i]
		}
		fs := allocIn[owner]
		if len(fs) == 0 {
			return false
		}
		for f := range fs {
			if !perConnCtor(f) {
				return false
			}
		}
		return true
	}
	// classes held at a wire write, with a witness
	type held struct {
		fn *ssa.Function
		at ssa.Instruction
	}
	across := map[string]held{}
	for _, f := range c.P.LibraryFuncs() {
		var writes []ssa.CallInstruction
		for _, ci := range flow.CallInstrs(f) {
			if _, isGo := ci.(*ssa.Go); !isGo && isWireWrite(ci) {
				writes = append(writes, ci)
			}
		}
		if len(writes) == 0 {
			continue
		}
		for _, w := range writes {
			for _, h := range mayHeldAt(f, w) {
				if cl := lockClassOf(h.in); cl != "" {
					if _, seen := across[cl]; !seen {
						across[cl] = held{f, w}
					}
				}
			}
			for _, ci := range flow.CallInstrs(f) {
				if _, isCall := ci.(*ssa.Call); !isCall {
					continue
				}
				g := flow.StaticCallee(ci)
				for _, cl := range acq[g] {
					isRelCall := func(in ssa.Instruction) bool {
						cj, ok := in.(*ssa.Call)
						if !ok {
							return false
						}
						for _, rc := range rel[flow.StaticCallee(cj)] {
							if rc == cl {
								return true
							}
						}
						return false
					}
					if flow.PathAvoiding(f, ci, func(in ssa.Instruction) bool { return in == ssa.Instruction(w) }, isRelCall) != nil {
						if _, seen := across[cl]; !seen {
							across[cl] = held{f, w}
						}
					}
				}
			}
		}
	}
	// classes the loop and the dispatch chain acquire
	memo := map[*ssa.Function]map[string]bool{}
	onDispatch := map[string]*ssa.Function{}
	var fs []*ssa.Function
	fs = append(fs, loopFns...)
	for f := range closure {
		fs = append(fs, f)
	}
	sort.Slice(fs, func(i, j int) bool { return fname(fs[i]) < fname(fs[j]) })
	for _, f := range fs {
		if f == nil || !c.P.IsLibrary(f) {
			continue
		}
		for cl := range c.acquiredClasses(f, 0, memo) {
			if _, seen := onDispatch[cl]; !seen {
				onDispatch[cl] = f
			}
		}
	}
	var classes []string
	for cl := range across {
		classes = append(classes, cl)
	}
	sort.Strings(classes)
	n := 0
	for _, cl := range classes {
		if perConn(cl) {
			continue
		}
		n++
		key := "shared-lock-across-write:" + cl
		if f, ok := onDispatch[cl]; ok {
			h := across[cl]
			r.Fail(rule, key, c.pos(h.at), fmt.Sprintf("%s is held while %s writes to a transport (%s) and is also taken on the way to the handlers (%s): a peer that stops reading blocks that write, and with it the dispatch of messages arriving on every other connection", cl, fname(h.fn), short(flow.Describe(h.at), 50), fname(f)))
		} else {
			r.Ok(rule, key, c.pos(across[cl].at), cl+" is held across a transport write but is not taken by the connection loop or the dispatch chain")
		}
	}
	if n == 0 {
		r.Ok(rule, "shared-lock-across-write:none", "-", fmt.Sprintf("no mutex shared between connections is held across a transport write (%d classes examined, the per-connection ones set aside)", len(classes)))
	}
}
